(* ExpireProofs.v — C19: TTL expiry (Transaction.Expire, Model/Txn.v
   `txn_expire`) deletes exactly the expired documents and nothing else.

   The matcher is the concrete query model `Match` (Model/Match.v); nothing
   here depends on the update / extract semantics (Expire never calls them).

     1. ttl_query_exact        the {$or: [{f: {$lt: date}} ...]} query
     2. expire_removes_exactly one namespace: Collection.Delete with that query
     3. expire_logs_deletes    one namespace: the events `t_delete` appends
     4. txn_expire_exact       the whole catalog, by induction over expire_loop
        non_ttl_untouched, expire_noop_unchanged, expire_error_unchanged
     5. expire_zero_seconds    expireAfterSeconds 0                         *)
From Coq Require Import List ZArith Lia ZifyBool ZifyNat ZifyN Bool String.
From Lungo.Model Require Import Txn Match Driver.
From Lungo.Proofs Require Import OrderLaws CompareOrder MatchLaws SortProofs
     EntryLemmas IndexInv CollLists CollInv OplogProofs.
Import ListNotations.
Open Scope Z_scope.
Local Open Scope list_scope.

(* ================================================================== *)
(* 1. The expiry query                                                 *)

(* one TTL condition: (field, cut-off date in ms) stands for
   {field: {$lt: Date(cutoff)}} *)
Definition ttl_cond (fc : string * Z) : doc :=
  [(fst fc, VDoc [("$lt", VDate (snd fc))])].

Definition old_date (t : Z) (c : value) : bool :=
  match c with VDate u => u <? t | _ => false end.

Lemma old_date_iff t c : old_date t c = true <-> exists u, c = VDate u /\ u < t.
Proof.
  split.
  - destruct c; simpl; try discriminate. intro H. exists ms. split; [reflexivity|lia].
  - intros [u [-> H]]. simpl. lia.
Qed.

(* the condition holds for d: one of the candidates of the field (the value
   at the path, or an element of it when it is an array) is an older date *)
Definition cond_hits (d : doc) (fc : string * Z) : bool :=
  existsb (old_date (snd fc)) (candidates d (fst fc)).

Lemma cond_hits_iff d fc :
  cond_hits d fc = true <->
  exists c, In c (candidates d (fst fc)) /\ exists u, c = VDate u /\ u < snd fc.
Proof.
  unfold cond_hits. rewrite existsb_exists. split.
  - intros [c [Hin Hc]]. exists c. split; [exact Hin|]. apply old_date_iff. exact Hc.
  - intros [c [Hin Hc]]. exists c. split; [exact Hin|]. apply old_date_iff. exact Hc.
Qed.

Lemma ttl_cond_match d fc :
  is_op (fst fc) = false -> Match d (ttl_cond fc) = Ok (cond_hits d fc).
Proof.
  intro Hf. unfold ttl_cond.
  destruct (comparison_never_errs d (fst fc) "$lt" (VDate (snd fc)) Hf) as [b Hb]; [simpl; auto|].
  rewrite Hb. f_equal. apply eq_true_iff_eq.
  rewrite cond_hits_iff, <- (lt_date_brackets d (fst fc) (snd fc) Hf), Hb.
  split; [intros ->; reflexivity|intro H; injection H; auto].
Qed.

Lemma existsb_id_map {A} (f : A -> bool) l : existsb (fun b => b) (map f l) = existsb f l.
Proof. induction l as [|a l IH]; simpl; [reflexivity|]. rewrite IH. reflexivity. Qed.

(* the query never errs and is the plain disjunction of the conditions *)
Theorem ttl_query_bool d (l : list (string * Z)) :
  l <> [] -> Forall (fun fc => is_op (fst fc) = false) l ->
  Match d [("$or", VArr (map (fun fc => VDoc (ttl_cond fc)) l))] = Ok (existsb (cond_hits d) l).
Proof.
  intros Hne Hok.
  rewrite <- (map_map ttl_cond VDoc), <- (existsb_id_map (cond_hits d) l).
  apply or_is_disj_bool.
  - destruct l; [congruence|discriminate].
  - rewrite !map_map. apply map_ext_in. intros fc Hin.
    apply ttl_cond_match. rewrite Forall_forall in Hok. exact (Hok fc Hin).
Qed.

(* C19, the query: it matches iff some condition's field holds — directly or
   as an array element — a DATE older than that condition's cut-off.
   Numbers, strings, null, timestamps and missing fields never match (type
   bracketing), and the query never errs. *)
Theorem ttl_query_exact d (l : list (string * Z)) :
  l <> [] -> Forall (fun fc => is_op (fst fc) = false) l ->
  exists b, Match d [("$or", VArr (map (fun fc => VDoc (ttl_cond fc)) l))] = Ok b /\
    (b = true <->
     exists f t, In (f, t) l /\
       exists c, In c (candidates d f) /\ exists u, c = VDate u /\ u < t).
Proof.
  intros Hne Hok. exists (existsb (cond_hits d) l). split; [apply ttl_query_bool; assumption|].
  rewrite existsb_exists. split.
  - intros [[f t] [Hin Hc]]. exists f, t. split; [exact Hin|].
    apply (cond_hits_iff d (f, t)). exact Hc.
  - intros [f [t [Hin Hc]]]. exists (f, t). split; [exact Hin|].
    apply (cond_hits_iff d (f, t)). exact Hc.
Qed.

(* a document none of whose candidates is a date is never selected *)
Corollary ttl_query_only_dates d (l : list (string * Z)) :
  l <> [] -> Forall (fun fc => is_op (fst fc) = false) l ->
  (forall f t, In (f, t) l -> forall c, In c (candidates d f) -> forall u, c <> VDate u) ->
  Match d [("$or", VArr (map (fun fc => VDoc (ttl_cond fc)) l))] = Ok false.
Proof.
  intros Hne Hok Hno. destruct (ttl_query_exact d l Hne Hok) as [b [Hb Hiff]].
  rewrite Hb. destruct b; [|reflexivity]. exfalso.
  destruct (proj1 Hiff eq_refl) as [f [t [Hin [c [Hc [u [Hu _]]]]]]].
  exact (Hno f t Hin c Hc u Hu).
Qed.

(* ================================================================== *)
(* 2. The conditions Expire builds from the indexes of a namespace     *)

Definition ttl_spec (now_ms : Z) (ix : index) : option (string * Z) :=
  let cf := ix_config ix in
  if 0 <? cf_expiry cf then
    match cf_key cf with
    | (field, _) :: _ => Some (field, now_ms - cf_expiry cf / 1000000)
    | [] => None
    end
  else None.

Lemma ttl_condition_spec now ix :
  ttl_condition now ix = option_map (fun fc => VDoc (ttl_cond fc)) (ttl_spec now ix).
Proof.
  unfold ttl_condition, ttl_spec. destruct (0 <? cf_expiry (ix_config ix)); [|reflexivity].
  destruct (cf_key (ix_config ix)) as [|[f v] rest]; reflexivity.
Qed.

Definition ttl_specs (now_ms : Z) (n : coll) : list (string * Z) :=
  opt_list (map (fun ni : string * index => ttl_spec now_ms (snd ni)) (c_indexes n)).

(* the list expire_loop computes *)
Definition expire_conds (now_ms : Z) (n : coll) : list value :=
  opt_list (map (fun ni : string * index => ttl_condition now_ms (snd ni)) (c_indexes n)).

Definition expire_query (now_ms : Z) (n : coll) : doc := [("$or", VArr (expire_conds now_ms n))].

Lemma expire_conds_specs now n :
  expire_conds now n = map (fun fc => VDoc (ttl_cond fc)) (ttl_specs now n).
Proof.
  unfold expire_conds, ttl_specs. induction (c_indexes n) as [|[nm ix] t IH]; [reflexivity|].
  simpl. rewrite ttl_condition_spec. destruct (ttl_spec now ix); simpl; rewrite IH; reflexivity.
Qed.

(* n has a TTL index on field f with expiry e (nanoseconds) *)
Definition ttl_index (n : coll) (f : string) (e : Z) : Prop :=
  exists name ix v rest, In (name, ix) (c_indexes n) /\
    cf_key (ix_config ix) = (f, v) :: rest /\ cf_expiry (ix_config ix) = e /\ 0 < e.

Definition has_ttl (n : coll) : Prop := exists f e, ttl_index n f e.

(* the field of a TTL index is a field path, not an operator name (holds under
   the collection invariant: coll_inv_ttl_fields_ok below) *)
Definition ttl_fields_ok (n : coll) : Prop := forall f e, ttl_index n f e -> is_op f = false.

Lemma in_opt_list {A} (l : list (option A)) x : In x (opt_list l) <-> In (Some x) l.
Proof.
  induction l as [|[a|] l IH]; simpl.
  - tauto.
  - rewrite IH. split; intros [H|H]; auto; left; congruence.
  - rewrite IH. split; [auto|]. intros [H|H]; [discriminate|auto].
Qed.

Lemma in_ttl_specs now n f t :
  In (f, t) (ttl_specs now n) <-> exists e, ttl_index n f e /\ t = now - e / 1000000.
Proof.
  unfold ttl_specs. rewrite in_opt_list, in_map_iff. split.
  - intros [[nm ix] [Hs Hin]]. simpl in Hs. unfold ttl_spec in Hs.
    destruct (0 <? cf_expiry (ix_config ix)) eqn:He; [|discriminate].
    destruct (cf_key (ix_config ix)) as [|[f0 v] rest] eqn:Hk; [discriminate|].
    injection Hs as -> <-. exists (cf_expiry (ix_config ix)). split; [|reflexivity].
    exists nm, ix, v, rest. repeat split; auto. lia.
  - intros [e [[nm [ix [v [rest [Hin [Hk [He Hpos]]]]]]] ->]]. exists (nm, ix). split; [|exact Hin].
    simpl. unfold ttl_spec. rewrite Hk, He. replace (0 <? e) with true by lia. reflexivity.
Qed.

Lemma has_ttl_specs now n : has_ttl n <-> ttl_specs now n <> [].
Proof.
  split.
  - intros [f [e H]] Hnil.
    assert (Hin : In (f, now - e / 1000000) (ttl_specs now n)) by (apply in_ttl_specs; eauto).
    rewrite Hnil in Hin. exact Hin.
  - intro Hne. destruct (ttl_specs now n) as [|[f t] l] eqn:E; [congruence|].
    assert (Hin : In (f, t) (ttl_specs now n)) by (rewrite E; left; reflexivity).
    apply in_ttl_specs in Hin. destruct Hin as [e [Hi _]]. exists f, e. exact Hi.
Qed.

Lemma has_ttl_conds now n : has_ttl n <-> expire_conds now n <> [].
Proof.
  rewrite (has_ttl_specs now), expire_conds_specs. split.
  - intros H Hn. apply map_eq_nil in Hn. auto.
  - intros H Hn. rewrite Hn in H. auto.
Qed.

Lemma ttl_fields_ok_specs now n :
  ttl_fields_ok n -> Forall (fun fc => is_op (fst fc) = false) (ttl_specs now n).
Proof.
  intro Hok. apply Forall_forall. intros [f t] Hin. apply in_ttl_specs in Hin.
  destruct Hin as [e [Hi _]]. exact (Hok f e Hi).
Qed.

(* under the collection invariant a TTL index has exactly one key field
   (mongokit.CreateIndex: "invalid expiring compound index") *)
Lemma ttl_index_single_field n f e :
  coll_inv Match n -> ttl_index n f e ->
  exists name ix v, In (name, ix) (c_indexes n) /\ cf_key (ix_config ix) = [(f, v)] /\
                    cf_expiry (ix_config ix) = e.
Proof.
  intros [_ [_ Hall]] [nm [ix [v [rest [Hin [Hk [He Hpos]]]]]]].
  rewrite Forall_forall in Hall. destruct (Hall _ Hin) as [_ [_ Hwf]]. simpl in Hwf.
  exists nm, ix, v. split; [exact Hin|]. split; [|exact He].
  unfold ix_wf, new_index in Hwf. rewrite Hk in Hwf. rewrite Hk.
  destruct (columns ((f, v) :: rest)) as [cols| | | |]; try discriminate. cbn [bind] in Hwf.
  destruct (existsb (fun col => dollar_segment (fst col)) cols); [discriminate|].
  destruct rest as [|kv2 rest2]; [reflexivity|]. exfalso.
  replace (0 <? cf_expiry (ix_config ix)) with true in Hwf by lia.
  replace (1 <? len ((f, v) :: kv2 :: rest2)) with true in Hwf; [discriminate|].
  symmetry. apply Z.ltb_lt. unfold len. simpl Datatypes.length. lia.
Qed.

(* mongokit.CreateIndex rejects a key path with a segment that starts with
   `$` (as MongoDB does), so under the collection invariant the field of a
   TTL index is never an operator name: the conditions Expire builds are
   field conditions *)
Fixpoint ends_dollar (s : string) : bool :=
  match s with
  | EmptyString => false
  | String c EmptyString => Ascii.eqb c "$"%char
  | String _ t => ends_dollar t
  end.

Definition starts_dollar (s : string) : bool :=
  match s with String "$" _ => true | _ => false end.

Lemma rev_app_starts_dollar cur : forall acc,
  ends_dollar cur = true -> starts_dollar (string_rev_app cur acc) = true.
Proof.
  induction cur as [|c t IH]; intros acc H; [discriminate|].
  cbn [string_rev_app]. destruct t as [|c2 t2].
  - cbn [ends_dollar] in H. apply Ascii.eqb_eq in H. subst c. reflexivity.
  - apply IH. exact H.
Qed.

Lemma split_go_head_dollar s : forall cur,
  ends_dollar cur = true ->
  exists seg rest, split_go s cur = seg :: rest /\ starts_dollar seg = true.
Proof.
  induction s as [|c t IH]; intros cur H; cbn [split_go].
  - exists (string_rev cur), []. split; [reflexivity|]. apply rev_app_starts_dollar. exact H.
  - destruct (Ascii.eqb c "."%char).
    + exists (string_rev cur), (split_go t EmptyString). split; [reflexivity|].
      apply rev_app_starts_dollar. exact H.
    + apply IH. destruct cur; [discriminate|exact H].
Qed.

Lemma is_op_dollar_segment f : is_op f = true -> dollar_segment f = true.
Proof.
  destruct f as [|c t]; [discriminate|]. cbn [is_op]. intro H. apply Ascii.eqb_eq in H. subst c.
  unfold dollar_segment, split_path. cbn [split_go Ascii.eqb Bool.eqb].
  destruct (split_go_head_dollar t (String "$" EmptyString) eq_refl) as [seg [rest [E Hs]]].
  rewrite E. cbn [existsb]. fold (starts_dollar seg). rewrite Hs. reflexivity.
Qed.

Theorem coll_inv_ttl_fields_ok n : coll_inv Match n -> ttl_fields_ok n.
Proof.
  intros [_ [_ Hall]] f e [nm [ix [v [rest [Hin [Hk _]]]]]].
  rewrite Forall_forall in Hall. destruct (Hall _ Hin) as [_ [_ Hwf]]. simpl in Hwf.
  unfold ix_wf, new_index in Hwf. rewrite Hk in Hwf.
  cbn [columns] in Hwf. destruct (direction_of v) as [dir|]; [|discriminate].
  destruct ((dir =? 1) || (dir =? -1)); [|discriminate].
  destruct (columns rest) as [cols| | | |]; try discriminate. cbn [bind] in Hwf.
  cbn [existsb fst] in Hwf.
  destruct (dollar_segment f) eqn:D; [discriminate|].
  destruct (is_op f) eqn:O; [|reflexivity].
  rewrite (is_op_dollar_segment f O) in D. discriminate.
Qed.

(* ================================================================== *)
(* 3. "expired"                                                        *)

(* C19's rule, stated without reference to the query machinery: the
   namespace has a TTL index on a field f with expiry e (ns) and the document
   holds, at f or as an element of the array at f, a date older than
   now - e (dates have millisecond resolution) *)
Definition expired (now_ms : Z) (n : coll) (d : doc) : Prop :=
  exists f e, ttl_index n f e /\
    exists u, In (VDate u) (candidates d f) /\ u < now_ms - e / 1000000.

Definition expiredb (now_ms : Z) (n : coll) (d : doc) : bool :=
  existsb (cond_hits d) (ttl_specs now_ms n).

Lemma expiredb_iff now n d : expiredb now n d = true <-> expired now n d.
Proof.
  unfold expiredb, expired. rewrite existsb_exists. split.
  - intros [[f t] [Hin Hc]]. apply in_ttl_specs in Hin. destruct Hin as [e [Hi ->]].
    apply cond_hits_iff in Hc. destruct Hc as [c [Hc [u [-> Hu]]]]. simpl in *.
    exists f, e. split; [exact Hi|]. exists u. auto.
  - intros [f [e [Hi [u [Hc Hu]]]]]. exists (f, now - e / 1000000). split.
    + apply in_ttl_specs. eauto.
    + apply cond_hits_iff. exists (VDate u). simpl. split; [exact Hc|]. eauto.
Qed.

Lemma expiredb_false_iff now n d : expiredb now n d = false <-> ~ expired now n d.
Proof. rewrite <- expiredb_iff. destruct (expiredb now n d); split; congruence. Qed.

Lemma no_ttl_not_expired now n d : ~ has_ttl n -> expiredb now n d = false.
Proof.
  intro H. apply expiredb_false_iff. intros [f [e [Hi _]]]. apply H. exists f, e. exact Hi.
Qed.

(* the expiry query decides "expired" on every document, without error *)
Theorem expire_query_decides now n d :
  has_ttl n -> ttl_fields_ok n ->
  Match d (expire_query now n) = Ok (expiredb now n d).
Proof.
  intros Ht Hok. unfold expire_query. rewrite expire_conds_specs.
  apply ttl_query_bool; [apply (has_ttl_specs now); exact Ht | apply ttl_fields_ok_specs; exact Hok].
Qed.

Corollary expire_query_decides_inv now n d :
  coll_inv Match n -> has_ttl n -> Match d (expire_query now n) = Ok (expiredb now n d).
Proof. intros Hinv Ht. apply expire_query_decides; [exact Ht|apply coll_inv_ttl_fields_ok; exact Hinv]. Qed.

Corollary expire_filter_total now n l :
  has_ttl n -> ttl_fields_ok n -> filter_total Match l (expire_query now n).
Proof. intros Ht Hok sd _. rewrite (expire_query_decides now n _ Ht Hok). eauto. Qed.

(* ================================================================== *)
(* 4. One namespace: Collection.Delete with the expiry query           *)

Definition removed (now_ms : Z) (n : coll) : list sdoc :=
  filter (fun sd => expiredb now_ms n (snd sd)) (c_docs n).

Definition remaining (now_ms : Z) (n : coll) : list sdoc :=
  filter (fun sd => negb (expiredb now_ms n (snd sd))) (c_docs n).

Lemma fst_inj_nodup (l : list sdoc) a b :
  NoDup (map fst l) -> In a l -> In b l -> fst a = fst b -> a = b.
Proof.
  induction l as [|x l IH]; simpl; [tauto|]. intro Hnd. inversion Hnd as [|? ? Hni Hnd']; subst.
  intros [->|Ha] [->|Hb] He; auto.
  - exfalso. apply Hni. rewrite He. apply in_map. exact Hb.
  - exfalso. apply Hni. rewrite <- He. apply in_map. exact Ha.
Qed.

Lemma minus_filter (p : sdoc -> bool) (l : list sdoc) :
  NoDup (map fst l) ->
  minus_matched l (filter p l) = filter (fun sd => negb (p sd)) l.
Proof.
  intro Hnd. unfold minus_matched. apply filter_ext_in. intros sd Hin. f_equal.
  apply eq_true_iff_eq. rewrite existsb_exists. split.
  - intros [m [Hm He]]. apply filter_In in Hm. destruct Hm as [Hm Hp].
    apply Z.eqb_eq in He.
    assert (m = sd) by (apply (fst_inj_nodup l); auto). subst. exact Hp.
  - intro Hp. exists sd. split; [apply filter_In; auto|apply Z.eqb_refl].
Qed.

Lemma filter_all_true {A} (p : A -> bool) l : (forall x, In x l -> p x = true) -> filter p l = l.
Proof.
  induction l as [|a l IH]; simpl; intro H; [reflexivity|].
  rewrite (H a (or_introl eq_refl)). f_equal. apply IH. intros x Hx. apply H. right. exact Hx.
Qed.

Lemma filter_nil_all_false {A} (p : A -> bool) l : filter p l = [] -> forall x, In x l -> p x = false.
Proof.
  induction l as [|a l IH]; simpl; [tauto|]. destruct (p a) eqn:E; [discriminate|].
  intros H x [->|Hx]; auto.
Qed.

Lemma removed_nil_remaining now n : removed now n = [] -> remaining now n = c_docs n.
Proof.
  intro H. apply filter_all_true. intros x Hx.
  rewrite (filter_nil_all_false _ _ H x Hx). reflexivity.
Qed.

Lemma find_expired now n :
  has_ttl n -> ttl_fields_ok n ->
  find_list Match (c_docs n) (expire_query now n) None 0 0 = Ok (removed now n).
Proof.
  intros Ht Hok. rewrite find_no_sort by (try apply expire_filter_total; auto; lia).
  rewrite window_0_0. f_equal. apply filter_ext. intro sd. unfold matches.
  rewrite (expire_query_decides now n _ Ht Hok). destruct (expiredb now n (snd sd)); reflexivity.
Qed.

(* what a namespace looks like after the pass *)
Definition expire_ns (now_ms : Z) (n n' : coll) : Prop :=
  c_docs n' = remaining now_ms n /\
  same_shape (c_indexes n) (c_indexes n') /\
  coll_inv Match n' /\
  (removed now_ms n = [] -> n' = n).

Lemma same_shape_refl' ixs : same_shape ixs ixs.
Proof. induction ixs; constructor; auto. split; [reflexivity|apply same_def_refl]. Qed.

Lemma expire_ns_refl now n : coll_inv Match n -> removed now n = [] -> expire_ns now n n.
Proof.
  intros Hinv Hr. split; [symmetry; apply removed_nil_remaining; exact Hr|].
  split; [apply same_shape_refl'|]. split; auto.
Qed.

(* C19, one namespace: Delete with the expiry query succeeds, reports exactly
   the expired documents (in collection order) and leaves exactly the others
   (in collection order); index definitions are kept and the invariant
   (every index holds exactly the remaining documents) is preserved *)
Theorem expire_removes_exactly now n :
  coll_inv Match n -> has_ttl n ->
  exists n', coll_delete Match n (expire_query now n) None 0 0
             = (n', inl (mkResult (removed now n) [] None [])) /\
             expire_ns now n n'.
Proof.
  intros Hinv Ht. pose proof (coll_inv_ttl_fields_ok n Hinv) as Hok. pose proof Hinv as [Hnd _].
  pose proof (find_expired now n Ht Hok) as Hf.
  assert (Hndl : NoDup (c_docs n)) by (eapply NoDup_map_inv; exact Hnd).
  destruct (remove_docs_good Match (docs_of n) (c_indexes n) (removed now n)
              (coll_inv_good Match n Hinv) (coll_inv_ids_unique Match n Hinv)) as [ixs [Hr [G S]]].
  { intros sd Hin. apply filter_In in Hin. destruct Hin as [Hin _]. exact Hin. }
  { apply NoDup_filter. exact Hndl. }
  exists (mkColl (remaining now n) ixs). split.
  - unfold coll_delete. rewrite Hf, Hr. rewrite fold_set_remove.
    change (filter _ (c_docs n)) with (minus_matched (c_docs n) (removed now n)).
    unfold removed. rewrite minus_filter by exact Hnd. reflexivity.
  - split; [reflexivity|]. split; [exact S|]. split.
    + apply (mk_inv Match n _ _ _ Hinv S G).
      * intro x. unfold remaining, removed, docs_of. rewrite !filter_In.
        destruct (expiredb now n (snd x)); simpl; intuition congruence.
      * apply NoDup_map_filter. exact Hnd.
    + intro Hnil. simpl.
      assert (ixs = c_indexes n) as ->.
      { rewrite Hnil in Hr. simpl in Hr. congruence. }
      rewrite (removed_nil_remaining now n Hnil). destruct n; reflexivity.
Qed.

(* the same in membership form: a document survives iff it is not expired *)
Corollary expire_keeps_iff now n n' r :
  coll_inv Match n -> has_ttl n ->
  coll_delete Match n (expire_query now n) None 0 0 = (n', inl r) ->
  (forall sd, In sd (c_docs n') <-> In sd (c_docs n) /\ ~ expired now n (snd sd)) /\
  (forall sd, In sd (r_matched r) <-> In sd (c_docs n) /\ expired now n (snd sd)) /\
  map snd (c_docs n') = map snd (remaining now n) /\
  r_matched r = removed now n.
Proof.
  intros Hinv Ht H.
  destruct (expire_removes_exactly now n Hinv Ht) as [n1 [H1 [Hd _]]].
  rewrite H1 in H. injection H as <- <-. simpl. rewrite Hd.
  split; [|split; [|split; reflexivity]]; intro sd.
  - unfold remaining. rewrite filter_In, negb_true_iff, expiredb_false_iff. reflexivity.
  - unfold removed. rewrite filter_In, expiredb_iff. reflexivity.
Qed.

(* ================================================================== *)
(* 5. One namespace: the events                                        *)

(* one delete event per document, numbered from clock k + 1, with identities
   id, id + 1, ... *)
Fixpoint delete_events (k : Z) (id : did) (h : handle) (l : list sdoc) : list sdoc :=
  match l with
  | [] => []
  | sd :: t => (id, event_doc (k + 1) h "delete" (Some (snd sd)) None)
               :: delete_events (k + 1) (id + 1) h t
  end.

Lemma len_cons {A} (a : A) l : len (a :: l) = 1 + len l.
Proof. unfold len. simpl Datatypes.length. lia. Qed.

Lemma len_app {A} (l m : list A) : len (l ++ m) = len l + len m.
Proof. unfold len. rewrite app_length. lia. Qed.

Lemma len_map {A B} (f : A -> B) l : len (map f l) = len l.
Proof. unfold len. rewrite map_length. reflexivity. Qed.

Lemma len_nonneg {A} (l : list A) : 0 <= len l.
Proof. unfold len. lia. Qed.

Lemma len_zero_nil {A} (l : list A) : len l = 0 -> l = [].
Proof. destruct l; [reflexivity|]. rewrite len_cons. pose proof (len_nonneg l). lia. Qed.

Lemma append_all_delete l : forall w h,
  append_all w h "delete" l None =
  mkW (w_ns w)
      (mkColl (c_docs (w_oplog w) ++ delete_events (w_clock w) (g_did (w_gen w)) h l)
              (c_indexes (w_oplog w)))
      (w_clock w + len l)
      (mkGen (g_did (w_gen w) + len l) (g_oid (w_gen w))).
Proof.
  induction l as [|sd t IH]; intros w h.
  - destruct w as [ns [od oi] k [gd go]]. simpl. rewrite app_nil_r.
    unfold len. simpl. rewrite !Z.add_0_r. reflexivity.
  - cbn [append_all]. unfold append_event. rewrite IH. cbn [w_ns w_oplog w_clock w_gen c_docs c_indexes g_did g_oid].
    rewrite <- app_assoc. rewrite len_cons. cbn [delete_events app].
    f_equal; try lia. f_equal; lia.
Qed.

(* C19, one namespace: the logging delete path run by Expire removes exactly
   the expired documents and appends exactly one delete event per removed
   document, in the order of removal, and nothing else; identities and clock
   advance by the number of removed documents *)
Theorem expire_logs_deletes now w h :
  coll_inv Match (w_ns w) -> has_ttl (w_ns w) ->
  let n := w_ns w in
  let m := len (removed now n) in
  exists n',
    t_delete Match w h (expire_query now n) None 0 0 =
      (mkW n'
           (mkColl (c_docs (w_oplog w) ++ delete_events (w_clock w) (g_did (w_gen w)) h (removed now n))
                   (c_indexes (w_oplog w)))
           (w_clock w + m)
           (mkGen (g_did (w_gen w) + m) (g_oid (w_gen w))),
       inl (mkT (removed now n) [] None None)) /\
    expire_ns now n n'.
Proof.
  intros Hinv Ht n m. destruct (expire_removes_exactly now n Hinv Ht) as [n' [Hd Hns]].
  exists n'. split; [|exact Hns]. unfold t_delete. fold n. rewrite Hd.
  cbn [r_matched]. rewrite append_all_delete. reflexivity.
Qed.

(* the namespace document of an event *)
Definition ns_doc (h : handle) : doc :=
  (if String.eqb (snd h) "" then [] else [("coll", VString (snd h))]) ++ [("db", VString (fst h))].

(* what a delete event says *)
Lemma delete_event_shape k h d :
  let ev := event_doc k h "delete" (Some d) None in
  Get ev "operationType" = VString "delete" /\
  Get ev "documentKey" = VDoc [("_id", Get d "_id")] /\
  Get ev "ns" = VDoc (ns_doc h) /\
  Get ev "clusterTime" = VTs 0 k /\
  Get ev "fullDocument" = VMissing /\
  Get ev "updateDescription" = VMissing.
Proof. repeat split. Qed.

Lemma delete_events_shape l : forall k id h,
  Forall2 (fun (sd ev : sdoc) =>
             Get (snd ev) "operationType" = VString "delete" /\
             Get (snd ev) "documentKey" = VDoc [("_id", Get (snd sd) "_id")] /\
             Get (snd ev) "ns" = VDoc (ns_doc h) /\
             Get (snd ev) "fullDocument" = VMissing)
          l (delete_events k id h l).
Proof.
  induction l as [|sd t IH]; intros k id h; simpl; constructor; [|apply IH].
  simpl. repeat split.
Qed.

(* ================================================================== *)
(* 6. The whole catalog                                                *)

Lemma handle_eqb_eq a b : handle_eqb a b = true <-> a = b.
Proof.
  unfold handle_eqb. rewrite andb_true_iff, !String.eqb_eq. destruct a, b; simpl.
  split; [intros [-> ->]; reflexivity|intro H; injection H; auto].
Qed.

Lemma handle_eqb_neq a b : handle_eqb a b = false <-> a <> b.
Proof. rewrite <- handle_eqb_eq. destruct (handle_eqb a b); split; congruence. Qed.

Lemma ns_get_set_other l k h c : k <> h -> ns_get (ns_set l k c) h = ns_get l h.
Proof.
  intro Hne. induction l as [|[k0 d] t IH]; simpl.
  - apply handle_eqb_neq in Hne. rewrite Hne. reflexivity.
  - destruct (handle_eqb k0 k) eqn:E; simpl.
    + apply handle_eqb_eq in E. subst k0. apply handle_eqb_neq in Hne. rewrite Hne. reflexivity.
    + rewrite IH. reflexivity.
Qed.

Lemma ns_get_in l h n : ns_get l h = Some n -> In (h, n) l.
Proof.
  induction l as [|[k d] t IH]; simpl; [discriminate|].
  destruct (handle_eqb k h) eqn:E.
  - apply handle_eqb_eq in E. subst. intro H. injection H as ->. left. reflexivity.
  - intro H. right. apply IH. exact H.
Qed.

Lemma in_ns_get l h n : NoDup (map fst l) -> In (h, n) l -> ns_get l h = Some n.
Proof.
  induction l as [|[k d] t IH]; simpl; [tauto|]. intro Hnd. inversion Hnd as [|? ? Hni Hnd']; subst.
  intros [H|H].
  - injection H as -> ->. rewrite OplogProofs.handle_eqb_refl. reflexivity.
  - destruct (handle_eqb k h) eqn:E.
    + apply handle_eqb_eq in E. subst. exfalso. apply Hni.
      change h with (fst (h, n)). apply in_map. exact H.
    + apply IH; assumption.
Qed.

Lemma ns_get_none l h : ns_get l h = None -> ~ In h (map fst l).
Proof.
  induction l as [|[k d] t IH]; simpl; [tauto|].
  destruct (handle_eqb k h) eqn:E; [discriminate|].
  intros H [Hk|Hin]; [|exact (IH H Hin)]. apply handle_eqb_neq in E. contradiction.
Qed.

Lemma not_in_ns_get l h : ~ In h (map fst l) -> ns_get l h = None.
Proof.
  induction l as [|[k d] t IH]; simpl; [reflexivity|]. intro H.
  destruct (handle_eqb k h) eqn:E.
  - apply handle_eqb_eq in E. subst. exfalso. apply H. left. reflexivity.
  - apply IH. intro Hin. apply H. right. exact Hin.
Qed.

(* the catalog is a map: one entry per handle *)
Definition cat_wf (c : catalog) : Prop := NoDup (map fst (cat_ns c)).

Lemma new_catalog_wf : cat_wf new_catalog.
Proof. unfold cat_wf. simpl. constructor; [simpl; tauto|constructor]. Qed.

Lemma ns_set_keys_in l h c k :
  In k (map fst (ns_set l h c)) -> k = h \/ In k (map fst l).
Proof.
  induction l as [|[k0 d] t IH]; simpl.
  - intros [H|[]]. left. auto.
  - destruct (handle_eqb k0 h) eqn:E; simpl.
    + apply handle_eqb_eq in E. subst. intros [H|H]; auto.
    + intros [H|H]; auto. destruct (IH H); auto.
Qed.

Lemma ns_set_wf l h c : NoDup (map fst l) -> NoDup (map fst (ns_set l h c)).
Proof.
  induction l as [|[k0 d] t IH]; simpl; intro Hnd.
  - constructor; [simpl; tauto|constructor].
  - inversion Hnd as [|? ? Hni Hnd']; subst.
    destruct (handle_eqb k0 h) eqn:E; simpl.
    + apply handle_eqb_eq in E. subst. constructor; assumption.
    + constructor; [|apply IH; exact Hnd']. intro Hin.
      destruct (ns_set_keys_in _ _ _ _ Hin) as [->|Hin']; [|contradiction].
      rewrite OplogProofs.handle_eqb_refl in E. discriminate.
Qed.

(* every removed document of the pass with its namespace, in the order the
   model visits the namespaces (the Go code ranges over a map: the order of
   the namespaces is unspecified there, the order within a namespace is
   collection order) *)
Definition expired_all (now_ms : Z) (l : list (handle * coll)) : list (handle * sdoc) :=
  flat_map (fun hn : handle * coll => map (fun sd => (fst hn, sd)) (removed now_ms (snd hn))) l.

Fixpoint events_of (k : Z) (id : did) (l : list (handle * sdoc)) : list sdoc :=
  match l with
  | [] => []
  | (h, sd) :: t => (id, event_doc (k + 1) h "delete" (Some (snd sd)) None)
                    :: events_of (k + 1) (id + 1) t
  end.

Lemma events_of_app l1 : forall k id l2,
  events_of k id (l1 ++ l2) = events_of k id l1 ++ events_of (k + len l1) (id + len l1) l2.
Proof.
  induction l1 as [|[h sd] t IH]; intros k id l2.
  - simpl. unfold len. simpl. rewrite !Z.add_0_r. reflexivity.
  - simpl. rewrite IH, len_cons. f_equal. f_equal; f_equal; lia.
Qed.

Lemma events_of_one_ns l : forall k id h,
  events_of k id (map (fun sd => (h, sd)) l) = delete_events k id h l.
Proof. induction l as [|sd t IH]; intros k id h; simpl; [reflexivity|]. rewrite IH. reflexivity. Qed.

Lemma events_of_length l : forall k id, List.length (events_of k id l) = List.length l.
Proof. induction l as [|[h sd] t IH]; intros k id; simpl; [reflexivity|]. rewrite IH. reflexivity. Qed.

(* every event of the pass is a delete event for its document *)
Lemma events_of_shape l : forall k id,
  Forall2 (fun (hs : handle * sdoc) (ev : sdoc) =>
             Get (snd ev) "operationType" = VString "delete" /\
             Get (snd ev) "documentKey" = VDoc [("_id", Get (snd (snd hs)) "_id")] /\
             Get (snd ev) "ns" = VDoc (ns_doc (fst hs)) /\
             Get (snd ev) "fullDocument" = VMissing)
          l (events_of k id l).
Proof.
  induction l as [|[h sd] t IH]; intros k id; simpl; constructor; [|apply IH].
  simpl. repeat split.
Qed.

Lemma oplog_of_close c h w : oplog_of (close_w c h w) = w_oplog w.
Proof. unfold oplog_of, close_w. simpl. rewrite ns_get_set_same. reflexivity. Qed.

Lemma ns_get_close_other c h w k :
  k <> h -> k <> oplog_handle -> ns_get (cat_ns (close_w c h w)) k = ns_get (cat_ns c) k.
Proof.
  intros H1 H2. unfold close_w. simpl.
  rewrite ns_get_set_other by congruence. rewrite ns_get_set_other by congruence. reflexivity.
Qed.

Lemma ns_get_close_same c h w :
  h <> oplog_handle -> ns_get (cat_ns (close_w c h w)) h = Some (w_ns w).
Proof.
  intro H. unfold close_w. simpl. rewrite ns_get_set_other by congruence.
  apply ns_get_set_same.
Qed.

Lemma expire_loop_step_skip cur g h n t now del :
  expire_conds now n = [] ->
  expire_loop Match cur g ((h, n) :: t) now del = expire_loop Match cur g t now del.
Proof. intro E. cbn [expire_loop]. fold (expire_conds now n). rewrite E. reflexivity. Qed.

Lemma expire_loop_step_ttl cur g h n t now del :
  expire_conds now n <> [] ->
  expire_loop Match cur g ((h, n) :: t) now del =
  match t_delete Match (open_w cur g h) h (expire_query now n) None 0 0 with
  | (w, inl tr) => expire_loop Match (close_w cur h w) (w_gen w) t now (del + len (t_matched tr))
  | (_, inr e) => inr e
  end.
Proof.
  intro E. cbn [expire_loop]. fold (expire_conds now n). unfold expire_query.
  destruct (expire_conds now n); [congruence|reflexivity].
Qed.

Lemma expire_loop_spec now : forall l cur g del,
  NoDup (map fst l) ->
  (forall h n, In (h, n) l -> h <> oplog_handle -> ns_get (cat_ns cur) h = Some n) ->
  (forall h n, In (h, n) l -> coll_inv Match n) ->
  (forall n, In (oplog_handle, n) l -> ~ has_ttl n) ->
  exists cur',
    expire_loop Match cur g l now del =
      inl (cur', mkGen (g_did g + len (expired_all now l)) (g_oid g), del + len (expired_all now l)) /\
    cat_clock cur' = cat_clock cur + len (expired_all now l) /\
    c_docs (oplog_of cur') =
      c_docs (oplog_of cur) ++ events_of (cat_clock cur) (g_did g) (expired_all now l) /\
    c_indexes (oplog_of cur') = c_indexes (oplog_of cur) /\
    (forall h n, In (h, n) l -> h <> oplog_handle ->
       exists n', ns_get (cat_ns cur') h = Some n' /\ expire_ns now n n') /\
    (forall h, ~ In h (map fst l) -> h <> oplog_handle ->
       ns_get (cat_ns cur') h = ns_get (cat_ns cur) h).
Proof.
  induction l as [|[h n] t IH]; intros cur g del Hnd Hget Hinv Hop.
  - exists cur. cbn [expire_loop expired_all flat_map]. unfold len at 1 2 3. simpl.
    rewrite !Z.add_0_r, app_nil_r. destruct g. simpl.
    repeat split; auto. intros ? ? [].
  - inversion Hnd as [|? ? Hni Hnd']; subst.
    pose proof (Hinv h n (or_introl eq_refl)) as Hcinv.
    assert (HgetT : forall cur2, (forall k, k <> h -> k <> oplog_handle ->
                       ns_get (cat_ns cur2) k = ns_get (cat_ns cur) k) ->
              forall h2 n2, In (h2, n2) t -> h2 <> oplog_handle -> ns_get (cat_ns cur2) h2 = Some n2).
    { intros cur2 Hsame h2 n2 Hin Hno. rewrite Hsame; auto.
      - apply Hget; auto. right. exact Hin.
      - intros ->. apply Hni. change h with (fst (h, n2)). apply in_map. exact Hin. }
    assert (HinvT : forall h2 n2, In (h2, n2) t -> coll_inv Match n2)
      by (intros; apply (Hinv h2); right; assumption).
    assert (HopT : forall n2, In (oplog_handle, n2) t -> ~ has_ttl n2)
      by (intros; apply Hop; right; assumption).
    assert (Hdec : expire_conds now n = [] \/ expire_conds now n <> [])
      by (destruct (expire_conds now n); [left; reflexivity|right; discriminate]).
    destruct Hdec as [E|E].
    + (* no TTL index: skipped *)
      assert (Hnt : ~ has_ttl n) by (intro Ht; apply (has_ttl_conds now) in Ht; contradiction).
      assert (Hrem : removed now n = []).
      { unfold removed. induction (c_docs n) as [|sd ds IHd]; [reflexivity|]. simpl.
        rewrite (no_ttl_not_expired now n _ Hnt). exact IHd. }
      rewrite (expire_loop_step_skip cur g h n t now del E).
      destruct (IH cur g del Hnd' (HgetT cur (fun _ _ _ => eq_refl)) HinvT HopT)
        as [cur' [Hl [Hc [Ho [Hoi [Hns Hoth]]]]]].
      assert (Hall : expired_all now ((h, n) :: t) = expired_all now t).
      { unfold expired_all. cbn [flat_map snd]. rewrite Hrem. reflexivity. }
      rewrite Hall. exists cur'. repeat split; auto.
      * intros h2 n2 [Heq|Hin] Hno.
        -- injection Heq as <- <-. exists n. split; [|apply expire_ns_refl; assumption].
           rewrite Hoth; auto. apply Hget; auto. left. reflexivity.
        -- apply Hns; assumption.
      * intros k Hk Hno. apply Hoth; auto. intro Hin. apply Hk. right. exact Hin.
    + (* a TTL namespace *)
      assert (Ht : has_ttl n) by (apply (has_ttl_conds now); exact E).
      assert (Hho : h <> oplog_handle).
      { intros ->. exact (Hop n (or_introl eq_refl) Ht). }
      assert (Hopen : open_w cur g h = mkW n (oplog_of cur) (cat_clock cur) g).
      { unfold open_w, ns_or_new. rewrite (Hget h n (or_introl eq_refl) Hho). reflexivity. }
      rewrite (expire_loop_step_ttl cur g h n t now del E), Hopen.
      destruct (expire_logs_deletes now (mkW n (oplog_of cur) (cat_clock cur) g) h Hcinv Ht)
        as [n' [Hd Hns']].
      cbn [w_ns w_oplog w_clock w_gen] in Hd. rewrite Hd. cbn [t_matched w_gen].
      set (m := len (removed now n)) in *.
      set (w' := mkW n' _ _ _) in *.
      destruct (IH (close_w cur h w') (mkGen (g_did g + m) (g_oid g)) (del + m) Hnd'
                  (HgetT _ (fun k H1 H2 => ns_get_close_other cur h w' k H1 H2)) HinvT HopT)
        as [cur' [Hl [Hc [Ho [Hoi [Hns Hoth]]]]]].
      assert (Hall : expired_all now ((h, n) :: t) =
                     map (fun sd => (h, sd)) (removed now n) ++ expired_all now t) by reflexivity.
      assert (Hlen : len (expired_all now ((h, n) :: t)) = m + len (expired_all now t)).
      { rewrite Hall, len_app, len_map. reflexivity. }
      exists cur'. split; [|split; [|split; [|split; [|split]]]].
      * rewrite Hl. cbn [g_did g_oid]. rewrite Hlen, !Z.add_assoc. reflexivity.
      * rewrite Hc. unfold close_w, w'. cbn [cat_clock w_clock]. rewrite Hlen. lia.
      * rewrite Ho, oplog_of_close. unfold w' at 1. cbn [w_oplog c_docs].
        rewrite Hall, events_of_app, events_of_one_ns, len_map, <- app_assoc.
        unfold close_w, w'. cbn [cat_clock w_clock g_did]. reflexivity.
      * rewrite Hoi, oplog_of_close. reflexivity.
      * intros h2 n2 [Heq|Hin] Hno.
        -- injection Heq as <- <-. exists n'. split; [|exact Hns'].
           rewrite Hoth; auto. apply ns_get_close_same. exact Hho.
        -- apply Hns; assumption.
      * intros k Hk Hno. rewrite Hoth; auto.
        -- apply ns_get_close_other; auto. intros ->. apply Hk. left. reflexivity.
        -- intro Hin. apply Hk. right. exact Hin.
Qed.

(* ---------------------------------------------------------------- *)
(* the pass as a whole *)

(* hypotheses on the catalog (invariants of every reachable state) *)
Definition cat_colls_ok (c : catalog) : Prop :=
  forall h n, ns_get (cat_ns c) h = Some n -> coll_inv Match n.
(* local.oplog has no (TTL) index: index creation on local.* is refused *)
Definition oplog_no_ttl (c : catalog) : Prop :=
  forall o, ns_get (cat_ns c) oplog_handle = Some o -> ~ has_ttl o.

(* what a pass started at (c, g) leaves behind *)
Definition expire_post (now_ms : Z) (c : catalog) (g : gen) (c' : catalog) (g' : gen) : Prop :=
  let all := expired_all now_ms (cat_ns c) in
  g' = mkGen (g_did g + len all) (g_oid g) /\
  cat_clock c' = cat_clock c + len all /\
  c_docs (oplog_of c') = c_docs (oplog_of c) ++ events_of (cat_clock c) (g_did g) all /\
  c_indexes (oplog_of c') = c_indexes (oplog_of c) /\
  (forall h n, h <> oplog_handle -> ns_get (cat_ns c) h = Some n ->
     exists n', ns_get (cat_ns c') h = Some n' /\ expire_ns now_ms n n') /\
  (forall h, h <> oplog_handle -> ns_get (cat_ns c) h = None -> ns_get (cat_ns c') h = None).

Lemma expired_all_nil now l h n : expired_all now l = [] -> In (h, n) l -> removed now n = [].
Proof.
  induction l as [|[k d] t IH]; simpl; [tauto|]. intros H Hin.
  apply app_eq_nil in H. destruct H as [H1 H2]. destruct Hin as [Heq|Hin].
  - injection Heq as -> ->. apply map_eq_nil in H1. exact H1.
  - apply IH; assumption.
Qed.

Lemma expired_all_none now l :
  (forall h n, In (h, n) l -> removed now n = []) -> expired_all now l = [].
Proof.
  induction l as [|[k d] t IH]; simpl; intro H; [reflexivity|].
  rewrite (H k d (or_introl eq_refl)). simpl. apply IH. intros h n Hin. apply (H h n). right. exact Hin.
Qed.

Lemma removed_none now n :
  (forall sd, In sd (c_docs n) -> ~ expired now n (snd sd)) -> removed now n = [].
Proof.
  intro H. unfold removed. induction (c_docs n) as [|sd t IH]; [reflexivity|]. simpl.
  replace (expiredb now n (snd sd)) with false.
  - apply IH. intros x Hx. apply H. right. exact Hx.
  - symmetry. apply expiredb_false_iff. apply H. left. reflexivity.
Qed.

Lemma removed_no_ttl now n : ~ has_ttl n -> removed now n = [].
Proof.
  intro H. apply removed_none. intros sd _ [f [e [Hi _]]]. apply H. exists f, e. exact Hi.
Qed.

Lemma expire_loop_catalog now c g :
  cat_wf c -> cat_colls_ok c -> oplog_no_ttl c ->
  exists cur',
    expire_loop Match c g (cat_ns c) now 0 =
      inl (cur', mkGen (g_did g + len (expired_all now (cat_ns c))) (g_oid g),
           0 + len (expired_all now (cat_ns c))) /\
    expire_post now c g cur' (mkGen (g_did g + len (expired_all now (cat_ns c))) (g_oid g)).
Proof.
  intros Hwf Hinv Hop.
  destruct (expire_loop_spec now (cat_ns c) c g 0 Hwf) as [cur' [Hl [Hc [Ho [Hoi [Hns Hoth]]]]]].
  - intros h n Hin _. apply in_ns_get; assumption.
  - intros h n Hin. exact (Hinv h n (in_ns_get _ _ _ Hwf Hin)).
  - intros n Hin. apply Hop. apply in_ns_get; assumption.
  - exists cur'. split; [exact Hl|]. unfold expire_post. cbv zeta.
    split; [reflexivity|]. split; [exact Hc|]. split; [exact Ho|]. split; [exact Hoi|]. split.
    + intros h n Hno Hg. apply Hns; [apply ns_get_in; exact Hg|exact Hno].
    + intros h Hno Hg. rewrite Hoth; [exact Hg| |exact Hno]. apply ns_get_none. exact Hg.
Qed.

(* C19, the whole catalog.  In every state satisfying the invariants the pass
   succeeds, and afterwards
   - every namespace holds exactly its non-expired documents, in their order,
     with the same index definitions and the collection invariant (every
     index holds exactly the remaining documents); a namespace none of whose
     documents is expired — in particular every namespace without TTL index —
     is the identical collection;
   - no namespace appears;
   - the oplog gained exactly one delete event per removed document (see
     events_of_shape), in removal order, and nothing else;
   - the clock and the identity generator advanced by the number of removed
     documents, ObjectID generation is untouched. *)
Theorem txn_expire_exact now c g :
  cat_wf c -> cat_colls_ok c -> oplog_no_ttl c ->
  exists c' g', txn_expire Match c g now = (c', g', inl tt) /\ expire_post now c g c' g'.
Proof.
  intros Hwf Hinv Hop.
  destruct (expire_loop_catalog now c g Hwf Hinv Hop) as [cur' [Hl Hpost]].
  unfold txn_expire. rewrite Hl.
  destruct (0 <? 0 + len (expired_all now (cat_ns c))) eqn:Hd.
  - exists cur', (mkGen (g_did g + len (expired_all now (cat_ns c))) (g_oid g)). split; [reflexivity|exact Hpost].
  - (* nothing was removed: the original catalog is kept *)
    exists c, (mkGen (g_did g + len (expired_all now (cat_ns c))) (g_oid g)). split; [reflexivity|].
    assert (Hnil : expired_all now (cat_ns c) = []).
    { apply len_zero_nil. pose proof (len_nonneg (expired_all now (cat_ns c))). lia. }
    unfold expire_post. cbv zeta. rewrite Hnil. unfold len at 1 2. simpl Datatypes.length. simpl Z.of_nat.
    rewrite !Z.add_0_r, app_nil_r. repeat split; auto.
    intros h n Hno Hg. exists n. split; [exact Hg|]. apply expire_ns_refl; [exact (Hinv h n Hg)|].
    apply (expired_all_nil now (cat_ns c) h n Hnil). apply ns_get_in. exact Hg.
Qed.

(* documents after the pass, in membership form *)
Corollary txn_expire_docs now c g c' g' r :
  cat_wf c -> cat_colls_ok c -> oplog_no_ttl c ->
  txn_expire Match c g now = (c', g', r) ->
  r = inl tt /\
  forall h n, h <> oplog_handle -> ns_get (cat_ns c) h = Some n ->
    exists n', ns_get (cat_ns c') h = Some n' /\
      map snd (c_docs n') = map snd (remaining now n) /\
      forall sd, In sd (c_docs n') <-> In sd (c_docs n) /\ ~ expired now n (snd sd).
Proof.
  intros Hwf Hinv Hop H.
  destruct (txn_expire_exact now c g Hwf Hinv Hop) as [c1 [g1 [H1 Hpost]]].
  rewrite H1 in H. injection H as <- <- <-. split; [reflexivity|].
  intros h n Hno Hg. destruct Hpost as [_ [_ [_ [_ [Hns _]]]]].
  destruct (Hns h n Hno Hg) as [n' [Hg' [Hd _]]]. exists n'. split; [exact Hg'|].
  rewrite Hd. split; [reflexivity|]. intro sd. unfold remaining.
  rewrite filter_In, negb_true_iff, expiredb_false_iff. reflexivity.
Qed.

(* a namespace none of whose documents is expired is untouched: the very same
   collection (documents, index definitions, index entries) *)
Corollary unexpired_ns_untouched now c g c' g' r :
  cat_wf c -> cat_colls_ok c -> oplog_no_ttl c ->
  txn_expire Match c g now = (c', g', r) ->
  forall h n, h <> oplog_handle -> ns_get (cat_ns c) h = Some n ->
    (forall sd, In sd (c_docs n) -> ~ expired now n (snd sd)) ->
    ns_get (cat_ns c') h = Some n.
Proof.
  intros Hwf Hinv Hop H h n Hno Hg Hnone.
  destruct (txn_expire_exact now c g Hwf Hinv Hop) as [c1 [g1 [H1 Hpost]]].
  rewrite H1 in H. injection H as <- <- <-.
  destruct Hpost as [_ [_ [_ [_ [Hns _]]]]].
  destruct (Hns h n Hno Hg) as [n' [Hg' [_ [_ [_ Hsame]]]]].
  rewrite Hg'. f_equal. apply Hsame. apply removed_none. exact Hnone.
Qed.

(* ... in particular every collection without a TTL index *)
Corollary non_ttl_untouched now c g c' g' r :
  cat_wf c -> cat_colls_ok c -> oplog_no_ttl c ->
  txn_expire Match c g now = (c', g', r) ->
  forall h n, h <> oplog_handle -> ns_get (cat_ns c) h = Some n -> ~ has_ttl n ->
    ns_get (cat_ns c') h = Some n.
Proof.
  intros Hwf Hinv Hop H h n Hno Hg Hnt.
  apply (unexpired_ns_untouched now c g c' g' r Hwf Hinv Hop H h n Hno Hg).
  intros sd _ [f [e [Hi _]]]. apply Hnt. exists f, e. exact Hi.
Qed.

(* a pass that removes nothing changes nothing: the catalog (and the
   generators) are returned as they were — the transaction is not dirty *)
Theorem expire_noop_unchanged now c g :
  cat_wf c -> cat_colls_ok c -> oplog_no_ttl c ->
  (forall h n, ns_get (cat_ns c) h = Some n ->
     forall sd, In sd (c_docs n) -> ~ expired now n (snd sd)) ->
  txn_expire Match c g now = (c, g, inl tt).
Proof.
  intros Hwf Hinv Hop Hnone.
  destruct (expire_loop_catalog now c g Hwf Hinv Hop) as [cur' [Hl _]].
  assert (Hnil : expired_all now (cat_ns c) = []).
  { apply expired_all_none. intros h n Hin. apply removed_none.
    apply (Hnone h). apply in_ns_get; assumption. }
  unfold txn_expire. rewrite Hl, Hnil. unfold len. simpl Datatypes.length. simpl Z.of_nat.
  rewrite !Z.add_0_r. destruct g. reflexivity.
Qed.

(* conversely the catalog is replaced only when something was removed, and a
   pass that fails returns catalog and generators as they were (for any
   matcher) *)
Theorem expire_error_unchanged matchf c g now c' g' e :
  txn_expire matchf c g now = (c', g', inr e) -> c' = c /\ g' = g.
Proof.
  unfold txn_expire. destruct (expire_loop matchf c g (cat_ns c) now 0) as [[[c1 g1] d]|e1].
  - destruct (0 <? d); discriminate.
  - intro H. injection H as <- <- _. auto.
Qed.

Theorem expire_changed_removed now c g c' g' r :
  cat_wf c -> cat_colls_ok c -> oplog_no_ttl c ->
  txn_expire Match c g now = (c', g', r) -> c' <> c ->
  exists h n sd, ns_get (cat_ns c) h = Some n /\ In sd (c_docs n) /\ expired now n (snd sd).
Proof.
  intros Hwf Hinv Hop H Hne.
  destruct (expire_loop_catalog now c g Hwf Hinv Hop) as [cur' [Hl _]].
  unfold txn_expire in H. rewrite Hl in H.
  destruct (expired_all now (cat_ns c)) as [|[h sd] rest] eqn:E.
  - unfold len in H. simpl in H. injection H as <- _ _. congruence.
  - assert (Hin : In (h, sd) (expired_all now (cat_ns c))) by (rewrite E; left; reflexivity).
    unfold expired_all in Hin. apply in_flat_map in Hin. destruct Hin as [[h1 n1] [Hin1 Hin2]].
    simpl in Hin2. apply in_map_iff in Hin2. destruct Hin2 as [sd1 [Heq Hr]]. injection Heq as -> ->.
    unfold removed in Hr. apply filter_In in Hr. destruct Hr as [Hd He].
    exists h, n1, sd. split; [apply in_ns_get; assumption|]. split; [exact Hd|].
    apply expiredb_iff. exact He.
Qed.

(* ================================================================== *)
(* 7. expireAfterSeconds                                               *)

(* indexes.go: expireAfterSeconds 0 is stored as 1 ns, so that the index is a
   TTL index at all (Expiry > 0) *)
Lemma expire_zero_seconds : expiry_ns (Some 0) = 1.
Proof. reflexivity. Qed.

(* ... and its cut-off is "now" (1 ns is below the millisecond resolution of
   BSON dates): exactly the dates strictly before the current millisecond
   expire.  [In Go the cut-off is floor((now_ns - 1) / 10^6) ms, which is one
   millisecond earlier when now_ns is a whole number of milliseconds; the
   checks keep every date at least 5 s away from any cut-off.] *)
Lemma expire_zero_cutoff now f v u p cols es :
  ttl_spec now (mkIndex (mkConfig [(f, v)] u p (expiry_ns (Some 0))) cols es) = Some (f, now).
Proof. unfold ttl_spec. cbn. rewrite Z.sub_0_r. reflexivity. Qed.

(* s > 0 seconds: the cut-off is now - 1000 s milliseconds *)
Lemma expire_seconds_cutoff now s f v u p cols es :
  0 < s ->
  ttl_spec now (mkIndex (mkConfig [(f, v)] u p (expiry_ns (Some s))) cols es)
  = Some (f, now - s * 1000).
Proof.
  intro Hs. unfold ttl_spec. cbn [ix_config cf_expiry cf_key].
  assert (E : expiry_ns (Some s) = s * 1000 * 1000000).
  { unfold expiry_ns. destruct s; try lia. }
  rewrite E. replace (0 <? s * 1000 * 1000000) with true by lia.
  rewrite Z.div_mul by lia. reflexivity.
Qed.

(* no expireAfterSeconds: not a TTL index *)
Lemma expire_none_not_ttl now key u p cols es :
  ttl_spec now (mkIndex (mkConfig key u p (expiry_ns None)) cols es) = None.
Proof. reflexivity. Qed.

(* ================================================================== *)
(* 8. deciding the side conditions on concrete catalogs (for examples)  *)

Lemma ttl_fields_ok_check n :
  forallb (fun fc : string * Z => negb (is_op (fst fc))) (ttl_specs 0 n) = true -> ttl_fields_ok n.
Proof.
  intros H f e Hi. rewrite forallb_forall in H.
  assert (Hin : In (f, 0 - e / 1000000) (ttl_specs 0 n)) by (apply in_ttl_specs; eauto).
  specialize (H _ Hin). simpl in H. destruct (is_op f); [discriminate|reflexivity].
Qed.

Lemma no_ttl_check n : ttl_specs 0 n = [] -> ~ has_ttl n.
Proof. intros H Ht. apply (has_ttl_specs 0) in Ht. contradiction. Qed.
