(* KeyPathLaws.v — algebra of dget / dset / ddel (Proofs/KeyPaths.v): what a
   read sees after a write or a removal at the same, a nested, an enclosing or
   an unrelated path; the sub-document relations `sub` and `pruned`. *)
From Coq Require Import List ZArith Lia String Ascii Bool.
From Lungo.Model Require Import Access Project.
From Lungo.Proofs Require Import KeyPaths.
Import ListNotations.
Open Scope string_scope.
Open Scope list_scope.

(* ---------------------------------------------------------------- *)
(* association-list facts *)

Lemma lookup_replace_same d k x x' :
  lookup d k = Some x -> lookup (replace_first d k x') k = Some x'.
Proof.
  induction d as [|[k' y] d IH]; cbn [lookup replace_first]; [discriminate|].
  destruct (String.eqb k' k) eqn:E; intro H.
  - cbn [lookup]. rewrite E. reflexivity.
  - cbn [lookup]. rewrite E. auto.
Qed.

Lemma lookup_replace_other d k k' x' :
  k' <> k -> lookup (replace_first d k x') k' = lookup d k'.
Proof.
  intro Hne. induction d as [|[k0 y] d IH]; cbn [lookup replace_first]; [reflexivity|].
  destruct (String.eqb k0 k) eqn:E.
  - apply String.eqb_eq in E. subst k0. cbn [lookup].
    destruct (String.eqb k k') eqn:E'; [apply String.eqb_eq in E'; congruence|reflexivity].
  - cbn [lookup]. destruct (String.eqb k0 k'); [reflexivity|exact IH].
Qed.

Lemma lookup_app_new_same d k y : lookup d k = None -> lookup (d ++ [(k, y)]) k = Some y.
Proof.
  induction d as [|[k' z] d IH]; cbn [lookup app].
  - intros _. rewrite String.eqb_refl. reflexivity.
  - destruct (String.eqb k' k); [discriminate|exact IH].
Qed.

Lemma lookup_app_new_other d k k' y : k' <> k -> lookup (d ++ [(k, y)]) k' = lookup d k'.
Proof.
  intro Hne. induction d as [|[k0 z] d IH]; cbn [lookup app].
  - destruct (String.eqb k k') eqn:E; [apply String.eqb_eq in E; congruence|reflexivity].
  - destruct (String.eqb k0 k'); [reflexivity|exact IH].
Qed.

Lemma lookup_remove_other d k k' : k' <> k -> lookup (remove_first d k) k' = lookup d k'.
Proof.
  intro Hne. induction d as [|[k0 y] d IH]; cbn [lookup remove_first]; [reflexivity|].
  destruct (String.eqb k0 k) eqn:E.
  - apply String.eqb_eq in E. subst k0.
    destruct (String.eqb k k') eqn:E'; [apply String.eqb_eq in E'; congruence|reflexivity].
  - cbn [lookup]. destruct (String.eqb k0 k'); [reflexivity|exact IH].
Qed.

Lemma lookup_none_not_in d k : lookup d k = None -> ~ In k (map fst d).
Proof.
  induction d as [|[k' y] d IH]; cbn [lookup map fst In]; [tauto|].
  destruct (String.eqb k' k) eqn:E; [discriminate|].
  apply String.eqb_neq in E. intros H [H1|H1]; [congruence|exact (IH H H1)].
Qed.

Lemma not_in_lookup_none d k : ~ In k (map fst d) -> lookup d k = None.
Proof.
  induction d as [|[k' y] d IH]; cbn [lookup map fst In]; [reflexivity|].
  intro H. destruct (String.eqb k' k) eqn:E.
  - apply String.eqb_eq in E. tauto.
  - apply IH. tauto.
Qed.

Lemma lookup_remove_same d k : NoDup (map fst d) -> lookup (remove_first d k) k = None.
Proof.
  induction d as [|[k' y] d IH]; cbn [lookup remove_first map fst]; [reflexivity|].
  intro H. inversion H as [|? ? Hni Hnd]. subst.
  destruct (String.eqb k' k) eqn:E.
  - apply String.eqb_eq in E. subst k'. apply not_in_lookup_none. exact Hni.
  - cbn [lookup]. rewrite E. auto.
Qed.

Lemma replace_same_id d k x : lookup d k = Some x -> replace_first d k x = d.
Proof.
  induction d as [|[k' y] d IH]; cbn [lookup replace_first]; [reflexivity|].
  destruct (String.eqb k' k).
  - intro H. inversion H. reflexivity.
  - intro H. rewrite IH by exact H. reflexivity.
Qed.

Lemma lookup_in d k x : lookup d k = Some x -> In (k, x) d.
Proof.
  induction d as [|[k' y] d IH]; cbn [lookup In]; [discriminate|].
  destruct (String.eqb k' k) eqn:E.
  - apply String.eqb_eq in E. intro H. inversion H. subst. left. reflexivity.
  - intro H. right. auto.
Qed.

Lemma in_lookup_nodup d k x : NoDup (map fst d) -> In (k, x) d -> lookup d k = Some x.
Proof.
  induction d as [|[k' y] d IH]; cbn [lookup In map fst]; [tauto|].
  intros Hnd [H|H].
  - inversion H. subst. rewrite String.eqb_refl. reflexivity.
  - inversion Hnd as [|? ? Hni Hnd']. subst.
    destruct (String.eqb k' k) eqn:E.
    + apply String.eqb_eq in E. subst k'. exfalso. apply Hni.
      change k with (fst (k, x)). apply in_map. exact H.
    + auto.
Qed.

Lemma keys_replace d k x : map fst (replace_first d k x) = map fst d.
Proof.
  induction d as [|[k' y] d IH]; cbn [replace_first map fst]; [reflexivity|].
  destruct (String.eqb k' k); cbn [map fst]; [reflexivity|rewrite IH; reflexivity].
Qed.

(* ---------------------------------------------------------------- *)
(* prefixes *)

Lemma is_prefix_refl p : is_prefix p p = true.
Proof. induction p as [|k p IH]; cbn [is_prefix]; [reflexivity|]. rewrite String.eqb_refl. exact IH. Qed.

Lemma is_prefix_app p q : is_prefix p q = true -> exists s, q = (p ++ s)%list.
Proof.
  revert q. induction p as [|k p IH]; intros q H.
  - exists q. reflexivity.
  - destruct q as [|k' q]; cbn [is_prefix] in H; [discriminate|].
    apply andb_prop in H. destruct H as [E H]. apply String.eqb_eq in E. subst k'.
    destruct (IH q H) as [s Hs]. exists s. rewrite Hs. reflexivity.
Qed.

Lemma is_prefix_app_r p s : is_prefix p (p ++ s) = true.
Proof. induction p as [|k p IH]; cbn [is_prefix app]; [reflexivity|]. rewrite String.eqb_refl. exact IH. Qed.

(* p and q are unrelated: neither runs through the other *)
Definition unrelated (p q : path) : Prop := is_prefix p q = false /\ is_prefix q p = false.

Lemma unrelated_sym p q : unrelated p q -> unrelated q p.
Proof. unfold unrelated. tauto. Qed.

Lemma unrelated_cons_same k p q : unrelated (k :: p) (k :: q) -> unrelated p q.
Proof.
  unfold unrelated. cbn [is_prefix]. rewrite String.eqb_refl. cbn [andb]. tauto.
Qed.

Lemma unrelated_nil_l q : ~ unrelated [] q.
Proof. unfold unrelated. cbn [is_prefix]. intros [H _]. discriminate. Qed.

Lemma unrelated_nil_r p : ~ unrelated p [].
Proof. unfold unrelated. intros [_ H]. cbn [is_prefix] in H. discriminate. Qed.

(* ---------------------------------------------------------------- *)
(* dget *)

Lemma dget_missing p : dget VMissing p = VMissing.
Proof. destruct p; reflexivity. Qed.

Lemma dget_app v p q : dget v (p ++ q) = dget (dget v p) q.
Proof.
  revert v. induction p as [|k p IH]; intro v; [reflexivity|].
  cbn [app dget]. destruct v; try (symmetry; apply dget_missing).
  destruct (lookup d k); [apply IH|symmetry; apply dget_missing].
Qed.

Lemma dget_mk_path p nv : dget (mk_path p nv) p = nv.
Proof.
  induction p as [|k p IH]; [reflexivity|].
  cbn [mk_path dget lookup]. rewrite String.eqb_refl. exact IH.
Qed.

Lemma dget_mk_path_unrelated p q nv : unrelated p q -> dget (mk_path p nv) q = VMissing.
Proof.
  revert q. induction p as [|k p IH]; intros q H.
  - exfalso. exact (unrelated_nil_l q H).
  - destruct q as [|k' q]; [exfalso; exact (unrelated_nil_r _ H)|].
    cbn [mk_path dget lookup]. destruct (String.eqb k k') eqn:E; [|reflexivity].
    apply String.eqb_eq in E. subst k'. apply IH. exact (unrelated_cons_same _ _ _ H).
Qed.

(* ---------------------------------------------------------------- *)
(* dset *)

Lemma dget_dset_same v p nv v' : dset v p nv = Some v' -> dget v' p = nv.
Proof.
  revert v v'. induction p as [|k p IH]; intros v v' H.
  - cbn [dset] in H. inversion H. reflexivity.
  - cbn [dset] in H. destruct v; try discriminate.
    + inversion H. subst. cbn [dget lookup]. rewrite String.eqb_refl. apply dget_mk_path.
    + destruct (lookup d k) as [x|] eqn:El.
      * destruct (dset x p nv) as [x'|] eqn:Ex; [|discriminate].
        inversion H. subst. cbn [dget]. rewrite (lookup_replace_same _ _ _ _ El).
        exact (IH _ _ Ex).
      * inversion H. subst. cbn [dget]. rewrite (lookup_app_new_same _ _ _ El).
        apply dget_mk_path.
Qed.

Lemma dget_dset_unrelated v p nv v' q :
  dset v p nv = Some v' -> unrelated p q -> dget v' q = dget v q.
Proof.
  revert v v' q. induction p as [|k p IH]; intros v v' q H Hu.
  - exfalso. exact (unrelated_nil_l q Hu).
  - destruct q as [|k' q]; [exfalso; exact (unrelated_nil_r _ Hu)|].
    cbn [dset] in H. destruct v; try discriminate.
    + (* VMissing *)
      inversion H. subst. cbn [dget lookup].
      destruct (String.eqb k k') eqn:E; [|reflexivity].
      apply String.eqb_eq in E. subst k'.
      apply dget_mk_path_unrelated. exact (unrelated_cons_same _ _ _ Hu).
    + destruct (String.eqb k k') eqn:E.
      * apply String.eqb_eq in E. subst k'.
        pose proof (unrelated_cons_same _ _ _ Hu) as Hu'.
        destruct (lookup d k) as [x|] eqn:El.
        -- destruct (dset x p nv) as [x'|] eqn:Ex; [|discriminate].
           inversion H. subst. cbn [dget]. rewrite (lookup_replace_same _ _ _ _ El), El.
           exact (IH _ _ _ Ex Hu').
        -- inversion H. subst. cbn [dget]. rewrite (lookup_app_new_same _ _ _ El), El.
           apply dget_mk_path_unrelated. exact Hu'.
      * apply String.eqb_neq in E.
        assert (Hne : k' <> k) by congruence.
        destruct (lookup d k) as [x|] eqn:El.
        -- destruct (dset x p nv) as [x'|]; [|discriminate].
           inversion H. subst. cbn [dget]. rewrite lookup_replace_other by exact Hne. reflexivity.
        -- inversion H. subst. cbn [dget]. rewrite lookup_app_new_other by exact Hne. reflexivity.
Qed.

(* a read below the written path sees the written value *)
Lemma dget_dset_under v p nv v' s : dset v p nv = Some v' -> dget v' (p ++ s) = dget nv s.
Proof. intro H. rewrite dget_app, (dget_dset_same _ _ _ _ H). reflexivity. Qed.

(* writing the value that is already there changes nothing *)
Lemma dset_same_id v p nv : dget v p = nv -> is_missing nv = false -> dset v p nv = Some v.
Proof.
  revert v. induction p as [|k p IH]; intros v H Hnv.
  - cbn [dget] in H. subst. reflexivity.
  - cbn [dget] in H. destruct v; try (subst nv; discriminate).
    cbn [dset]. destruct (lookup d k) as [x|] eqn:El; [|subst nv; discriminate].
    rewrite (IH x H Hnv), (replace_same_id _ _ _ El). reflexivity.
Qed.

(* top-level field names after a write *)
Lemma dset_top_keys d k rest nv d' :
  dset (VDoc d) (k :: rest) nv = Some (VDoc d') ->
  map fst d' = if has_key k d then map fst d else (map fst d ++ [k])%list.
Proof.
  cbn [dset]. destruct (lookup d k) as [x|] eqn:El.
  - destruct (dset x rest nv); [|discriminate]. intro H. inversion H. subst.
    rewrite keys_replace.
    assert (Hk : has_key k d = true).
    { clear - El. induction d as [|[k' y] d IH]; cbn [lookup has_key] in *; [discriminate|].
      destruct (String.eqb k' k); [reflexivity|auto]. }
    rewrite Hk. reflexivity.
  - intro H. inversion H. subst.
    assert (Hk : has_key k d = false).
    { clear - El. induction d as [|[k' y] d IH]; cbn [lookup has_key] in *; [reflexivity|].
      destruct (String.eqb k' k); [discriminate|auto]. }
    rewrite Hk, map_app. reflexivity.
Qed.

(* ---------------------------------------------------------------- *)
(* documents without repeated field names (at every level reached through
   embedded documents) *)

Fixpoint nodupb_list (l : list string) : bool :=
  match l with
  | [] => true
  | x :: t => negb (str_mem x t) && nodupb_list t
  end.

Fixpoint nodup_keys (v : value) : bool :=
  match v with
  | VDoc d =>
      nodupb_list (map fst d) &&
      (fix go (d : list (string * value)) : bool :=
         match d with [] => true | (_, x) :: t => nodup_keys x && go t end) d
  | _ => true
  end.

Lemma str_mem_in k l : str_mem k l = true <-> In k l.
Proof.
  induction l as [|x t IH]; cbn [str_mem In]; [split; [discriminate|tauto]|].
  rewrite orb_true_iff, IH, String.eqb_eq. tauto.
Qed.

Lemma nodupb_list_NoDup l : nodupb_list l = true -> NoDup l.
Proof.
  induction l as [|x t IH]; cbn [nodupb_list]; [constructor|].
  intro H. apply andb_prop in H. destruct H as [H1 H2]. constructor; [|auto].
  intro Hin. apply str_mem_in in Hin. rewrite Hin in H1. discriminate.
Qed.

Lemma nodup_keys_doc d :
  nodup_keys (VDoc d) = true ->
  NoDup (map fst d) /\ forall k x, In (k, x) d -> nodup_keys x = true.
Proof.
  cbn [nodup_keys]. intro H. apply andb_prop in H. destruct H as [H1 H2].
  split; [apply nodupb_list_NoDup; exact H1|].
  clear H1. induction d as [|[k' y] d IH]; cbn [In]; [tauto|].
  apply andb_prop in H2. destruct H2 as [Hy Hd].
  intros k x [H|H]; [inversion H; subst; exact Hy|eauto].
Qed.

Lemma nodup_keys_lookup d k x : nodup_keys (VDoc d) = true -> lookup d k = Some x -> nodup_keys x = true.
Proof. intros H El. eapply (proj2 (nodup_keys_doc d H)). apply lookup_in. exact El. Qed.

Lemma nodupb_list_remove l k :
  nodupb_list l = true ->
  forall d, map fst d = l -> nodupb_list (map fst (remove_first d k)) = true.
Proof.
  intros H d Hd. subst l. induction d as [|[k' y] d IH]; cbn [remove_first map fst]; [reflexivity|].
  cbn [map fst nodupb_list] in H. apply andb_prop in H. destruct H as [H1 H2].
  destruct (String.eqb k' k); [exact H2|].
  cbn [map fst nodupb_list]. rewrite (IH H2), andb_true_r.
  apply negb_true_iff. apply negb_true_iff in H1.
  destruct (str_mem k' (map fst (remove_first d k))) eqn:E; [|reflexivity].
  apply str_mem_in in E. exfalso.
  assert (Hin : In k' (map fst d)).
  { clear - E. induction d as [|[k0 z] d IH]; cbn [remove_first map fst In] in *; [tauto|].
    destruct (String.eqb k0 k); cbn [map fst In] in *; tauto. }
  apply str_mem_in in Hin. congruence.
Qed.

Lemma nodup_keys_remove d k : nodup_keys (VDoc d) = true -> nodup_keys (VDoc (remove_first d k)) = true.
Proof.
  cbn [nodup_keys]. intro H. apply andb_prop in H. destruct H as [H1 H2].
  rewrite (nodupb_list_remove _ k H1 d eq_refl). cbn [andb].
  clear H1. induction d as [|[k' y] d IH]; cbn [remove_first]; [reflexivity|].
  apply andb_prop in H2. destruct H2 as [Hy Hd].
  destruct (String.eqb k' k); [exact Hd|]. rewrite Hy. cbn [andb]. auto.
Qed.

Lemma nodup_keys_replace d k x :
  nodup_keys (VDoc d) = true -> nodup_keys x = true -> nodup_keys (VDoc (replace_first d k x)) = true.
Proof.
  cbn [nodup_keys]. intros H Hx. apply andb_prop in H. destruct H as [H1 H2].
  rewrite keys_replace, H1. cbn [andb].
  clear H1. induction d as [|[k' y] d IH]; cbn [replace_first]; [reflexivity|].
  apply andb_prop in H2. destruct H2 as [Hy Hd].
  destruct (String.eqb k' k).
  - rewrite Hx, Hd. reflexivity.
  - rewrite Hy. cbn [andb]. auto.
Qed.

Lemma nodup_keys_ddel v p : nodup_keys v = true -> nodup_keys (ddel v p) = true.
Proof.
  revert v. induction p as [|k rest IH]; intros v H; [exact H|].
  destruct rest as [|k2 r2].
  - destruct v; try exact H. rewrite ddel_last. apply nodup_keys_remove. exact H.
  - destruct v; try exact H. rewrite ddel_cons2.
    destruct (lookup d k) as [x|] eqn:El; [|exact H].
    apply nodup_keys_replace; [exact H|].
    apply IH. exact (nodup_keys_lookup _ _ _ H El).
Qed.

(* ---------------------------------------------------------------- *)
(* ddel *)

Lemma dget_ddel_unrelated v p q : unrelated p q -> dget (ddel v p) q = dget v q.
Proof.
  revert v q. induction p as [|k rest IH]; intros v q Hu.
  - exfalso. exact (unrelated_nil_l q Hu).
  - destruct q as [|k' q]; [exfalso; exact (unrelated_nil_r _ Hu)|].
    destruct rest as [|k2 r2].
    + (* last segment: k <> k' *)
      destruct v; try reflexivity. rewrite ddel_last. cbn [dget].
      destruct (String.eqb k k') eqn:E.
      * exfalso. apply String.eqb_eq in E. subst k'. destruct Hu as [Hu _].
        cbn [is_prefix] in Hu. rewrite String.eqb_refl in Hu. discriminate.
      * apply String.eqb_neq in E. rewrite lookup_remove_other by congruence. reflexivity.
    + destruct v; try reflexivity. rewrite ddel_cons2.
      destruct (lookup d k) as [x|] eqn:El; [|reflexivity].
      cbn [dget]. destruct (String.eqb k k') eqn:E.
      * apply String.eqb_eq in E. subst k'.
        rewrite (lookup_replace_same _ _ _ _ El), El.
        apply IH. exact (unrelated_cons_same _ _ _ Hu).
      * apply String.eqb_neq in E. rewrite lookup_replace_other by congruence. reflexivity.
Qed.

Lemma dget_ddel_same v p : p <> [] -> nodup_keys v = true -> dget (ddel v p) p = VMissing.
Proof.
  revert v. induction p as [|k rest IH]; intros v Hne H; [congruence|].
  destruct rest as [|k2 r2].
  - destruct v; try (destruct v; reflexivity); try reflexivity.
    rewrite ddel_last. cbn [dget].
    rewrite lookup_remove_same; [reflexivity|]. exact (proj1 (nodup_keys_doc d H)).
  - destruct v; try reflexivity. rewrite ddel_cons2.
    destruct (lookup d k) as [x|] eqn:El.
    + cbn [dget]. rewrite (lookup_replace_same _ _ _ _ El).
      apply IH; [discriminate|]. exact (nodup_keys_lookup _ _ _ H El).
    + cbn [dget]. rewrite El. reflexivity.
Qed.

Lemma dget_ddel_under v p s : p <> [] -> nodup_keys v = true -> dget (ddel v p) (p ++ s) = VMissing.
Proof. intros Hne H. rewrite dget_app, (dget_ddel_same v p Hne H). apply dget_missing. Qed.

(* ---------------------------------------------------------------- *)
(* sub: r is contained in d — every field of r (recursively through embedded
   documents) is a field of d with an equal or containing value *)

Inductive sub : value -> value -> Prop :=
| sub_refl v : sub v v
| sub_doc r d :
    (forall k v, In (k, v) r -> exists v', lookup d k = Some v' /\ sub v v') ->
    sub (VDoc r) (VDoc d).

(* what sub means for reads: a value read from r at a key path is contained
   in the value read from d; when it is not a document it is equal *)
Lemma sub_dget r d p :
  sub r d -> is_missing (dget r p) = false -> sub (dget r p) (dget d p).
Proof.
  revert r d. induction p as [|k p IH]; intros r d Hs Hm; [exact Hs|].
  inversion Hs as [|rf df Hf]; subst; [apply sub_refl|].
  cbn [dget] in *. destruct (lookup rf k) as [x|] eqn:El; [|discriminate].
  destruct (Hf k x (lookup_in _ _ _ El)) as [x' [El' Hx]]. rewrite El'.
  apply IH; [exact Hx|exact Hm].
Qed.

Lemma sub_leaf v w : sub v w -> (forall f, v <> VDoc f) -> v = w.
Proof. intros H Hl. inversion H; subst; [reflexivity|]. exfalso. eapply Hl. reflexivity. Qed.

Lemma sub_mk_path w p nv : dget w p = nv -> is_missing nv = false -> sub (mk_path p nv) w.
Proof.
  revert w. induction p as [|k p IH]; intros w H Hnv.
  - cbn [dget mk_path] in *. subst. apply sub_refl.
  - cbn [dget] in H. destruct w; try (subst nv; discriminate).
    destruct (lookup d k) as [x|] eqn:El; [|subst nv; discriminate].
    cbn [mk_path]. apply sub_doc. intros k0 v0 [Hin|[]]. inversion Hin. subst.
    exists x. split; [exact El|]. apply IH; [reflexivity|exact Hnv].
Qed.

Lemma in_replace_first d k x k0 v0 :
  In (k0, v0) (replace_first d k x) -> In (k0, v0) d \/ (k0 = k /\ v0 = x).
Proof.
  induction d as [|[k' y] d IH]; cbn [replace_first In]; [tauto|].
  destruct (String.eqb k' k) eqn:E.
  - apply String.eqb_eq in E. subst k'. cbn [In]. intros [H|H]; [inversion H; tauto|tauto].
  - cbn [In]. intros [H|H]; [tauto|]. destruct (IH H); tauto.
Qed.

(* storing at p the value that w holds at p keeps containment in w *)
Lemma sub_dset v w p v' :
  sub v w -> is_missing (dget w p) = false -> dset v p (dget w p) = Some v' -> sub v' w.
Proof.
  revert v w v'. induction p as [|k p IH]; intros v w v' Hs Hnv Hd.
  - cbn [dset dget] in *. inversion Hd. subst. apply sub_refl.
  - inversion Hs as [|rf df Hf]; subst.
    + (* v = w: the write changes nothing *)
      rewrite (dset_same_id w (k :: p) _ eq_refl Hnv) in Hd. inversion Hd. apply sub_refl.
    + cbn [dget] in Hnv, Hd. destruct (lookup df k) as [wx|] eqn:Elw; [|discriminate].
      cbn [dset] in Hd. destruct (lookup rf k) as [x|] eqn:El.
      * destruct (dset x p (dget wx p)) as [x'|] eqn:Ex; [|discriminate]. inversion Hd. subst v'.
        apply sub_doc. intros k0 v0 Hin.
        destruct (in_replace_first _ _ _ _ _ Hin) as [Hin'|[Hk Hv]]; [exact (Hf _ _ Hin')|].
        subst k0 v0. exists wx. split; [exact Elw|].
        destruct (Hf k x (lookup_in _ _ _ El)) as [wx' [Elw' Hx]].
        rewrite Elw in Elw'. inversion Elw'. subst wx'.
        exact (IH _ _ _ Hx Hnv Ex).
      * inversion Hd. subst v'. apply sub_doc. intros k0 v0 Hin.
        apply in_app_or in Hin. destruct Hin as [Hin|[Hin|[]]]; [exact (Hf _ _ Hin)|].
        inversion Hin. subst k0 v0. exists wx. split; [exact Elw|].
        apply sub_mk_path; [reflexivity|exact Hnv].
Qed.

(* ---------------------------------------------------------------- *)
(* pruned: r is d with fields deleted (recursively through embedded
   documents); field order is preserved at every level *)

Inductive pruned : value -> value -> Prop :=
| pruned_refl v : pruned v v
| pruned_doc r d : pruned_fields r d -> pruned (VDoc r) (VDoc d)
with pruned_fields : list (string * value) -> list (string * value) -> Prop :=
| pf_nil : pruned_fields [] []
| pf_drop k v r d : pruned_fields r d -> pruned_fields r ((k, v) :: d)
| pf_keep k v v' r d : pruned v v' -> pruned_fields r d -> pruned_fields ((k, v) :: r) ((k, v') :: d).

Lemma pruned_fields_refl d : pruned_fields d d.
Proof. induction d as [|[k v] d IH]; constructor; [apply pruned_refl|exact IH]. Qed.

Lemma pruned_fields_of d r : pruned (VDoc r) (VDoc d) -> pruned_fields r d.
Proof. intro H. inversion H; subst; [apply pruned_fields_refl|assumption]. Qed.

Lemma pruned_fields_remove r d k : pruned_fields r d -> pruned_fields (remove_first r k) d.
Proof.
  induction 1 as [|k0 v0 r d H IH|k0 v0 v0' r d Hv H IH]; cbn [remove_first].
  - constructor.
  - constructor. exact IH.
  - destruct (String.eqb k0 k); [constructor; exact H|constructor; [exact Hv|exact IH]].
Qed.

Lemma pruned_fields_replace r d k xold x :
  lookup r k = Some xold -> (forall w, pruned xold w -> pruned x w) ->
  pruned_fields r d -> pruned_fields (replace_first r k x) d.
Proof.
  intros El Hx H. induction H as [|k0 v0 r d H IH|k0 v0 v0' r d Hv H IH]; cbn [replace_first].
  - constructor.
  - constructor. apply IH. exact El.
  - cbn [lookup] in El. destruct (String.eqb k0 k) eqn:E.
    + inversion El. subst v0. constructor; [apply Hx; exact Hv|exact H].
    + constructor; [exact Hv|]. apply IH. exact El.
Qed.

(* removing a field of a pruned copy gives a pruned copy *)
Lemma pruned_ddel v w p : pruned v w -> pruned (ddel v p) w.
Proof.
  revert v w. induction p as [|k rest IH]; intros v w H; [exact H|].
  destruct rest as [|k2 r2].
  - destruct v; try exact H. rewrite ddel_last.
    inversion H as [|rf df Hf]; subst.
    + apply pruned_doc. apply pruned_fields_remove. apply pruned_fields_refl.
    + apply pruned_doc. apply pruned_fields_remove. exact Hf.
  - destruct v; try exact H. rewrite ddel_cons2.
    destruct (lookup d k) as [x|] eqn:El; [|exact H].
    assert (Hf : exists df, w = VDoc df /\ pruned_fields d df).
    { inversion H; subst; eexists; split; try reflexivity; [apply pruned_fields_refl|assumption]. }
    destruct Hf as [df [Hw Hf]]. subst w.
    apply pruned_doc. apply (pruned_fields_replace d df k x); [exact El| |exact Hf].
    intros w0 Hp. apply IH. exact Hp.
Qed.
