(* NoPanicColl.v — C20 for the collection layer (mongokit.Collection), the
   transaction layer (Transaction methods) and the driver step function, for
   ANY operator semantics that itself never panics / never runs out of fuel:
   no operation reports EPanic or EFuel, in any state, for any arguments. *)
From Coq Require Import List ZArith Lia Bool String.
From Lungo.Model Require Import Driver.
From Lungo.Proofs Require Import NoPanicBase NoPanicOps.
Import ListNotations.
Open Scope Z_scope.

Definition ek_ok (e : ekind) : Prop :=
  match e with EPanic | EFuel => False | _ => True end.

Definition oek_ok (o : option ekind) : Prop :=
  match o with Some e => ek_ok e | None => True end.

Definition sum_ok {A} (r : A + ekind) : Prop :=
  match r with inr e => ek_ok e | inl _ => True end.

(* a Transaction result: the error of the call and Result.Error of the items *)
Definition tr_ok (r : tresult + ekind) : Prop :=
  match r with inl tr => oek_ok (t_error tr) | inr e => ek_ok e end.

Lemma ekind_of_res_ok {A} (r : res A) : safe r -> ek_ok (ekind_of_res r).
Proof. destruct r; cbn; tauto. Qed.

Lemma ek_ok_iff e : ek_ok e <-> e <> EPanic /\ e <> EFuel.
Proof. destruct e; cbn; split; intro H; try tauto; try (split; discriminate); destruct H; congruence. Qed.

Lemma list_case {A T} (P : T -> Prop) (l : list A) (a b : T) :
  P a -> P b -> P (match l with [] => a | _ :: _ => b end).
Proof. destruct l; auto. Qed.

Ltac fin := cbn [snd fst fail failr sum_ok tr_ok ek_ok oek_ok ekind_of_res safe t_error]; try tauto.

Section Layers.
  Variable matchf : doc -> doc -> res bool.
  Variable applyf : doc -> doc -> doc -> bool -> list doc -> Z -> res (doc * list (string * value)).
  Variable extractf : doc -> res doc.

  Hypothesis matchf_safe : forall d q, safe (matchf d q).
  Hypothesis applyf_safe : forall d q u up afs now, safe (applyf d q u up afs now).
  Hypothesis extractf_safe : forall q, safe (extractf q).

  (* ---------------------------------------------------------------- *)
  (* indexes *)

  Lemma covered_safe ix d : safe (covered matchf ix d).
  Proof. unfold covered. destruct (cf_partial (ix_config ix)); [apply matchf_safe|exact I]. Qed.

  Lemma index_add_ok ix sd : sum_ok (index_add matchf ix sd).
  Proof.
    unfold index_add. pose proof (covered_safe ix (snd sd)) as H.
    destruct (covered matchf ix (snd sd)) as [[|]| | | |]; cbn; tauto.
  Qed.

  Lemma index_remove_ok ix sd : sum_ok (index_remove matchf ix sd).
  Proof.
    unfold index_remove. pose proof (covered_safe ix (snd sd)) as H.
    destruct (covered matchf ix (snd sd)) as [[|]| | | |]; cbn; tauto.
  Qed.

  Lemma add_all_ok ixs sd : oek_ok (snd (add_all matchf ixs sd)).
  Proof.
    induction ixs as [|[n ix] t IH]; cbn [add_all]; [exact I|].
    pose proof (index_add_ok ix sd) as H.
    destruct (index_add matchf ix sd) as [[[|] ix']|e]; cbn [snd].
    - destruct (add_all matchf t sd) as [t' e]. exact IH.
    - exact I.
    - exact H.
  Qed.

  Lemma remove_all_ok ixs sd : oek_ok (snd (remove_all matchf ixs sd)).
  Proof.
    induction ixs as [|[n ix] t IH]; cbn [remove_all]; [exact I|].
    pose proof (index_remove_ok ix sd) as H.
    destruct (index_remove matchf ix sd) as [[[|] ix']|e]; cbn [snd].
    - destruct (remove_all matchf t sd) as [t' e]. exact IH.
    - exact I.
    - exact H.
  Qed.

  Lemma swap_all_ok ixs old new : oek_ok (snd (swap_all matchf ixs old new)).
  Proof.
    induction ixs as [|[n ix] t IH]; cbn [swap_all]; [exact I|].
    pose proof (index_remove_ok ix old) as H.
    destruct (index_remove matchf ix old) as [[[|] ix']|e]; cbn [snd]; [|exact I|exact H].
    pose proof (index_add_ok ix' new) as H'.
    destruct (index_add matchf ix' new) as [[[|] ix'']|e]; cbn [snd]; [|exact I|exact H'].
    destruct (swap_all matchf t old new) as [t' e]. exact IH.
  Qed.

  Lemma remove_docs_ok l : forall ixs, oek_ok (snd (remove_docs matchf ixs l)).
  Proof.
    induction l as [|sd t IH]; intro ixs; cbn [remove_docs]; [exact I|].
    pose proof (remove_all_ok ixs sd) as H.
    destruct (remove_all matchf ixs sd) as [ixs' [e|]]; [exact H|apply IH].
  Qed.

  Lemma add_docs_ok l : forall ixs, oek_ok (snd (add_docs matchf ixs l)).
  Proof.
    induction l as [|sd t IH]; intro ixs; cbn [add_docs]; [exact I|].
    pose proof (add_all_ok ixs sd) as H.
    destruct (add_all matchf ixs sd) as [ixs' [e|]]; [exact H|apply IH].
  Qed.

  Lemma build_ok l : forall ix, oek_ok (snd (build matchf ix l)).
  Proof.
    induction l as [|sd t IH]; intro ix; cbn [build]; [exact I|].
    pose proof (index_add_ok ix sd) as H.
    destruct (index_add matchf ix sd) as [[[|] ix']|e]; cbn [snd]; [apply IH|exact I|exact H].
  Qed.

  (* ---------------------------------------------------------------- *)
  (* Find *)

  Lemma select_go_safe {A} (sel : A -> res bool) l : (forall x, safe (sel x)) ->
    forall limit have, safe (select_go sel l limit have).
  Proof.
    intro Hs. induction l as [|x t IH]; intros limit have; cbn [select_go]; [exact I|].
    pose proof (Hs x) as Hx. destruct (sel x) as [[|]| | | |]; try exact Hx.
    - destruct ((0 <? limit) && (limit <=? have + 1)); [exact I|].
      apply bind_safe_all; [apply IH|]. intro r. exact I.
    - apply IH.
  Qed.

  Lemma find_list_safe l q sort skip limit : safe (find_list matchf l q sort skip limit).
  Proof.
    unfold find_list. destruct (skip <? 0); [exact I|].
    apply bind_safe_all.
    - destruct sort as [[|c s]|]; try exact I.
      apply bind_safe_all; [apply columns_safe|]. intro cols. exact I.
    - intro sorted. apply bind_safe_all; [|intro sel; exact I].
      apply select_go_safe. intro sd. apply matchf_safe.
  Qed.

  Lemma coll_find_ok c q sort skip limit : sum_ok (snd (coll_find matchf c q sort skip limit)).
  Proof.
    unfold coll_find. pose proof (find_list_safe (c_docs c) q sort skip limit) as H.
    destruct (find_list matchf (c_docs c) q sort skip limit); cbn; tauto.
  Qed.

  (* ---------------------------------------------------------------- *)
  (* Insert / Replace / Update / Upsert / Delete *)

  Lemma ensure_id_safe d oid : safe (ensure_id d oid).
  Proof.
    unfold ensure_id. destruct (is_missing (Get d "_id")); [|exact I].
    apply bind_safe_all; [apply Put_safe|]. intro r. exact I.
  Qed.

  Lemma coll_insert_ok c fresh d oid : sum_ok (snd (coll_insert matchf c fresh d oid)).
  Proof.
    unfold coll_insert. pose proof (ensure_id_safe d oid) as H.
    destruct (ensure_id d oid) as [d'| | | |];
      fin.
    pose proof (add_all_ok (c_indexes c) (fresh, d')) as Ha.
    destruct (add_all matchf (c_indexes c) (fresh, d')) as [ixs [e|]]; fin.
    destruct (set_has (c_docs c) fresh); exact I.
  Qed.

  Lemma coll_replace_ok c fresh q repl sort : sum_ok (snd (coll_replace matchf c fresh q repl sort)).
  Proof.
    unfold coll_replace. pose proof (find_list_safe (c_docs c) q sort 0 1) as H.
    destruct (find_list matchf (c_docs c) q sort 0 1) as [[|old rest]| | | |]; fin.
    match goal with |- sum_ok (snd (match ?P with _ => _ end)) => assert (Hp : safe P); [|destruct P as [repl'| | | |]] end;
      cbn; try tauto.
    { destruct (is_missing (Get repl "_id")).
      - apply bind_safe_all; [apply Put_safe|]. intro r. exact I.
      - destruct (value_eqb (Get repl "_id") (Get (snd old) "_id")); exact I. }
    pose proof (swap_all_ok (c_indexes c) old (fresh, repl')) as Hs.
    destruct (swap_all matchf (c_indexes c) old (fresh, repl')) as [ixs [e|]]; fin.
    destruct (set_has (c_docs c) fresh); exact I.
  Qed.

  Lemma apply_list_safe l : forall fresh q u afs now, safe (apply_list applyf l fresh q u afs now).
  Proof.
    induction l as [|sd t IH]; intros fresh q u afs now; cbn [apply_list]; [exact I|].
    apply bind_safe_all; [apply applyf_safe|]. intro r.
    apply bind_safe_all; [apply IH|]. intro rest. exact I.
  Qed.

  Lemma coll_update_ok c fresh q u sort skip limit afs now :
    sum_ok (snd (coll_update matchf applyf c fresh q u sort skip limit afs now)).
  Proof.
    unfold coll_update. pose proof (find_list_safe (c_docs c) q sort skip limit) as H.
    destruct (find_list matchf (c_docs c) q sort skip limit) as [matched| | | |]; fin.
    apply (list_case (fun x => sum_ok (snd x))); [exact I|].
    pose proof (apply_list_safe matched fresh q u afs now) as Ha.
    destruct (apply_list applyf matched fresh q u afs now) as [[newl chs]| | | |]; fin.
    destruct (negb (ids_unchanged matched newl)); [exact I|].
    pose proof (remove_docs_ok matched (c_indexes c)) as Hr.
    destruct (remove_docs matchf (c_indexes c) matched) as [ixs [e|]]; fin.
    pose proof (add_docs_ok newl ixs) as Hd.
    destruct (add_docs matchf ixs newl) as [ixs' [e|]]; fin.
    destruct (modified_only matched newl chs). exact I.
  Qed.

  Lemma upsert_doc_safe q repl update afs now : safe (upsert_doc applyf extractf q repl update afs now).
  Proof.
    unfold upsert_doc. apply bind_safe_all; [apply extractf_safe|]. intro seed.
    assert (Hrest : forall r1 : res doc, safe r1 ->
      safe (let* d1 := r1 in
            match update with
            | Some u => bind (applyf d1 q u true afs now) (fun r => Ok (fst r))
            | None => Ok d1
            end)).
    { intros r1 H1. apply bind_safe_all; [exact H1|]. intro d1.
      destruct update; [|exact I]. apply bind_safe_all; [apply applyf_safe|]. intro r. exact I. }
    destruct repl as [rp|]; destruct update as [u|]; try exact I; apply Hrest; try exact I.
    match goal with |- safe (if ?c then _ else _) => destruct c end; [exact I|].
    destruct (negb (is_missing (Get rp "_id"))).
    { apply bind_safe_all; [apply Put_safe|]. intro r. exact I. }
    destruct (negb (is_missing (Get seed "_id"))); [|exact I].
    apply bind_safe_all; [apply Put_safe|]. intro r. exact I.
  Qed.

  Lemma coll_upsert_ok c fresh q repl update afs oid now :
    sum_ok (snd (coll_upsert matchf applyf extractf c fresh q repl update afs oid now)).
  Proof.
    unfold coll_upsert.
    match goal with |- sum_ok (snd (match ?P with _ => _ end)) => assert (Hp : safe P); [|destruct P as [d3| | | |]] end;
      cbn; try tauto.
    { apply bind_safe_all; [apply upsert_doc_safe|]. intro d2. apply ensure_id_safe. }
    pose proof (add_all_ok (c_indexes c) (fresh, d3)) as Ha.
    destruct (add_all matchf (c_indexes c) (fresh, d3)) as [ixs [e|]]; fin.
    destruct (set_has (c_docs c) fresh); exact I.
  Qed.

  Lemma coll_delete_ok c q sort skip limit : sum_ok (snd (coll_delete matchf c q sort skip limit)).
  Proof.
    unfold coll_delete. pose proof (find_list_safe (c_docs c) q sort skip limit) as H.
    destruct (find_list matchf (c_docs c) q sort skip limit) as [matched| | | |];
      fin.
    pose proof (remove_docs_ok matched (c_indexes c)) as Hr.
    destruct (remove_docs matchf (c_indexes c) matched) as [ixs [e|]]; fin.
  Qed.

  Lemma config_name_safe cf : safe (config_name cf).
  Proof. unfold config_name. apply bind_safe_all; [apply columns_safe|]. intro cols. exact I. Qed.

  Lemma new_index_safe cf : safe (new_index cf).
  Proof.
    unfold new_index. destruct (cf_key cf) as [|k0 kt]; [exact I|].
    apply bind_safe_all; [apply columns_safe|]. intro cols.
    match goal with |- safe (if ?c then _ else _) => destruct c end; [exact I|].
    match goal with |- safe (if ?c then _ else _) => destruct c end; exact I.
  Qed.

  Lemma coll_create_index_ok c name cf : sum_ok (snd (coll_create_index matchf c name cf)).
  Proof.
    unfold coll_create_index.
    match goal with |- sum_ok (snd (match ?P with _ => _ end)) => assert (Hp : safe P); [|destruct P as [nm| | | |]] end;
      cbn; try tauto.
    { destruct name; [apply config_name_safe|exact I]. }
    destruct (find_index (c_indexes c) nm) as [ix|].
    { destruct (config_equal cf (ix_config ix)); exact I. }
    match goal with |- sum_ok (snd (if ?c then _ else _)) => destruct c end; [exact I|].
    pose proof (new_index_safe cf) as Hn.
    destruct (new_index cf) as [ix| | | |];
      fin.
    pose proof (build_ok (c_docs c) ix) as Hb.
    destruct (build matchf ix (c_docs c)) as [ix' [e|]]; fin.
  Qed.

  Lemma coll_drop_index_ok c name : sum_ok (snd (coll_drop_index c name)).
  Proof.
    unfold coll_drop_index. destruct name; [exact I|].
    destruct (String.eqb _ "_id_"); [exact I|].
    destruct (find_index (c_indexes c) _); exact I.
  Qed.
  (* ---------------------------------------------------------------- *)
  (* Transaction methods *)

  Lemma t_insert_ok w h d : tr_ok (snd (t_insert matchf w h d)).
  Proof.
    unfold t_insert.
    pose proof (coll_insert_ok (w_ns w) (g_did (w_gen w)) d (gen_oid (g_oid (w_gen w)))) as H.
    destruct (coll_insert matchf (w_ns w) (g_did (w_gen w)) d (gen_oid (g_oid (w_gen w)))) as [ns' [r|e]]; fin.
  Qed.

  Lemma upsert_branch_ok w ns' g1 h q repl update afs now used :
    tr_ok (snd (match coll_upsert matchf applyf extractf ns' (g_did g1) q repl update afs (gen_oid (g_oid g1)) now with
                | (ns'', inl r2) =>
                    match r_upserted r2 with
                    | Some sd =>
                        (append_all (mkW ns'' (w_oplog w) (w_clock w) (mkGen (g_did g1 + 1) (g_oid g1 + used)))
                                    h "insert" [sd] None, inl (mkT [] [] (Some sd) None))
                    | None => (mkW ns'' (w_oplog w) (w_clock w) (mkGen (g_did g1) (g_oid g1 + used)), inr EErr)
                    end
                | (ns'', inr e) => (mkW ns'' (w_oplog w) (w_clock w) (mkGen (g_did g1) (g_oid g1 + used)), inr e)
                end)).
  Proof.
    pose proof (coll_upsert_ok ns' (g_did g1) q repl update afs (gen_oid (g_oid g1)) now) as H.
    destruct (coll_upsert matchf applyf extractf ns' (g_did g1) q repl update afs (gen_oid (g_oid g1)) now)
      as [ns'' [r2|e]]; fin.
    destruct (r_upserted r2); fin.
  Qed.

  Lemma t_replace_ok w h q repl sort upsert now :
    tr_ok (snd (t_replace matchf applyf extractf w h q repl sort upsert now)).
  Proof.
    unfold t_replace.
    pose proof (coll_replace_ok (w_ns w) (g_did (w_gen w)) q repl sort) as H.
    destruct (coll_replace matchf (w_ns w) (g_did (w_gen w)) q repl sort) as [ns' [r|e]]; fin.
    apply (list_case (fun x => tr_ok (snd x))); [|exact I].
    destruct upsert; [|exact I]. apply upsert_branch_ok.
  Qed.

  Lemma t_update_ok w h q u sort upsert skip limit afs now :
    tr_ok (snd (t_update matchf applyf extractf w h q u sort upsert skip limit afs now)).
  Proof.
    unfold t_update.
    pose proof (coll_update_ok (w_ns w) (g_did (w_gen w)) q u sort skip limit afs now) as H.
    destruct (coll_update matchf applyf (w_ns w) (g_did (w_gen w)) q u sort skip limit afs now) as [ns' [r|e]]; fin.
    apply (list_case (fun x => tr_ok (snd x))); [|exact I].
    destruct upsert; [|exact I]. apply upsert_branch_ok.
  Qed.

  Lemma t_delete_ok w h q sort skip limit : tr_ok (snd (t_delete matchf w h q sort skip limit)).
  Proof.
    unfold t_delete. pose proof (coll_delete_ok (w_ns w) q sort skip limit) as H.
    destruct (coll_delete matchf (w_ns w) q sort skip limit) as [ns' [r|e]]; fin.
  Qed.

  Lemma insert_loop_ok l : forall c g h ordered acc err,
    oek_ok err -> oek_ok (snd (insert_loop matchf c g h l ordered acc err)).
  Proof.
    induction l as [|d t IH]; intros c g h ordered acc err He; cbn [insert_loop]; [exact He|].
    pose proof (t_insert_ok (open_w c g h) h d) as H.
    destruct (t_insert matchf (open_w c g h) h d) as [w [r|e]]; [apply IH; exact He|].
    assert (He' : oek_ok match err with Some _ => err | None => Some e end)
      by (destruct err; [exact He|exact H]).
    destruct ordered; [exact He'|apply IH; exact He'].
  Qed.

  Lemma txn_insert_ok c g h l ordered : tr_ok (snd (txn_insert matchf c g h l ordered)).
  Proof.
    unfold txn_insert. destruct (guard_write h) as [e|] eqn:Eg.
    { unfold guard_write in Eg. destruct (negb (valid_handle h true)); [inversion Eg; exact I|].
      destruct (is_local h); inversion Eg. exact I. }
    pose proof (insert_loop_ok l c g h ordered [] None I) as H.
    destruct (insert_loop matchf c g h l ordered [] None) as [[[c' g'] acc] err].
    cbn [snd] in H. destruct acc; exact H.
  Qed.

  Lemma guard_write_ok h e : guard_write h = Some e -> ek_ok e.
  Proof.
    unfold guard_write. destruct (negb (valid_handle h true)); [intro E; inversion E; exact I|].
    destruct (is_local h); intro E; inversion E. exact I.
  Qed.

  Lemma finish_ok c g h ch r : tr_ok (snd r) -> tr_ok (snd (finish c g h ch r)).
  Proof. unfold finish. destruct r as [w [tr|e]]; [destruct (ch tr)|]; fin. Qed.

  Lemma txn_replace_ok c g h q sort repl upsert now :
    tr_ok (snd (txn_replace matchf applyf extractf c g h q sort repl upsert now)).
  Proof.
    unfold txn_replace. destruct (guard_write h) as [e|] eqn:Eg; [exact (guard_write_ok _ _ Eg)|].
    destruct (ns_get (cat_ns c) h); [|destruct upsert; [|exact I]]; apply finish_ok; apply t_replace_ok.
  Qed.

  Lemma txn_update_ok c g h q sort u skip limit upsert afs now :
    tr_ok (snd (txn_update matchf applyf extractf c g h q sort u skip limit upsert afs now)).
  Proof.
    unfold txn_update. destruct (guard_write h) as [e|] eqn:Eg; [exact (guard_write_ok _ _ Eg)|].
    destruct (ns_get (cat_ns c) h); [|destruct upsert; [|exact I]]; apply finish_ok; apply t_update_ok.
  Qed.

  Lemma txn_delete_ok c g h q sort skip limit :
    tr_ok (snd (txn_delete matchf c g h q sort skip limit)).
  Proof.
    unfold txn_delete. destruct (guard_write h) as [e|] eqn:Eg; [exact (guard_write_ok _ _ Eg)|].
    destruct (ns_get (cat_ns c) h); [|exact I]. apply finish_ok. apply t_delete_ok.
  Qed.

  Lemma txn_find_ok c h q sort skip limit : tr_ok (txn_find matchf c h q sort skip limit).
  Proof.
    unfold txn_find. destruct (negb (valid_handle h true)); [exact I|].
    destruct (ns_get (cat_ns c) h) as [n|]; [|exact I].
    pose proof (coll_find_ok n q sort skip limit) as H.
    destruct (coll_find matchf n q sort skip limit) as [n' [r|e]]; fin.
  Qed.

  Definition bulk_ok (r : list (tresult + ekind) + ekind) : Prop :=
    match r with inl rs => Forall tr_ok rs | inr e => ek_ok e end.

  Lemma bulk_loop_ok ops : forall c g h ordered now acc changes,
    Forall tr_ok acc ->
    Forall tr_ok (snd (fst (bulk_loop matchf applyf extractf c g h ops ordered now acc changes))).
  Proof.
    induction ops as [|op t IH]; intros c g h ordered now acc changes Ha; cbn [bulk_loop]; [exact Ha|].
    match goal with |- context [match ?R with (_, _) => _ end] =>
      assert (Hr : tr_ok (snd R)); [|destruct R as [w [tr|e]]] end.
    { destruct op; [apply t_insert_ok|apply t_replace_ok|apply t_update_ok|apply t_delete_ok]. }
    - apply IH. apply Forall_app. split; [exact Ha|]. constructor; [exact Hr|constructor].
    - assert (Ha' : Forall tr_ok (acc ++ [inr e])).
      { apply Forall_app. split; [exact Ha|]. constructor; [exact Hr|constructor]. }
      destruct ordered; [exact Ha'|apply IH; exact Ha'].
  Qed.

  Lemma txn_bulk_ok c g h ops ordered now :
    bulk_ok (snd (txn_bulk matchf applyf extractf c g h ops ordered now)).
  Proof.
    unfold txn_bulk. destruct (guard_write h) as [e|] eqn:Eg; [exact (guard_write_ok _ _ Eg)|].
    pose proof (bulk_loop_ok ops c g h ordered now [] 0 (Forall_nil _)) as H.
    destruct (bulk_loop matchf applyf extractf c g h ops ordered now [] 0) as [[[c' g'] rs] changes].
    cbn [snd fst] in H. destruct (0 <? changes); exact H.
  Qed.

  Lemma txn_drop_ok c g h : sum_ok (snd (txn_drop c g h)).
  Proof.
    unfold txn_drop. destruct (negb (valid_handle h false)); [exact I|].
    destruct (is_local h); [exact I|].
    destruct (map fst (filter (fun kc => drop_matches h (fst kc)) (cat_ns c))); [exact I|].
    destruct (drop_events _ _ _ _) as [[ol cl] g1].
    destruct (if String.eqb (snd h) "" then _ else _) as [[ol2 cl2] g2]. exact I.
  Qed.

  Lemma txn_create_index_ok c h name cf : sum_ok (snd (txn_create_index matchf c h name cf)).
  Proof.
    unfold txn_create_index. destruct (guard_write h) as [e|] eqn:Eg; [exact (guard_write_ok _ _ Eg)|].
    pose proof (coll_create_index_ok (ns_or_new c h) name cf) as H.
    destruct (coll_create_index matchf (ns_or_new c h) name cf) as [n' [nm|e]]; fin.
  Qed.

  Lemma txn_drop_index_ok c h name : sum_ok (snd (txn_drop_index c h name)).
  Proof.
    unfold txn_drop_index. destruct (guard_write h) as [e|] eqn:Eg; [exact (guard_write_ok _ _ Eg)|].
    destruct (ns_get (cat_ns c) h) as [n|]; [|exact I].
    pose proof (coll_drop_index_ok n name) as H.
    destruct (coll_drop_index n name) as [n' [[|x l]|e]]; fin.
  Qed.

  Lemma txn_list_indexes_ok c h : sum_ok (txn_list_indexes c h).
  Proof.
    unfold txn_list_indexes. destruct (negb (valid_handle h true)); [exact I|].
    destruct (ns_get (cat_ns c) h); exact I.
  Qed.

  Lemma expire_loop_ok l : forall c g now_ms deleted, sum_ok (expire_loop matchf c g l now_ms deleted).
  Proof.
    induction l as [|[h n] t IH]; intros c g now_ms deleted; cbn [expire_loop]; [exact I|].
    destruct (opt_list (map (fun ni => ttl_condition now_ms (snd ni)) (c_indexes n))) as [|c0 conds];
      [apply IH|].
    pose proof (t_delete_ok (open_w c g h) h [("$or"%string, VArr (c0 :: conds))] None 0 0) as H.
    destruct (t_delete matchf (open_w c g h) h [("$or"%string, VArr (c0 :: conds))] None 0 0) as [w [tr|e]];
      [apply IH|exact H].
  Qed.

  Lemma txn_expire_ok c g now_ms : sum_ok (snd (txn_expire matchf c g now_ms)).
  Proof.
    unfold txn_expire. pose proof (expire_loop_ok (cat_ns c) c g now_ms 0) as H.
    destruct (expire_loop matchf c g (cat_ns c) now_ms 0) as [[[c' g'] d]|e]; [destruct (0 <? d); exact I|exact H].
  Qed.
End Layers.
