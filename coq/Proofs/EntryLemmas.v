(* EntryLemmas.v — the entry set of an index (Model/Collection.v): tuple_eq and
   entry_eq are equivalences (from the total order on values), membership
   `mem` under set_entry / del_entry and their folds, `nodup_entries`,
   `has_key`, non-emptiness of `tuples`, and the exact behaviour of
   bsonkit.Index.Add / Remove (`base_add` / `base_remove`) in those terms. *)
From Coq Require Import List ZArith Lia Bool.
From Lungo.Model Require Import Collection.
From Lungo.Proofs Require Import OrderLaws CompareOrder.
Import ListNotations.
Open Scope Z_scope.

(* ------------------------------------------------------------------ *)
(* tuple_eq is an equivalence *)

Lemma tuple_eq_refl a : tuple_eq a a = true.
Proof. induction a as [|x a IH]; simpl; auto. rewrite compare_refl. exact IH. Qed.

Lemma tuple_eq_sym a b : tuple_eq a b = tuple_eq b a.
Proof.
  revert b. induction a as [|x a IH]; intros [|y b]; simpl; auto.
  rewrite (compare_antisym y x). destruct (compare y x); simpl; auto.
Qed.

Lemma tuple_eq_trans a b c :
  tuple_eq a b = true -> tuple_eq b c = true -> tuple_eq a c = true.
Proof.
  revert b c. induction a as [|x a IH]; intros [|y b] [|z c]; simpl; try (intros; discriminate); auto.
  destruct (compare x y) eqn:E1; try (intros; discriminate).
  destruct (compare y z) eqn:E2; try (intros; discriminate).
  rewrite (tl_eq_trans compare compare_total _ _ _ E1 E2). apply IH.
Qed.

Lemma tuple_eq_l a b c : tuple_eq a b = true -> tuple_eq a c = tuple_eq b c.
Proof.
  intro H. destruct (tuple_eq b c) eqn:E.
  - exact (tuple_eq_trans _ _ _ H E).
  - destruct (tuple_eq a c) eqn:F; auto.
    rewrite tuple_eq_sym in H. rewrite (tuple_eq_trans _ _ _ H F) in E. discriminate.
Qed.

Lemma tuple_eq_r a b c : tuple_eq b c = true -> tuple_eq a b = tuple_eq a c.
Proof.
  intro H. rewrite (tuple_eq_sym a b), (tuple_eq_sym a c). apply tuple_eq_l. exact H.
Qed.

Lemma tuple_eq_length a b : tuple_eq a b = true -> List.length a = List.length b.
Proof.
  revert b. induction a as [|x a IH]; intros [|y b]; simpl; try (intros; discriminate); auto.
  destruct (compare x y); try (intros; discriminate). intro H. f_equal. auto.
Qed.

(* column-wise BSON equality *)
Lemma tuple_eq_Forall2 a b :
  tuple_eq a b = true <-> Forall2 (fun x y => compare x y = Eq) a b.
Proof.
  revert b. induction a as [|x a IH]; intros [|y b]; simpl; split; intro H;
    try discriminate; try (inversion H; fail); auto.
  - destruct (compare x y) eqn:E; try discriminate. constructor; auto. apply IH; exact H.
  - inversion H; subst. rewrite H3. apply IH; assumption.
Qed.

(* ------------------------------------------------------------------ *)
(* entry_eq is an equivalence *)

Lemma entry_eq_iff t i t' i' :
  entry_eq (t, i) (t', i') = true <-> i = i' /\ tuple_eq t t' = true.
Proof.
  unfold entry_eq; simpl. rewrite andb_true_iff, Z.eqb_eq. reflexivity.
Qed.

Lemma entry_eq_refl e : entry_eq e e = true.
Proof. unfold entry_eq. rewrite Z.eqb_refl, tuple_eq_refl. reflexivity. Qed.

Lemma entry_eq_sym e f : entry_eq e f = entry_eq f e.
Proof. unfold entry_eq. rewrite Z.eqb_sym, tuple_eq_sym. reflexivity. Qed.

Lemma entry_eq_trans e f g :
  entry_eq e f = true -> entry_eq f g = true -> entry_eq e g = true.
Proof.
  destruct e as [t1 i1], f as [t2 i2], g as [t3 i3]. rewrite !entry_eq_iff.
  intros [-> H1] [-> H2]. split; auto. exact (tuple_eq_trans _ _ _ H1 H2).
Qed.

Lemma entry_eq_l e f g : entry_eq e f = true -> entry_eq e g = entry_eq f g.
Proof.
  intro H. destruct (entry_eq f g) eqn:E.
  - exact (entry_eq_trans _ _ _ H E).
  - destruct (entry_eq e g) eqn:F; auto.
    rewrite entry_eq_sym in H. rewrite (entry_eq_trans _ _ _ H F) in E. discriminate.
Qed.

Lemma entry_eq_r e f g : entry_eq f g = true -> entry_eq e f = entry_eq e g.
Proof.
  intro H. rewrite (entry_eq_sym e f), (entry_eq_sym e g). apply entry_eq_l. exact H.
Qed.

Lemma entry_eq_false_id t i t' i' : i <> i' -> entry_eq (t, i) (t', i') = false.
Proof.
  intro H. destruct (entry_eq (t, i) (t', i')) eqn:E; auto.
  apply entry_eq_iff in E. tauto.
Qed.

(* ------------------------------------------------------------------ *)
(* membership *)

Definition mem (es : list (list value * did)) (t : list value) (id : did) : Prop :=
  has_entry es (t, id) = true.

Lemma has_entry_cons f es e : has_entry (f :: es) e = entry_eq e f || has_entry es e.
Proof. reflexivity. Qed.

Lemma has_entry_iff es e :
  has_entry es e = true <-> exists f, In f es /\ entry_eq e f = true.
Proof. unfold has_entry. apply existsb_exists. Qed.

Lemma has_entry_false es e :
  has_entry es e = false <-> forall f, In f es -> entry_eq e f = false.
Proof.
  split.
  - intros H f Hf. destruct (entry_eq e f) eqn:E; auto.
    assert (has_entry es e = true) by (apply has_entry_iff; eauto). congruence.
  - intro H. destruct (has_entry es e) eqn:E; auto.
    apply has_entry_iff in E. destruct E as [f [Hf E]]. rewrite (H f Hf) in E. discriminate.
Qed.

Lemma has_entry_closed es e e' : entry_eq e e' = true -> has_entry es e = has_entry es e'.
Proof.
  intro H. induction es as [|f es IH]; auto.
  rewrite !has_entry_cons, IH, (entry_eq_l _ _ f H). reflexivity.
Qed.

Lemma mem_iff es t id :
  mem es t id <-> exists t', In (t', id) es /\ tuple_eq t t' = true.
Proof.
  unfold mem. rewrite has_entry_iff. split.
  - intros [[t' i'] [Hin E]]. apply entry_eq_iff in E. destruct E as [-> E]. eauto.
  - intros [t' [Hin E]]. exists (t', id). split; auto. apply entry_eq_iff; auto.
Qed.

Lemma mem_nil t id : ~ mem [] t id.
Proof. unfold mem; simpl. discriminate. Qed.

(* closure of membership under tuple_eq *)
Lemma mem_closed es t t' id : tuple_eq t t' = true -> mem es t id <-> mem es t' id.
Proof.
  intro H. unfold mem. rewrite (has_entry_closed es (t, id) (t', id)); [reflexivity|].
  apply entry_eq_iff; auto.
Qed.

(* set_entry *)
Lemma has_entry_set_entry es e g :
  has_entry (set_entry es e) g = has_entry es g || entry_eq g e.
Proof.
  induction es as [|f es IH]; cbn [set_entry].
  - rewrite has_entry_cons. simpl. rewrite orb_false_r. reflexivity.
  - destruct (entry_eq e f) eqn:E.
    + rewrite !has_entry_cons, (entry_eq_r g e f E).
      destruct (entry_eq g f), (has_entry es g); reflexivity.
    + rewrite !has_entry_cons, IH, orb_assoc. reflexivity.
Qed.

Lemma mem_set_entry es e t id :
  mem (set_entry es e) t id <-> mem es t id \/ entry_eq e (t, id) = true.
Proof.
  unfold mem. rewrite has_entry_set_entry, orb_true_iff, (entry_eq_sym (t, id) e). reflexivity.
Qed.

(* del_entry *)
Lemma has_entry_del_entry es e g :
  has_entry (del_entry es e) g = has_entry es g && negb (entry_eq e g).
Proof.
  unfold del_entry. induction es as [|f es IH]; simpl; auto.
  destruct (entry_eq e f) eqn:E; simpl; rewrite ?has_entry_cons, IH.
  - destruct (entry_eq g f) eqn:G; simpl; auto.
    rewrite (entry_eq_r e g f G), E. simpl. rewrite andb_false_r. reflexivity.
  - destruct (entry_eq g f) eqn:G; simpl; auto.
    rewrite (entry_eq_r e g f G), E. reflexivity.
Qed.

Lemma mem_del_entry es e t id :
  mem (del_entry es e) t id <-> mem es t id /\ entry_eq e (t, id) = false.
Proof.
  unfold mem. rewrite has_entry_del_entry, andb_true_iff, negb_true_iff. reflexivity.
Qed.

(* ------------------------------------------------------------------ *)
(* no two entries equal under the order *)

Fixpoint nodup_entries (es : list (list value * did)) : Prop :=
  match es with
  | [] => True
  | e :: t => has_entry t e = false /\ nodup_entries t
  end.

Lemma nodup_entries_pairwise es :
  nodup_entries es <-> ForallOrdPairs (fun e f => entry_eq e f = false) es.
Proof.
  induction es as [|e es IH]; simpl.
  - split; intros; [constructor | exact I].
  - split.
    + intros [H1 H2]. constructor.
      * apply Forall_forall. apply has_entry_false. exact H1.
      * apply IH; exact H2.
    + intro H. inversion H; subst. split.
      * apply has_entry_false. apply Forall_forall. assumption.
      * apply IH. assumption.
Qed.

Lemma nodup_set_entry es e : nodup_entries es -> nodup_entries (set_entry es e).
Proof.
  induction es as [|f es IH]; simpl.
  - auto.
  - intros [H1 H2]. destruct (entry_eq e f) eqn:E; simpl.
    + split; auto. rewrite (has_entry_closed es e f E). exact H1.
    + split; auto. rewrite has_entry_set_entry, H1, entry_eq_sym, E. reflexivity.
Qed.

Lemma nodup_del_entry es e : nodup_entries es -> nodup_entries (del_entry es e).
Proof.
  induction es as [|f es IH]; simpl; auto.
  intros [H1 H2]. destruct (entry_eq e f) eqn:E; simpl; auto.
  split; auto. change (filter (fun f0 => negb (entry_eq e f0)) es) with (del_entry es e).
  rewrite has_entry_del_entry, H1. reflexivity.
Qed.

(* ------------------------------------------------------------------ *)
(* the folds of Index.Add / Index.Remove *)

Definition set_all (es : list (list value * did)) (ts : list (list value)) (id : did) :=
  fold_left (fun es t => set_entry es (t, id)) ts es.
Definition del_all (es : list (list value * did)) (ts : list (list value)) (id : did) :=
  fold_left (fun es t => del_entry es (t, id)) ts es.

Lemma mem_set_all ts es id t i :
  mem (set_all es ts id) t i <->
  mem es t i \/ (i = id /\ exists t', In t' ts /\ tuple_eq t' t = true).
Proof.
  unfold set_all. revert es. induction ts as [|u ts IH]; intro es; simpl.
  - split; auto. intros [H|[_ [t' [[] _]]]]; auto.
  - rewrite IH, mem_set_entry, entry_eq_iff. split.
    + intros [[H|[-> H]]|[-> [t' [Hin H]]]]; eauto 7.
    + intros [H|[-> [t' [[->|Hin] H]]]]; eauto 7.
Qed.

Lemma mem_del_all ts es id t i :
  mem (del_all es ts id) t i <->
  mem es t i /\ ~ (i = id /\ exists t', In t' ts /\ tuple_eq t' t = true).
Proof.
  unfold del_all. revert es. induction ts as [|u ts IH]; intro es; simpl.
  - split; [intro H; split; auto; intros [_ [t' [[] _]]] | tauto].
  - rewrite IH, mem_del_entry. split.
    + intros [[H1 H2] H3]. split; auto. intros [-> [t' [[->|Hin] H]]].
      * assert (entry_eq (t', id) (t, id) = true) by (apply entry_eq_iff; auto). congruence.
      * apply H3. eauto.
    + intros [H1 H2]. split; [split; auto|].
      * destruct (entry_eq (u, id) (t, i)) eqn:E; auto.
        apply entry_eq_iff in E. destruct E as [<- E]. exfalso. apply H2. eauto.
      * intros [-> [t' [Hin H]]]. apply H2. eauto.
Qed.

Lemma nodup_set_all ts es id : nodup_entries es -> nodup_entries (set_all es ts id).
Proof.
  unfold set_all. revert es. induction ts as [|u ts IH]; intros es H; simpl; auto.
  apply IH. apply nodup_set_entry. exact H.
Qed.

Lemma nodup_del_all ts es id : nodup_entries es -> nodup_entries (del_all es ts id).
Proof.
  unfold del_all. revert es. induction ts as [|u ts IH]; intros es H; simpl; auto.
  apply IH. apply nodup_del_entry. exact H.
Qed.

(* ------------------------------------------------------------------ *)
(* has_key *)

Lemma has_key_iff es t : has_key es t = true <-> exists id, mem es t id.
Proof.
  unfold has_key. rewrite existsb_exists. split.
  - intros [[t' i] [Hin H]]. exists i. apply mem_iff. eauto.
  - intros [i H]. apply mem_iff in H. destruct H as [t' [Hin H]]. exists (t', i). auto.
Qed.

Lemma has_key_false es t : has_key es t = false <-> forall id, ~ mem es t id.
Proof.
  split.
  - intros H id Hm. assert (has_key es t = true) by (apply has_key_iff; eauto). congruence.
  - intro H. destruct (has_key es t) eqn:E; auto.
    apply has_key_iff in E. destruct E as [i Hi]. destruct (H i Hi).
Qed.

(* ------------------------------------------------------------------ *)
(* tuples is never empty *)

Lemma column_values_nonempty d c : column_values d c <> [].
Proof.
  unfold column_values. destruct (fst (All d (fst c) true true)) as [| | | | | | | |a| | | | | |];
    try discriminate.
  destruct a; discriminate.
Qed.

Lemma tuples_go_nonempty d cols acc : acc <> [] -> tuples_go d cols acc <> [].
Proof.
  revert acc. induction cols as [|c cols IH]; intros acc H; simpl; auto.
  apply IH. destruct acc as [|a acc]; [congruence|]. simpl.
  pose proof (column_values_nonempty d c) as Hc.
  destruct (column_values d c); [congruence|]. simpl. discriminate.
Qed.

Lemma tuples_nonempty cols d : tuples cols d <> [].
Proof. unfold tuples. apply tuples_go_nonempty. discriminate. Qed.

Lemma first_tuple_in cols d : In (first_tuple (tuples cols d)) (tuples cols d).
Proof.
  pose proof (tuples_nonempty cols d) as H.
  destruct (tuples cols d); [congruence|]. simpl. auto.
Qed.

(* ------------------------------------------------------------------ *)
(* bsonkit.Index.Add / Remove, exactly *)

Lemma base_add_true ix id d ix' :
  base_add ix (id, d) = (true, ix') ->
  ix_config ix' = ix_config ix /\ ix_cols ix' = ix_cols ix /\
  ix_entries ix' = set_all (ix_entries ix) (tuples (ix_cols ix) d) id /\
  has_entry (ix_entries ix) (first_tuple (tuples (ix_cols ix) d), id) = false /\
  (cf_unique (ix_config ix) = true ->
   forall t, In t (tuples (ix_cols ix) d) -> has_key (ix_entries ix) t = false).
Proof.
  unfold base_add. cbn [fst snd].
  destruct (has_entry (ix_entries ix) (first_tuple (tuples (ix_cols ix) d), id)) eqn:H1;
    [discriminate|].
  destruct (cf_unique (ix_config ix) && existsb (has_key (ix_entries ix)) (tuples (ix_cols ix) d)) eqn:H2;
    [discriminate|].
  intro H. inversion H; subst; clear H. cbn [ix_config ix_cols ix_entries].
  repeat split; auto.
  intros Hu t Ht. rewrite Hu in H2. simpl in H2.
  destruct (has_key (ix_entries ix) t) eqn:K; auto.
  assert (existsb (has_key (ix_entries ix)) (tuples (ix_cols ix) d) = true)
    by (apply existsb_exists; eauto).
  congruence.
Qed.

Lemma base_add_false ix id d ix' :
  base_add ix (id, d) = (false, ix') ->
  ix' = ix /\
  (has_entry (ix_entries ix) (first_tuple (tuples (ix_cols ix) d), id) = true \/
   (cf_unique (ix_config ix) = true /\
    exists t, In t (tuples (ix_cols ix) d) /\ has_key (ix_entries ix) t = true)).
Proof.
  unfold base_add. cbn [fst snd].
  destruct (has_entry (ix_entries ix) (first_tuple (tuples (ix_cols ix) d), id)) eqn:H1.
  - intro H; inversion H; auto.
  - destruct (cf_unique (ix_config ix) && existsb (has_key (ix_entries ix)) (tuples (ix_cols ix) d)) eqn:H2;
      [|discriminate].
    intro H; inversion H; subst. split; auto. right.
    apply andb_true_iff in H2. destruct H2 as [Hu He]. split; auto.
    apply existsb_exists in He. exact He.
Qed.

Lemma base_add_cases ix id d :
  (exists ix', base_add ix (id, d) = (true, ix')) \/ base_add ix (id, d) = (false, ix).
Proof.
  unfold base_add. cbn [fst snd].
  destruct (has_entry _ _); auto.
  destruct (_ && _); eauto.
Qed.

Lemma base_remove_true ix id d ix' :
  base_remove ix (id, d) = (true, ix') ->
  ix_config ix' = ix_config ix /\ ix_cols ix' = ix_cols ix /\
  ix_entries ix' = del_all (ix_entries ix) (tuples (ix_cols ix) d) id /\
  has_entry (ix_entries ix) (first_tuple (tuples (ix_cols ix) d), id) = true.
Proof.
  unfold base_remove. cbn [fst snd].
  destruct (has_entry (ix_entries ix) (first_tuple (tuples (ix_cols ix) d), id)) eqn:H1;
    simpl; [|discriminate].
  intro H. inversion H; subst; clear H. cbn [ix_config ix_cols ix_entries]. auto.
Qed.

Lemma base_remove_false ix id d ix' :
  base_remove ix (id, d) = (false, ix') ->
  ix' = ix /\ has_entry (ix_entries ix) (first_tuple (tuples (ix_cols ix) d), id) = false.
Proof.
  unfold base_remove. cbn [fst snd].
  destruct (has_entry (ix_entries ix) (first_tuple (tuples (ix_cols ix) d), id)) eqn:H1;
    simpl; [discriminate|].
  intro H. inversion H; auto.
Qed.

Lemma base_remove_present ix id d :
  has_entry (ix_entries ix) (first_tuple (tuples (ix_cols ix) d), id) = true ->
  exists ix', base_remove ix (id, d) = (true, ix').
Proof.
  intro H. unfold base_remove. cbn [fst snd]. rewrite H. simpl. eauto.
Qed.

Print Assumptions tuple_eq_trans.
Print Assumptions entry_eq_trans.
Print Assumptions mem_set_entry.
Print Assumptions mem_del_entry.
Print Assumptions mem_closed.
Print Assumptions nodup_set_all.
Print Assumptions nodup_del_all.
Print Assumptions mem_set_all.
Print Assumptions mem_del_all.
Print Assumptions has_key_iff.
Print Assumptions tuples_nonempty.
Print Assumptions base_add_true.
Print Assumptions base_add_false.
Print Assumptions base_remove_true.
