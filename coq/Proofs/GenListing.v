(* GenListing.v — obligations tying the model's listing documents to the
   bson.D literals regenerated from /repo/transaction.go (G8,
   translator/gen_listing.go -> Gen/Listing.v).

   * every leaf of the two specification documents is a BSON-typed literal or
     a named expression: no untyped Go integer (the defect repaired by
     /repo 6670a85 — `Value: 2` is a Go int, bsonkit.Inspect panics on it as
     soon as a filter touches the field) and nothing the translator could not
     classify;
   * instantiated with what the loop variables hold, the generated templates
     ARE the model's `coll_spec` / `db_spec`, for every namespace / database;
   * after the loop both functions do Filter(list, query, 0), Sort on "name",
     return — what `filter_sorted` models.

   Changing a key, a literal, its type, the order of the fields or the tail of
   either function changes Gen/Listing.v and these stop checking. *)
From Coq Require Import List String ZArith Bool.
From Lungo.Model Require Import DriverExt.
From Lungo.Gen Require Import Listing.
Import ListNotations.
Open Scope string_scope.

Theorem gen_listing_specs_typed :
  tval_typed (TDoc gen_coll_spec) = true /\ tval_typed (TDoc gen_db_spec) = true.
Proof. split; reflexivity. Qed.

Theorem gen_coll_spec_is_model : forall h,
  inst_doc (coll_env h) gen_coll_spec = Some (coll_spec h).
Proof. intro h. reflexivity. Qed.

Theorem gen_db_spec_is_model : forall l db,
  inst_doc (db_env l db) gen_db_spec = Some (db_spec l db).
Proof. intros l db. reflexivity. Qed.

Theorem gen_list_collections_post_ok :
  gen_list_collections_post =
  ["list, err = mongokit.Filter(list, query, 0)";
   "if err != nil { return nil, err }";
   "bsonkit.Sort(list, []bsonkit.Column{{Path: ""name""}})";
   "return list, nil"].
Proof. reflexivity. Qed.

Theorem gen_list_databases_post_ok :
  gen_list_databases_post =
  ["var list bsonkit.List";
   "list, err := mongokit.Filter(list, query, 0)";
   "if err != nil { return nil, err }";
   "bsonkit.Sort(list, []bsonkit.Column{{Path: ""name""}})";
   "return list, nil"].
Proof. reflexivity. Qed.

(* what the typing obligation protects from: a template with an untyped
   integer leaf has no BSON instance at all *)
Example untyped_leaf_has_no_instance : forall env,
  inst_doc env [("v", TUnknown "untyped literal 2")] = None.
Proof. reflexivity. Qed.
