(* RefineExt.v — C01 for the catalog-level calls: the implementation model
   (DriverExt.xstep) refines the reference (SpecDbExt.xs_step) on every
   history of non-session calls that may contain CreateCollection,
   ListCollections (of a user database) and CreateMany. *)
From Coq Require Import List ZArith Lia Bool String.
From Lungo.Model Require Import Driver DriverExt.
From Lungo.Spec Require Import SpecDb SpecDbExt.
From Lungo.Proofs Require Import CollInv RefineColl RefineTxn RefineStep.
Import ListNotations.
Open Scope Z_scope.
Open Scope list_scope.

Definition x_no_session (x : xcall) : Prop :=
  match x with
  | XBase c => no_session_call c
  | XCreateColl sid _ => sid = 0
  | XListColls sid db _ => sid = 0 /\ db <> "local"%string
  | XListDbs _ _ => False
  | XCreateMany sid _ _ => sid = 0
  end.

(* the collections of a user database are the same in the catalog and in its abstraction *)
Lemma abs_ns_db_keys db l :
  db <> "local"%string ->
  map (fun hc => coll_spec (fst hc)) (filter (fun hc : handle * scoll => String.eqb (fst (fst hc)) db) (abs_ns l)) =
  map (fun hc => coll_spec (fst hc)) (filter (fun hc : handle * coll => String.eqb (fst (fst hc)) db) l).
Proof.
  intro N. induction l as [|[k x] t IH]; [reflexivity|].
  rewrite abs_ns_cons. cbn [filter fst]. destruct (String.eqb (fst k) db) eqn:E.
  - assert (U : user_ns k = true).
    { unfold user_ns. destruct (handle_eqb k oplog_handle) eqn:H; [|reflexivity].
      apply handle_eqb_eq in H. subst k. change (fst oplog_handle) with "local"%string in E.
      apply String.eqb_eq in E. congruence. }
    rewrite U. cbn [filter fst]. rewrite E. cbn [map fst]. rewrite IH. reflexivity.
  - destruct (user_ns k); [cbn [filter fst]; rewrite E|]; exact IH.
Qed.

Section RefineExt.
  Variable matchf : doc -> doc -> res bool.
  Variable applyf : doc -> doc -> doc -> bool -> list doc -> Z -> res (doc * list (string * value)).
  Variable extractf : doc -> res doc.
  Variable projectf : doc -> doc -> res doc.
  Variable now : Z.

  Local Notation step := (Driver.step matchf applyf extractf projectf now).
  Local Notation s_step := (SpecDb.s_step matchf applyf extractf projectf now).
  Local Notation xstep := (DriverExt.xstep matchf applyf extractf projectf now).
  Local Notation xrun := (DriverExt.xrun matchf applyf extractf projectf now).
  Local Notation xs_step := (SpecDbExt.xs_step matchf applyf extractf projectf now).
  Local Notation xs_run := (SpecDbExt.xs_run matchf applyf extractf projectf now).
  Local Notation create_many := (DriverExt.create_many matchf applyf extractf projectf now).
  Local Notation s_create_many := (SpecDbExt.s_create_many matchf applyf extractf projectf now).
  Local Notation R := (RefineStep.R matchf).

  Lemma create_many_refines specs : forall ds s h acc,
    R ds s ->
    let '(ds', r1) := create_many ds 0 h specs acc in
    let '(s', r2) := s_create_many s 0 h specs acc in
    r1 = r2 /\ R ds' s'.
  Proof.
    induction specs as [|sp t IH]; intros ds s h acc HR; cbn [DriverExt.create_many SpecDbExt.s_create_many].
    - split; [reflexivity|exact HR].
    - pose proof (step_refines matchf applyf extractf projectf now ds s (create_index_call 0 h sp) HR eq_refl) as H1.
      destruct (step ds (create_index_call 0 h sp)) as [ds1 r1].
      destruct (s_step s (create_index_call 0 h sp)) as [s1 r2].
      destruct H1 as [-> HR1].
      destruct r2; try (split; [reflexivity|exact HR1]).
      apply IH. exact HR1.
  Qed.

  Theorem xstep_refines ds s x :
    R ds s -> x_no_session x ->
    let '(ds', r1) := xstep ds x in
    let '(s', r2) := xs_step s x in
    r1 = r2 /\ R ds' s'.
  Proof.
    intros HR Hx. destruct x as [c|sid h|sid db q|sid q|sid h specs]; cbn [x_no_session] in Hx;
      cbn [DriverExt.xstep SpecDbExt.xs_step].
    - pose proof (step_refines matchf applyf extractf projectf now ds s c HR Hx) as H1.
      destruct (step ds c) as [ds1 r1]. destruct (s_step s c) as [s1 r2].
      destruct H1 as [-> HR1]. split; [reflexivity|exact HR1].
    - (* CreateCollection *)
      subst sid. destruct HR as [<- [Hok Htok]].
      rewrite (use_direct_0 ds _ Htok). cbv beta. unfold txn_create.
      destruct (guard_write h) as [e|] eqn:Hg.
      + destruct (guard_some h e Hg) as [-> Hv]. rewrite Hv. cbn [negb].
        split; [reflexivity|]. apply mk_R; auto.
      + pose proof (proj1 (guard_valid h) Hg) as Hv. rewrite Hv. cbn [negb].
        pose proof (valid_user h Hv) as Hu.
        change (ss_colls (abs ds)) with (abs_ns (cat_ns (ds_cat ds))).
        rewrite (sc_get_abs _ _ Hu).
        destruct (ns_get (cat_ns (ds_cat ds)) h) as [nc|] eqn:G; cbn [option_map].
        * split; [reflexivity|]. apply mk_R; auto.
        * split; [reflexivity|]. apply mk_R; cbn [cat_ns ss_colls ss_oid]; auto.
          -- rewrite (abs_ns_set _ _ _ Hu), abs_new_collection. reflexivity.
          -- apply ns_ok_set; auto. intros _.
             destruct (new_collection_inv matchf true) as [H1 [H2 H3]]. split; [|split]; auto.
    - (* ListCollections *)
      destruct Hx as [-> Hdb]. destruct HR as [<- Hinv].
      split; [|split; [reflexivity|exact Hinv]].
      unfold read_cat. change (routed ds 0) with (@None catalog).
      unfold txn_list_collections, s_list_collections.
      destruct (negb (valid_handle (db, ""%string) false)); [reflexivity|].
      change (ss_colls (abs ds)) with (abs_ns (cat_ns (ds_cat ds))).
      rewrite (abs_ns_db_keys db _ Hdb). reflexivity.
    - contradiction.
    - subst sid. apply create_many_refines. exact HR.
  Qed.

  Theorem xrun_refines xs : forall ds s,
    R ds s -> Forall x_no_session xs ->
    let '(ds', rs) := xrun ds xs in
    let '(s', rs') := xs_run s xs in
    rs = rs' /\ R ds' s'.
  Proof.
    induction xs as [|x t IH]; intros ds s HR Hall.
    - cbn [DriverExt.xrun SpecDbExt.xs_run]. split; [reflexivity|exact HR].
    - inversion Hall as [|? ? Hc Ht]; subst. cbn [DriverExt.xrun SpecDbExt.xs_run].
      pose proof (xstep_refines ds s x HR Hc) as H1.
      destruct (xstep ds x) as [ds1 r1]. destruct (xs_step s x) as [s1 r2].
      destruct H1 as [-> HR1].
      specialize (IH ds1 s1 HR1 Ht).
      destruct (xrun ds1 t) as [ds2 rs]. destruct (xs_run s1 t) as [s2 rs'].
      destruct IH as [-> HR2]. split; [reflexivity|exact HR2].
  Qed.

  (* C01 for histories with catalog-level calls: from the empty database the
     implementation model and the reference give the same replies, and the
     contents agree at the end (every prefix being a history: after every call) *)
  Theorem xrefines xs :
    Forall x_no_session xs ->
    let '(ds, rs) := xrun d_init xs in
    let '(s, rs') := xs_run s_init xs in
    rs = rs' /\ abs ds = s.
  Proof.
    intro Hall. pose proof (xrun_refines xs d_init s_init (R_init matchf) Hall) as H.
    destruct (xrun d_init xs) as [ds rs]. destruct (xs_run s_init xs) as [s rs'].
    destruct H as [H1 [H2 _]]. auto.
  Qed.
End RefineExt.
