(* ExpireExamples.v — C19 on concrete catalogs (vm_compute): non-vacuity of
   the hypotheses of ExpireProofs.v, the behaviour on every kind of value the
   property names, the exact cut-off, expireAfterSeconds 0, two TTL indexes
   and a dotted path; an index on a `$`-prefixed field is refused. *)
From Coq Require Import List ZArith Lia Bool String.
From Lungo.Model Require Import Txn Match Driver.
From Lungo.Proofs Require Import EntryLemmas IndexInv CollLists CollInv OplogProofs ExpireProofs.
Import ListNotations.
Open Scope Z_scope.
Local Open Scope list_scope.
Local Open Scope string_scope.

Definition ex_oid : value := VOid "000000000000".

(* insert documents with identities fresh, fresh + 1, ... *)
Fixpoint ins_all (c : coll) (fresh : Z) (l : list doc) : option coll :=
  match l with
  | [] => Some c
  | d :: t =>
      match coll_insert Match c fresh d ex_oid with
      | (c', inl _) => ins_all c' (fresh + 1) t
      | _ => None
      end
  end.

Lemma ins_all_inv l : forall c fresh c',
  coll_inv Match c -> has_id_index c -> ids_lt c fresh ->
  ins_all c fresh l = Some c' ->
  coll_inv Match c' /\ has_id_index c' /\ ids_lt c' (fresh + len l).
Proof.
  induction l as [|d t IH]; intros c fresh c' I H L E; simpl in E.
  - injection E as <-. unfold len. simpl. rewrite Z.add_0_r. auto.
  - destruct (coll_insert Match c fresh d ex_oid) as [c1 [r|e]] eqn:Ei; [|discriminate].
    destruct (coll_insert_inv Match c fresh _ _ _ _ I H L Ei) as [I1 [H1 L1]].
    specialize (IH c1 (fresh + 1) c' I1 H1 L1 E). rewrite len_cons.
    replace (fresh + (1 + len t)) with (fresh + 1 + len t) by lia. exact IH.
Qed.

(* a collection with the given secondary indexes (created first) and documents *)
Fixpoint with_indexes (c : coll) (cfs : list iconfig) : option coll :=
  match cfs with
  | [] => Some c
  | cf :: t =>
      match coll_create_index Match c "" cf with
      | (c', inl _) => with_indexes c' t
      | _ => None
      end
  end.

Lemma with_indexes_inv cfs : forall c c',
  coll_inv Match c -> has_id_index c -> ids_lt c 0 ->
  with_indexes c cfs = Some c' ->
  coll_inv Match c' /\ has_id_index c' /\ ids_lt c' 0.
Proof.
  induction cfs as [|cf t IH]; intros c c' I H L E; simpl in E.
  - injection E as <-. auto.
  - destruct (coll_create_index Match c "" cf) as [c1 [nm|e]] eqn:Ec; [|discriminate].
    destruct (coll_create_index_inv Match c 0 _ _ _ _ I H L Ec) as [I1 [H1 [L1 _]]].
    exact (IH c1 c' I1 H1 L1 E).
Qed.

Definition build_coll (cfs : list iconfig) (docs : list doc) : option coll :=
  match with_indexes (new_collection true) cfs with
  | Some c => ins_all c 0 docs
  | None => None
  end.

Lemma build_coll_inv cfs docs c : build_coll cfs docs = Some c -> coll_inv Match c.
Proof.
  unfold build_coll. destruct (with_indexes (new_collection true) cfs) as [c1|] eqn:E1; [|discriminate].
  intro E2. destruct (new_collection_inv Match true) as [I0 [L0 H0]].
  destruct (with_indexes_inv cfs _ _ I0 (H0 eq_refl) (L0 0) E1) as [I1 [H1 L1]].
  destruct (ins_all_inv docs _ _ _ I1 H1 L1 E2) as [I2 _]. exact I2.
Qed.

Definition or_empty (o : option coll) : coll :=
  match o with Some c => c | None => new_collection true end.

(* ------------------------------------------------------------------ *)
(* the main example: db.c has a TTL index {a: 1} (3600 s) next to the
   non-TTL index {k: 1}; db.d has only the non-TTL index {a: 1} *)

Definition hc : handle := ("db", "c").
Definition hd : handle := ("db", "d").

Definition cf_ttl_a : iconfig := mkConfig [("a", VInt32 1)] false None (expiry_ns (Some 3600)).
Definition cf_k : iconfig := mkConfig [("k", VInt32 1)] false None 0.
Definition cf_a : iconfig := mkConfig [("a", VInt32 1)] false None (expiry_ns None).

(* now = 100 000 000 ms; cut-off of the 3600 s index = 96 400 000 ms *)
Definition now0 : Z := 100000000.

Definition docs_c : list doc :=
  [ [("_id", VInt32 1); ("a", VDate 90000000)];                      (* an old date: expired *)
    [("_id", VInt32 2); ("a", VDate 99000000)];                      (* a new date *)
    [("_id", VInt32 3); ("a", VInt64 90000000)];                     (* a number that looks like an old date *)
    [("_id", VInt32 4); ("a", VString "1970-01-02T01:00:00Z")];      (* a string *)
    [("_id", VInt32 5); ("a", VNull)];                               (* null *)
    [("_id", VInt32 6); ("k", VInt32 1)];                            (* no such field *)
    [("_id", VInt32 7); ("a", VArr [VInt32 1; VDate 90000000])];     (* an array containing an old date: expired *)
    [("_id", VInt32 8); ("a", VArr [])];                             (* an empty array *)
    [("_id", VInt32 9); ("a", VTs 90000 1)];                         (* a timestamp *)
    [("_id", VInt32 10); ("a", VDate 96400000)];                     (* a date exactly at the cut-off: kept *)
    [("_id", VInt32 11); ("a", VArr [VArr [VDate 90000000]])];       (* an old date nested two arrays deep *)
    [("_id", VInt32 12); ("a", VDoc [("x", VDate 90000000)])] ].     (* an old date inside a sub-document *)

Definition docs_d : list doc :=
  [ [("_id", VInt32 1); ("a", VDate 90000000)];                      (* old dates, but no TTL index *)
    [("_id", VInt32 2); ("a", VArr [VDate 1; VDate 2])] ].

Definition cC : coll := Eval vm_compute in or_empty (build_coll [cf_ttl_a; cf_k] docs_c).
Definition cD : coll := Eval vm_compute in or_empty (build_coll [cf_a] docs_d).

Lemma cC_built : build_coll [cf_ttl_a; cf_k] docs_c = Some cC.
Proof. vm_compute. reflexivity. Qed.
Lemma cD_built : build_coll [cf_a] docs_d = Some cD.
Proof. vm_compute. reflexivity. Qed.

Definition cat0 : catalog := mkCat [(oplog_handle, new_collection false); (hc, cC); (hd, cD)] 7.
Definition g0 : gen := mkGen 100 5.

Lemma oplog_inv : coll_inv Match (new_collection false).
Proof. exact (proj1 (new_collection_inv Match false)). Qed.

(* deciding the hypotheses on a concrete three-namespace catalog *)
Lemma three_ns_hyps (h1 h2 : handle) (c1 c2 : coll) k :
  handle_eqb oplog_handle h1 = false -> handle_eqb oplog_handle h2 = false ->
  handle_eqb h1 h2 = false ->
  coll_inv Match c1 -> coll_inv Match c2 ->
  let c := mkCat [(oplog_handle, new_collection false); (h1, c1); (h2, c2)] k in
  cat_wf c /\ cat_colls_ok c /\ oplog_no_ttl c.
Proof.
  intros E1 E2 E3 I1 I2 c. apply handle_eqb_neq in E1, E2, E3. split; [|split].
  - unfold cat_wf, c. simpl. repeat constructor; simpl; intuition congruence.
  - intros h n. unfold c. simpl.
    destruct (handle_eqb oplog_handle h); [intro H; injection H as <-; exact oplog_inv|].
    destruct (handle_eqb h1 h); [intro H; injection H as <-; exact I1|].
    destruct (handle_eqb h2 h); [intro H; injection H as <-; exact I2|discriminate].
  - intros o. unfold c. simpl. intro H. injection H as <-. apply no_ttl_check. reflexivity.
Qed.


(* the hypotheses of txn_expire_exact hold of the example *)
Example ex_hypotheses : cat_wf cat0 /\ cat_colls_ok cat0 /\ oplog_no_ttl cat0.
Proof.
  exact (three_ns_hyps hc hd cC cD 7 eq_refl eq_refl eq_refl
           (build_coll_inv _ _ _ cC_built) (build_coll_inv _ _ _ cD_built)).
Qed.

Example ex_index_names :
  map fst (c_indexes cC) = ["_id_"; "a_1"; "k_1"] /\ map fst (c_indexes cD) = ["_id_"; "a_1"] /\
  ttl_specs now0 cC = [("a", 96400000)] /\ ttl_specs now0 cD = [].
Proof. vm_compute. auto. Qed.

(* the rule: exactly documents 1 and 7 of db.c are expired *)
Definition id_of (sd : sdoc) : value := Get (snd sd) "_id".

Example ex_rule :
  map id_of (removed now0 cC) = [VInt32 1; VInt32 7] /\
  map id_of (remaining now0 cC) =
    [VInt32 2; VInt32 3; VInt32 4; VInt32 5; VInt32 6; VInt32 8; VInt32 9; VInt32 10; VInt32 11; VInt32 12] /\
  removed now0 cD = [].
Proof. vm_compute. auto. Qed.

Definition ids_in (c : catalog) (h : handle) : list value :=
  match ns_get (cat_ns c) h with Some n => map id_of (c_docs n) | None => [] end.

Definition events_in (c : catalog) : list (value * value * value * value) :=
  map (fun sd => (Get (snd sd) "operationType", Get (snd sd) "ns", Get (snd sd) "documentKey",
                  Get (snd sd) "clusterTime")) (c_docs (oplog_of c)).

(* the pass: exactly the two expired documents disappear, db.d is the
   identical collection, two delete events are appended, the clock and the
   identity counter advance by two, no ObjectID is consumed *)
Example ex_pass :
  let '(c', g', r) := txn_expire Match cat0 g0 now0 in
  r = inl tt /\
  ids_in c' hc = [VInt32 2; VInt32 3; VInt32 4; VInt32 5; VInt32 6; VInt32 8; VInt32 9; VInt32 10;
                  VInt32 11; VInt32 12] /\
  ns_get (cat_ns c') hd = Some cD /\
  map fst (cat_ns c') = [oplog_handle; hc; hd] /\
  events_in c' =
    [(VString "delete", VDoc [("coll", VString "c"); ("db", VString "db")], VDoc [("_id", VInt32 1)], VTs 0 8);
     (VString "delete", VDoc [("coll", VString "c"); ("db", VString "db")], VDoc [("_id", VInt32 7)], VTs 0 9)] /\
  cat_clock c' = 9 /\ g' = mkGen 102 5.
Proof. vm_compute. repeat split; reflexivity. Qed.

(* the indexes of db.c hold exactly the remaining documents afterwards
   (entry counts: _id_ 10, a_1 10 — the empty array and missing field have
   one entry each —, k_1 10) *)
Example ex_pass_indexes :
  let '(c', _, _) := txn_expire Match cat0 g0 now0 in
  match ns_get (cat_ns c') hc with
  | Some n => map (fun ni => (fst ni, len (ix_entries (snd ni)))) (c_indexes n)
  | None => []
  end = [("_id_", 10); ("a_1", 10); ("k_1", 10)].
Proof. vm_compute. reflexivity. Qed.

(* one millisecond after the first moment at which nothing is expired yet:
   with now = 93 600 000 the cut-off is 90 000 000, the oldest date; the
   comparison is strict, so nothing expires and the catalog is returned
   unchanged *)
Example ex_noop : txn_expire Match cat0 g0 93600000 = (cat0, g0, inl tt).
Proof. vm_compute. reflexivity. Qed.

Example ex_noop_hypothesis :
  forall h n, ns_get (cat_ns cat0) h = Some n ->
    forall sd, In sd (c_docs n) -> ~ expired 93600000 n (snd sd).
Proof.
  intros h n Hg sd Hin. apply expiredb_false_iff.
  assert (D : forall n0, forallb (fun x : sdoc => negb (expiredb 93600000 n0 (snd x))) (c_docs n0) = true ->
                         forall x, In x (c_docs n0) -> expiredb 93600000 n0 (snd x) = false).
  { intros n0 H x Hx. rewrite forallb_forall in H. specialize (H x Hx).
    destruct (expiredb 93600000 n0 (snd x)); [discriminate|reflexivity]. }
  unfold cat0 in Hg. cbn [cat_ns ns_get] in Hg.
  destruct (handle_eqb oplog_handle h); [injection Hg as <-; destruct Hin|].
  destruct (handle_eqb hc h); [injection Hg as <-; apply D; [vm_compute; reflexivity|exact Hin]|].
  destruct (handle_eqb hd h); [|discriminate].
  injection Hg as <-. apply D; [vm_compute; reflexivity|exact Hin].
Qed.

(* ... and one millisecond later the two documents go *)
Example ex_one_ms_later :
  let '(c', _, _) := txn_expire Match cat0 g0 93600001 in len (ids_in c' hc) = 10.
Proof. vm_compute. reflexivity. Qed.

(* ------------------------------------------------------------------ *)
(* expireAfterSeconds 0, two TTL indexes on one collection, a dotted path *)

Definition he : handle := ("e", "c").
Definition cf_ttl_b0 : iconfig := mkConfig [("b", VInt32 (-1))] false None (expiry_ns (Some 0)).
Definition cf_ttl_st : iconfig := mkConfig [("s.t", VInt32 1)] false None (expiry_ns (Some 60)).

Definition docs_e : list doc :=
  [ [("_id", VInt32 1); ("b", VDate 99999999)];                                  (* before now: expired (0 s) *)
    [("_id", VInt32 2); ("b", VDate 100000000)];                                 (* exactly now: kept *)
    [("_id", VInt32 3); ("b", VDate 100000001); ("s", VDoc [("t", VDate 99939999)])];   (* s.t older than 60 s: expired *)
    [("_id", VInt32 4); ("s", VArr [VDoc [("t", VDate 99990000)]; VDoc [("t", VDate 1)]])]; (* through an array of sub-documents: expired *)
    [("_id", VInt32 5); ("s", VArr [VDoc [("t", VDate 99990000)]; VDoc [("u", VDate 1)]])]; (* only `u` is old: kept *)
    [("_id", VInt32 6); ("b", VInt64 1); ("s", VDoc [("t", VInt64 1)])] ].        (* numbers: kept *)

Definition cE : coll := Eval vm_compute in or_empty (build_coll [cf_ttl_b0; cf_ttl_st] docs_e).
Lemma cE_built : build_coll [cf_ttl_b0; cf_ttl_st] docs_e = Some cE.
Proof. vm_compute. reflexivity. Qed.

Definition cat1 : catalog := mkCat [(oplog_handle, new_collection false); (he, cE); (hd, cD)] 0.

Example ex_two_indexes_hypotheses :
  cat_wf cat1 /\ cat_colls_ok cat1 /\ oplog_no_ttl cat1.
Proof.
  exact (three_ns_hyps he hd cE cD 0 eq_refl eq_refl eq_refl
           (build_coll_inv _ _ _ cE_built) (build_coll_inv _ _ _ cD_built)).
Qed.

Example ex_zero_seconds_and_paths :
  ttl_specs now0 cE = [("b", 100000000); ("s.t", 99940000)] /\
  let '(c', g', r) := txn_expire Match cat1 g0 now0 in
  r = inl tt /\ ids_in c' he = [VInt32 2; VInt32 5; VInt32 6] /\
  map (fun e => snd (fst e)) (events_in c') =
    [VDoc [("_id", VInt32 1)]; VDoc [("_id", VInt32 3)]; VDoc [("_id", VInt32 4)]].
Proof. vm_compute. repeat split; reflexivity. Qed.

(* ------------------------------------------------------------------ *)
(* an index key with a field name that starts with `$` is refused (lungo
   8b15f6d, as MongoDB does) — it used to be accepted, and Expire then built
   {$or: [{"$x": {$lt: …}}]}, which Match rejects as an unknown top-level
   operator, so every pass failed *)

Definition cf_ttl_dollar : iconfig := mkConfig [("$x", VInt32 1)] false None (expiry_ns (Some 60)).
Definition cf_ttl_inner_dollar : iconfig := mkConfig [("a.$x", VInt32 1)] false None (expiry_ns (Some 60)).

Example ex_dollar_index_refused :
  snd (coll_create_index Match (new_collection true) "" cf_ttl_dollar) = inr EErr /\
  snd (coll_create_index Match (new_collection true) "" cf_ttl_inner_dollar) = inr EErr /\
  build_coll [cf_ttl_dollar] [[("_id", VInt32 1)]] = None.
Proof. vm_compute. auto. Qed.

Print Assumptions ex_hypotheses.
