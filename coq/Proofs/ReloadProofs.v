(* ReloadProofs.v — C06 across the two models: the file image of a catalog
   that satisfies the catalog invariant (CatInv.cat_inv: every reachable one)
   can be rebuilt by the REAL index builder, and the catalog rebuilt from the
   image is equivalent to the original: same handles, same documents in the
   same order, same index definitions, and index entry sets equal modulo the
   renumbering of the document identities. *)
From Coq Require Import List ZArith String Lia Bool.
From Lungo.Model Require Import File.
From Lungo.Model Require Import Driver Reload.
From Lungo.Proofs Require Import EntryLemmas CollLists IndexInv CollInv OplogProofs CatInv.
Import ListNotations.
Open Scope Z_scope.
Open Scope list_scope.

(* ------------------------------------------------------------------ *)
(* numbering *)

Lemma number_fst l : forall s, map fst (number s l) = zseq s (List.length l).
Proof. induction l as [|d t IH]; intro s; simpl; [reflexivity|]. rewrite IH. reflexivity. Qed.

Lemma number_snd l : forall s, map snd (number s l) = l.
Proof. induction l as [|d t IH]; intro s; simpl; [reflexivity|]. rewrite IH. reflexivity. Qed.

Lemma number_nodup s l : NoDup (map fst (number s l)).
Proof. rewrite number_fst. apply zseq_nodup. Qed.

Lemma number_range s l sd : In sd (number s l) -> s <= fst sd < s + len l.
Proof.
  intro H. apply (in_map fst) in H. rewrite number_fst in H. apply zseq_in in H.
  unfold len. exact H.
Qed.

Lemma config_of_image cf : config_of (image_cfg cf) = cf.
Proof. destruct cf; reflexivity. Qed.

(* ------------------------------------------------------------------ *)
(* two document lists that differ only in the identities *)

Lemma snd_transfer (l l' : list sdoc) (id' : did) (d : doc) :
  map snd l = map snd l' -> In (id', d) l' -> exists id, In (id, d) l.
Proof.
  intros E H. apply (in_map snd) in H. rewrite <- E in H. cbn [snd] in H.
  apply in_map_iff in H. destruct H as [[id e] [He Hin]]. cbn [snd] in He. subst e. eauto.
Qed.

Lemma pair_transfer (l : list sdoc) : forall (l' : list sdoc) (i1 : did) (d1 : doc) (i2 : did) (d2 : doc),
  map snd l = map snd l' -> NoDup (map fst l) ->
  In (i1, d1) l' -> In (i2, d2) l' -> i1 <> i2 ->
  exists o1 o2, In (o1, d1) l /\ In (o2, d2) l /\ o1 <> o2.
Proof.
  induction l as [|[o e] t IH]; intros [|[o' e'] t'] i1 d1 i2 d2 E Hnd H1 H2 Hne;
    try discriminate; try contradiction.
  cbn [map fst snd] in E, Hnd. inversion E as [[He Et]]. subst e'.
  inversion Hnd as [|? ? Hn Hnd']; subst.
  destruct H1 as [H1|H1], H2 as [H2|H2].
  - inversion H1; inversion H2; subst. contradiction.
  - inversion H1; subst. destruct (snd_transfer t t' i2 d2 Et H2) as [o2 Ho2].
    exists o, o2. split; [left; reflexivity|]. split; [right; exact Ho2|].
    intro X. subst o2. apply Hn. apply (in_map fst) in Ho2. exact Ho2.
  - inversion H2; subst. destruct (snd_transfer t t' i1 d1 Et H1) as [o1 Ho1].
    exists o1, o. split; [right; exact Ho1|]. split; [left; reflexivity|].
    intro X. subst o1. apply Hn. apply (in_map fst) in Ho1. exact Ho1.
  - destruct (IH t' i1 d1 i2 d2 Et Hnd' H1 H2 Hne) as [o1 [o2 [A [B C]]]].
    exists o1, o2. split; [right; exact A|]. split; [right; exact B|exact C].
Qed.

(* the renumbering: identity at position k of the original |-> identity at
   position k of the rebuilt list *)
Definition renum (docs docs' : list sdoc) : list (did * did) :=
  combine (map fst docs) (map fst docs').

Lemma renum_forth (l : list sdoc) : forall (l' : list sdoc) (id' : did) (d : doc),
  map snd l = map snd l' -> In (id', d) l' ->
  exists id, In (id, id') (renum l l') /\ In (id, d) l.
Proof.
  induction l as [|[o e] t IH]; intros [|[o' e'] t'] id' d E H;
    try discriminate; try contradiction.
  cbn [map fst snd] in E. inversion E as [[He Et]]. subst e'.
  destruct H as [H|H].
  - inversion H; subst. exists o. split; left; reflexivity.
  - destruct (IH t' id' d Et H) as [id [A B]]. exists id. split; right; assumption.
Qed.

Lemma renum_back (l : list sdoc) : forall (l' : list sdoc) (id id' : did) (d : doc),
  map snd l = map snd l' -> NoDup (map fst l) ->
  In (id, id') (renum l l') -> In (id, d) l -> In (id', d) l'.
Proof.
  induction l as [|[o e] t IH]; intros [|[o' e'] t'] id id' d E Hnd Hr Hin;
    try discriminate; try contradiction.
  cbn [map fst snd] in E, Hnd. inversion E as [[He Et]]. subst e'.
  inversion Hnd as [|? ? Hn Hnd']; subst.
  unfold renum in Hr. cbn [map fst combine] in Hr.
  destruct Hr as [Hr|Hr], Hin as [Hin|Hin].
  - inversion Hr; inversion Hin; subst. left. reflexivity.
  - inversion Hr; subst. exfalso. apply Hn. apply (in_map fst) in Hin. exact Hin.
  - inversion Hin; subst. exfalso. apply Hn. apply in_combine_l in Hr. exact Hr.
  - right. eapply IH; eauto.
Qed.

Lemma renum_fst (l l' : list sdoc) : List.length l = List.length l' -> map fst (renum l l') = map fst l.
Proof.
  intro H. unfold renum.
  assert (G : forall (a b : list did), List.length a = List.length b -> map fst (combine a b) = a).
  { induction a as [|x a IH]; intros [|y b] E; try discriminate; [reflexivity|].
    simpl. f_equal. apply IH. simpl in E. lia. }
  apply G. rewrite !map_length. exact H.
Qed.

Lemma renum_snd (l l' : list sdoc) : List.length l = List.length l' -> map snd (renum l l') = map fst l'.
Proof.
  intro H. unfold renum.
  assert (G : forall (a b : list did), List.length a = List.length b -> map snd (combine a b) = b).
  { induction a as [|x a IH]; intros [|y b] E; try discriminate; [reflexivity|].
    simpl. f_equal. apply IH. simpl in E. lia. }
  apply G. rewrite !map_length. exact H.
Qed.

(* ------------------------------------------------------------------ *)
(* the equivalence: what "the same database" means for two catalogs whose
   document identities differ *)

(* es' is the image of es under the renumbering *)
Definition entries_renumbered (rho : list (did * did)) (es es' : list (list value * did)) : Prop :=
  forall t id', mem es' t id' <-> exists id, In (id, id') rho /\ mem es t id.

Definition index_equiv (rho : list (did * did)) (a b : string * index) : Prop :=
  fst a = fst b /\ ix_config (snd a) = ix_config (snd b) /\ ix_cols (snd a) = ix_cols (snd b) /\
  nodup_entries (ix_entries (snd a)) /\ nodup_entries (ix_entries (snd b)) /\
  entries_renumbered rho (ix_entries (snd a)) (ix_entries (snd b)).

(* same documents in the same order; the renumbering is a bijection between
   the identities; same index names / definitions in the same order; entry
   sets equal modulo the renumbering *)
Definition coll_equiv (c c' : Collection.coll) : Prop :=
  map snd (Collection.c_docs c) = map snd (Collection.c_docs c') /\
  NoDup (map fst (Collection.c_docs c)) /\ NoDup (map fst (Collection.c_docs c')) /\
  Forall2 (index_equiv (renum (Collection.c_docs c) (Collection.c_docs c')))
          (Collection.c_indexes c) (Collection.c_indexes c').

Definition cat_equiv (c c' : Txn.catalog) : Prop :=
  cat_clock c = cat_clock c' /\
  Forall2 (fun a b => fst a = fst b /\ coll_equiv (snd a) (snd b)) (cat_ns c) (cat_ns c').

Section ReloadProofs.
  Set Default Proof Using "Type".
  Variable matchf : doc -> doc -> res bool.

  Local Notation coll_inv := (CollInv.coll_inv matchf).
  Local Notation cat_inv := (CatInv.cat_inv matchf).
  Local Notation ix_ok := (IndexInv.ix_ok matchf).
  Local Notation ix_good := (IndexInv.ix_good matchf).
  Local Notation rebuild := (Reload.rebuild matchf).
  Local Notation build_ok_real := (Reload.build_ok_real matchf).
  Local Notation load_indexes := (Reload.load_indexes matchf).
  Local Notation load_coll := (Reload.load_coll matchf).
  Local Notation load_nss := (Reload.load_nss matchf).
  Local Notation load := (Reload.load matchf).

  (* ---------------------------------------------------------------- *)
  (* one index: the real builder succeeds over the stored documents, whatever
     identities they are given, and produces a coherent index *)

  Lemma rebuild_good c n ix docs' :
    coll_inv c -> In (n, ix) (Collection.c_indexes c) ->
    map snd (Collection.c_docs c) = map snd docs' -> NoDup (map fst docs') ->
    exists ix', rebuild (image_cfg (ix_config ix)) docs' = Some ix' /\
                ix_good (fun x => In x docs') ix' /\ same_def ix ix'.
  Proof.
    intros [Hnd [_ G]] Hin E Hnd'. rewrite Forall_forall in G.
    destruct (G _ Hin) as [Hok [Hu Hw]]. cbn [snd] in Hok, Hu, Hw.
    set (ix0 := mkIndex (ix_config ix) (ix_cols ix) []).
    assert (Hs0 : same_def ix ix0) by (split; reflexivity).
    assert (G0 : ix_good (fun _ => False) ix0).
    { apply ix_good_empty; [|reflexivity]. apply (ix_wf_same ix ix0 Hs0 Hw). }
    assert (F0 : forall sd, In sd docs' -> fresh_id (fun _ : sdoc => False) (fst sd))
      by (intros sd _ d []).
    destruct (build_succeeds matchf (fun _ => False) ix0 docs' G0 F0 Hnd') as [ix' Hb].
    - intros [id' d] Hsd. cbn [snd]. apply (covers_ok_same matchf ix ix0 _ Hs0).
      destruct (snd_transfer _ _ _ _ E Hsd) as [id Hid].
      destruct Hok as [_ [Hc _]]. apply (Hc (id, d)). exact Hid.
    - apply (ix_unique_ok_same matchf _ ix ix0 Hs0).
      intros Hq id1 d1 id2 d2 [[]|P1] [[]|P2] Hne.
      destruct (pair_transfer _ _ _ _ _ _ E Hnd P1 P2 Hne) as [o1 [o2 [A [B C]]]].
      exact (Hu Hq o1 d1 o2 d2 A B C).
    - destruct (build_good matchf _ ix0 docs' ix' Hb G0 F0 Hnd') as [Hg Hs'].
      exists ix'. split; [|split].
      + unfold Reload.rebuild. rewrite config_of_image. unfold ix_wf in Hw. rewrite Hw.
        fold ix0. rewrite Hb. reflexivity.
      + apply (ix_good_ext matchf (fun x => False \/ In x docs')); [|exact Hg].
        intro x. tauto.
      + exact (same_def_trans ix ix0 ix' Hs0 Hs').
  Qed.

  (* the entry set of a coherent index over renumbered documents is the image
     of the original entry set under the renumbering *)
  Lemma entries_renumbered_ok (docs docs' : list sdoc) ix ix' :
    ix_ok (fun x => In x docs) ix -> ix_ok (fun x => In x docs') ix' -> same_def ix ix' ->
    map snd docs = map snd docs' -> NoDup (map fst docs) ->
    entries_renumbered (renum docs docs') (ix_entries ix) (ix_entries ix').
  Proof.
    intros [_ [_ Hm]] [_ [_ Hm']] Hs E Hnd t id'. rewrite Hm'. split.
    - intros [d [Hin Hk]]. destruct (renum_forth _ _ _ _ E Hin) as [id [A B]].
      exists id. split; [exact A|]. apply Hm. exists d. split; [exact B|].
      apply (keyed_same matchf ix ix' d t Hs). exact Hk.
    - intros [id [A B]]. apply Hm in B. destruct B as [d [Hin Hk]].
      exists d. split; [eapply renum_back; eauto|].
      apply (keyed_same matchf ix ix' d t Hs). exact Hk.
  Qed.

  (* what load_indexes guarantees for each index *)
  Definition loaded_index (docs docs' : list sdoc) (a b : string * index) : Prop :=
    fst a = fst b /\ same_def (snd a) (snd b) /\ ix_good (fun x => In x docs') (snd b).

  Lemma load_indexes_good c docs' :
    coll_inv c -> map snd (Collection.c_docs c) = map snd docs' -> NoDup (map fst docs') ->
    forall ixs, incl ixs (Collection.c_indexes c) ->
      exists ixs', load_indexes (map image_index ixs) docs' = Some ixs' /\
                   Forall2 (loaded_index (Collection.c_docs c) docs') ixs ixs'.
  Proof.
    intros Hinv E Hnd'. induction ixs as [|[n ix] t IH]; intro Hincl.
    - exists []. split; [reflexivity|constructor].
    - destruct (rebuild_good c n ix docs' Hinv (Hincl _ (or_introl eq_refl)) E Hnd')
        as [ix' [Hr [Hg Hs]]].
      destruct IH as [t' [Ht F]]; [intros x Hx; apply Hincl; right; exact Hx|].
      exists ((n, ix') :: t'). split.
      + cbn [map image_index fst snd Reload.load_indexes]. rewrite Hr.
        change (Reload.load_indexes matchf (map image_index t) docs') with (load_indexes (map image_index t) docs').
        rewrite Ht. reflexivity.
      + constructor; [|exact F]. split; [reflexivity|]. split; assumption.
  Qed.

  Lemma loaded_same_shape docs docs' l l' :
    Forall2 (loaded_index docs docs') l l' -> same_shape l l'.
  Proof.
    intro F. induction F as [|a b l l' [H1 [H2 _]] _ IH]; constructor; auto.
  Qed.

  Lemma loaded_good docs docs' l l' :
    Forall2 (loaded_index docs docs') l l' -> ixs_good matchf (fun x => In x docs') l'.
  Proof.
    intro F. induction F as [|a b l l' [_ [_ H3]] _ IH]; constructor; auto.
  Qed.

  Lemma loaded_equiv (docs docs' : list sdoc) l l' :
    Forall2 (loaded_index docs docs') l l' ->
    Forall (fun ni => ix_ok (fun x => In x docs) (snd ni)) l ->
    map snd docs = map snd docs' -> NoDup (map fst docs) ->
    Forall2 (index_equiv (renum docs docs')) l l'.
  Proof.
    intros F Hall E Hnd. induction F as [|a b l l' [H1 [H2 [H3 _]]] _ IH]; [constructor|].
    inversion Hall as [|? ? Ha Hall']; subst. constructor; [|apply IH; exact Hall'].
    split; [exact H1|]. pose proof H2 as [Hc Hcol]. split; [exact Hc|]. split; [exact Hcol|].
    split; [destruct Ha as [X _]; exact X|]. split; [destruct H3 as [X _]; exact X|].
    apply entries_renumbered_ok; auto.
  Qed.

  (* ---------------------------------------------------------------- *)
  (* one collection *)

  Theorem load_coll_good c s :
    coll_inv c ->
    exists c', load_coll s (image_coll c) = Some c' /\
      coll_inv c' /\ coll_equiv c c' /\
      Collection.c_docs c' = number s (map snd (Collection.c_docs c)) /\
      same_shape (Collection.c_indexes c) (Collection.c_indexes c') /\
      ids_lt c' (s + len (Collection.c_docs c)).
  Proof.
    intro Hinv. set (docs' := number s (map snd (Collection.c_docs c))).
    assert (E : map snd (Collection.c_docs c) = map snd docs') by (unfold docs'; rewrite number_snd; reflexivity).
    assert (Hnd' : NoDup (map fst docs')) by apply number_nodup.
    destruct (load_indexes_good c docs' Hinv E Hnd' (Collection.c_indexes c) (incl_refl _)) as [ixs' [Hl F]].
    exists (mkColl docs' ixs').
    pose proof (loaded_same_shape _ _ _ _ F) as S.
    pose proof Hinv as [Hnd [Hnn G]].
    split; [|split; [|split; [|split; [|split]]]].
    - unfold Reload.load_coll. cbn [File.c_docs File.c_indexes image_coll]. fold docs'.
      change (Reload.load_indexes matchf) with load_indexes. rewrite Hl. reflexivity.
    - split; [exact Hnd'|]. split.
      + cbn [Collection.c_indexes]. rewrite <- (same_shape_names _ _ S). exact Hnn.
      + cbn [Collection.c_indexes Collection.c_docs]. apply (loaded_good _ _ _ _ F).
    - split; [exact E|]. split; [exact Hnd|]. split; [exact Hnd'|].
      cbn [Collection.c_docs Collection.c_indexes].
      apply loaded_equiv; auto.
      eapply Forall_impl; [|exact G]. intros a [Ha _]. exact Ha.
    - reflexivity.
    - exact S.
    - intros sd Hsd. cbn [Collection.c_docs] in Hsd. apply number_range in Hsd.
      unfold len in Hsd |- *. rewrite map_length in Hsd. destruct Hsd as [_ Hsd]. exact Hsd.
  Qed.

  (* the File.v-side hypothesis `indexes_build`, for the real builder *)
  Lemma indexes_build_coll c :
    coll_inv c ->
    forallb (fun ni => build_ok_real (snd ni) (File.c_docs (image_coll c)))
            (File.c_indexes (image_coll c)) = true.
  Proof.
    intro Hinv. apply forallb_forall. intros [n ic] Hin.
    cbn [image_coll File.c_indexes File.c_docs] in *. apply in_map_iff in Hin.
    destruct Hin as [[m ix] [He Hin]]. unfold image_index in He. cbn [fst snd] in He.
    inversion He; subst. cbn [snd]. unfold Reload.build_ok_real.
    destruct (rebuild_good c _ ix (number 1 (map snd (Collection.c_docs c))) Hinv Hin)
      as [ix' [Hr _]].
    - rewrite number_snd. reflexivity.
    - apply number_nodup.
    - change (Reload.rebuild matchf) with rebuild. rewrite Hr. reflexivity.
  Qed.

  (* ---------------------------------------------------------------- *)
  (* the catalog *)

  Lemma ns_ok_coll_inv n h nc : CatInv.ns_ok matchf n h nc -> coll_inv nc.
  Proof.
    intros [H1 H2]. destruct (handle_eq_dec h oplog_handle) as [E|E].
    - apply (oplog_coll_inv matchf n). apply H1. exact E.
    - destruct (H2 E) as [H _]. exact H.
  Qed.

  Theorem indexes_build_image c n :
    cat_inv c n -> indexes_build build_ok_real (image c) = true.
  Proof.
    intros [H1 _]. unfold indexes_build, image. apply forallb_forall.
    intros [h fc] Hin. apply in_map_iff in Hin. destruct Hin as [[k nc] [He Hin]].
    unfold image_ns in He. cbn [fst snd] in He. inversion He; subst. cbn [snd].
    apply indexes_build_coll. eapply ns_ok_coll_inv. apply H1. exact Hin.
  Qed.

  Lemma doc_count_nonneg l : 0 <= doc_count l.
  Proof. induction l as [|[h fc] t IH]; cbn [doc_count]; unfold len; lia. Qed.

  Lemma image_coll_len nc : len (File.c_docs (image_coll nc)) = len (Collection.c_docs nc).
  Proof. cbn [image_coll File.c_docs]. unfold len. rewrite map_length. reflexivity. Qed.

  Lemma clocks_ok_snd (l : list sdoc) : forall (l' : list sdoc) lo hi,
    map snd l = map snd l' -> clocks_ok l lo hi -> clocks_ok l' lo hi.
  Proof.
    induction l as [|[i d] t IH]; intros [|[i' d'] t'] lo hi E H; try discriminate; [exact H|].
    cbn [map snd] in E. inversion E; subst. cbn [clocks_ok snd] in *.
    destruct H as [K1 K2]. split; [exact K1|]. eapply IH; eauto.
  Qed.

  (* what load_nss guarantees for each namespace *)
  Definition loaded_ns (m : Z) (a b : Txn.handle * Collection.coll) : Prop :=
    fst a = fst b /\ coll_equiv (snd a) (snd b) /\ CatInv.ns_ok matchf m (fst b) (snd b).

  Lemma load_nss_good l : forall s n,
    (forall h nc, In (h, nc) l -> CatInv.ns_ok matchf n h nc) ->
    exists l', load_nss s (map image_ns l) = Some l' /\
               Forall2 (loaded_ns (s + doc_count (map image_ns l))) l l'.
  Proof.
    induction l as [|[h nc] t IH]; intros s n Hall.
    - exists []. split; [reflexivity|constructor].
    - pose proof (Hall h nc (or_introl eq_refl)) as Hns.
      destruct (load_coll_good nc s (ns_ok_coll_inv _ _ _ Hns)) as [nc' [Hl [Hinv' [Heq [Hd [Hsh Hlt]]]]]].
      destruct (IH (s + len (Collection.c_docs nc)) n) as [t' [Ht F]];
        [intros k x Hx; apply (Hall k x); right; exact Hx|].
      exists ((h, nc') :: t'). cbn [map image_ns fst snd Reload.load_nss doc_count].
      change (Reload.load_coll matchf) with load_coll. rewrite Hl.
      change (Reload.load_nss matchf) with load_nss. rewrite image_coll_len, Ht.
      split; [reflexivity|].
      pose proof (doc_count_nonneg (map image_ns t)) as Hc.
      constructor.
      + split; [reflexivity|]. split; [exact Heq|]. cbn [fst snd].
        assert (Hlt' : ids_lt nc' (s + (len (Collection.c_docs nc) + doc_count (map image_ns t))))
          by (eapply ids_lt_mono; [exact Hlt|lia]).
        destruct Hns as [N1 N2]. split; intro Eh.
        * destruct (N1 Eh) as [Hi _]. split; [|split; [destruct Hinv' as [X _]; exact X|exact Hlt']].
          rewrite Hi in Hsh. inversion Hsh. reflexivity.
        * destruct (N2 Eh) as [_ [Hid _]]. split; [exact Hinv'|]. split; [|exact Hlt'].
          destruct nc' as [dd ii]. apply (has_id_shape nc dd ii Hid Hsh).
      + replace (s + (len (Collection.c_docs nc) + doc_count (map image_ns t)))
          with (s + len (Collection.c_docs nc) + doc_count (map image_ns t)) by lia.
        exact F.
  Qed.

  Lemma loaded_keys m l l' : Forall2 (loaded_ns m) l l' -> map fst l = map fst l'.
  Proof. intro F. induction F as [|a b l l' [H _] _ IH]; simpl; congruence. Qed.

  Lemma loaded_get m l l' h x :
    Forall2 (loaded_ns m) l l' -> ns_get l h = Some x ->
    exists x', ns_get l' h = Some x' /\ coll_equiv x x'.
  Proof.
    intro F. induction F as [|[k a] [k' b] l l' [H1 [H2 _]] _ IH]; cbn [ns_get]; [discriminate|].
    cbn [fst snd] in H1, H2. subst k'. destruct (handle_eqb k h).
    - intro H. inversion H; subst. eauto.
    - exact IH.
  Qed.

  (* the catalog rebuilt from the image of a good catalog exists, is good
     again (for the identities load hands out) and is equivalent to it *)
  Theorem load_image c n :
    cat_inv c n ->
    exists c', load (cat_clock c) (image c) = Some c' /\
               cat_equiv c c' /\ cat_inv c' (next_did (image c)).
  Proof.
    intros [H1 [[o Ho] [H3 H4]]].
    destruct (load_nss_good (cat_ns c) first_did n H1) as [l' [Hl F]].
    exists (mkCat l' (cat_clock c)). split; [|split].
    - unfold Reload.load, image. change (Reload.load_nss matchf) with load_nss.
      rewrite Hl. reflexivity.
    - split; [reflexivity|]. cbn [cat_ns].
      clear - F. induction F as [|a b l l' [A [B _]] _ IH]; constructor; auto.
    - fold (image c) in F. fold (next_did (image c)) in F.
      destruct (loaded_get _ _ _ _ _ F Ho) as [o' [Ho' [Eo _]]].
      split; [|split; [|split]]; cbn [cat_ns cat_clock].
      + intros h nc' Hin. clear - F Hin.
        induction F as [|a b l l' [_ [_ X]] _ IH]; [destruct Hin|].
        destruct Hin as [Hb|Hin]; [subst b; exact X|apply IH; exact Hin].
      + eauto.
      + rewrite <- (loaded_keys _ _ _ F). exact H3.
      + unfold cat_ok, oplog_of in *. cbn [cat_ns cat_clock]. rewrite Ho in H4. rewrite Ho'.
        eapply clocks_ok_snd; eauto.
  Qed.

End ReloadProofs.

Print Assumptions load_coll_good.
Print Assumptions indexes_build_image.
Print Assumptions load_image.
