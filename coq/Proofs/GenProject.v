(* GenProject.v — obligations tying the model of mongokit/project.go to the
   definitions regenerated from /repo/mongokit/project.go: the operator table
   of init() and the arguments of the two Process calls. *)
From Coq Require Import List String.
From Lungo.Model Require Import Project.
From Lungo.Gen Require Import ProjectOps.
Import ListNotations.
Open Scope string_scope.

(* the table of Model/Project.v (projection_operators), by Go function name *)
Definition model_operator_table : list (string * string) :=
  [ ("", "projectCondition")
  ; ("$slice", "projectSlice")
  ; ("$elemMatch", "projectElemMatch") ].

Theorem gen_projection_operators_ok : gen_projection_operators = model_operator_table.
Proof. reflexivity. Qed.

(* the model's table has exactly these keys, in this order, bound to the
   model functions of the same name *)
Theorem model_operator_table_ok : forall matchf,
  projection_operators matchf =
  [ ("", project_condition); ("$slice", project_slice); ("$elemMatch", project_elem_match matchf) ] /\
  map fst (projection_operators matchf) = map fst model_operator_table.
Proof. intro matchf. split; reflexivity. Qed.

(* Project: Process(Context{Expression: table, Value: &state}, doc, projection, "", true);
   projectElemMatch: Process(query context, {item: element}, query, "item", false) —
   the shapes assumed by project_process and elem_query *)
Theorem gen_project_process_calls_ok :
  gen_project_process_calls =
  [ ("Project", ["Context{Expression:ProjectionExpressionOperators,Value:&state}"; "doc"; "*projection"; """"""; "true"])
  ; ("projectElemMatch", ["queryCtx"; "&virtual"; "query"; """item"""; "false"]) ].
Proof. reflexivity. Qed.
