(* OplogProofs.v — the change log of the transaction model (C08): event ids
   (clocks) strictly increase along the log and never exceed the catalog's
   clock, for every transaction method; no-op and failing methods append
   nothing. *)
From Coq Require Import List ZArith Lia Bool.
From Lungo.Model Require Import Txn.
Import ListNotations.
Open Scope Z_scope.
Open Scope list_scope.

Definition ev_clock (d : doc) : Z :=
  match lookup d "clusterTime" with Some (VTs _ k) => k | _ => 0 end.

(* clocks of the documents strictly increase, all in (lo, hi] *)
Fixpoint clocks_ok (l : list sdoc) (lo hi : Z) : Prop :=
  match l with
  | [] => lo <= hi
  | sd :: t => lo < ev_clock (snd sd) /\ clocks_ok t (ev_clock (snd sd)) hi
  end.

Lemma clocks_ok_le l : forall lo hi, clocks_ok l lo hi -> lo <= hi.
Proof.
  induction l as [|sd t IH]; simpl; intros lo hi H; [exact H|].
  destruct H as [H1 H2]. apply IH in H2. lia.
Qed.

Lemma clocks_ok_weaken_lo l : forall lo lo' hi, lo' <= lo -> clocks_ok l lo hi -> clocks_ok l lo' hi.
Proof.
  destruct l as [|sd t]; simpl; intros lo lo' hi L H; [lia|].
  destruct H as [H1 H2]. split; [lia|exact H2].
Qed.

Lemma clocks_ok_app l : forall lo hi sd,
  clocks_ok l lo hi -> hi < ev_clock (snd sd) ->
  clocks_ok (l ++ [sd]) lo (ev_clock (snd sd)).
Proof.
  induction l as [|x t IH]; simpl; intros lo hi sd H L.
  - split; lia.
  - destruct H as [H1 H2]. split; [exact H1|]. eapply IH; eauto.
Qed.

Lemma event_doc_clock k h op d chs : ev_clock (event_doc k h op d chs) = k.
Proof. reflexivity. Qed.

(* the working state of a transaction method *)
Definition w_ok (w : wstate) : Prop := clocks_ok (c_docs (w_oplog w)) 0 (w_clock w).

Lemma append_event_ok ol clock g h op d chs ol' k g' :
  clocks_ok (c_docs ol) 0 clock ->
  append_event ol clock g h op d chs = (ol', k, g') ->
  clocks_ok (c_docs ol') 0 k /\ k = clock + 1.
Proof.
  intros H E. unfold append_event in E. inversion E; subst. simpl. split; [|reflexivity].
  replace (clock + 1) with (ev_clock (snd (g_did g, event_doc (clock + 1) h op d chs))) at 2
    by apply event_doc_clock.
  eapply clocks_ok_app; [exact H|]. simpl. rewrite event_doc_clock. lia.
Qed.

Section Oplog.
  Variable matchf : doc -> doc -> res bool.
  Variable applyf : doc -> doc -> doc -> bool -> list doc -> Z -> res (doc * list (string * value)).
  Variable extractf : doc -> res doc.

  Lemma append_all_ok l : forall w h op chs,
    w_ok w -> w_ok (append_all w h op l chs) /\ w_clock w <= w_clock (append_all w h op l chs).
  Proof.
    induction l as [|sd t IH]; intros w h op chs H; cbn [append_all].
    - split; [exact H|lia].
    - destruct (append_event (w_oplog w) (w_clock w) (w_gen w) h op (Some (snd sd))
                  (match chs with Some (c :: _) => Some c | _ => None end)) as [[ol k] g] eqn:E.
      destruct (append_event_ok _ _ _ _ _ _ _ _ _ _ H E) as [Hok Hk].
      destruct (IH (mkW (w_ns w) ol k g) h op (match chs with Some (_ :: r) => Some r | _ => chs end) Hok) as [A B].
      split; [exact A|]. simpl in B. lia.
  Qed.

  Lemma append_all_ok' l w w1 h op chs :
    w_oplog w1 = w_oplog w -> w_clock w1 = w_clock w -> w_ok w ->
    w_ok (append_all w1 h op l chs) /\ w_clock w <= w_clock (append_all w1 h op l chs).
  Proof.
    intros E1 E2 H. rewrite <- E2. apply append_all_ok. unfold w_ok. rewrite E1, E2. exact H.
  Qed.

  (* every per-operation step keeps the log well-formed and only appends *)
  Definition w_step_ok (w : wstate) (r : wres) : Prop :=
    w_ok (fst r) /\ w_clock w <= w_clock (fst r).

  Ltac keep H := split; [exact H|cbn [w_clock]; lia].

  Lemma t_insert_ok w h d : w_ok w -> w_step_ok w (t_insert matchf w h d).
  Proof.
    intro H. unfold t_insert, w_step_ok.
    destruct (coll_insert matchf (w_ns w) (g_did (w_gen w)) d (gen_oid (g_oid (w_gen w)))) as [ns' [r|e]]; cbn [fst].
    - apply append_all_ok'; auto.
    - keep H.
  Qed.

  Lemma t_delete_ok w h q s sk li : w_ok w -> w_step_ok w (t_delete matchf w h q s sk li).
  Proof.
    intro H. unfold t_delete, w_step_ok.
    destruct (coll_delete matchf (w_ns w) q s sk li) as [ns' [r|e]]; cbn [fst].
    - apply append_all_ok'; auto.
    - keep H.
  Qed.

  Lemma t_replace_ok w h q rp s up now : w_ok w -> w_step_ok w (t_replace matchf applyf extractf w h q rp s up now).
  Proof.
    intro H. unfold t_replace, w_step_ok.
    destruct (coll_replace matchf (w_ns w) (g_did (w_gen w)) q rp s) as [ns' [r|e]]; cbn [fst]; [|keep H].
    destruct (r_matched r).
    - destruct up; cbn [fst]; [|keep H].
      destruct (coll_upsert matchf applyf extractf ns' _ q (Some rp) None [] _ now) as [ns'' [r2|e]]; cbn [fst]; [|keep H].
      destruct (r_upserted r2); cbn [fst]; [|keep H].
      apply append_all_ok'; auto.
    - cbn [fst]. apply append_all_ok'; auto.
  Qed.

  Lemma t_update_ok w h q u s up sk li afs now :
    w_ok w -> w_step_ok w (t_update matchf applyf extractf w h q u s up sk li afs now).
  Proof.
    intro H. unfold t_update, w_step_ok.
    destruct (coll_update matchf applyf (w_ns w) (g_did (w_gen w)) q u s sk li afs now) as [ns' [r|e]]; cbn [fst]; [|keep H].
    destruct (r_matched r).
    - destruct up; cbn [fst]; [|keep H].
      destruct (coll_upsert matchf applyf extractf ns' _ q None (Some u) afs _ now) as [ns'' [r2|e]]; cbn [fst]; [|keep H].
      destruct (r_upserted r2); cbn [fst]; [|keep H].
      apply append_all_ok'; auto.
    - cbn [fst]. apply append_all_ok'; auto.
  Qed.

  (* ---------------------------------------------------------------- *)
  (* catalogs *)

  Definition cat_ok (c : catalog) : Prop := clocks_ok (c_docs (oplog_of c)) 0 (cat_clock c).

  Lemma open_w_ok c g h : cat_ok c -> w_ok (open_w c g h).
  Proof. intro H. exact H. Qed.

  Lemma handle_eqb_refl h : handle_eqb h h = true.
  Proof. unfold handle_eqb. rewrite !String.eqb_refl. reflexivity. Qed.

  Lemma ns_get_set_same l h c : ns_get (ns_set l h c) h = Some c.
  Proof.
    induction l as [|[k d] t IH]; simpl.
    - rewrite handle_eqb_refl. reflexivity.
    - destruct (handle_eqb k h) eqn:E; simpl.
      + rewrite handle_eqb_refl. reflexivity.
      + rewrite E. exact IH.
  Qed.

  Lemma close_w_ok c h w : w_ok w -> cat_ok (close_w c h w).
  Proof.
    intro H. unfold cat_ok, close_w, oplog_of. simpl. rewrite ns_get_set_same. exact H.
  Qed.

  Lemma finish_ok c g h ch r : cat_ok c -> w_ok (fst r) -> cat_ok (fst (fst (finish c g h ch r))).
  Proof.
    intros Hc Hw. unfold finish. destruct r as [w [tr|e]]; simpl in *.
    - destruct (ch tr); simpl; [apply close_w_ok; exact Hw|exact Hc].
    - exact Hc.
  Qed.

  Theorem txn_replace_ok c g h q s rp up now :
    cat_ok c -> cat_ok (fst (fst (txn_replace matchf applyf extractf c g h q s rp up now))).
  Proof.
    intro H. unfold txn_replace. destruct (guard_write h); [exact H|].
    destruct (ns_get (cat_ns c) h).
    - apply finish_ok; [exact H|]. apply t_replace_ok. exact H.
    - destruct up; [|exact H]. apply finish_ok; [exact H|]. apply t_replace_ok. exact H.
  Qed.

  Theorem txn_update_ok c g h q s u sk li up afs now :
    cat_ok c -> cat_ok (fst (fst (txn_update matchf applyf extractf c g h q s u sk li up afs now))).
  Proof.
    intro H. unfold txn_update. destruct (guard_write h); [exact H|].
    destruct (ns_get (cat_ns c) h).
    - apply finish_ok; [exact H|]. apply t_update_ok. exact H.
    - destruct up; [|exact H]. apply finish_ok; [exact H|]. apply t_update_ok. exact H.
  Qed.

  Theorem txn_delete_ok c g h q s sk li :
    cat_ok c -> cat_ok (fst (fst (txn_delete matchf c g h q s sk li))).
  Proof.
    intro H. unfold txn_delete. destruct (guard_write h); [exact H|].
    destruct (ns_get (cat_ns c) h); [|exact H].
    apply finish_ok; [exact H|]. apply t_delete_ok. exact H.
  Qed.

  Lemma insert_loop_ok l : forall c g h o acc err,
    cat_ok c -> cat_ok (fst (fst (fst (insert_loop matchf c g h l o acc err)))).
  Proof.
    induction l as [|d t IH]; intros c g h o acc err H; simpl; [exact H|].
    pose proof (t_insert_ok (open_w c g h) h d (open_w_ok c g h H)) as [A _].
    destruct (t_insert matchf (open_w c g h) h d) as [w [r|e]]; simpl in A.
    - apply IH. apply close_w_ok. exact A.
    - destruct o; [exact H|]. apply IH. exact H.
  Qed.

  Theorem txn_insert_ok c g h l o :
    cat_ok c -> cat_ok (fst (fst (txn_insert matchf c g h l o))).
  Proof.
    intro H. unfold txn_insert. destruct (guard_write h); [exact H|].
    pose proof (insert_loop_ok l c g h o [] None H) as L.
    destruct (insert_loop matchf c g h l o [] None) as [[[c' g'] acc] err]. simpl in L.
    destruct acc; simpl; [exact H|exact L].
  Qed.

  Lemma bulk_loop_ok ops : forall c g h o now acc n,
    cat_ok c -> cat_ok (fst (fst (fst (bulk_loop matchf applyf extractf c g h ops o now acc n)))).
  Proof.
    induction ops as [|op t IH]; intros c g h o now acc n H; simpl; [exact H|].
    assert (A : w_ok (fst (match op with
                           | BInsert d => t_insert matchf (open_w c g h) h d
                           | BReplace f rp s u => t_replace matchf applyf extractf (open_w c g h) h f rp s u now
                           | BUpdate f up s u sk li afs => t_update matchf applyf extractf (open_w c g h) h f up s u sk li afs now
                           | BDelete f s sk li => t_delete matchf (open_w c g h) h f s sk li
                           end))).
    { destruct op; [apply t_insert_ok|apply t_replace_ok|apply t_update_ok|apply t_delete_ok]; exact H. }
    destruct (match op with
              | BInsert d => _ | BReplace f rp s u => _
              | BUpdate f up s u sk li afs => _ | BDelete f s sk li => _ end) as [w [tr|e]]; simpl in A.
    - apply IH. apply close_w_ok. exact A.
    - destruct o; [exact H|]. apply IH. exact H.
  Qed.

  Theorem txn_bulk_ok c g h ops o now :
    cat_ok c -> cat_ok (fst (fst (txn_bulk matchf applyf extractf c g h ops o now))).
  Proof.
    intro H. unfold txn_bulk. destruct (guard_write h); [exact H|].
    pose proof (bulk_loop_ok ops c g h o now [] 0 H) as L.
    destruct (bulk_loop matchf applyf extractf c g h ops o now [] 0) as [[[c' g'] rs] n]. simpl in L.
    destruct (0 <? n); simpl; [exact L|exact H].
  Qed.

  (* ---------------------------------------------------------------- *)
  (* no-op and failing methods append nothing (they return the catalog) *)

  Theorem update_noop_logs_nothing c g h q s u sk li up afs now c' g' tr :
    txn_update matchf applyf extractf c g h q s u sk li up afs now = (c', g', inl tr) ->
    t_modified tr = [] -> t_upserted tr = None -> c' = c.
  Proof.
    unfold txn_update. destruct (guard_write h); [intro E; inversion E|].
    assert (F : forall r, finish c g h changed_mod r = (c', g', inl tr) ->
                          t_modified tr = [] -> t_upserted tr = None -> c' = c).
    { intros [w [tr'|e]] E M U; unfold finish in E; [|inversion E].
      destruct (changed_mod tr') eqn:CM; inversion E; subst; [|reflexivity].
      unfold changed_mod in CM. rewrite M, U in CM. simpl in CM. discriminate. }
    destruct (ns_get (cat_ns c) h); [apply F|].
    destruct up; [apply F|]. intro E; inversion E; reflexivity.
  Qed.

  Theorem delete_noop_logs_nothing c g h q s sk li c' g' tr :
    txn_delete matchf c g h q s sk li = (c', g', inl tr) -> t_matched tr = [] -> c' = c.
  Proof.
    unfold txn_delete. destruct (guard_write h); [intro E; inversion E|].
    destruct (ns_get (cat_ns c) h); [|intro E; inversion E; reflexivity].
    destruct (t_delete matchf (open_w c g h) h q s sk li) as [w [tr'|e]]; unfold finish; [|intro E; inversion E].
    destruct (0 <? len (t_matched tr')) eqn:L; intro E; inversion E; subst; [|reflexivity].
    intro M. rewrite M in L. simpl in L. discriminate.
  Qed.
End Oplog.

Lemma new_catalog_ok : cat_ok new_catalog.
Proof. unfold cat_ok. simpl. lia. Qed.

Print Assumptions txn_update_ok.
Print Assumptions txn_bulk_ok.
Print Assumptions update_noop_logs_nothing.
