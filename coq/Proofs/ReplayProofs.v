(* ReplayProofs.v — C08 over EVERY history of driver calls (Model/Driver.v):
   the committed change log only grows by appending (until retention trims a
   prefix), event clocks strictly increase, and replaying the events recorded
   after any point of a history onto the contents at that point reproduces
   the contents at any later point — through writes, failed calls, index
   management, drops, session transactions (start / commit / abort / end),
   TTL expiry and oplog trims that do not remove events younger than the
   starting point.  Definitions of `contents`, `replay`, `events`, `cat_step`
   are in ReplayTxn.v. *)
From Coq Require Import List ZArith Lia Bool.
From Lungo.Model Require Import Driver.
From Lungo.Proofs Require Import CollInv TxnProofs OplogProofs DriverProofs CatInv HistoryInv
     ReplayBase ReplayColl ReplayTxn.
Import ListNotations.
Open Scope Z_scope.
Open Scope list_scope.

(* ------------------------------------------------------------------ *)
(* clocks of a well-formed log *)

Lemma clocks_ok_bounds l : forall lo hi sd,
  clocks_ok l lo hi -> In sd l -> lo < ev_clock (snd sd) <= hi.
Proof.
  induction l as [|x t IH]; intros lo hi sd H Hin; [destruct Hin|].
  cbn [clocks_ok app] in H. destruct H as [H1 H2]. destruct Hin as [<-|Hin].
  - apply clocks_ok_le in H2. lia.
  - specialize (IH _ _ _ H2 Hin). lia.
Qed.

Lemma clocks_ok_nth l : forall lo hi i j a b,
  clocks_ok l lo hi -> (i < j)%nat ->
  nth_error l i = Some a -> nth_error l j = Some b -> ev_clock (snd a) < ev_clock (snd b).
Proof.
  induction l as [|x t IH]; intros lo hi i j a b H Hij Ha Hb; [destruct i; discriminate|].
  cbn [clocks_ok app] in H. destruct H as [H1 H2]. destruct j as [|j]; [lia|]. simpl in Hb.
  destruct i as [|i].
  - simpl in Ha. inversion Ha; subst. apply nth_error_In in Hb.
    pose proof (clocks_ok_bounds _ _ _ _ H2 Hb). lia.
  - simpl in Ha. apply (IH (ev_clock (snd x)) hi i j a b H2); [lia|exact Ha|exact Hb].
Qed.

Lemma clocks_ok_split l1 : forall l2 lo hi a b,
  clocks_ok (l1 ++ l2) lo hi -> In a l1 -> In b l2 -> ev_clock (snd a) < ev_clock (snd b).
Proof.
  induction l1 as [|x t IH]; intros l2 lo hi a b H Ha Hb; [destruct Ha|].
  cbn [clocks_ok app] in H. destruct H as [H1 H2]. destruct Ha as [<-|Ha].
  - assert (Hin : In b (t ++ l2)) by (apply in_or_app; right; exact Hb).
    pose proof (clocks_ok_bounds _ _ _ _ H2 Hin). lia.
  - eapply IH; eauto.
Qed.

(* the events with clock greater than k0 *)
Definition events_after (k0 : Z) (c : catalog) : list doc :=
  filter (fun e => k0 <? ev_clock e) (events c).

Lemma filter_all {A} (p : A -> bool) l : Forall (fun x => p x = true) l -> filter p l = l.
Proof. induction 1 as [|x t H F IH]; simpl; [reflexivity|]. rewrite H, IH. reflexivity. Qed.

Lemma filter_none {A} (p : A -> bool) l : Forall (fun x => p x = false) l -> filter p l = [].
Proof. induction 1 as [|x t H F IH]; simpl; [reflexivity|]. rewrite H, IH. reflexivity. Qed.

Lemma filter_app' {A} (p : A -> bool) l1 l2 : filter p (l1 ++ l2) = filter p l1 ++ filter p l2.
Proof. induction l1 as [|x t IH]; simpl; [reflexivity|]. destruct (p x); simpl; rewrite IH; reflexivity. Qed.

Lemma events_after_clock c : cat_ok c -> events_after (cat_clock c) c = [].
Proof.
  intro H. unfold events_after, events. apply filter_none. apply Forall_forall.
  intros e Hin. apply in_map_iff in Hin. destruct Hin as [sd [<- Hsd]].
  pose proof (clocks_ok_bounds _ _ _ _ H Hsd). apply Z.ltb_ge. lia.
Qed.

(* replaying, from contents c, what the log of c' holds beyond clock k0 *)
Definition since (k0 : Z) (c c' : catalog) : Prop :=
  exists evs, events_after k0 c' = events_after k0 c ++ evs /\
              contents_eq (replay evs (contents c)) (contents c').

Lemma since_refl k0 c : since k0 c c.
Proof. exists []. rewrite app_nil_r. split; [reflexivity|]. apply contents_eq_refl. Qed.

Lemma since_trans k0 a b c : since k0 a b -> since k0 b c -> since k0 a c.
Proof.
  intros [e1 [A1 R1]] [e2 [A2 R2]]. exists (e1 ++ e2). split.
  - rewrite A2, A1, app_assoc. reflexivity.
  - rewrite replay_app. eapply contents_eq_trans; [|exact R2]. apply replay_ext. exact R1.
Qed.

Lemma cat_step_since k0 c c' : cat_step c c' -> k0 <= cat_clock c -> since k0 c c'.
Proof.
  intros [evs [A [F [L R]]]] K. exists evs. split; [|exact R].
  unfold events_after. rewrite A, filter_app'. f_equal. apply filter_all.
  eapply Forall_impl; [|exact F]. cbv beta. intros e H. apply Z.ltb_lt. lia.
Qed.

Section ReplayProofs.
  Set Default Proof Using "Type".
  Variable matchf : doc -> doc -> res bool.
  Variable applyf : doc -> doc -> doc -> bool -> list doc -> Z -> res (doc * list (string * value)).
  Variable extractf : doc -> res doc.
  Variable projectf : doc -> doc -> res doc.
  Variable now : Z.

  Local Notation step := (Driver.step matchf applyf extractf projectf now).
  Local Notation run := (Driver.run matchf applyf extractf projectf now).
  Local Notation cat_inv := (CatInv.cat_inv matchf).
  Local Notation ds_inv := (HistoryInv.ds_inv matchf).

  (* a trim that only removes events not younger than k0 *)
  Lemma trim_since k0 c n k :
    cat_inv c n ->
    (forall e, In e (events c) -> ~ In e (events (trim_oplog c k)) -> ev_clock e <= k0) ->
    since k0 c (trim_oplog c k).
  Proof.
    intros Hc Hold. exists []. rewrite app_nil_r. split.
    2:{ cbn [replay fold_left]. rewrite trim_keeps_contents. apply contents_eq_refl. }
    destruct Hc as [_ [_ [_ Hk]]]. unfold cat_ok in Hk.
    assert (Es : events (trim_oplog c k) = map snd (drop k (c_docs (oplog_of c)))).
    { unfold events at 1. unfold oplog_of, trim_oplog. cbn [cat_ns]. rewrite ns_get_set_same. reflexivity. }
    destruct (drop_suffix (c_docs (oplog_of c)) k) as [pre Hp].
    unfold events_after. rewrite Es. unfold events. rewrite Hp at 2. rewrite map_app, filter_app'.
    rewrite (filter_none _ (map snd pre)); [reflexivity|].
    apply Forall_forall. intros e Hin. apply Z.ltb_ge. apply Hold.
    - unfold events. rewrite Hp, map_app. apply in_or_app. left. exact Hin.
    - rewrite Es. intro Hin2. apply in_map_iff in Hin. destruct Hin as [a [<- Ha]].
      apply in_map_iff in Hin2. destruct Hin2 as [b [Hb Hb2]].
      rewrite Hp in Hk. pose proof (clocks_ok_split _ _ _ _ _ _ Hk Ha Hb2) as Lt.
      rewrite Hb in Lt. lia.
  Qed.

  (* ---------------------------------------------------------------- *)
  (* the history invariant of the log: every open session transaction
     extends the committed catalog; at most one transaction is open *)

  Definition ds_rep (ds : dstate) : Prop :=
    NoDup (map fst (ds_sessions ds)) /\
    (forall k1 s1 k2 s2, In (k1, s1) (ds_sessions ds) -> In (k2, s2) (ds_sessions ds) ->
                         s_txn s1 <> None -> s_txn s2 <> None -> k1 = k2) /\
    (forall sid s tc, In (sid, s) (ds_sessions ds) -> s_txn s = Some tc ->
                      cat_step (ds_cat ds) tc).

  Lemma sess_set_keys l sid s k : In k (map fst (sess_set l sid s)) -> k = sid \/ In k (map fst l).
  Proof.
    intro H. apply in_map_iff in H. destruct H as [[k' x] [Hk Hin]]. simpl in Hk. subst k'.
    destruct (sess_set_in _ _ _ _ _ Hin) as [[-> _]|H1]; [left; reflexivity|].
    right. apply in_map_iff. exists (k, x). auto.
  Qed.

  Lemma sess_set_nodup l sid s : NoDup (map fst l) -> NoDup (map fst (sess_set l sid s)).
  Proof.
    induction l as [|[k0 x] t IH]; simpl; intro Hnd.
    - constructor; [intros []|constructor].
    - inversion Hnd as [|y ys Hy Hnd']; subst.
      destruct (k0 =? sid) eqn:E; simpl.
      + apply Z.eqb_eq in E. subst k0. constructor; auto.
      + apply Z.eqb_neq in E. constructor; [|apply IH; exact Hnd'].
        intro Hin. destruct (sess_set_keys _ _ _ _ Hin) as [H1|H1]; [contradiction|]. apply Hy. exact H1.
  Qed.

  (* with distinct keys, sess_set really replaces the entry of sid *)
  Lemma sess_set_in_nodup l sid s k s' :
    NoDup (map fst l) -> In (k, s') (sess_set l sid s) ->
    (k = sid /\ s' = s) \/ (k <> sid /\ In (k, s') l).
  Proof.
    induction l as [|[k0 x] t IH]; simpl; intros Hnd Hin.
    - destruct Hin as [H|[]]. inversion H. left. auto.
    - inversion Hnd as [|y ys Hy Hnd']; subst.
      destruct (k0 =? sid) eqn:E; simpl in Hin.
      + apply Z.eqb_eq in E. subst k0. destruct Hin as [H|H]; [inversion H; left; auto|].
        right. split; [|right; exact H]. intros ->. apply Hy. apply in_map_iff. exists (sid, s'). auto.
      + apply Z.eqb_neq in E. destruct Hin as [H|H].
        * inversion H; subst. right. split; [exact E|left; reflexivity].
        * destruct (IH Hnd' H) as [H1|[H1 H2]]; [left; exact H1|right; split; [exact H1|right; exact H2]].
  Qed.

  Lemma no_open ds k s : token_held ds = false -> In (k, s) (ds_sessions ds) -> s_txn s = None.
  Proof.
    unfold token_held. intros H Hin. destruct (s_txn s) eqn:E; [|reflexivity].
    assert (existsb (fun ks : Z * session => match s_txn (snd ks) with Some _ => true | None => false end)
                    (ds_sessions ds) = true).
    { apply existsb_exists. exists (k, s). split; [exact Hin|]. cbn [snd]. rewrite E. reflexivity. }
    congruence.
  Qed.

  Lemma routed_in ds sid tc :
    routed ds sid = Some tc -> exists s, In (sid, s) (ds_sessions ds) /\ s_txn s = Some tc.
  Proof.
    unfold routed. destruct (sid <=? 0); [discriminate|].
    destruct (sess_get (ds_sessions ds) sid) as [s|] eqn:E; [|discriminate].
    intro H. exists s. split; [apply sess_get_in; exact E|exact H].
  Qed.

  (* when session sid holds the open transaction, every other session is idle *)
  Lemma others_closed ds sid s0 k s1 :
    ds_rep ds -> In (sid, s0) (ds_sessions ds) -> s_txn s0 <> None ->
    In (k, s1) (ds_sessions ds) -> k <> sid -> s_txn s1 = None.
  Proof.
    intros [_ [H _]] H0 Ho H1 N. destruct (s_txn s1) eqn:E; [|reflexivity].
    exfalso. apply N. eapply H; eauto. congruence.
  Qed.

  (* replacing the entry of sid when every other session is idle *)
  Lemma ds_rep_set_only ds c' g' sid s :
    ds_rep ds ->
    (forall k s1, In (k, s1) (ds_sessions ds) -> k <> sid -> s_txn s1 = None) ->
    (forall tc, s_txn s = Some tc -> cat_step c' tc) ->
    ds_rep (mkD c' g' (sess_set (ds_sessions ds) sid s)).
  Proof.
    intros [Hnd _] Hcl Hs. split; [|split]; cbn [ds_sessions ds_cat].
    - apply sess_set_nodup. exact Hnd.
    - intros k1 s1 k2 s2 H1 H2 O1 O2.
      destruct (sess_set_in_nodup _ _ _ _ _ Hnd H1) as [[-> _]|[N1 I1]];
        destruct (sess_set_in_nodup _ _ _ _ _ Hnd H2) as [[-> _]|[N2 I2]]; auto.
      + exfalso. apply O2. eapply Hcl; eauto.
      + exfalso. apply O1. eapply Hcl; eauto.
      + exfalso. apply O1. eapply Hcl; eauto.
    - intros k s1 tc H1 Ht. destruct (sess_set_in_nodup _ _ _ _ _ Hnd H1) as [[_ ->]|[N1 I1]].
      + apply Hs. exact Ht.
      + rewrite (Hcl _ _ I1 N1) in Ht. discriminate.
  Qed.

  (* closing the session of sid, committed catalog unchanged *)
  Lemma ds_rep_close ds g' sid s :
    ds_rep ds -> s_txn s = None ->
    ds_rep (mkD (ds_cat ds) g' (sess_set (ds_sessions ds) sid s)).
  Proof.
    intros [Hnd [Hone Hext]] Hs. split; [|split]; cbn [ds_sessions ds_cat].
    - apply sess_set_nodup. exact Hnd.
    - intros k1 s1 k2 s2 H1 H2 O1 O2.
      destruct (sess_set_in_nodup _ _ _ _ _ Hnd H1) as [[_ ->]|[N1 I1]]; [contradiction|].
      destruct (sess_set_in_nodup _ _ _ _ _ Hnd H2) as [[_ ->]|[N2 I2]]; [contradiction|].
      eapply Hone; eauto.
    - intros k s1 tc H1 Ht. destruct (sess_set_in_nodup _ _ _ _ _ Hnd H1) as [[_ ->]|[N1 I1]].
      + rewrite Hs in Ht. discriminate.
      + eapply Hext; eauto.
  Qed.

  (* a new committed catalog while no transaction is open *)
  Lemma ds_rep_idle ds c' g' :
    ds_rep ds -> token_held ds = false -> ds_rep (mkD c' g' (ds_sessions ds)).
  Proof.
    intros [Hnd [Hone _]] T. split; [|split]; cbn [ds_sessions ds_cat]; auto.
    intros k s tc Hin Ht. rewrite (no_open ds k s T Hin) in Ht. discriminate.
  Qed.

  Lemma ds_rep_gen ds g' : ds_rep ds -> ds_rep (mkD (ds_cat ds) g' (ds_sessions ds)).
  Proof. intros H. exact H. Qed.

  (* ---------------------------------------------------------------- *)
  (* useTransaction *)

  Definition fn_step {A} (fn : catalog -> gen -> catalog * gen * (A + ekind)) (g : gen) : Prop :=
    forall c c' g' r, cat_inv c (g_did g) -> fn c g = (c', g', r) -> cat_step c c'.

  Lemma use_write_rep {A} ds sid (fn : catalog -> gen -> catalog * gen * (A + ekind)) :
    ds_inv ds -> ds_rep ds -> fn_step fn (ds_gen ds) ->
    ds_rep (fst (use_write ds sid fn)) /\
    cat_step (ds_cat ds) (ds_cat (fst (use_write ds sid fn))).
  Proof.
    intros Hd Hr F. unfold use_write. destruct (routed ds sid) as [tc|] eqn:R.
    - pose proof (routed_inv matchf ds sid tc Hd R) as Ht.
      destruct (routed_in ds sid tc R) as [s0 [Hin Hs0]].
      destruct (fn tc (ds_gen ds)) as [[tc' g'] r] eqn:E. cbn [fst ds_cat].
      split; [|apply cat_step_refl].
      apply ds_rep_set_only; auto.
      + intros k s1 H1 N. apply (others_closed ds sid s0 k s1 Hr Hin); auto. rewrite Hs0. discriminate.
      + cbn [s_txn]. intros tc0 H. inversion H; subst.
        eapply cat_step_trans; [|eapply F; eauto]. destruct Hr as [_ [_ Hext]]. eapply Hext; eauto.
    - destruct (token_held ds) eqn:T; [split; [exact Hr|apply cat_step_refl]|].
      destruct (fn (ds_cat ds) (ds_gen ds)) as [[c' g'] r] eqn:E.
      pose proof (F _ _ _ _ (proj1 Hd) E) as S.
      destruct r; cbn [fst ds_cat].
      + split; [apply ds_rep_idle; auto|exact S].
      + split; [exact Hr|apply cat_step_refl].
  Qed.

  Lemma use_direct_rep {A} ds sid (fn : catalog -> gen -> catalog * gen * (A + ekind)) :
    ds_inv ds -> ds_rep ds -> fn_step fn (ds_gen ds) ->
    ds_rep (fst (use_direct ds sid fn)) /\
    cat_step (ds_cat ds) (ds_cat (fst (use_direct ds sid fn))).
  Proof.
    intros Hd Hr F. unfold use_direct.
    destruct (routed ds sid) as [tc|]; [split; [exact Hr|apply cat_step_refl]|].
    destruct (token_held ds) eqn:T; [split; [exact Hr|apply cat_step_refl]|].
    destruct (fn (ds_cat ds) (ds_gen ds)) as [[c' g'] r] eqn:E.
    pose proof (F _ _ _ _ (proj1 Hd) E) as S.
    destruct r; cbn [fst ds_cat].
    - split; [apply ds_rep_idle; auto|exact S].
    - split; [exact Hr|apply cat_step_refl].
  Qed.

  Lemma fn_step_project proj after (fn : catalog -> gen -> catalog * gen * (tresult + ekind)) g :
    fn_step fn g -> fn_step (fun cat g0 => project_in_txn projectf proj after cat (fn cat g0)) g.
  Proof.
    intros F c c' g' r Hc. cbv beta.
    destruct (fn c g) as [[c1 g1] r1] eqn:E. intro H.
    apply project_in_txn_same in H. destruct H as [[->| ->] _]; [eapply F; eauto|apply cat_step_refl].
  Qed.

  Lemma fn_step_nogen {A} (f : catalog -> catalog * (A + ekind)) g :
    (forall c c' r, cat_inv c (g_did g) -> f c = (c', r) -> cat_step c c') ->
    fn_step (fun cat g0 => let '(c', r) := f cat in (c', g0, r)) g.
  Proof.
    intros F c c' g' r Hc. cbv beta. destruct (f c) as [c1 r1] eqn:E.
    intro H; inversion H; subst. eapply F; eauto.
  Qed.

  (* ---------------------------------------------------------------- *)
  (* one call *)

  (* every call keeps the log invariant; every call except the oplog trim
     extends the committed log by events that replay to its effect *)
  Theorem step_rep ds c :
    ds_inv ds -> ds_rep ds ->
    ds_rep (fst (step ds c)) /\
    ((forall m, c <> CTrim m) -> cat_step (ds_cat ds) (ds_cat (fst (step ds c)))).
  Proof.
    intros Hd Hr.
    assert (Same : ds_rep ds /\ ((forall m, c <> CTrim m) -> cat_step (ds_cat ds) (ds_cat ds)))
      by (split; [exact Hr|intros _; apply cat_step_refl]).
    assert (Lift : forall ds', ds_rep ds' /\ cat_step (ds_cat ds) (ds_cat ds') ->
                   ds_rep ds' /\ ((forall m, c <> CTrim m) -> cat_step (ds_cat ds) (ds_cat ds')))
      by (intros ds' [A B]; split; auto).
    destruct c; cbn [Driver.step]; try exact Same.
    - (* insertOne *)
      rewrite fst_let. apply Lift. apply use_write_rep; auto.
      intros c c' g' r Hc. apply (txn_insert_replay matchf). exact Hc.
    - (* insertMany *)
      rewrite fst_let. apply Lift. apply use_write_rep; auto.
      intros c c' g' r Hc. apply (txn_insert_replay matchf). exact Hc.
    - (* update *)
      rewrite fst_let. apply Lift. apply use_write_rep; auto.
      intros c c' g' r Hc. apply (txn_update_replay matchf applyf extractf). exact Hc.
    - (* replace *)
      destruct (first_key_dollar repl); [exact Same|].
      rewrite fst_let. apply Lift. apply use_write_rep; auto.
      intros c c' g' r Hc. apply (txn_replace_replay matchf applyf extractf). exact Hc.
    - (* delete *)
      rewrite fst_let. apply Lift. apply use_write_rep; auto.
      intros c c' g' r Hc. apply (txn_delete_replay matchf). exact Hc.
    - (* findOneAndUpdate *)
      rewrite fst_let. apply Lift. apply use_write_rep; auto.
      apply (fn_step_project proj after
               (fun cat g => txn_update matchf applyf extractf cat g h q sort u 0 1 upsert afs now)).
      intros c c' g' r Hc. apply (txn_update_replay matchf applyf extractf). exact Hc.
    - (* findOneAndReplace *)
      destruct (first_key_dollar repl); [exact Same|].
      rewrite fst_let. apply Lift. apply use_write_rep; auto.
      apply (fn_step_project proj after
               (fun cat g => txn_replace matchf applyf extractf cat g h q sort repl upsert now)).
      intros c c' g' r Hc. apply (txn_replace_replay matchf applyf extractf). exact Hc.
    - (* findOneAndDelete *)
      rewrite fst_let. apply Lift. apply use_write_rep; auto.
      apply (fn_step_project proj false (fun cat g => txn_delete matchf cat g h q sort 0 1)).
      intros c c' g' r Hc. apply (txn_delete_replay matchf). exact Hc.
    - (* bulk *)
      destruct (existsb _ ops); [exact Same|].
      rewrite fst_let. apply Lift. apply use_write_rep; auto.
      intros c c' g' r Hc. apply (txn_bulk_replay matchf applyf extractf). exact Hc.
    - (* createIndex *)
      rewrite fst_let. apply Lift. apply use_direct_rep; auto.
      apply (fn_step_nogen (fun cat => txn_create_index matchf cat h name
                                         (mkConfig key unique partial (expiry_ns expire_s)))).
      intros c c' r Hc. eapply txn_create_index_replay. exact Hc.
    - (* dropIndex *)
      rewrite fst_let. apply Lift. apply use_direct_rep; auto.
      apply (fn_step_nogen (fun cat => txn_drop_index cat h name)).
      intros c c' r Hc. eapply txn_drop_index_replay. exact Hc.
    - (* dropAllIndexes *)
      rewrite fst_let. apply Lift. apply use_direct_rep; auto.
      apply (fn_step_nogen (fun cat => txn_drop_index cat h "")).
      intros c c' r Hc. eapply txn_drop_index_replay. exact Hc.
    - (* dropCollection *)
      rewrite fst_let. apply Lift. apply use_direct_rep; auto.
      intros c c' g' r Hc. eapply txn_drop_replay. exact Hc.
    - (* dropDatabase *)
      rewrite fst_let. apply Lift. apply use_direct_rep; auto.
      intros c c' g' r Hc. eapply txn_drop_replay. exact Hc.
    - (* start *)
      assert (S : token_held ds = false ->
                  ds_rep (mkD (ds_cat ds) (ds_gen ds)
                    (sess_set (ds_sessions ds) sid (mkSess (Some (ds_cat ds)) false))) /\
                  ((forall m, CStart sid <> CTrim m) -> cat_step (ds_cat ds) (ds_cat ds))).
      { intro T. split; [|intros _; apply cat_step_refl]. apply ds_rep_set_only; auto.
        - intros k s1 H1 _. eapply no_open; eauto.
        - cbn [s_txn]. intros tc H. inversion H; subst. apply cat_step_refl. }
      destruct (sess_get (ds_sessions ds) sid) as [[[t|] [|]]|]; try exact Same;
        destruct (token_held ds); cbn [fst]; auto.
    - (* commit *)
      destruct (sess_get (ds_sessions ds) sid) as [[[tc|] [|]]|] eqn:E; try exact Same.
      cbn [fst ds_cat]. apply sess_get_in in E. apply Lift. split.
      + apply ds_rep_set_only; auto.
        * intros k s1 H1 N. apply (others_closed ds sid _ k s1 Hr E); auto. cbn [s_txn]. discriminate.
        * cbn [s_txn]. intros tc0 H. discriminate.
      + cbn [ds_cat]. destruct Hr as [_ [_ Hext]]. eapply Hext; eauto.
    - (* abort *)
      destruct (sess_get (ds_sessions ds) sid) as [[t [|]]|]; try exact Same; cbn [fst];
        (apply Lift; split; [apply ds_rep_close; auto|apply cat_step_refl]).
    - (* end session *)
      cbn [fst]. apply Lift. split; [apply ds_rep_close; auto|apply cat_step_refl].
    - (* trim *)
      destruct (token_held ds) eqn:T; [exact Same|].
      destruct (0 <? _); [|exact Same]. cbn [fst].
      split; [apply ds_rep_idle; auto|]. intro N. exfalso. eapply N. reflexivity.
    - (* expire *)
      destruct (token_held ds) eqn:T; [exact Same|].
      destruct (txn_expire matchf (ds_cat ds) (ds_gen ds) now_ms) as [[c' g'] r] eqn:E.
      pose proof (txn_expire_replay matchf _ _ _ _ _ _ (proj1 Hd) E) as S.
      destruct r; cbn [fst ds_cat].
      + split; [apply ds_rep_idle; auto|intros _; exact S].
      + split; [exact Hr|intros _; apply cat_step_refl].
  Qed.

  Theorem step_replay ds c :
    ds_inv ds -> ds_rep ds -> (forall m, c <> CTrim m) ->
    cat_step (ds_cat ds) (ds_cat (fst (step ds c))).
  Proof. intros Hd Hr N. apply (step_rep ds c Hd Hr). exact N. Qed.

  (* the trim call: nothing, or a prefix of the committed log is removed;
     the contents never change *)
  Theorem step_trim ds m :
    ds_cat (fst (step ds (CTrim m))) = ds_cat ds \/
    exists k, ds_cat (fst (step ds (CTrim m))) = trim_oplog (ds_cat ds) k.
  Proof.
    cbn [Driver.step]. destruct (token_held ds); [left; reflexivity|].
    destruct (0 <? _); [|left; reflexivity]. right. eexists. reflexivity.
  Qed.

  Theorem d_init_rep : ds_rep d_init.
  Proof.
    split; [|split]; cbn [d_init ds_sessions].
    - constructor.
    - intros k1 s1 k2 s2 [].
    - intros sid s tc [].
  Qed.

  (* ---------------------------------------------------------------- *)
  (* histories *)

  Lemma run_cons ds c t : fst (run ds (c :: t)) = fst (run (fst (step ds c)) t).
  Proof.
    cbn [Driver.run]. destruct (step ds c) as [ds1 r]. cbn [fst].
    destruct (run ds1 t) as [ds2 rs]. reflexivity.
  Qed.

  Lemma run_app a : forall ds b, fst (run ds (a ++ b)) = fst (run (fst (run ds a)) b).
  Proof.
    induction a as [|c t IH]; intros ds b; [reflexivity|].
    rewrite <- app_comm_cons, !run_cons. apply IH.
  Qed.

  Lemma run_rep_from calls : forall ds, ds_inv ds -> ds_rep ds -> ds_rep (fst (run ds calls)).
  Proof.
    induction calls as [|c t IH]; intros ds Hd Hr; [exact Hr|].
    rewrite run_cons. apply IH.
    - apply step_inv. exact Hd.
    - apply (step_rep ds c Hd Hr).
  Qed.

  Theorem run_rep calls : ds_rep (fst (run d_init calls)).
  Proof. apply run_rep_from; [apply d_init_inv|apply d_init_rep]. Qed.

  (* "no event younger than k0 disappears from the committed log" along a
     segment of calls (only CTrim can make events disappear) *)
  Fixpoint trims_ok (k0 : Z) (ds : dstate) (seg : list call) : Prop :=
    match seg with
    | [] => True
    | c :: t =>
        (forall e, In e (events (ds_cat ds)) -> ~ In e (events (ds_cat (fst (step ds c)))) ->
                   ev_clock e <= k0) /\
        trims_ok k0 (fst (step ds c)) t
    end.

  Lemma step_since k0 ds c :
    ds_inv ds -> ds_rep ds -> k0 <= cat_clock (ds_cat ds) ->
    (forall e, In e (events (ds_cat ds)) -> ~ In e (events (ds_cat (fst (step ds c)))) ->
               ev_clock e <= k0) ->
    since k0 (ds_cat ds) (ds_cat (fst (step ds c))) /\
    k0 <= cat_clock (ds_cat (fst (step ds c))).
  Proof.
    intros Hd Hr K T.
    assert (NT : (forall m, c <> CTrim m) ->
                 since k0 (ds_cat ds) (ds_cat (fst (step ds c))) /\
                 k0 <= cat_clock (ds_cat (fst (step ds c)))).
    { intro N. pose proof (step_replay ds c Hd Hr N) as S. split.
      - apply cat_step_since; auto.
      - destruct S as [_ [_ [_ [L _]]]]. lia. }
    destruct c; try (apply NT; intros m0 E; discriminate).
    destruct (step_trim ds min_size) as [E|[k E]].
    - rewrite E. split; [apply since_refl|exact K].
    - rewrite E in *. split; [|exact K].
      eapply trim_since; [apply Hd|exact T].
  Qed.

  Theorem run_since k0 seg : forall ds,
    ds_inv ds -> ds_rep ds -> k0 <= cat_clock (ds_cat ds) -> trims_ok k0 ds seg ->
    since k0 (ds_cat ds) (ds_cat (fst (run ds seg))).
  Proof.
    induction seg as [|c t IH]; intros ds Hd Hr K T; [apply since_refl|].
    rewrite run_cons. destruct T as [T1 T2].
    destruct (step_since k0 ds c Hd Hr K T1) as [S K'].
    eapply since_trans; [exact S|]. apply IH; auto.
    - apply step_inv. exact Hd.
    - apply (step_rep ds c Hd Hr).
  Qed.

  (* without trims the committed log only grows, and what is appended
     replays to the change of the contents *)
  Definition no_trim (seg : list call) : Prop := forall c m, In c seg -> c <> CTrim m.

  Theorem run_cat_step seg : forall ds,
    ds_inv ds -> ds_rep ds -> no_trim seg ->
    cat_step (ds_cat ds) (ds_cat (fst (run ds seg))).
  Proof.
    induction seg as [|c t IH]; intros ds Hd Hr N; [apply cat_step_refl|].
    rewrite run_cons. eapply cat_step_trans.
    - apply step_replay; auto. intros m. apply N. left. reflexivity.
    - apply IH.
      + apply step_inv. exact Hd.
      + apply (step_rep ds c Hd Hr).
      + intros c0 m Hin. apply N. right. exact Hin.
  Qed.

  Lemma trims_ok_no_trim k0 seg : forall ds,
    ds_inv ds -> ds_rep ds -> no_trim seg -> trims_ok k0 ds seg.
  Proof.
    induction seg as [|c t IH]; intros ds Hd Hr N; [exact I|]. split.
    - intros e Hin Hn. exfalso. apply Hn.
      assert (S : cat_step (ds_cat ds) (ds_cat (fst (step ds c)))).
      { apply step_replay; auto. intros m. apply N. left. reflexivity. }
      destruct S as [evs [A _]]. rewrite A. apply in_or_app. left. exact Hin.
    - apply IH.
      + apply step_inv. exact Hd.
      + apply (step_rep ds c Hd Hr).
      + intros c0 m Hin. apply N. right. exact Hin.
  Qed.

  (* ---------------------------------------------------------------- *)
  (* the statements of C08 *)

  (* the state after the first k calls of a history *)
  Definition state_at (calls : list call) (k : nat) : dstate := fst (run d_init (firstn k calls)).

  Lemma state_at_split calls i j :
    (i <= j)%nat ->
    state_at calls j = fst (run (state_at calls i) (skipn i (firstn j calls))).
  Proof.
    intro L. unfold state_at. rewrite <- run_app. f_equal. f_equal.
    rewrite <- (firstn_skipn i (firstn j calls)) at 1. f_equal.
    rewrite firstn_firstn. f_equal. lia.
  Qed.

  (* replaying the events recorded after point i onto the contents at point i
     reproduces the contents at any later point j, provided no event younger
     than point i was trimmed in between *)
  Theorem run_replay calls i j :
    (i <= j <= List.length calls)%nat ->
    let ci := ds_cat (state_at calls i) in
    let cj := ds_cat (state_at calls j) in
    trims_ok (cat_clock ci) (state_at calls i) (skipn i (firstn j calls)) ->
    contents_eq (replay (events_after (cat_clock ci) cj) (contents ci)) (contents cj).
  Proof.
    intros [L _] ci cj T. unfold cj. rewrite (state_at_split calls i j L).
    pose proof (run_inv matchf applyf extractf projectf now (firstn i calls)) as Hd.
    pose proof (run_rep (firstn i calls)) as Hr. fold (state_at calls i) in Hd, Hr.
    destruct (run_since (cat_clock ci) _ (state_at calls i) Hd Hr (Z.le_refl _) T) as [evs [A R]].
    rewrite A. fold ci. rewrite (events_after_clock ci); [exact R|].
    destruct Hd as [[_ [_ [_ H]]] _]. exact H.
  Qed.

  (* in particular when no trim happens between the two points *)
  Theorem run_replay_no_trim calls i j :
    (i <= j <= List.length calls)%nat ->
    no_trim (skipn i (firstn j calls)) ->
    let ci := ds_cat (state_at calls i) in
    let cj := ds_cat (state_at calls j) in
    contents_eq (replay (events_after (cat_clock ci) cj) (contents ci)) (contents cj) /\
    exists evs, events cj = events ci ++ evs /\ events_after (cat_clock ci) cj = evs.
  Proof.
    intros L N ci cj.
    pose proof (run_inv matchf applyf extractf projectf now (firstn i calls)) as Hd.
    pose proof (run_rep (firstn i calls)) as Hr. fold (state_at calls i) in Hd, Hr.
    split.
    - apply run_replay; auto. apply trims_ok_no_trim; auto.
    - pose proof (run_cat_step _ (state_at calls i) Hd Hr N) as S.
      rewrite <- (state_at_split calls i j (proj1 L)) in S. fold ci cj in S.
      destruct S as [evs [A [F _]]]. exists evs. split; [exact A|].
      unfold events_after. rewrite A, filter_app'.
      assert (Hk : cat_ok ci) by (destruct Hd as [[_ [_ [_ H]]] _]; exact H).
      pose proof (events_after_clock ci Hk) as Z0. unfold events_after in Z0. rewrite Z0.
      apply filter_all. eapply Forall_impl; [|exact F]. cbv beta. intros e H. apply Z.ltb_lt. lia.
  Qed.

  (* event ids (cluster times) strictly increase along the log of every
     catalog visible after any history, and never exceed the catalog clock *)
  Theorem event_ids_strictly_increasing calls c i j a b :
    visible_cat (fst (run d_init calls)) c -> (i < j)%nat ->
    nth_error (events c) i = Some a -> nth_error (events c) j = Some b ->
    ev_clock a < ev_clock b.
  Proof.
    intros V Hij Ha Hb.
    destruct (reachable_cat_inv matchf applyf extractf projectf now calls c V) as [_ [_ [_ Hk]]].
    unfold events in Ha, Hb. rewrite nth_error_map in Ha, Hb.
    revert Ha Hb.
    destruct (nth_error _ i) as [sa|] eqn:Ea; simpl; [|intros; discriminate].
    destruct (nth_error _ j) as [sb|] eqn:Eb; simpl; [|intros; discriminate]. intros Ha Hb.
    inversion Ha; inversion Hb; subst. eapply clocks_ok_nth; eauto.
  Qed.

  Theorem event_ids_bounded calls c e :
    visible_cat (fst (run d_init calls)) c -> In e (events c) -> 0 < ev_clock e <= cat_clock c.
  Proof.
    intros V Hin.
    destruct (reachable_cat_inv matchf applyf extractf projectf now calls c V) as [_ [_ [_ Hk]]].
    unfold events in Hin. apply in_map_iff in Hin. destruct Hin as [sd [<- Hsd]].
    eapply clocks_ok_bounds; eauto.
  Qed.

  (* the event id is the cluster time *)
  Theorem event_id_is_clock k h op d chs :
    lookup (event_doc k h op d chs) "_id" = Some (VDoc [("ts"%string, VTs 0 k)]) /\
    ev_clock (event_doc k h op d chs) = k.
  Proof. split; reflexivity. Qed.

  (* a single write call that reports an error leaves the committed log and
     every open transaction (hence its log) exactly as they were *)
  Theorem failed_call_logs_nothing ds c ds' e :
    single_write c ->
    step ds c = (ds', RErr e) ->
    events (ds_cat ds') = events (ds_cat ds) /\ forall sid, routed ds' sid = routed ds sid.
  Proof.
    intros SW H.
    destruct (step_error_noop matchf applyf extractf projectf now ds c ds' e SW H) as [A B].
    rewrite A. auto.
  Qed.

  (* failed calls and no-op writes, together *)
  Theorem failed_and_noop_log_nothing :
    (forall ds c ds' e,
       single_write c -> step ds c = (ds', RErr e) ->
       events (ds_cat ds') = events (ds_cat ds) /\ forall sid, routed ds' sid = routed ds sid) /\
    (forall c g h q s u sk li up afs now0 c' g' tr,
       txn_update matchf applyf extractf c g h q s u sk li up afs now0 = (c', g', inl tr) ->
       t_modified tr = [] -> t_upserted tr = None -> c' = c) /\
    (forall c g h q s sk li c' g' tr,
       txn_delete matchf c g h q s sk li = (c', g', inl tr) -> t_matched tr = [] -> c' = c).
  Proof.
    split; [exact failed_call_logs_nothing|]. split.
    - intros c g h q s u sk li up afs now0 c' g' tr. apply update_noop_logs_nothing.
    - intros c g h q s sk li c' g' tr. apply delete_noop_logs_nothing.
  Qed.

  (* abort / end-session: the committed log is untouched, the transaction
     (with the events it had recorded) is gone *)
  Theorem aborted_transaction_logs_nothing ds sid ds' r :
    step ds (CAbort sid) = (ds', r) ->
    events (ds_cat ds') = events (ds_cat ds) /\ (r = ROk -> routed ds' sid = None).
  Proof.
    intro H. destruct (abort_discards matchf applyf extractf projectf now ds sid ds' r H) as [A B].
    rewrite A. auto.
  Qed.

  Theorem ended_session_logs_nothing ds sid ds' r :
    step ds (CEnd sid) = (ds', r) ->
    events (ds_cat ds') = events (ds_cat ds) /\ routed ds' sid = None.
  Proof.
    intro H. destruct (end_discards matchf applyf extractf projectf now ds sid ds' r H) as [A B].
    rewrite A. auto.
  Qed.

  (* until it commits, nothing a session transaction does reaches the
     committed log *)
  Theorem uncommitted_events_invisible ds c ds' r :
    routed ds (sid_of c) <> None -> (forall s, c <> CCommit s) ->
    step ds c = (ds', r) -> events (ds_cat ds') = events (ds_cat ds).
  Proof.
    intros R N H.
    rewrite (routed_call_invisible matchf applyf extractf projectf now ds c ds' r R N H). reflexivity.
  Qed.

End ReplayProofs.

Print Assumptions step_rep.
Print Assumptions run_replay.
Print Assumptions run_replay_no_trim.
Print Assumptions event_ids_strictly_increasing.
Print Assumptions failed_call_logs_nothing.
Print Assumptions failed_and_noop_log_nothing.
Print Assumptions aborted_transaction_logs_nothing.
