(* ChangesFaithful.v — Changes.Changed describes the update: replaying the
   recorded changes (Put for a value, Unset for Missing), in the order in
   which they were recorded, on the ORIGINAL document yields the document that
   Apply produced.  (C08 direction: the update description of a change event.) *)
From Coq Require Import List ZArith Lia Bool String Permutation.
From Lungo.Model Require Import Apply.
From Lungo.Proofs Require Import OrderLaws CompareOrder AccessAlgebra ApplyProofs RefUpdateProofs.
Import ListNotations.
Open Scope Z_scope.
Open Scope list_scope.

(* ------------------------------------------------------------------ *)
(* show_Z / atoi round trip (the index segments that $push records) *)

Lemma digit_of_digit_char d : 0 <= d <= 9 -> digit_of (digit_char d) = Some d.
Proof.
  intro H. assert (C : d = 0 \/ d = 1 \/ d = 2 \/ d = 3 \/ d = 4 \/ d = 5 \/ d = 6 \/ d = 7 \/ d = 8 \/ d = 9) by lia.
  destruct C as [->|[->|[->|[->|[->|[->|[->|[->|[->| ->]]]]]]]]]; reflexivity.
Qed.

Lemma is_digit_digit_char d : 0 <= d <= 9 -> is_digit (digit_char d) = true.
Proof.
  intro H. assert (C : d = 0 \/ d = 1 \/ d = 2 \/ d = 3 \/ d = 4 \/ d = 5 \/ d = 6 \/ d = 7 \/ d = 8 \/ d = 9) by lia.
  destruct C as [->|[->|[->|[->|[->|[->|[->|[->|[->| ->]]]]]]]]]; reflexivity.
Qed.

Lemma show_pos_go_parse f : forall n acc,
  0 <= n < 2 ^ Z.of_nat f ->
  exists k, 0 <= k /\ forall a, parse_nat_go (show_pos_go f n acc) a = parse_nat_go acc (a * 10 ^ k + n).
Proof.
  induction f as [|f IH]; intros n acc H.
  - cbn in H. assert (n = 0) by lia. subst. exists 0. split; [lia|]. intro a. cbn [show_pos_go]. replace (a * 10 ^ 0 + 0) with a by (rewrite Z.pow_0_r; lia). reflexivity.
  - cbn [show_pos_go]. destruct (Z.ltb_spec n 10).
    + exists 1. split; [lia|]. intro a. cbn [parse_nat_go]. rewrite digit_of_digit_char by lia. replace (a * 10 ^ 1 + n) with (a * 10 + n) by (change (10 ^ 1) with 10; lia). reflexivity.
    + assert (Hd : 0 <= n / 10 < 2 ^ Z.of_nat f).
      { split; [apply Z.div_pos; lia|]. apply Z.div_lt_upper_bound; [lia|].
        rewrite Nat2Z.inj_succ, Z.pow_succ_r in H by lia. lia. }
      destruct (IH (n / 10) (String (digit_char (n mod 10)) acc) Hd) as (k & Hk & E).
      exists (k + 1). split; [lia|]. intro a. rewrite E. cbn [parse_nat_go].
      pose proof (Z.mod_pos_bound n 10 ltac:(lia)). rewrite digit_of_digit_char by lia.
      replace ((a * 10 ^ k + n / 10) * 10 + n mod 10) with (a * 10 ^ (k + 1) + n); [reflexivity|].
      rewrite Z.pow_add_r by lia. pose proof (Z.div_mod n 10 ltac:(lia)). change (10 ^ 1) with 10. lia.
Qed.

Lemma show_pos_go_digits f : forall n acc, 0 <= n -> all_digits (show_pos_go f n acc) = all_digits acc.
Proof.
  induction f as [|f IH]; intros n acc H; [reflexivity|].
  cbn [show_pos_go]. destruct (Z.ltb_spec n 10).
  - cbn [all_digits]. rewrite is_digit_digit_char by lia. reflexivity.
  - rewrite IH by (apply Z.div_pos; lia). cbn [all_digits].
    pose proof (Z.mod_pos_bound n 10 ltac:(lia)). rewrite is_digit_digit_char by lia. reflexivity.
Qed.

Lemma show_pos_go_nonempty f : forall n acc, (acc <> ""%string \/ f <> O) -> show_pos_go f n acc <> ""%string.
Proof.
  induction f as [|f IH]; intros n acc H.
  - cbn. destruct H; congruence.
  - cbn [show_pos_go]. destruct (n <? 10); [discriminate|]. apply IH. left. discriminate.
Qed.

Lemma pos_lt_pow_size p : Zpos p < 2 ^ Z.of_nat (S (Pos.size_nat p)).
Proof.
  induction p as [p IH|p IH|]; cbn [Pos.size_nat].
  - rewrite Nat2Z.inj_succ, Z.pow_succ_r by lia. lia.
  - rewrite Nat2Z.inj_succ, Z.pow_succ_r by lia. lia.
  - reflexivity.
Qed.

Lemma atoi_digits_of s n :
  s <> ""%string -> all_digits s = true -> parse_nat_go s 0 = Some n -> n < two63 -> atoi_digits s = Some n.
Proof.
  intros NE D P L. unfold atoi_digits. destruct s; [congruence|]. rewrite D, P.
  destruct (Z.ltb_spec n two63); [reflexivity | lia].
Qed.

Lemma atoi_digits_show_Z n : 0 <= n < two63 -> atoi_digits (show_Z n) = Some n.
Proof.
  intro H. destruct n as [|p|p]; [reflexivity| |lia].
  apply atoi_digits_of; [| | |lia].
  - apply show_pos_go_nonempty. right. discriminate.
  - change (show_Z (Z.pos p)) with (show_pos_go (S (Pos.size_nat p)) (Z.pos p) ""%string).
    rewrite show_pos_go_digits by lia. reflexivity.
  - change (show_Z (Z.pos p)) with (show_pos_go (S (Pos.size_nat p)) (Z.pos p) ""%string).
    destruct (show_pos_go_parse (S (Pos.size_nat p)) (Zpos p) ""%string) as (k & _ & P).
    { split; [lia | apply pos_lt_pow_size]. }
    rewrite P. reflexivity.
Qed.

Lemma parse_index_show_Z n : 0 <= n < two63 -> parse_index (show_Z n) = Some n.
Proof. exact (atoi_digits_show_Z n). Qed.

Lemma atoi_show_Z n : 0 <= n < two63 -> atoi (show_Z n) = Some n.
Proof. intro H. apply parse_index_atoi. apply parse_index_show_Z. exact H. Qed.

Lemma show_Z_all_digits n : 0 <= n -> all_digits (show_Z n) = true /\ show_Z n <> ""%string.
Proof.
  intro H. destruct n as [|p|p]; [split; [reflexivity | discriminate]| |lia].
  unfold show_Z. split; [rewrite show_pos_go_digits by lia; reflexivity|].
  apply show_pos_go_nonempty. right. discriminate.
Qed.

(* a digit string is one path segment *)
Lemma string_rev_cons c s : string_rev (String c s) = (string_rev s ++ String c "")%string.
Proof. unfold string_rev. cbn [string_rev_app]. apply string_rev_app_spec. Qed.

Lemma split_go_digits s : forall cur, all_digits s = true -> split_go s cur = [(string_rev cur ++ s)%string].
Proof.
  induction s as [|c t IH]; intros cur H.
  - cbn. rewrite sapp_nil_r. reflexivity.
  - cbn [all_digits] in H. apply andb_true_iff in H. destruct H as [Hc Ht]. cbn [split_go].
    destruct (Ascii.eqb_spec c "."%char) as [->|_]; [discriminate|].
    rewrite IH by exact Ht. rewrite string_rev_cons, sapp_assoc. reflexivity.
Qed.

Lemma split_go_snoc a : forall cur s, all_digits s = true ->
  split_go (a ++ String "."%char s) cur = removelast (split_go a cur) ++ [last (split_go a cur) ""%string] ++ [s].
Proof.
  induction a as [|c t IH]; intros cur s H.
  - cbn [append split_go removelast last app]. rewrite Ascii.eqb_refl.
    rewrite (split_go_digits s ""%string H). reflexivity.
  - cbn [append split_go]. destruct (Ascii.eqb c "."%char).
    + rewrite IH by exact H.
      pose proof (split_path_nonempty t) as NE. unfold split_path in NE.
      destruct (split_go t "") eqn:E; [congruence|]. reflexivity.
    + apply IH. exact H.
Qed.

Lemma removelast_last {A} (l : list A) d : l <> [] -> removelast l ++ [last l d] = l.
Proof. intro H. symmetry. apply app_removelast_last. exact H. Qed.

Lemma split_path_index ps n : 0 <= n ->
  split_path (ps ++ "." ++ show_Z n) = split_path ps ++ [show_Z n].
Proof.
  intro H. unfold split_path. cbn [append]. destruct (show_Z_all_digits n H) as [D _].
  rewrite split_go_snoc by exact D. rewrite app_assoc, removelast_last; [reflexivity|].
  exact (split_path_nonempty ps).
Qed.

(* ------------------------------------------------------------------ *)
(* more access algebra: writes below a readable position *)

Lemma empty_path_app key rest q : empty_path (key :: rest) = false -> empty_path (key :: rest ++ q) = false.
Proof.
  destruct key; [|intros _; reflexivity]. destruct rest; [discriminate|]. intros _. reflexivity.
Qed.

Lemma get_not_empty x key rest v n :
  Access.get x (key :: rest) false false = (v, n) -> is_missing v = false -> empty_path (key :: rest) = false.
Proof.
  intros G Hv. destruct (empty_path (key :: rest)) eqn:E; [|reflexivity].
  rewrite get_empty_path in G by exact E. injection G as <- _. discriminate.
Qed.

(* what was written is read back, when the position was readable before
   (no canonical-form hypothesis: Get found the route, Put follows it) *)
Lemma get_put_same_route p : forall x nv pre old x' v n,
  Access.get x p false false = (v, n) -> is_missing v = false -> is_missing nv = false ->
  put x p nv pre = Some (old, x') -> Access.get x' p false false = (nv, false).
Proof.
  induction p as [|key rest IH]; intros x nv pre old x' v n G Hv Hnv P.
  - rewrite put_nil in P. injection P as _ <-. apply get_nil.
  - pose proof (get_not_empty _ _ _ _ _ G Hv) as Hne.
    destruct x; try (rewrite get_scalar in G by (intros; congruence); injection G as <- _; discriminate).
    + rewrite get_doc, Hne in G. rewrite put_doc, Hne in P. destruct (lookup d key) as [y|] eqn:L.
      * destruct (put y rest nv pre) as [[o y']|] eqn:Q; [|discriminate].
        rewrite (put_result_not_missing _ _ _ _ _ _ Hnv Q) in P. injection P as _ <-.
        rewrite get_doc, Hne, (lookup_replace_first_eq _ _ _ _ L). eapply IH; eauto.
      * injection G as <- _. discriminate.
    + rewrite get_arr, Hne in G. rewrite put_arr, Hne in P.
      destruct (parse_index key) as [i|] eqn:PI; [|injection G as <- _; discriminate].
      rewrite (parse_index_atoi _ _ PI) in P.
      destruct (nth_z a i) as [y|] eqn:N; [|injection G as <- _; discriminate].
      pose proof (nth_z_bounds _ _ _ N) as B.
      destruct (Z.ltb_spec i 0); [lia|]. destruct (Z.ltb_spec i (len a)); [|lia].
      destruct (put y rest nv pre) as [[o y']|] eqn:Q; [|discriminate].
      rewrite (put_result_not_missing _ _ _ _ _ _ Hnv Q) in P. injection P as _ <-.
      rewrite get_arr, Hne, PI, (nth_z_replace_eq _ _ _ _ N). eapply IH; eauto.
Qed.

(* a write below a readable position p acts on the value found at p *)
Lemma put_focus p : forall x y n q nv pre o y',
  Access.get x p false false = (y, n) -> is_missing y = false ->
  put y q nv pre = Some (o, y') -> is_missing y' = false ->
  exists x', put x p y' pre = Some (y, x') /\ put x (p ++ q) nv pre = Some (o, x').
Proof.
  induction p as [|key rest IH]; intros x y n q nv pre o y' G Hy P Hy'.
  - rewrite get_nil in G. injection G as <- _. exists y'. rewrite put_nil. auto.
  - pose proof (get_not_empty _ _ _ _ _ G Hy) as Hne.
    pose proof (empty_path_app _ _ q Hne) as Hne2.
    destruct x; try (rewrite get_scalar in G by (intros; congruence); injection G as <- _; discriminate).
    + rewrite get_doc, Hne in G. destruct (lookup d key) as [c|] eqn:L; [|injection G as <- _; discriminate].
      destruct (IH _ _ _ _ _ _ _ _ G Hy P Hy') as (c' & P1 & P2).
      pose proof (put_result_not_missing _ _ _ _ _ _ Hy' P1) as Hc'.
      exists (VDoc (replace_first key c' d)). cbn [app]. rewrite !put_doc, Hne, Hne2, L, P1, P2, Hc'. auto.
    + rewrite get_arr, Hne in G.
      destruct (parse_index key) as [i|] eqn:PI; [|injection G as <- _; discriminate].
      destruct (nth_z a i) as [c|] eqn:N; [|injection G as <- _; discriminate].
      pose proof (nth_z_bounds _ _ _ N) as B.
      destruct (IH _ _ _ _ _ _ _ _ G Hy P Hy') as (c' & P1 & P2).
      pose proof (put_result_not_missing _ _ _ _ _ _ Hy' P1) as Hc'.
      exists (VArr (replace_nth a i c')). cbn [app]. rewrite !put_arr, Hne, Hne2, (parse_index_atoi _ _ PI).
      destruct (Z.ltb_spec i 0); [lia|]. destruct (Z.ltb_spec i (len a)); [|lia].
      rewrite N, P1, P2, Hc'. auto.
Qed.

Lemma put_new_overwrite p : forall a b ia pre,
  is_missing a = false -> is_missing b = false -> put_new p a = Some ia ->
  exists ib, put_new p b = Some ib /\ put ia p b pre = Some (a, ib).
Proof.
  induction p as [|key rest IH]; intros a b ia pre Ha Hb H.
  - cbn in H. injection H as <-. exists b. rewrite put_nil. auto.
  - destruct (put_new_cons _ _ _ _ H) as (Hne & inner & Hi & ->).
    destruct (IH _ b _ pre Ha Hb Hi) as (ib & N & P).
    exists (VDoc [(key, ib)]). cbn [put_new]. rewrite Hne, N. split; [reflexivity|].
    rewrite put_doc, Hne. cbn [lookup]. rewrite String.eqb_refl, P, (put_new_not_missing _ _ _ Hb N).
    cbn [replace_first]. rewrite String.eqb_refl. reflexivity.
Qed.

Lemma replace_first_twice k y1 y2 d : replace_first k y2 (replace_first k y1 d) = replace_first k y2 d.
Proof.
  induction d as [|[k' z] t IH]; [reflexivity|]. cbn [replace_first].
  destruct (String.eqb k' k) eqn:E; cbn [replace_first]; rewrite E; [reflexivity | rewrite IH; reflexivity].
Qed.

Lemma replace_first_app_new d : forall k y1 y2, lookup d k = None ->
  replace_first k y2 (d ++ [(k, y1)]) = d ++ [(k, y2)].
Proof.
  induction d as [|[k' z] t IH]; intros k y1 y2 L.
  - cbn. rewrite String.eqb_refl. reflexivity.
  - cbn [lookup] in L. cbn [app replace_first]. destruct (String.eqb k' k); [discriminate|]. rewrite IH by exact L. reflexivity.
Qed.

Lemma replace_nth_twice a : forall i y1 y2, replace_nth (replace_nth a i y1) i y2 = replace_nth a i y2.
Proof.
  induction a as [|z t IH]; intros i y1 y2; [reflexivity|]. cbn [replace_nth].
  destruct (i =? 0) eqn:E; cbn [replace_nth]; rewrite E; [reflexivity | rewrite IH; reflexivity].
Qed.

Lemma replace_nth_app_r a b : forall i y, len a <= i -> replace_nth (a ++ b) i y = a ++ replace_nth b (i - len a) y.
Proof.
  induction a as [|z t IH]; intros i y H.
  - cbn [app]. change (len (@nil value)) with 0. rewrite Z.sub_0_r. reflexivity.
  - cbn [app replace_nth]. rewrite len_cons in H. pose proof (len_nonneg t).
    destruct (Z.eqb_spec i 0); [lia|]. rewrite IH by lia. rewrite len_cons. do 3 f_equal. lia.
Qed.

Lemma replace_nth_pad_end a n y1 y2 :
  replace_nth (a ++ repeat_null n ++ [y1]) (len a + Z.of_nat n) y2 = a ++ repeat_null n ++ [y2].
Proof.
  rewrite replace_nth_app_r by lia. f_equal.
  replace (len a + Z.of_nat n - len a) with (len (repeat_null n)) by (rewrite len_repeat_null; lia).
  rewrite replace_nth_app_r by lia. rewrite Z.sub_diag. reflexivity.
Qed.

(* a second write at the same path overwrites the first *)
Lemma put_overwrite p : forall x a b pre o x1,
  is_missing a = false -> is_missing b = false -> put x p a pre = Some (o, x1) ->
  exists x2, put x p b pre = Some (o, x2) /\ put x1 p b pre = Some (a, x2).
Proof.
  induction p as [|key rest IH]; intros x a b pre o x1 Ha Hb H.
  - rewrite put_nil in H. injection H as <- <-. exists b. rewrite !put_nil. auto.
  - pose proof (put_cons_not_empty _ _ _ _ _ _ H) as Hne.
    destruct (put_cons_shape _ _ _ _ _ _ H) as [[d ->]|[[ar ->]| ->]].
    + rewrite put_doc, Hne in H. destruct (lookup d key) as [y|] eqn:L.
      * destruct (put y rest a pre) as [[o' y1]|] eqn:P; [|discriminate].
        rewrite (put_result_not_missing _ _ _ _ _ _ Ha P) in H. injection H as <- <-.
        destruct (IH _ _ b _ _ _ Ha Hb P) as (y2 & P1 & P2).
        pose proof (put_result_not_missing _ _ _ _ _ _ Hb P1) as Hy2.
        exists (VDoc (replace_first key y2 d)). rewrite !put_doc, Hne, L, P1, Hy2.
        rewrite (lookup_replace_first_eq _ _ _ _ L), P2, Hy2, replace_first_twice. auto.
      * rewrite Ha in H. destruct (put_new rest a) as [ia|] eqn:N; [|discriminate]. injection H as <- <-.
        destruct (put_new_overwrite _ _ b _ pre Ha Hb N) as (ib & Nb & Pb).
        pose proof (put_new_not_missing _ _ _ Hb Nb) as Hib.
        exists (VDoc (if pre then (key, ib) :: d else d ++ [(key, ib)])).
        rewrite !put_doc, Hne, L, Hb, Nb. split; [reflexivity|]. destruct pre.
        -- cbn [lookup]. rewrite String.eqb_refl, Pb, Hib. cbn [replace_first]. rewrite String.eqb_refl. reflexivity.
        -- rewrite (lookup_app_new _ _ _ L), Pb, Hib, (replace_first_app_new _ _ _ _ L). reflexivity.
    + rewrite put_arr, Hne in H. destruct (atoi key) as [i|] eqn:A; [|discriminate].
      destruct (Z.ltb_spec i 0); [discriminate|].
      destruct (Z.ltb_spec i (len ar)).
      * destruct (nth_z ar i) as [y|] eqn:N; [|discriminate].
        destruct (put y rest a pre) as [[o' y1]|] eqn:P; [|discriminate].
        rewrite (put_result_not_missing _ _ _ _ _ _ Ha P) in H. injection H as <- <-.
        destruct (IH _ _ b _ _ _ Ha Hb P) as (y2 & P1 & P2).
        pose proof (put_result_not_missing _ _ _ _ _ _ Hb P1) as Hy2.
        exists (VArr (replace_nth ar i y2)). rewrite !put_arr, Hne, A, len_replace_nth.
        destruct (Z.ltb_spec i 0); [lia|]. destruct (Z.ltb_spec i (len ar)); [|lia].
        rewrite N, P1, Hy2, (nth_z_replace_eq _ _ _ _ N), P2, Hy2, replace_nth_twice. auto.
      * rewrite Ha in H. destruct (max_array_backfill <? i - len ar) eqn:Cap; [discriminate|].
        destruct (put_new rest a) as [ia|] eqn:N; [|discriminate]. injection H as <- <-.
        destruct (put_new_overwrite _ _ b _ pre Ha Hb N) as (ib & Nb & Pb).
        pose proof (put_new_not_missing _ _ _ Hb Nb) as Hib.
        set (n := Z.to_nat (i - len ar)). assert (Hi : i = len ar + Z.of_nat n) by (unfold n; lia).
        exists (VArr (ar ++ repeat_null n ++ [ib])). rewrite !put_arr, Hne, A.
        destruct (Z.ltb_spec i 0); [lia|]. destruct (Z.ltb_spec i (len ar)); [lia|].
        rewrite Hb, Cap, Nb. split; [reflexivity|].
        assert (Ln : i < len (ar ++ repeat_null n ++ [ia])).
        { rewrite !len_app, len_repeat_null. change (len [ia]) with 1. lia. }
        destruct (Z.ltb_spec i (len (ar ++ repeat_null n ++ [ia]))); [|lia].
        rewrite Hi at 1. rewrite nth_z_pad_end, Pb, Hib. rewrite Hi at 1. rewrite replace_nth_pad_end. reflexivity.
    + rewrite put_missing, Hne, Ha in H. destruct (put_new rest a) as [ia|] eqn:N; [|discriminate].
      injection H as <- <-.
      destruct (put_new_overwrite _ _ b _ pre Ha Hb N) as (ib & Nb & Pb).
      pose proof (put_new_not_missing _ _ _ Hb Nb) as Hib.
      exists (VDoc [(key, ib)]). rewrite put_missing, Hne, Hb, Nb. split; [reflexivity|].
      rewrite put_doc, Hne. cbn [lookup]. rewrite String.eqb_refl, Pb, Hib. cbn [replace_first].
      rewrite String.eqb_refl. reflexivity.
Qed.

(* ------------------------------------------------------------------ *)
(* replaying recorded changes *)

Fixpoint replay (ch : changes) (d : doc) : res doc :=
  match ch with
  | [] => Ok d
  | (p, v) :: t =>
      if is_missing v then replay t (snd (Unset d p))
      else let* od := Put d p v false in replay t (snd od)
  end.

Lemma replay_app a : forall b d, replay (a ++ b) d = let* d1 := replay a d in replay b d1.
Proof.
  induction a as [|[p v] t IH]; intros b d; [reflexivity|]. cbn [app replay].
  destruct (is_missing v); [apply IH|].
  destruct (Put d p v false) as [od| | | |]; cbn [bind]; try reflexivity. apply IH.
Qed.

(* the index segments that $push records are int indices (strconv.Atoi must
   read them back): always true in Go, where a slice length fits an int; the
   model's lists have no such bound, hence the side condition *)
Definition seg_small (s : string) : Prop := forall n, 0 <= n -> s = show_Z n -> n < two63.
Definition path_small (ps : string) : Prop := Forall seg_small (split_path ps).
Definition small_changes (ch : changes) : Prop := Forall (fun kv => path_small (fst kv)) ch.

Lemma small_changes_app a b : small_changes (a ++ b) <-> small_changes a /\ small_changes b.
Proof. unfold small_changes. apply Forall_app. Qed.

(* a step (state, resolved path) -> state is faithful when the changes it
   records, replayed on the document it started from, give its document *)
Definition faithful (f : st -> string -> res st) : Prop :=
  forall d ch ps d' ch', f (d, ch) ps = Ok (d', ch') ->
    exists delta, ch' = ch ++ delta /\ (small_changes delta -> replay delta d = Ok d').

Lemma faithful_intro_keep d ch : exists delta, ch = ch ++ delta /\ (small_changes delta -> replay delta d = Ok d).
Proof. exists []. rewrite app_nil_r. auto. Qed.

Lemma faithful_put_record d ch ps w d' ch' :
  put_record (d, ch) ps w = Ok (d', ch') ->
  exists delta, ch' = ch ++ delta /\ (small_changes delta -> replay delta d = Ok d').
Proof.
  intro H. destruct (put_record_ok _ _ _ _ _ _ H) as (old & P & R).
  exists [(ps, w)]. split; [exact (record_keys _ _ _ _ R)|]. intros _.
  destruct (put_path_ok _ _ _ _ _ _ P) as [Hw _]. cbn [replay]. rewrite Hw, P. reflexivity.
Qed.

(* operators that either keep the state or write one value at the path *)
Definition keep_or_write (op : opfun) : Prop :=
  forall s ps v s', op s ps v = Ok s' -> s' = s \/ exists w, put_record s ps w = Ok s'.

Lemma keep_or_write_faithful op v : keep_or_write op -> faithful (fun s p => op s p v).
Proof.
  intros K d ch ps d' ch' H. destruct (K _ _ _ _ H) as [E|[w P]].
  - injection E as -> ->. apply faithful_intro_keep.
  - eapply faithful_put_record; exact P.
Qed.

Lemma decided_keep_or_write decide : keep_or_write (decided_op decide).
Proof.
  intros s ps v s' H. unfold decided_op in H.
  destruct (decide (Get (fst s) ps) v) as [[|w]| | | |]; cbn [bind] in H; try discriminate.
  - injection H as <-. left; reflexivity.
  - right. exists w. exact H.
Qed.

Lemma kow_ext op1 op2 : (forall s ps v, op1 s ps v = op2 s ps v) -> keep_or_write op2 -> keep_or_write op1.
Proof. intros E K s ps v s' H. rewrite E in H. exact (K _ _ _ _ H). Qed.

Lemma kow_set : keep_or_write apply_set.
Proof. intros s ps v s' H. right. exists v. exact H. Qed.

Lemma kow_set_on_insert up : keep_or_write (apply_set_on_insert up).
Proof.
  intros s ps v s' H. unfold apply_set_on_insert in H. destruct up.
  - right. exists v. exact H.
  - injection H as <-. left; reflexivity.
Qed.

Lemma kow_arith f : keep_or_write (apply_arith f).
Proof.
  intros s ps v s' H. unfold apply_arith in H.
  destruct (f (if is_missing (Get (fst s) ps) then VInt32 0 else Get (fst s) ps) v) as [r| | | |]; cbn [bind] in H; try discriminate.
  destruct (is_missing r); [discriminate|]. right. exists r. exact H.
Qed.

Lemma kow_minmax r : keep_or_write (apply_minmax r).
Proof. eapply kow_ext; [apply apply_minmax_decided | apply decided_keep_or_write]. Qed.

Lemma kow_current_date now : keep_or_write (apply_current_date now).
Proof.
  intros s ps v s' H. unfold apply_current_date in H.
  destruct v; try discriminate.
  - destruct d as [|[k ty] [|? ?]]; try discriminate. destruct (String.eqb k "$type"); [|discriminate].
    destruct ty; try discriminate.
    destruct (String.eqb s0 "date"); [right; eexists; exact H|].
    destruct (String.eqb s0 "timestamp"); [right; eexists; exact H | discriminate].
  - destruct b; [right; eexists; exact H | injection H as <-; left; reflexivity].
Qed.

Lemma kow_add_to_set : keep_or_write apply_add_to_set.
Proof. eapply kow_ext; [apply apply_add_to_set_decided | apply decided_keep_or_write]. Qed.

Lemma kow_pull m : keep_or_write (apply_pull m).
Proof. eapply kow_ext; [apply apply_pull_decided | apply decided_keep_or_write]. Qed.

Lemma kow_pull_all : keep_or_write apply_pull_all.
Proof. eapply kow_ext; [apply apply_pull_all_decided | apply decided_keep_or_write]. Qed.

Lemma kow_bit : keep_or_write apply_bit.
Proof.
  intros s ps v s' H. unfold apply_bit in H.
  destruct v; try discriminate. destruct d as [|[opk operand] [|? ?]]; try discriminate.
  destruct (match operand with VInt32 z => Ok (z, false) | VInt64 z => Ok (z, true) | _ => Err end) as [[opv op64]| | | |]; cbn [bind] in H; try discriminate.
  destruct (match Get (fst s) ps with VInt32 z => Ok (z, false) | VInt64 z => Ok (z, true) | VMissing => Ok (0, false) | _ => Err end) as [[cur f64]| | | |]; cbn [bind] in H; try discriminate.
  destruct (if String.eqb opk "and" then Ok (Z.land cur opv) else if String.eqb opk "or" then Ok (Z.lor cur opv)
            else if String.eqb opk "xor" then Ok (Z.lxor cur opv) else Err) as [r| | | |]; cbn [bind] in H; try discriminate.
  match type of H with (if ?c then _ else _) = _ => destruct c end.
  - injection H as <-. left; reflexivity.
  - right. eexists. exact H.
Qed.

(* $unset *)
Lemma unset_faithful v : faithful (fun s p => apply_unset s p v).
Proof.
  intros d ch ps d' ch' H. unfold apply_unset in H. cbn [fst snd] in H.
  destruct (Unset d ps) as [old d1] eqn:E. destruct (is_missing old).
  - injection H as <- <-. apply faithful_intro_keep.
  - destruct (record ch ps VMissing) as [ch1| | | |] eqn:R; cbn [bind] in H; try discriminate.
    injection H as <- <-. exists [(ps, VMissing)]. split; [exact (record_keys _ _ _ _ R)|].
    intros _. cbn [replay is_missing]. rewrite E. reflexivity.
Qed.

(* $pop: the recorded value is what Get reads after the write, which is the
   shortened array because the array was readable before *)
Lemma pop_faithful v : faithful (fun s p => apply_pop s p v).
Proof.
  intros d ch ps d' ch' H. unfold apply_pop in H. cbn [fst snd] in H.
  destruct (if is_eq (compare v (VInt64 1)) then Ok true else if is_eq (compare v (VInt64 (-1))) then Ok false else Err) as [last| | | |];
    cbn [bind] in H; try discriminate.
  destruct (Get d ps) as [| | | | | | | |a| | | | | |] eqn:G; try discriminate.
  - injection H as <- <-. apply faithful_intro_keep.
  - destruct a as [|x t]; [injection H as <- <-; apply faithful_intro_keep|].
    set (rest := if last then removelast (x :: t) else tl (x :: t)) in H.
    destruct (Put d ps (VArr rest) false) as [[old d1]| | | |] eqn:P; cbn [bind] in H; try discriminate.
    destruct (record ch ps (Get d1 ps)) as [ch1| | | |] eqn:R; cbn [bind] in H; try discriminate.
    injection H as <- <-.
    assert (G1 : Get d1 ps = VArr rest).
    { destruct (put_path_ok _ _ _ _ _ _ P) as [_ P'].
      unfold Get, get_path in *. destruct (Access.get (VDoc d) (split_path ps) false false) as [w n] eqn:Gw.
      cbn [fst] in G. subst w.
      assert (M1 : is_missing (VArr (x :: t)) = false) by reflexivity.
      assert (M2 : is_missing (VArr rest) = false) by reflexivity.
      rewrite (get_put_same_route _ _ _ _ _ _ _ _ Gw M1 M2 P'). reflexivity. }
    rewrite G1 in R. exists [(ps, VArr rest)]. split; [exact (record_keys _ _ _ _ R)|].
    intros _. cbn [replay is_missing]. rewrite P. reflexivity.
Qed.

(* ------------------------------------------------------------------ *)
(* $push *)

(* BSON values never contain the Missing marker *)
Fixpoint has_missing (v : value) : bool :=
  match v with
  | VMissing => true
  | VDoc d => (fix go (d : list (string * value)) : bool :=
                 match d with [] => false | (_, x) :: t => has_missing x || go t end) d
  | VArr a => (fix go (a : list value) : bool :=
                 match a with [] => false | x :: t => has_missing x || go t end) a
  | _ => false
  end.

Lemma has_missing_doc d : has_missing (VDoc d) = existsb (fun kv => has_missing (snd kv)) d.
Proof. induction d as [|[k x] t IH]; [reflexivity|]. cbn [existsb snd]. rewrite <- IH. reflexivity. Qed.

Lemma has_missing_arr a : has_missing (VArr a) = existsb has_missing a.
Proof. induction a as [|x t IH]; [reflexivity|]. cbn [existsb]. rewrite <- IH. reflexivity. Qed.

Lemma has_missing_top v : has_missing v = false -> is_missing v = false.
Proof. destruct v; try reflexivity. discriminate. Qed.

Lemma has_missing_field d k x : has_missing (VDoc d) = false -> In (k, x) d -> has_missing x = false.
Proof.
  rewrite has_missing_doc. intros H Hin. destruct (has_missing x) eqn:E; [|reflexivity].
  assert (existsb (fun kv => has_missing (snd kv)) d = true) by (apply existsb_exists; exists (k, x); auto). congruence.
Qed.

Lemma has_missing_elems a : has_missing (VArr a) = false -> Forall (fun x => is_missing x = false) a.
Proof.
  rewrite has_missing_arr. intro H. apply Forall_forall. intros x Hin. apply has_missing_top.
  destruct (has_missing x) eqn:E; [|reflexivity].
  assert (existsb has_missing a = true) by (apply existsb_exists; eauto). congruence.
Qed.

Lemma push_modifiers_values spec : forall m0 m,
  has_missing (VDoc spec) = false -> Forall (fun x => is_missing x = false) (pm_values m0) ->
  push_modifiers spec m0 = Ok m -> Forall (fun x => is_missing x = false) (pm_values m).
Proof.
  induction spec as [|[k v] t IH]; intros m0 m Hs H0 H.
  - cbn in H. injection H as <-. exact H0.
  - assert (Ht : has_missing (VDoc t) = false).
    { rewrite has_missing_doc in *. cbn [existsb] in Hs. apply orb_false_iff in Hs. tauto. }
    assert (Hv : has_missing v = false) by (eapply has_missing_field; [exact Hs | left; reflexivity]).
    cbn [push_modifiers] in H.
    destruct (String.eqb k "$each").
    + destruct v; try discriminate. eapply IH; [exact Ht| |exact H]. cbn [pm_values]. apply has_missing_elems. exact Hv.
    + destruct (String.eqb k "$position"); [eapply IH; [exact Ht| |exact H]; exact H0|].
      destruct (String.eqb k "$sort"); [eapply IH; [exact Ht| |exact H]; exact H0|].
      destruct (String.eqb k "$slice"); [eapply IH; [exact Ht| |exact H]; exact H0 | discriminate].
Qed.

(* the per-element records of a pure append *)
Fixpoint each_changes (ps : string) (start : Z) (vals : list value) : changes :=
  match vals with
  | [] => []
  | v :: t => ((ps ++ "." ++ show_Z start)%string, v) :: each_changes ps (start + 1) t
  end.

Lemma record_each_keys vals : forall ch ps start ch',
  record_each ch ps start vals = Ok ch' -> ch' = ch ++ each_changes ps start vals.
Proof.
  induction vals as [|v t IH]; intros ch ps start ch' H.
  - cbn in H. injection H as <-. rewrite app_nil_r. reflexivity.
  - cbn [record_each] in H. destruct (record ch (ps ++ "." ++ show_Z start) v) as [ch1| | | |] eqn:R; cbn [bind] in H; try discriminate.
    rewrite (IH _ _ _ _ H), (record_keys _ _ _ _ R), <- app_assoc. reflexivity.
Qed.

Lemma put_doc_result d key rest nv pre o x' :
  put (VDoc d) (key :: rest) nv pre = Some (o, x') -> is_missing nv = false -> exists d', x' = VDoc d'.
Proof.
  intros H Hnv. pose proof (put_cons_not_empty _ _ _ _ _ _ H) as Hne. rewrite put_doc, Hne in H.
  destruct (lookup d key).
  - destruct (put v rest nv pre) as [[o' y']|] eqn:P; [|discriminate].
    rewrite (put_result_not_missing _ _ _ _ _ _ Hnv P) in H. injection H as _ <-. eauto.
  - rewrite Hnv in H. destruct (put_new rest nv); [|discriminate]. injection H as _ <-. eauto.
Qed.

(* appending one element through its index path = writing the longer array *)
Lemma push_one d ps arr v :
  Get d ps = VArr arr -> is_missing v = false -> len arr < two63 ->
  exists d1, Put d (ps ++ "." ++ show_Z (len arr)) v false = Ok (VMissing, d1) /\
             Put d ps (VArr (arr ++ [v])) false = Ok (VArr arr, d1).
Proof.
  intros G Hv Hl. pose proof (len_nonneg arr) as L0.
  assert (B : 0 <= len arr < two63) by lia.
  assert (P0 : put (VArr arr) [show_Z (len arr)] v false = Some (VMissing, VArr (arr ++ [v]))).
  { rewrite put_arr. destruct (show_Z_all_digits (len arr) L0) as [_ NE].
    assert (E : empty_path [show_Z (len arr)] = false) by (destruct (show_Z (len arr)); [congruence | reflexivity]).
    rewrite E, (atoi_show_Z _ B). destruct (Z.ltb_spec (len arr) 0); [lia|].
    destruct (Z.ltb_spec (len arr) (len arr)); [lia|]. rewrite Hv.
    destruct (Z.ltb_spec max_array_backfill (len arr - len arr)); [unfold max_array_backfill in *; lia|]. cbn [put_new]. rewrite Z.sub_diag. reflexivity. }
  unfold Get, get_path in G. destruct (Access.get (VDoc d) (split_path ps) false false) as [w n] eqn:Gw.
  cbn [fst] in G. subst w.
  destruct (put_focus _ _ _ _ _ _ _ _ _ Gw eq_refl P0 eq_refl) as (x' & P1 & P2).
  pose proof (split_path_nonempty ps) as NEp. destruct (split_path ps) as [|k r] eqn:Sp; [congruence|].
  destruct (put_doc_result _ _ _ _ _ _ _ P1 eq_refl) as [d1 ->].
  exists d1. unfold Put, put_path. rewrite (split_path_index ps _ L0), Sp, Hv, P2. cbn [is_missing]. rewrite P1. auto.
Qed.

Lemma replay_each vals : forall d ps arr,
  Get d ps = VArr arr -> Forall (fun x => is_missing x = false) vals ->
  small_changes (each_changes ps (len arr) vals) ->
  exists d', replay (each_changes ps (len arr) vals) d = Ok d' /\
             Put d ps (VArr (arr ++ vals)) false = Ok (VArr arr, d').
Proof.
  induction vals as [|v t IH]; intros d ps arr G Hm Hs.
  - exists d. split; [reflexivity|]. rewrite app_nil_r. apply put_get_id; [exact G | discriminate].
  - inversion Hm as [|? ? Hv Ht]; subst. cbn [each_changes] in *. inversion Hs as [|? ? S1 S2]; subst.
    pose proof (len_nonneg arr) as L0.
    assert (Hl : len arr < two63).
    { cbn [fst] in S1. unfold path_small in S1. pose proof (split_path_index ps _ L0) as SI. cbn [append] in SI. rewrite SI in S1.
      apply Forall_app in S1. destruct S1 as [_ S1]. inversion S1 as [|? ? Sm _]; subst. exact (Sm _ L0 eq_refl). }
    destruct (push_one _ _ _ _ G Hv Hl) as (d1 & P1 & P2).
    assert (G1 : Get d1 ps = VArr (arr ++ [v])).
    { destruct (put_path_ok _ _ _ _ _ _ P2) as [_ P'].
      unfold Get, get_path in *. destruct (Access.get (VDoc d) (split_path ps) false false) as [w n] eqn:Gw.
      cbn [fst] in G. subst w.
      assert (M1 : is_missing (VArr arr) = false) by reflexivity.
      assert (M2 : is_missing (VArr (arr ++ [v])) = false) by reflexivity.
      rewrite (get_put_same_route _ _ _ _ _ _ _ _ Gw M1 M2 P'). reflexivity. }
    assert (Ln : len (arr ++ [v]) = len arr + 1) by (rewrite len_app; reflexivity).
    specialize (IH d1 ps (arr ++ [v]) G1 Ht). rewrite Ln in IH. destruct (IH S2) as (d' & R & P3).
    exists d'. split.
    + cbn [replay]. rewrite Hv, P1. cbn [bind snd]. exact R.
    + rewrite <- app_assoc in P3. cbn [app] in P3.
      destruct (put_path_ok _ _ _ _ _ _ P2) as [_ Q2]. destruct (put_path_ok _ _ _ _ _ _ P3) as [_ Q3].
      assert (M1 : is_missing (VArr (arr ++ [v])) = false) by reflexivity.
      assert (M2 : is_missing (VArr (arr ++ v :: t)) = false) by reflexivity.
      destruct (put_overwrite _ _ _ _ _ _ _ M1 M2 Q2) as (x2 & O1 & O2).
      rewrite Q3 in O2. injection O2 as <-.
      unfold Put, put_path. cbn [is_missing]. unfold Put, put_path in P2. rewrite O1. reflexivity.
Qed.

Lemma insert_at_end vals arr : insert_at (len arr) vals arr = arr ++ vals.
Proof.
  unfold insert_at, take, drop, len. rewrite Nat2Z.id, firstn_all, skipn_all, app_nil_r. reflexivity.
Qed.

Lemma push_faithful v : has_missing v = false -> faithful (fun s p => apply_push s p v).
Proof.
  intros Hv d ch ps d' ch' H. unfold apply_push in H. cbn [fst snd] in H.
  set (no_mods := {| pm_values := [v]; pm_position := None; pm_sort := None; pm_slice := None |}) in H.
  destruct (match v with
            | VDoc vd => if has_key "$each" vd
                         then push_modifiers vd {| pm_values := []; pm_position := None; pm_sort := None; pm_slice := None |}
                         else Ok no_mods
            | _ => Ok no_mods end) as [m| | | |] eqn:Em; cbn [bind] in H; try discriminate.
  assert (Hvals : Forall (fun x => is_missing x = false) (pm_values m)).
  { assert (N0 : Forall (fun x => is_missing x = false) (pm_values no_mods))
      by (cbn; constructor; [apply has_missing_top; exact Hv | constructor]).
    destruct v; try (injection Em as <-; exact N0).
    destruct (has_key "$each" d0); [|injection Em as <-; exact N0].
    eapply push_modifiers_values; [exact Hv | | exact Em]. constructor. }
  destruct (Get d ps) as [| | | | | | | |a| | | | | |] eqn:G; cbn [bind] in H; try discriminate.
  - (* missing field: created as a whole *)
    destruct (match pm_position m with None => Ok (len (@nil value)) | Some pv => let* p := int_modifier pv in Ok (push_position (len (@nil value)) p) end)
      as [at_| | | |]; cbn [bind] in H; try discriminate.
    destruct (match pm_sort m with None => Ok (insert_at at_ (pm_values m) []) | Some sv => push_sort (insert_at at_ (pm_values m) []) sv end)
      as [arr2| | | |]; cbn [bind] in H; try discriminate.
    destruct (match pm_slice m with None => Ok arr2 | Some sv => let* n := int_modifier sv in push_slice arr2 n end)
      as [arr3| | | |]; cbn [bind] in H; try discriminate.
    destruct (Put d ps (VArr arr3) false) as [[old d1]| | | |] eqn:P; cbn [bind is_missing] in H; try discriminate.
    destruct (record ch ps (VArr arr3)) as [ch1| | | |] eqn:R; cbn [bind] in H; try discriminate.
    injection H as <- <-. exists [(ps, VArr arr3)]. split; [exact (record_keys _ _ _ _ R)|].
    intros _. cbn [replay is_missing]. rewrite P. reflexivity.
  - (* existing array *)
    destruct (match pm_position m with None => Ok (len a) | Some pv => let* p := int_modifier pv in Ok (push_position (len a) p) end)
      as [at_| | | |] eqn:Eat; cbn [bind] in H; try discriminate.
    destruct (match pm_sort m with None => Ok (insert_at at_ (pm_values m) a) | Some sv => push_sort (insert_at at_ (pm_values m) a) sv end)
      as [arr2| | | |] eqn:E2; cbn [bind] in H; try discriminate.
    destruct (match pm_slice m with None => Ok arr2 | Some sv => let* n := int_modifier sv in push_slice arr2 n end)
      as [arr3| | | |] eqn:E3; cbn [bind] in H; try discriminate.
    destruct (Put d ps (VArr arr3) false) as [[old d1]| | | |] eqn:P; cbn [bind is_missing] in H; try discriminate.
    assert (Whole : forall ch1, record ch ps (VArr arr3) = Ok ch1 ->
              exists delta, ch1 = ch ++ delta /\ (small_changes delta -> replay delta d = Ok d1)).
    { intros ch1 R. exists [(ps, VArr arr3)]. split; [exact (record_keys _ _ _ _ R)|].
      intros _. cbn [replay is_missing]. rewrite P. reflexivity. }
    destruct (pm_sort m) as [sv|] eqn:Es; [|destruct (pm_slice m) as [lv|] eqn:El].
    + (* $sort: whole array *)
      assert (H' : (let* ch1 := record ch ps (VArr arr3) in Ok (d1, ch1)) = Ok (d', ch')).
      { destruct (pm_values m); destruct (pm_position m); exact H. }
      destruct (record ch ps (VArr arr3)) as [ch1| | | |] eqn:R; cbn [bind] in H'; try discriminate.
      injection H' as <- <-. apply Whole. reflexivity.
    + (* $slice: whole array *)
      assert (H' : (let* ch1 := record ch ps (VArr arr3) in Ok (d1, ch1)) = Ok (d', ch')).
      { destruct (pm_values m); destruct (pm_position m); exact H. }
      destruct (record ch ps (VArr arr3)) as [ch1| | | |] eqn:R; cbn [bind] in H'; try discriminate.
      injection H' as <- <-. apply Whole. reflexivity.
    + (* neither: arr3 = insert_at at_ values a *)
      injection E2 as <-. injection E3 as <-. cbn [is_some negb andb] in H.
      destruct (Z.eqb_spec at_ (len a)) as [->|Nat_].
      * (* pure append: per-element records *)
        rewrite insert_at_end in P.
        assert (H' : (match pm_values m with
                      | [] => match pm_position m with None => Ok (d1, ch) | Some _ => let* ch1 := record_each ch ps (len a) (pm_values m) in Ok (d1, ch1) end
                      | _ :: _ => let* ch1 := record_each ch ps (len a) (pm_values m) in Ok (d1, ch1)
                      end) = Ok (d', ch')).
        { destruct (pm_values m); destruct (pm_position m); exact H. }
        assert (Each : forall ch1, record_each ch ps (len a) (pm_values m) = Ok ch1 ->
                  exists delta, ch1 = ch ++ delta /\ (small_changes delta -> replay delta d = Ok d1)).
        { intros ch1 R. exists (each_changes ps (len a) (pm_values m)). split; [exact (record_each_keys _ _ _ _ _ R)|].
          intro Sm. destruct (replay_each _ _ _ _ G Hvals Sm) as (d2 & R2 & P2).
          rewrite P in P2. injection P2 as _ <-. exact R2. }
        destruct (pm_values m) as [|v0 vt] eqn:Ev.
        -- destruct (pm_position m).
           ++ cbn [record_each bind] in H'. injection H' as <- <-. apply (Each ch). reflexivity.
           ++ injection H' as <- <-.
              rewrite app_nil_r in P. unfold Put in P. rewrite (put_get_id d (split_path ps) (VArr a) false G ltac:(discriminate)) in P.
              injection P as _ <-. apply faithful_intro_keep.
        -- destruct (record_each ch ps (len a) (v0 :: vt)) as [ch1| | | |] eqn:R; cbn [bind] in H'; try discriminate.
           injection H' as <- <-. apply Each. reflexivity.
      * (* $position inside the array: whole array *)
        assert (H' : (let* ch1 := record ch ps (VArr (insert_at at_ (pm_values m) a)) in Ok (d1, ch1)) = Ok (d', ch')).
        { destruct (pm_position m) as [pv|]; [|injection Eat as E; congruence].
          destruct (pm_values m); exact H. }
        destruct (record ch ps (VArr (insert_at at_ (pm_values m) a))) as [ch1| | | |] eqn:R; cbn [bind] in H'; try discriminate.
        injection H' as <- <-. apply Whole. reflexivity.
Qed.

(* ------------------------------------------------------------------ *)
(* $rename: it writes the target and then removes the source, but records the
   removal first; the two writes commute because neither path is a prefix of
   the other and the source is reached through documents only *)

Lemma split_go_nonempty s cur : split_go s cur <> [].
Proof.
  revert cur. induction s as [|c t IH]; intro cur; cbn [split_go]; [discriminate|].
  destruct (Ascii.eqb c "."%char); [discriminate | apply IH].
Qed.

Lemma join_cons a l : l <> [] -> join_path (a :: l) = (a ++ "." ++ join_path l)%string.
Proof. destruct l; [congruence | reflexivity]. Qed.

Lemma split_go_join s : forall cur, join_path (split_go s cur) = (string_rev cur ++ s)%string.
Proof.
  induction s as [|c t IH]; intro cur; cbn [split_go].
  - cbn [join_path]. rewrite sapp_nil_r. reflexivity.
  - destruct (Ascii.eqb_spec c "."%char) as [->|_].
    + rewrite join_cons by apply split_go_nonempty. rewrite IH. reflexivity.
    + rewrite IH, string_rev_cons, sapp_assoc. reflexivity.
Qed.

Lemma join_split s : join_path (split_path s) = s.
Proof. unfold split_path. rewrite split_go_join. reflexivity. Qed.

Lemma join_app l1 : forall l3, l1 <> [] -> l3 <> [] ->
  join_path (l1 ++ l3) = (join_path l1 ++ "." ++ join_path l3)%string.
Proof.
  induction l1 as [|a t IH]; intros l3 H1 H3; [congruence|].
  destruct t as [|b t'].
  - cbn [app]. rewrite join_cons by exact H3. reflexivity.
  - change ((a :: b :: t') ++ l3) with (a :: ((b :: t') ++ l3)).
    rewrite join_cons by discriminate. rewrite IH by (try discriminate; exact H3).
    rewrite (join_cons a (b :: t')) by discriminate. rewrite !sapp_assoc. reflexivity.
Qed.

Lemma is_prefix_app p : forall q, is_prefix p q -> exists r, q = p ++ r.
Proof.
  induction p as [|s p' IH]; intros q H; [exists q; reflexivity|].
  destruct q as [|t q']; [contradiction|]. destruct H as [-> H]. destruct (IH _ H) as [r ->]. exists r. reflexivity.
Qed.

Lemma has_prefix_app a b : has_prefix (a ++ b)%string a = true.
Proof. induction a as [|c t IH]; [destruct b; reflexivity|]. cbn. rewrite Ascii.eqb_refl. exact IH. Qed.

(* a path whose segments extend another path's segments extends it as a string *)
Lemma prefix_segments_strings a b :
  is_prefix (split_path a) (split_path b) -> a = b \/ has_prefix b (a ++ ".")%string = true.
Proof.
  intro H. destruct (is_prefix_app _ _ H) as [r E]. destruct r as [|x r'].
  - left. rewrite app_nil_r in E. rewrite <- (join_split a), <- (join_split b), E. reflexivity.
  - right. rewrite <- (join_split b), E, join_app by (try apply split_path_nonempty; discriminate).
    rewrite join_split, <- sapp_assoc. apply has_prefix_app.
Qed.

Lemma remove_succeeds p : forall x pre,
  is_missing (fst (Access.get x p false false)) = false -> exists o y, put x p VMissing pre = Some (o, y).
Proof.
  induction p as [|s r IH]; intros x pre G; [rewrite put_nil; eauto|].
  destruct (Access.get x (s :: r) false false) as [v n] eqn:Gv. cbn [fst] in G.
  pose proof (get_not_empty _ _ _ _ _ Gv G) as Hne.
  destruct x; try (rewrite get_scalar in Gv by (intros; congruence); injection Gv as <- _; discriminate).
  - rewrite get_doc, Hne in Gv. destruct (lookup d s) as [c|] eqn:L; [|injection Gv as <- _; discriminate].
    destruct (IH c pre) as (o & y & P); [rewrite Gv; exact G|]. rewrite put_doc, Hne, L, P. eauto.
  - rewrite get_arr, Hne in Gv. destruct (parse_index s) as [i|] eqn:PI; [|injection Gv as <- _; discriminate].
    destruct (nth_z a i) as [c|] eqn:N; [|injection Gv as <- _; discriminate].
    pose proof (nth_z_bounds _ _ _ N). destruct (IH c pre) as (o & y & P); [rewrite Gv; exact G|].
    rewrite put_arr, Hne, (parse_index_atoi _ _ PI). destruct (Z.ltb_spec i 0); [lia|]. destruct (Z.ltb_spec i (len a)); [|lia].
    rewrite N, P. eauto.
Qed.

Lemma replace_remove_commute s t a d : s <> t ->
  replace_first t a (remove_first s d) = remove_first s (replace_first t a d).
Proof.
  intro H. induction d as [|[k z] r IH]; [reflexivity|]. cbn [remove_first replace_first].
  destruct (String.eqb k s) eqn:Es; destruct (String.eqb k t) eqn:Et; cbn [remove_first replace_first]; rewrite ?Es, ?Et.
  - apply String.eqb_eq in Es, Et. congruence.
  - reflexivity.
  - reflexivity.
  - rewrite IH. reflexivity.
Qed.

Lemma replace_replace_commute s t a b d : s <> t ->
  replace_first t a (replace_first s b d) = replace_first s b (replace_first t a d).
Proof.
  intro H. induction d as [|[k z] r IH]; [reflexivity|]. cbn [replace_first].
  destruct (String.eqb k s) eqn:Es; destruct (String.eqb k t) eqn:Et; cbn [replace_first]; rewrite ?Es, ?Et.
  - apply String.eqb_eq in Es, Et. congruence.
  - reflexivity.
  - reflexivity.
  - rewrite IH. reflexivity.
Qed.

Lemma remove_first_app_present d : forall s x e, lookup d s = Some x -> remove_first s (d ++ [e]) = remove_first s d ++ [e].
Proof.
  induction d as [|[k z] r IH]; intros s x e L; [discriminate|]. cbn [lookup] in L. cbn [app remove_first].
  destruct (String.eqb k s); [reflexivity|]. rewrite (IH _ _ _ L). reflexivity.
Qed.

Lemma replace_first_app_present d : forall s b x e, lookup d s = Some x -> replace_first s b (d ++ [e]) = replace_first s b d ++ [e].
Proof.
  induction d as [|[k z] r IH]; intros s b x e L; [discriminate|]. cbn [lookup] in L. cbn [app replace_first].
  destruct (String.eqb k s); [reflexivity|]. rewrite (IH _ _ _ _ L). reflexivity.
Qed.

Lemma put_remove_commute p : forall q x v o1 x1 o3 y1,
  Forall (fun s => parse_index s = None) p -> ~ is_prefix p q -> ~ is_prefix q p ->
  is_missing v = false -> is_missing (fst (Access.get x p false false)) = false ->
  put x q v false = Some (o1, x1) -> put x p VMissing false = Some (o3, y1) ->
  exists o2 x2 o4, put x1 p VMissing false = Some (o2, x2) /\ put y1 q v false = Some (o4, x2).
Proof.
  induction p as [|s p' IH]; intros q x v o1 x1 o3 y1 F Npq Nqp Hv G Pq Pp; [exfalso; apply Npq; exact I|].
  destruct q as [|t q']; [exfalso; apply Nqp; exact I|].
  inversion F as [|? ? Fs Fp]; subst.
  destruct (Access.get x (s :: p') false false) as [w n] eqn:Gw. cbn [fst] in G.
  pose proof (get_not_empty _ _ _ _ _ Gw G) as Hnp.
  pose proof (put_cons_not_empty _ _ _ _ _ _ Pq) as Hnq.
  destruct x; try (rewrite get_scalar in Gw by (intros; congruence); injection Gw as <- _; discriminate).
  2:{ rewrite get_arr, Hnp, Fs in Gw. injection Gw as <- _. discriminate. }
  rewrite get_doc, Hnp in Gw. destruct (lookup d s) as [cs|] eqn:Ls; [|injection Gw as <- _; discriminate].
  rewrite put_doc, Hnp, Ls in Pp. destruct (put cs p' VMissing false) as [[o3' cs']|] eqn:Ps; [|discriminate].
  injection Pp as <- <-.
  rewrite put_doc, Hnq in Pq.
  destruct (String.eqb_spec s t) as [<-|Nst].
  - (* same key: descend *)
    rewrite Ls in Pq. destruct (put cs q' v false) as [[o1' c1]|] eqn:Pc; [|discriminate].
    rewrite (put_result_not_missing _ _ _ _ _ _ Hv Pc) in Pq. injection Pq as <- <-.
    assert (Np' : ~ is_prefix p' q') by (intro X; apply Npq; split; [reflexivity | exact X]).
    assert (Nq' : ~ is_prefix q' p') by (intro X; apply Nqp; split; [reflexivity | exact X]).
    destruct p' as [|k r]; [exfalso; apply Np'; exact I|].
    assert (Gc : is_missing (fst (Access.get cs (k :: r) false false)) = false) by (rewrite Gw; exact G).
    destruct (IH _ _ _ _ _ _ _ Fp Np' Nq' Hv Gc Pc Ps) as (o2 & c2 & o4 & Q1 & Q2).
    pose proof (put_cons_result_not_missing _ _ _ _ _ _ _ Q1) as M2.
    pose proof (put_cons_result_not_missing _ _ _ _ _ _ _ Ps) as M3.
    exists o2, (VDoc (replace_first s c2 d)), o4. rewrite M3. split.
    + rewrite put_doc, Hnp, (lookup_replace_first_eq _ _ _ _ Ls), Q1, M2, replace_first_twice. reflexivity.
    + rewrite put_doc, Hnq, (lookup_replace_first_eq _ _ _ _ Ls), Q2, M2, replace_first_twice. reflexivity.
  - (* different keys of one document *)
    set (Ds := fun e : doc => if is_missing cs' then remove_first s e else replace_first s cs' e).
    assert (LDs : lookup (Ds d) t = lookup d t).
    { unfold Ds. destruct (is_missing cs'); [apply lookup_remove_first_neq | apply lookup_replace_first_neq]; exact Nst. }
    change (VDoc (if is_missing cs' then remove_first s d else replace_first s cs' d)) with (VDoc (Ds d)).
    destruct (lookup d t) as [ct|] eqn:Lt.
    + destruct (put ct q' v false) as [[o1' ct']|] eqn:Pc; [|discriminate].
      pose proof (put_result_not_missing _ _ _ _ _ _ Hv Pc) as Mt. rewrite Mt in Pq. injection Pq as <- <-.
      exists o3', (VDoc (Ds (replace_first t ct' d))), o1'. split.
      * rewrite put_doc, Hnp. rewrite (lookup_replace_first_neq _ _ _ _ (not_eq_sym Nst)), Ls, Ps. reflexivity.
      * rewrite put_doc, Hnq, LDs, Pc, Mt. f_equal. f_equal. f_equal. unfold Ds. destruct (is_missing cs').
        -- apply replace_remove_commute. exact Nst.
        -- apply replace_replace_commute. exact Nst.
    + rewrite Hv in Pq. destruct (put_new q' v) as [inner|] eqn:N; [|discriminate]. injection Pq as <- <-.
      exists o3', (VDoc (Ds d ++ [(t, inner)])), VMissing. split.
      * rewrite put_doc, Hnp. rewrite (lookup_app_other _ _ _ _ (not_eq_sym Nst)), Ls, Ps. f_equal. f_equal. f_equal.
        unfold Ds. destruct (is_missing cs'); [eapply remove_first_app_present | eapply replace_first_app_present]; exact Ls.
      * rewrite put_doc, Hnq, LDs, Hv, N. reflexivity.
Qed.

Lemma indexed_path_false p : indexed_path p = false -> Forall (fun s => parse_index s = None) p.
Proof.
  unfold indexed_path. induction p as [|s r IH]; intro H; [constructor|].
  cbn [existsb] in H. apply orb_false_iff in H. destruct H as [H1 H2]. constructor; [|apply IH; exact H2].
  destruct (parse_index s); [discriminate | reflexivity].
Qed.

Lemma rename_faithful v : faithful (fun s p => apply_rename s p v).
Proof.
  intros d ch ps d' ch' H. unfold apply_rename in H. cbn [fst snd] in H.
  destruct v; try discriminate. rename s into np.
  destruct (indexed_path (split_path ps) || indexed_path (split_path np)) eqn:Ix; [discriminate|].
  apply orb_false_iff in Ix. destruct Ix as [Ix _].
  destruct (String.eqb_spec ps np) as [|Neq]; [discriminate|].
  destruct (has_prefix ps (np ++ ".") || has_prefix np (ps ++ ".")) eqn:Ov; [discriminate|].
  apply orb_false_iff in Ov. destruct Ov as [Ov1 Ov2].
  destruct (is_missing (Get d ps)) eqn:Gm; [injection H as <- <-; apply faithful_intro_keep|].
  destruct (Put d np (Get d ps) false) as [[o1 d1]| | | |] eqn:P; cbn [bind] in H; try discriminate.
  destruct (Unset d1 ps) as [o2 d2] eqn:U.
  destruct (record ch ps VMissing) as [ch1| | | |] eqn:R1; cbn [bind] in H; try discriminate.
  destruct (record ch1 np (Get d ps)) as [ch2| | | |] eqn:R2; cbn [bind] in H; try discriminate.
  injection H as <- <-.
  exists [(ps, VMissing); (np, Get d ps)]. split.
  { rewrite (record_keys _ _ _ _ R2), (record_keys _ _ _ _ R1), <- app_assoc. reflexivity. }
  intros _.
  assert (Npq : ~ is_prefix (split_path ps) (split_path np)).
  { intro X. destruct (prefix_segments_strings _ _ X) as [E|E]; [congruence | rewrite E in Ov2; discriminate]. }
  assert (Nqp : ~ is_prefix (split_path np) (split_path ps)).
  { intro X. destruct (prefix_segments_strings _ _ X) as [E|E]; [congruence | rewrite E in Ov1; discriminate]. }
  destruct (put_path_ok _ _ _ _ _ _ P) as [_ Pq].
  assert (G : is_missing (fst (Access.get (VDoc d) (split_path ps) false false)) = false) by exact Gm.
  destruct (remove_succeeds _ _ false G) as (o3 & y1 & Pp).
  destruct (put_remove_commute _ _ _ _ _ _ _ _ (indexed_path_false _ Ix) Npq Nqp Gm G Pq Pp) as (o2' & x2 & o4 & Q1 & Q2).
  pose proof (split_path_nonempty ps) as NEp. destruct (split_path ps) as [|k r] eqn:Sp; [congruence|].
  pose proof (split_path_nonempty np) as NEq. destruct (split_path np) as [|k' r'] eqn:Sq; [congruence|].
  (* both intermediate results are documents *)
  assert (Y : exists e1, y1 = VDoc e1).
  { pose proof (put_cons_not_empty _ _ _ _ _ _ Pp) as Hne. rewrite put_doc, Hne in Pp.
    destruct (lookup d k) as [c0|]; [|discriminate]. destruct (put c0 r VMissing false) as [[? ?]|]; [|discriminate].
    injection Pp as _ <-. eauto. }
  destruct Y as [e1 ->].
  destruct (put_doc_result _ _ _ _ _ _ _ Q2 Gm) as [e2 ->].
  (* the model's Unset on d1 is x2, i.e. d2 = e2 *)
  unfold Unset, unset_path in U. rewrite Sp, Q1 in U. injection U as _ <-.
  cbn [replay is_missing]. unfold Unset, unset_path. rewrite Sp, Pp. cbn [snd].
  rewrite Gm. unfold Put, put_path. rewrite Sq, Gm, Q2. reflexivity.
Qed.

(* ------------------------------------------------------------------ *)
(* composition: positional expansion, pairs, operators *)

Lemma faithful_compose d ch d1 delta1 (k : st -> res st) d' ch' :
  (small_changes delta1 -> replay delta1 d = Ok d1) ->
  k (d1, ch ++ delta1) = Ok (d', ch') ->
  (forall dd cc dd' cc', k (dd, cc) = Ok (dd', cc') ->
     exists delta, cc' = cc ++ delta /\ (small_changes delta -> replay delta dd = Ok dd')) ->
  exists delta, ch' = ch ++ delta /\ (small_changes delta -> replay delta d = Ok d').
Proof.
  intros R1 H K. destruct (K _ _ _ _ H) as (delta2 & E & R2).
  exists (delta1 ++ delta2). split; [rewrite E, app_assoc; reflexivity|].
  intro S. apply small_changes_app in S. destruct S as [S1 S2].
  rewrite replay_app, (R1 S1). cbn [bind]. exact (R2 S2).
Qed.

Lemma resolve_faithful m fs f : faithful f -> forall fuel, faithful (fun s ps => resolve m fs fuel f ps s).
Proof.
  intros F fuel. induction fuel as [|fuel IH]; intros d ch ps d' ch' H; cbn [resolve] in H.
  - destruct (split_dollar ps) as [[before rest]|]; [discriminate | exact (F _ _ _ _ _ H)].
  - destruct (split_dollar ps) as [[before rest]|]; [|exact (F _ _ _ _ _ H)].
    destruct before as [|c0 b0]; [discriminate|].
    set (head := drop_last (String c0 b0)) in H. cbn [fst] in H.
    destruct (Get d head) as [| | | | | | | |arr| | | | | |]; try discriminate.
    destruct (String.eqb (path_segment rest) "$"); [discriminate|].
    destruct (negb (has_prefix (path_segment rest) "$[" && has_suffix (path_segment rest) "]")); [discriminate|].
    set (id := substring 2 (String.length (path_segment rest) - 3) (path_segment rest)) in H.
    destruct (String.eqb id "").
    + (* $[] *)
      revert H. generalize 0 as i. revert d ch d' ch'. clear -IH.
      induction arr as [|item t IHt]; intros d ch d' ch' i H.
      * injection H as <- <-. apply faithful_intro_keep.
      * destruct (resolve m fs fuel f (indexed_sub_path head i (reduce_path rest)) (d, ch)) as [[d1 ch1]| | | |] eqn:E;
          cbn [bind] in H; try discriminate.
        destruct (IH _ _ _ _ _ E) as (delta1 & -> & R1).
        eapply faithful_compose; [exact R1 | exact H |]. intros dd cc dd' cc' Hk. exact (IHt _ _ _ _ _ Hk).
    + destruct (negb (filter_binds fs id)); [discriminate|].
      revert H. generalize 0 as i. revert d ch d' ch'. clear -IH.
      induction arr as [|item t IHt]; intros d ch d' ch' i H.
      * injection H as <- <-. apply faithful_intro_keep.
      * destruct (item_matches m id item fs) as [ok| | | |]; cbn [bind] in H; try discriminate.
        destruct ok; [|exact (IHt _ _ _ _ _ H)].
        destruct (resolve m fs fuel f (indexed_sub_path head i (reduce_path rest)) (d, ch)) as [[d1 ch1]| | | |] eqn:E;
          cbn [bind] in H; try discriminate.
        destruct (IH _ _ _ _ _ E) as (delta1 & -> & R1).
        eapply faithful_compose; [exact R1 | exact H |]. intros dd cc dd' cc' Hk. exact (IHt _ _ _ _ _ Hk).
Qed.

(* every operator of the table is faithful (arguments without the Missing marker) *)
Lemma table_faithful m up now k g op :
  assoc k (update_ops m up now) = Some (g, op) ->
  forall v, has_missing v = false -> faithful (fun s p => op s p v).
Proof.
  intros A v Hv. unfold update_ops in A. cbn [assoc] in A.
  repeat match type of A with
  | (if String.eqb ?a k then _ else _) = _ =>
      destruct (String.eqb_spec a k) as [E|_];
      [injection A as _ <-; subst k|]
  end; try discriminate.
  all: try (apply keep_or_write_faithful;
            first [apply kow_set | apply kow_set_on_insert | apply kow_arith | apply kow_minmax | apply kow_current_date
                  | apply kow_add_to_set | apply kow_pull | apply kow_pull_all | apply kow_bit]).
  - apply unset_faithful.
  - apply rename_faithful.
  - apply push_faithful. exact Hv.
  - apply pop_faithful.
Qed.

Lemma apply_pairs_faithful m fs op pairs :
  (forall v, has_missing v = false -> faithful (fun s p => op s p v)) ->
  has_missing (VDoc pairs) = false ->
  forall d ch d' ch', apply_pairs m fs op pairs (d, ch) = Ok (d', ch') ->
  exists delta, ch' = ch ++ delta /\ (small_changes delta -> replay delta d = Ok d').
Proof.
  intro F. induction pairs as [|[k v] t IH]; intros Hm d ch d' ch' H.
  - cbn in H. injection H as <- <-. apply faithful_intro_keep.
  - assert (Hv : has_missing v = false) by (eapply has_missing_field; [exact Hm | left; reflexivity]).
    assert (Ht : has_missing (VDoc t) = false).
    { rewrite has_missing_doc in *. cbn [existsb] in Hm. apply orb_false_iff in Hm. tauto. }
    cbn [apply_pairs] in H.
    destruct (resolve m fs (S (count_dollar k)) (fun s p => op s p v) k (d, ch)) as [[d1 ch1]| | | |] eqn:E;
      cbn [bind] in H; try discriminate.
    destruct (resolve_faithful m fs _ (F v Hv) _ _ _ _ _ _ E) as (delta1 & -> & R1).
    eapply faithful_compose; [exact R1 | exact H |]. intros dd cc dd' cc' Hk. exact (IH Ht _ _ _ _ Hk).
Qed.

Lemma apply_ops_faithful m up now fs u :
  has_missing (VDoc u) = false ->
  forall d ch d' ch', apply_ops m up now fs u (d, ch) = Ok (d', ch') ->
  exists delta, ch' = ch ++ delta /\ (small_changes delta -> replay delta d = Ok d').
Proof.
  induction u as [|[k v] t IH]; intros Hm d ch d' ch' H.
  - cbn in H. injection H as <- <-. apply faithful_intro_keep.
  - assert (Hv : has_missing v = false) by (eapply has_missing_field; [exact Hm | left; reflexivity]).
    assert (Ht : has_missing (VDoc t) = false).
    { rewrite has_missing_doc in *. cbn [existsb] in Hm. apply orb_false_iff in Hm. tauto. }
    cbn [apply_ops] in H. destruct (starts_dollar k); [|discriminate].
    destruct (assoc k (update_ops m up now)) as [[g op]|] eqn:A; [|discriminate].
    destruct v; try discriminate.
    destruct (apply_pairs m fs op d0 (d, ch)) as [[d1 ch1]| | | |] eqn:E; cbn [bind] in H; try discriminate.
    destruct (apply_pairs_faithful m fs op d0 (table_faithful _ _ _ _ _ _ A) Hv _ _ _ _ E) as (delta1 & -> & R1).
    eapply faithful_compose; [exact R1 | exact H |]. intros dd cc dd' cc' Hk'. exact (IH Ht _ _ _ _ Hk').
Qed.

(* ------------------------------------------------------------------ *)
(* the theorems *)

(* Apply's Changed, replayed in the order of recording (a permutation of the
   path-sorted list that Apply returns) on the original document, gives the
   resulting document — for every update that Apply accepts (all 15 operators,
   positional paths included).  Side conditions: values without the Missing
   marker (true of BSON), and recorded $push index segments below 2^63 (always
   true in Go; the model's lists are unbounded). *)
Theorem apply_changes_faithful m d q u up fs now d' sorted :
  has_missing (VDoc u) = false ->
  apply_with m d q u up fs now = Ok (d', sorted) ->
  exists ch, Permutation ch sorted /\ sorted = sort_changes ch /\
             (small_changes ch -> replay ch d = Ok d').
Proof.
  intros Hm H. unfold apply_with in H. destruct u as [|kv t]; [discriminate|].
  destruct (conflicting_path (kv :: t)); [discriminate|].
  destruct (apply_ops m up now fs (kv :: t) (d, [])) as [[d1 ch]| | | |] eqn:E; cbn [bind] in H; try discriminate.
  injection H as <- <-. destruct (apply_ops_faithful _ _ _ _ _ Hm _ _ _ _ E) as (delta & -> & R).
  exists delta. split; [apply stable_sort_perm|]. split; [reflexivity | exact R].
Qed.

(* the $push instance, in the C08 direction: for a $push on plain paths the
   recorded changes applied as $sets to the original document reproduce the
   new document *)
Theorem push_changes_faithful m d q pairs up fs now d' sorted :
  has_missing (VDoc pairs) = false ->
  apply_with m d q [("$push"%string, VDoc pairs)] up fs now = Ok (d', sorted) ->
  exists ch, Permutation ch sorted /\ (small_changes ch -> replay ch d = Ok d').
Proof.
  intros Hm H.
  destruct (apply_changes_faithful m d q [("$push"%string, VDoc pairs)] up fs now d' sorted) as (ch & P & _ & R); auto.
  - rewrite has_missing_doc. cbn [existsb snd]. rewrite Hm. reflexivity.
  - eauto.
Qed.

(* Changed is a map in Go: it has no order.  Replaying it in PATH order
   reproduces the document only up to the order in which new fields are
   appended — the statement with the sorted list is false: *)
Open Scope string_scope.
Theorem replay_sorted_refuted m :
  apply_with m [] [] [("$set", VDoc [("b", VInt32 1); ("a", VInt32 2)])] false [] 0 =
    Ok ([("b", VInt32 1); ("a", VInt32 2)], [("a", VInt32 2); ("b", VInt32 1)]) /\
  replay [("a", VInt32 2); ("b", VInt32 1)] [] = Ok [("a", VInt32 2); ("b", VInt32 1)] /\
  replay [("b", VInt32 1); ("a", VInt32 2)] [] = Ok [("b", VInt32 1); ("a", VInt32 2)].
Proof. repeat split; reflexivity. Qed.

(* non-vacuity of the $push statement: append to an existing array (per-element
   records a.2, a.3) and creation of a missing field (whole array) *)
Example push_changes_example m :
  apply_with m [("a", VArr [VInt32 1; VInt32 2])] []
             [("$push", VDoc [("a", VDoc [("$each", VArr [VInt32 3; VInt32 4])]); ("n", VInt32 7)])] false [] 0 =
    Ok ([("a", VArr [VInt32 1; VInt32 2; VInt32 3; VInt32 4]); ("n", VArr [VInt32 7])],
        [("a.2", VInt32 3); ("a.3", VInt32 4); ("n", VArr [VInt32 7])]) /\
  replay [("a.2", VInt32 3); ("a.3", VInt32 4); ("n", VArr [VInt32 7])] [("a", VArr [VInt32 1; VInt32 2])] =
    Ok [("a", VArr [VInt32 1; VInt32 2; VInt32 3; VInt32 4]); ("n", VArr [VInt32 7])].
Proof. split; reflexivity. Qed.
Close Scope string_scope.
