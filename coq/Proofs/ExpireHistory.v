(* ExpireHistory.v — C19 over histories: the hypotheses of the catalog-level
   theorems of ExpireProofs.v (one entry per handle, coll_inv per namespace,
   no TTL index on local.oplog) follow from the catalog invariant
   CatInv.cat_inv, which Proofs/HistoryInv.v proves of every catalog visible
   in every state reachable by Driver.run from d_init.  So in every reachable
   state — for the committed catalog and for the catalog of every open
   session transaction — a TTL pass removes exactly the expired documents,
   for any update / extract / projection semantics. *)
From Coq Require Import List ZArith Lia Bool.
From Lungo.Model Require Import Txn Match Driver.
From Lungo.Proofs Require Import CollInv OplogProofs CatInv HistoryInv ExpireProofs.
Import ListNotations.
Open Scope Z_scope.

(* the catalog invariant implies the hypotheses of txn_expire_exact *)
Theorem cat_inv_expire_hyps c n :
  CatInv.cat_inv Match c n -> cat_wf c /\ cat_colls_ok c /\ oplog_no_ttl c.
Proof.
  intros [Hns [_ [Hnd _]]]. split; [exact Hnd|]. split.
  - intros h nc Hg. apply CatInv.ns_get_in in Hg. destruct (Hns h nc Hg) as [Ho Hu].
    destruct (CatInv.handle_eq_dec h oplog_handle) as [E|E].
    + exact (oplog_coll_inv Match n nc (Ho E)).
    + destruct (Hu E) as [H _]. exact H.
  - intros o Hg [f [e [nm [ix [v [rest [Hin _]]]]]]].
    apply CatInv.ns_get_in in Hg. destruct (Hns _ _ Hg) as [Ho _].
    destruct (Ho eq_refl) as [Hi _]. rewrite Hi in Hin. exact Hin.
Qed.

(* one pass from a catalog satisfying the invariant *)
Theorem cat_inv_expire_exact now_ms c g n :
  CatInv.cat_inv Match c n ->
  exists c' g', txn_expire Match c g now_ms = (c', g', inl tt) /\ expire_post now_ms c g c' g'.
Proof.
  intro H. destruct (cat_inv_expire_hyps c n H) as [W [I O]].
  exact (txn_expire_exact now_ms c g W I O).
Qed.

Section History.
  Variable applyf : doc -> doc -> doc -> bool -> list doc -> Z -> res (doc * list (string * value)).
  Variable extractf : doc -> res doc.
  Variable projectf : doc -> doc -> res doc.
  Variable now : Z.

  Local Notation step := (Driver.step Match applyf extractf projectf now).
  Local Notation run := (Driver.run Match applyf extractf projectf now).

  (* every catalog an observer can look at in a reachable state *)
  Theorem reachable_expire_hyps calls c :
    visible_cat (fst (run d_init calls)) c -> cat_wf c /\ cat_colls_ok c /\ oplog_no_ttl c.
  Proof.
    intro V. eapply cat_inv_expire_hyps.
    exact (reachable_cat_inv Match applyf extractf projectf now calls c V).
  Qed.

  (* C19 over histories: Transaction.Expire on any visible catalog of any
     reachable state, with any generator state and at any time *)
  Theorem reachable_expire_exact calls c g now_ms :
    visible_cat (fst (run d_init calls)) c ->
    exists c' g', txn_expire Match c g now_ms = (c', g', inl tt) /\ expire_post now_ms c g c' g'.
  Proof.
    intro V. destruct (reachable_expire_hyps calls c V) as [W [I O]].
    exact (txn_expire_exact now_ms c g W I O).
  Qed.

  Theorem reachable_expire_noop calls c g now_ms :
    visible_cat (fst (run d_init calls)) c ->
    (forall h n, ns_get (cat_ns c) h = Some n ->
       forall sd, In sd (c_docs n) -> ~ expired now_ms n (snd sd)) ->
    txn_expire Match c g now_ms = (c, g, inl tt).
  Proof.
    intros V Hn. destruct (reachable_expire_hyps calls c V) as [W [I O]].
    exact (expire_noop_unchanged now_ms c g W I O Hn).
  Qed.

  Theorem reachable_non_ttl_untouched calls c g now_ms c' g' r :
    visible_cat (fst (run d_init calls)) c ->
    txn_expire Match c g now_ms = (c', g', r) ->
    forall h n, h <> oplog_handle -> ns_get (cat_ns c) h = Some n -> ~ has_ttl n ->
      ns_get (cat_ns c') h = Some n.
  Proof.
    intros V H. destruct (reachable_expire_hyps calls c V) as [W [I O]].
    exact (non_ttl_untouched now_ms c g c' g' r W I O H).
  Qed.

  (* the driver call (Engine.Begin(lock) / Expire / Commit on the committed
     catalog): it succeeds whenever no session transaction holds the write
     token, and publishes exactly the catalog described by expire_post *)
  Theorem reachable_expire_step calls now_ms :
    let ds := fst (run d_init calls) in
    token_held ds = false ->
    exists c' g',
      step ds (CExpire now_ms) = (mkD c' g' (ds_sessions ds), ROk) /\
      expire_post now_ms (ds_cat ds) (ds_gen ds) c' g'.
  Proof.
    intros ds Ht.
    destruct (reachable_expire_exact calls (ds_cat ds) (ds_gen ds) now_ms (or_introl eq_refl))
      as [c' [g' [H P]]].
    exists c', g'. split; [|exact P].
    cbn [Driver.step]. fold ds. rewrite Ht, H. reflexivity.
  Qed.
End History.

Print Assumptions reachable_expire_exact.
Print Assumptions reachable_expire_step.
