(* GenInspect.v — obligations tying the model's class order and Inspect table
   to the definitions regenerated from /repo/bsonkit/inspect.go (G1). *)
From Coq Require Import List ZArith String.
From Lungo.Model Require Import Compare.
From Lungo.Gen Require Import Inspect.
From Lungo.Proofs Require Import CompareOrder.
Import ListNotations.
Open Scope string_scope.

Definition class_name (c : class) : string :=
  match c with
  | CNull => "Null" | CNumber => "Number" | CString => "String"
  | CDocument => "Document" | CArray => "Array" | CBinary => "Binary"
  | CObjectID => "ObjectID" | CBoolean => "Boolean" | CDate => "Date"
  | CTimestamp => "Timestamp" | CRegex => "Regex"
  end.

Definition type_name (t : Z) : string :=
  if (t =? 1)%Z then "Double" else if (t =? 2)%Z then "String"
  else if (t =? 3)%Z then "EmbeddedDocument" else if (t =? 4)%Z then "Array"
  else if (t =? 5)%Z then "Binary" else if (t =? 7)%Z then "ObjectID"
  else if (t =? 8)%Z then "Boolean" else if (t =? 9)%Z then "DateTime"
  else if (t =? 10)%Z then "Null" else if (t =? 11)%Z then "Regex"
  else if (t =? 16)%Z then "Int32" else if (t =? 17)%Z then "Timestamp"
  else if (t =? 18)%Z then "Int64" else if (t =? 19)%Z then "Decimal128"
  else "?".

(* one representative model value per Go type handled by Inspect *)
Definition reps : list (string * value) :=
  [("nil", VNull); ("primitive.Null", VNull); ("MissingType", VMissing);
   ("int32", VInt32 0); ("int64", VInt64 0); ("float64", VDouble 0);
   ("primitive.Decimal128", VDecimal 0 0); ("string", VString "");
   ("bson.D", VDoc []); ("bson.A", VArr []); ("primitive.Binary", VBin 0 "");
   ("primitive.ObjectID", VOid ""); ("bool", VBool false);
   ("primitive.DateTime", VDate 0); ("primitive.Timestamp", VTs 0 0);
   ("primitive.Regex", VRegex "" "")].

Definition model_inspect_table : list (string * string * string) :=
  map (fun nv => (fst nv, class_name (class_of (snd nv)), type_name (type_of (snd nv)))) reps
  ++ [("default", "panic", "panic")].

Theorem gen_inspect_table_ok : gen_inspect_table = model_inspect_table.
Proof. reflexivity. Qed.

Theorem gen_class_order_ok : gen_class_order = map class_name mongo_order.
Proof. reflexivity. Qed.
