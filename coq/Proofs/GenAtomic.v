(* GenAtomic.v — the obligations that tie the theorems of FsProofs.v and
   CommitProofs.v to the CURRENT source of /repo:
     G4  coq/Gen/Atomic.v  (dbkit/atomic.go:AtomicWriteFile)
     G5  coq/Gen/Commit.v  (engine.go:Engine.Commit)
   Both are discharged by vm_compute against checkers whose soundness is
   proved once, for all programs.  Moving Sync after Rename, dropping the
   directory fsync, writing to path directly, removing O_EXCL or the stale
   temporary handling, publishing before Store, or skipping the token release
   changes the generated definition and one of these stops checking. *)
From Coq Require Import List String Bool.
From Lungo.Model Require Import Base Fs FsRun Commit.
From Lungo.Gen Require Import Atomic.
From Lungo.Gen Require Commit.
From Lungo.Proofs Require Import FsProofs CommitProofs.
Import ListNotations.

Definition atomic_program : list stmt := translate_atomic gen_atomic_defers gen_atomic_prog.
Definition commit_program : list commit_stmt := translate_commit Lungo.Gen.Commit.gen_commit_prog.

Lemma atomic_ok : well_ordered atomic_program = true.
Proof. vm_compute. reflexivity. Qed.

Lemma commit_program_ok : commit_ok commit_program = true.
Proof. vm_compute. reflexivity. Qed.

(* the translated programs, for the record (what the obligations are about) *)
Lemma atomic_program_is :
  success_trace atomic_program =
  [(SRemove NTmp, EnoentOk); (SOpenExcl NTmp, Check); (SWriteAll, Check); (SFsync, Check);
   (SClose, Check); (SRename NTmp NPath, Check); (SOpenDir, Check); (SFsyncDir, Check);
   (SCloseDir, IgnoreAll); (SClose, IgnoreAll); (SRemove NTmp, IgnoreAll)].
Proof. vm_compute. reflexivity. Qed.

(* ---- the mutants named in DESIGN.md 7.5 are rejected by the checker, and the
   exhaustive explorer exhibits the crash instant (non-vacuity of the checker) ---- *)
Definition cleanup : list op := [(SClose, IgnoreAll); (SRemove NTmp, IgnoreAll)].
Definition good : list stmt :=
  [Do (SRemove NTmp) EnoentOk; Do (SOpenExcl NTmp) Check; Defer cleanup; Do SWriteAll Check;
   Do SFsync Check; Do SClose Check; Do (SRename NTmp NPath) Check; Do SOpenDir Check;
   Defer [(SCloseDir, IgnoreAll)]; Do SFsyncDir Check].
Definition sync_after_rename : list stmt :=
  [Do (SRemove NTmp) EnoentOk; Do (SOpenExcl NTmp) Check; Defer cleanup; Do SWriteAll Check;
   Do (SRename NTmp NPath) Check; Do SFsync Check; Do SClose Check; Do SOpenDir Check;
   Defer [(SCloseDir, IgnoreAll)]; Do SFsyncDir Check].
Definition no_dir_fsync : list stmt :=
  [Do (SRemove NTmp) EnoentOk; Do (SOpenExcl NTmp) Check; Defer cleanup; Do SWriteAll Check;
   Do SFsync Check; Do SClose Check; Do (SRename NTmp NPath) Check].
Definition write_in_place : list stmt :=
  [Do (SOpenTrunc NPath) Check; Defer [(SClose, IgnoreAll)]; Do SWriteAll Check; Do SFsync Check; Do SClose Check].
Definition no_stale_removal : list stmt :=
  [Do (SOpenExcl NTmp) Check; Defer cleanup; Do SWriteAll Check;
   Do SFsync Check; Do SClose Check; Do (SRename NTmp NPath) Check; Do SOpenDir Check;
   Defer [(SCloseDir, IgnoreAll)]; Do SFsyncDir Check].
Definition no_cleanup : list stmt :=
  [Do (SRemove NTmp) EnoentOk; Do (SOpenExcl NTmp) Check; Do SWriteAll Check;
   Do SFsync Check; Do SClose Check; Do (SRename NTmp NPath) Check; Do SOpenDir Check;
   Defer [(SCloseDir, IgnoreAll)]; Do SFsyncDir Check].

Definition verdict_kind (v : verdict) : nat * nat :=
  match v with VSafe _ n => (0, n) | VUnsafe i => (1, i) | VStuck i => (2, i) end.
Definition explore_from (p : list stmt) (stale : nat) : nat * nat :=
  verdict_kind (explore (success_trace p) (init_fs (Some [1; 2]) stale) (Loaded [1; 2]) [3; 4; 5] 0).

Lemma mutants_rejected :
  well_ordered good = true /\
  well_ordered sync_after_rename = false /\
  well_ordered no_dir_fsync = false /\
  well_ordered write_in_place = false /\
  well_ordered no_stale_removal = false /\
  well_ordered no_cleanup = false.
Proof. vm_compute. repeat split. Qed.

(* the counter-examples found by the enumerator: a crash right after the
   rename (after call 4) with the data not yet synced; a crash during the
   in-place write; a stale temporary makes O_EXCL fail; without the directory
   fsync every instant is old-or-new but the completed commit is not durable *)
Lemma mutants_counterexamples :
  explore_from good 0 = (0, 11) /\ explore_from good 1 = (0, 11) /\ explore_from good 2 = (0, 11) /\
  explore_from sync_after_rename 0 = (1, 4) /\
  explore_from write_in_place 0 = (1, 1) /\
  explore_from no_stale_removal 1 = (2, 1) /\
  (match explore (success_trace no_dir_fsync) (init_fs (Some [1; 2]) 0) (Loaded [1; 2]) [3; 4; 5] 0 with
   | VSafe s _ => final_durable s | _ => true end) = false.
Proof. vm_compute. repeat split. Qed.

(* Commit mutants *)
Definition commit_good : list commit_stmt :=
  [CLock; CDeferUnlock; CCheckAlive; CCheckTxnNil; CCheckTxnMatch; CDeferRelease; CUnsetTxn;
   CCheckDirty; CClean; CStore; CReturnOnStoreErr; CPublish; CBroadcast; CReturnNil].
Definition publish_before_store : list commit_stmt :=
  [CLock; CDeferUnlock; CCheckAlive; CCheckTxnNil; CCheckTxnMatch; CDeferRelease; CUnsetTxn;
   CCheckDirty; CClean; CPublish; CStore; CReturnOnStoreErr; CBroadcast; CReturnNil].
Definition no_return_on_error : list commit_stmt :=
  [CLock; CDeferUnlock; CCheckAlive; CCheckTxnNil; CCheckTxnMatch; CDeferRelease; CUnsetTxn;
   CCheckDirty; CClean; CStore; CPublish; CBroadcast; CReturnNil].
Definition no_release : list commit_stmt :=
  [CLock; CDeferUnlock; CCheckAlive; CCheckTxnNil; CCheckTxnMatch; CUnsetTxn;
   CCheckDirty; CClean; CStore; CReturnOnStoreErr; CPublish; CBroadcast; CReturnNil].
Definition no_unset : list commit_stmt :=
  [CLock; CDeferUnlock; CCheckAlive; CCheckTxnNil; CCheckTxnMatch; CDeferRelease;
   CCheckDirty; CClean; CStore; CReturnOnStoreErr; CPublish; CBroadcast; CReturnNil].

Lemma commit_mutants_rejected :
  commit_ok commit_good = true /\ commit_ok publish_before_store = false /\
  commit_ok no_return_on_error = false /\ commit_ok no_release = false /\ commit_ok no_unset = false.
Proof. vm_compute. repeat split. Qed.

(* what goes wrong in them, on the interpreter: a failing Store leaves the new
   catalog visible / the token held *)
Definition e_ready : eng := mkeng true (Some 7) true 100 false [].
Definition i_fail : cin := mkcin 7 101 true false.

Lemma commit_mutants_counterexamples :
  committed (snd (commit commit_good i_fail e_ready)) = 100 /\
  token (snd (commit commit_good i_fail e_ready)) = false /\
  committed (snd (commit publish_before_store i_fail e_ready)) = 101 /\
  committed (snd (commit no_return_on_error i_fail e_ready)) = 101 /\
  token (snd (commit no_release i_fail e_ready)) = true /\
  etxn (snd (commit no_unset i_fail e_ready)) = Some 7.
Proof. vm_compute. repeat split. Qed.

(* the canonical starting states are well-formed (non-vacuity of `wf`) *)
Lemma wf_examples :
  wf (eq (Loaded [1; 2])) (Loaded [1; 2]) (init_fs (Some [1; 2]) 0) /\
  wf (eq (Loaded [1; 2])) (Loaded [1; 2]) (init_fs (Some [1; 2]) 1) /\
  wf (eq (Loaded [1; 2])) (Loaded [1; 2]) (init_fs (Some [1; 2]) 2) /\
  wf (eq Absent) Absent (init_fs None 0).
Proof.
  assert (R : forall ins t, resolves (mkfile (Bytes [1; 2]) (Bytes [1; 2]) :: ins) (mkdir (Some 0) t) (Loaded [1; 2])).
  { intros. right. exists 0, [1; 2]. simpl. auto. }
  repeat split; simpl; auto.
  - intros k. exists (Loaded [1; 2]). split; auto. unfold dstate. simpl. rewrite firstn_nil. apply R.
  - apply R.
  - intros k. exists (Loaded [1; 2]). split; auto. unfold dstate. simpl. rewrite firstn_nil. apply R.
  - apply R.
  - intros k. exists (Loaded [1; 2]). split; auto. unfold dstate. simpl.
    destruct k; simpl; [apply R |]. rewrite firstn_nil. apply R.
  - apply R.
  - intros k. exists Absent. split; auto. unfold dstate. simpl. rewrite firstn_nil. left. auto.
  - left. auto.
Qed.
