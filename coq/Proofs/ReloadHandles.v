(* ReloadHandles.v — no database name of a reachable catalog contains a dot.

   File.BuildCatalog splits a namespace key "db.coll" at the FIRST dot, so a
   dot in a database name would make the reload change handles (the defect
   C06_reload_identity_refuted records).  Handle.Validate rejects such names
   (Txn.valid_handle: has_dot); this file proves the consequence as an
   invariant of every history: every handle of the committed catalog and of
   every open session transaction is local.oplog or was accepted by
   valid_handle, hence File.handles_ok holds of the image. *)
From Coq Require Import List ZArith String Lia Bool.
From Lungo.Model Require Import File.
From Lungo.Model Require Import Driver Reload.
From Lungo.Proofs Require Import CatInv HistoryInv.
Import ListNotations.
Open Scope Z_scope.
Open Scope list_scope.

Definition good_handle (h : Txn.handle) : Prop :=
  h = Txn.oplog_handle \/ has_dot (fst h) = false.

Definition keys_good (l : list (Txn.handle * Collection.coll)) : Prop :=
  forall k, In k (map fst l) -> good_handle k.

Definition cat_handles (c : Txn.catalog) : Prop := keys_good (cat_ns c).

Lemma keys_good_set l h c : keys_good l -> good_handle h -> keys_good (ns_set l h c).
Proof.
  intros H G k Hk. destruct (ns_set_keys _ _ _ _ Hk) as [->|Hin]; [exact G|apply H; exact Hin].
Qed.

Lemma keys_good_filter l p : keys_good l -> keys_good (filter p l).
Proof.
  intros H k Hk. apply H. apply in_map_iff in Hk. destruct Hk as [x [Hx Hin]].
  apply filter_In in Hin. apply in_map_iff. exists x. tauto.
Qed.

Lemma good_oplog : good_handle Txn.oplog_handle.
Proof. left. reflexivity. Qed.

Lemma valid_good h b : valid_handle h b = true -> good_handle h.
Proof.
  unfold valid_handle. intro H. apply andb_prop in H. destruct H as [H _].
  apply andb_prop in H. destruct H as [_ H]. right. apply negb_true_iff. exact H.
Qed.

Lemma guard_good h : guard_write h = None -> good_handle h.
Proof.
  unfold guard_write. destruct (valid_handle h true) eqn:E; cbn [negb]; [|discriminate].
  intros _. eapply valid_good; eauto.
Qed.

Lemma close_w_handles c h w : cat_handles c -> good_handle h -> cat_handles (close_w c h w).
Proof.
  intros H G. unfold cat_handles, close_w. cbn [cat_ns].
  apply keys_good_set; [apply keys_good_set; assumption|apply good_oplog].
Qed.

Section ReloadHandles.
  Set Default Proof Using "Type".
  Variable matchf : doc -> doc -> res bool.
  Variable applyf : doc -> doc -> doc -> bool -> list doc -> Z -> res (doc * list (string * value)).
  Variable extractf : doc -> res doc.
  Variable projectf : doc -> doc -> res doc.
  Variable now : Z.

  Local Notation step := (Driver.step matchf applyf extractf projectf now).
  Local Notation run := (Driver.run matchf applyf extractf projectf now).

  Lemma insert_loop_handles l : forall c g h o acc err c' g' acc' err',
    cat_handles c -> good_handle h ->
    insert_loop matchf c g h l o acc err = (c', g', acc', err') -> cat_handles c'.
  Proof.
    induction l as [|d t IH]; intros c g h o acc err c' g' acc' err' Hc G; cbn [insert_loop].
    - intro H; inversion H; subst. exact Hc.
    - destruct (t_insert matchf (open_w c g h) h d) as [w [r|e]].
      + intro H. eapply IH; [| |exact H]; auto. apply close_w_handles; auto.
      + destruct o; [intro H; inversion H; subst; exact Hc|].
        intro H. eapply IH; [| |exact H]; auto.
  Qed.

  Lemma txn_insert_handles c g h l o c' g' r :
    cat_handles c -> txn_insert matchf c g h l o = (c', g', r) -> cat_handles c'.
  Proof.
    intro Hc. unfold txn_insert. destruct (guard_write h) eqn:G; [intro H; inversion H; subst; exact Hc|].
    apply guard_good in G.
    destruct (insert_loop matchf c g h l o [] None) as [[[c2 g2] acc] err] eqn:E.
    pose proof (insert_loop_handles _ _ _ _ _ _ _ _ _ _ _ Hc G E) as A.
    destruct acc; intro H; inversion H; subst; assumption.
  Qed.

  Lemma finish_handles c g h ch r c' g' res :
    cat_handles c -> good_handle h -> finish c g h ch r = (c', g', res) -> cat_handles c'.
  Proof.
    intros Hc G. unfold finish. destruct r as [w [tr|e]].
    - destruct (ch tr); intro H; inversion H; subst; auto. apply close_w_handles; auto.
    - intro H; inversion H; subst. exact Hc.
  Qed.

  Lemma txn_replace_handles c g h q s rp up nw c' g' r :
    cat_handles c -> txn_replace matchf applyf extractf c g h q s rp up nw = (c', g', r) -> cat_handles c'.
  Proof.
    intro Hc. unfold txn_replace. destruct (guard_write h) eqn:G; [intro H; inversion H; subst; exact Hc|].
    apply guard_good in G.
    destruct (ns_get (cat_ns c) h); [apply finish_handles; auto|].
    destruct up; [apply finish_handles; auto|intro H; inversion H; subst; exact Hc].
  Qed.

  Lemma txn_update_handles c g h q s u sk li up afs nw c' g' r :
    cat_handles c -> txn_update matchf applyf extractf c g h q s u sk li up afs nw = (c', g', r) -> cat_handles c'.
  Proof.
    intro Hc. unfold txn_update. destruct (guard_write h) eqn:G; [intro H; inversion H; subst; exact Hc|].
    apply guard_good in G.
    destruct (ns_get (cat_ns c) h); [apply finish_handles; auto|].
    destruct up; [apply finish_handles; auto|intro H; inversion H; subst; exact Hc].
  Qed.

  Lemma txn_delete_handles c g h q s sk li c' g' r :
    cat_handles c -> txn_delete matchf c g h q s sk li = (c', g', r) -> cat_handles c'.
  Proof.
    intro Hc. unfold txn_delete. destruct (guard_write h) eqn:G; [intro H; inversion H; subst; exact Hc|].
    apply guard_good in G.
    destruct (ns_get (cat_ns c) h); [apply finish_handles; auto|intro H; inversion H; subst; exact Hc].
  Qed.

  Lemma bulk_loop_handles ops : forall c g h o nw acc n c' g' acc' n',
    cat_handles c -> good_handle h ->
    bulk_loop matchf applyf extractf c g h ops o nw acc n = (c', g', acc', n') -> cat_handles c'.
  Proof.
    induction ops as [|op t IH]; intros c g h o nw acc n c' g' acc' n' Hc G; cbn [bulk_loop].
    - intro H; inversion H; subst. exact Hc.
    - destruct op as [d|f rp s u|f up s u sk li afs|f s sk li];
        [ destruct (t_insert matchf (open_w c g h) h d) as [w [tr|e]]
        | destruct (t_replace matchf applyf extractf (open_w c g h) h f rp s u nw) as [w [tr|e]]
        | destruct (t_update matchf applyf extractf (open_w c g h) h f up s u sk li afs nw) as [w [tr|e]]
        | destruct (t_delete matchf (open_w c g h) h f s sk li) as [w [tr|e]] ];
        try (intro H; eapply IH; [| |exact H]; auto; apply close_w_handles; auto);
        (destruct o; [intro H; inversion H; subst; exact Hc|]; intro H; eapply IH; [| |exact H]; auto).
  Qed.

  Lemma txn_bulk_handles c g h ops o nw c' g' r :
    cat_handles c -> txn_bulk matchf applyf extractf c g h ops o nw = (c', g', r) -> cat_handles c'.
  Proof.
    intro Hc. unfold txn_bulk. destruct (guard_write h) eqn:G; [intro H; inversion H; subst; exact Hc|].
    apply guard_good in G.
    destruct (bulk_loop matchf applyf extractf c g h ops o nw [] 0) as [[[c2 g2] rs] n] eqn:E.
    pose proof (bulk_loop_handles _ _ _ _ _ _ _ _ _ _ _ _ Hc G E) as A.
    destruct (0 <? n); intro H; inversion H; subst; assumption.
  Qed.

  Lemma txn_drop_handles c g h c' g' r :
    cat_handles c -> txn_drop c g h = (c', g', r) -> cat_handles c'.
  Proof.
    intro Hc. unfold txn_drop.
    destruct (negb (valid_handle h false)); [intro H; inversion H; subst; exact Hc|].
    destruct (is_local h); [intro H; inversion H; subst; exact Hc|].
    destruct (map fst (filter (fun kc => drop_matches h (fst kc)) (cat_ns c)));
      [intro H; inversion H; subst; exact Hc|].
    destruct (drop_events _ _ _ _) as [[ol cl] g1].
    destruct (if String.eqb (snd h) "" then _ else _) as [[ol2 cl2] g2].
    intro H; inversion H; subst. unfold cat_handles. cbn [cat_ns].
    apply keys_good_set; [apply keys_good_filter; exact Hc|apply good_oplog].
  Qed.

  Lemma txn_create_index_handles c h name cf c' r :
    cat_handles c -> txn_create_index matchf c h name cf = (c', r) -> cat_handles c'.
  Proof.
    intro Hc. unfold txn_create_index. destruct (guard_write h) eqn:G; [intro H; inversion H; subst; exact Hc|].
    apply guard_good in G.
    destruct (coll_create_index matchf (ns_or_new c h) name cf) as [n' [nm|e]];
      intro H; inversion H; subst; auto.
    unfold cat_handles. cbn [cat_ns]. apply keys_good_set; auto.
  Qed.

  Lemma txn_drop_index_handles c h name c' r :
    cat_handles c -> txn_drop_index c h name = (c', r) -> cat_handles c'.
  Proof.
    intro Hc. unfold txn_drop_index. destruct (guard_write h) eqn:G; [intro H; inversion H; subst; exact Hc|].
    apply guard_good in G.
    destruct (ns_get (cat_ns c) h) as [n|]; [|intro H; inversion H; subst; exact Hc].
    destruct (coll_drop_index n name) as [n' [[|x l]|e]]; intro H; inversion H; subst; auto.
    unfold cat_handles. cbn [cat_ns]. apply keys_good_set; auto.
  Qed.

  Lemma expire_loop_handles l : forall c g now_ms d c' g' d',
    cat_handles c -> keys_good l ->
    expire_loop matchf c g l now_ms d = inl (c', g', d') -> cat_handles c'.
  Proof.
    induction l as [|[h n] t IH]; intros c g now_ms d c' g' d' Hc Hl; cbn [expire_loop].
    - intro H; inversion H; subst. exact Hc.
    - assert (Ht : keys_good t) by (intros k Hk; apply Hl; right; exact Hk).
      assert (Hh : good_handle h) by (apply Hl; left; reflexivity).
      destruct (opt_list _) as [|cd cds]; [apply IH; auto|].
      destruct (t_delete matchf (open_w c g h) h _ None 0 0) as [w [tr|e]]; [|discriminate].
      apply IH; auto. apply close_w_handles; auto.
  Qed.

  Lemma txn_expire_handles c g now_ms c' g' r :
    cat_handles c -> txn_expire matchf c g now_ms = (c', g', r) -> cat_handles c'.
  Proof.
    intro Hc. unfold txn_expire.
    destruct (expire_loop matchf c g (cat_ns c) now_ms 0) as [[[c2 g2] d]|e] eqn:E.
    - pose proof (expire_loop_handles _ _ _ _ _ _ _ _ Hc Hc E) as A.
      destruct (0 <? d); intro H; inversion H; subst; assumption.
    - intro H; inversion H; subst. exact Hc.
  Qed.

  (* ---------------------------------------------------------------- *)
  (* the driver state *)

  Definition ds_handles (ds : dstate) : Prop :=
    cat_handles (ds_cat ds) /\
    forall sid s tc, In (sid, s) (ds_sessions ds) -> s_txn s = Some tc -> cat_handles tc.

  Definition fn_h {A} (fn : catalog -> gen -> catalog * gen * (A + ekind)) : Prop :=
    forall c g c' g' r, cat_handles c -> fn c g = (c', g', r) -> cat_handles c'.

  Lemma ds_handles_set ds c' g' sid s :
    ds_handles ds -> cat_handles c' -> (forall tc, s_txn s = Some tc -> cat_handles tc) ->
    ds_handles (mkD c' g' (sess_set (ds_sessions ds) sid s)).
  Proof.
    intros [_ Hs] Hc Hn. split; cbn [ds_cat ds_sessions]; [exact Hc|].
    intros k s' tc Hin Ht. destruct (sess_set_in _ _ _ _ _ Hin) as [[_ ->]|Hin'].
    - apply Hn. exact Ht.
    - eapply Hs; eauto.
  Qed.

  Lemma ds_handles_keep ds c' g' :
    ds_handles ds -> cat_handles c' -> ds_handles (mkD c' g' (ds_sessions ds)).
  Proof. intros [_ Hs] Hc. split; cbn [ds_cat ds_sessions]; [exact Hc|exact Hs]. Qed.

  Lemma routed_handles ds sid tc : ds_handles ds -> routed ds sid = Some tc -> cat_handles tc.
  Proof.
    intros [_ Hs]. unfold routed. destruct (sid <=? 0); [discriminate|].
    destruct (sess_get (ds_sessions ds) sid) as [s|] eqn:E; [|discriminate].
    intro H. apply sess_get_in in E. eapply Hs; eauto.
  Qed.

  Lemma use_write_handles {A} ds sid (fn : catalog -> gen -> catalog * gen * (A + ekind)) :
    ds_handles ds -> fn_h fn -> ds_handles (fst (use_write ds sid fn)).
  Proof.
    intros Hd F. unfold use_write. destruct (routed ds sid) as [tc|] eqn:R.
    - pose proof (routed_handles ds sid tc Hd R) as Ht.
      destruct (fn tc (ds_gen ds)) as [[tc' g'] r] eqn:E. cbn [fst].
      apply ds_handles_set; auto; [apply Hd|].
      cbn [s_txn]. intros tc0 H. inversion H; subst. eapply F; eauto.
    - destruct (token_held ds); [exact Hd|].
      destruct (fn (ds_cat ds) (ds_gen ds)) as [[c' g'] r] eqn:E.
      destruct r; cbn [fst]; apply ds_handles_keep; auto; [eapply F; eauto; apply Hd|apply Hd].
  Qed.

  Lemma use_direct_handles {A} ds sid (fn : catalog -> gen -> catalog * gen * (A + ekind)) :
    ds_handles ds -> fn_h fn -> ds_handles (fst (use_direct ds sid fn)).
  Proof.
    intros Hd F. unfold use_direct. destruct (routed ds sid) as [tc|]; [exact Hd|].
    destruct (token_held ds); [exact Hd|].
    destruct (fn (ds_cat ds) (ds_gen ds)) as [[c' g'] r] eqn:E.
    destruct r; cbn [fst]; apply ds_handles_keep; auto; [eapply F; eauto; apply Hd|apply Hd].
  Qed.

  Lemma fn_h_project proj after (fn : catalog -> gen -> catalog * gen * (tresult + ekind)) :
    fn_h fn -> fn_h (fun cat g0 => project_in_txn projectf proj after cat (fn cat g0)).
  Proof.
    intros F c g c' g' r Hc. cbv beta.
    destruct (fn c g) as [[c1 g1] r1] eqn:E. intro H.
    apply project_in_txn_same in H. destruct H as [[->| ->] ->]; [eapply F; eauto|exact Hc].
  Qed.

  Lemma fn_h_nogen {A} (f : catalog -> catalog * (A + ekind)) :
    (forall c c' r, cat_handles c -> f c = (c', r) -> cat_handles c') ->
    fn_h (fun cat g0 => let '(c', r) := f cat in (c', g0, r)).
  Proof.
    intros F c g c' g' r Hc. cbv beta. destruct (f c) as [c1 r1] eqn:E.
    intro H; inversion H; subst. eapply F; eauto.
  Qed.

  Theorem step_handles ds c : ds_handles ds -> ds_handles (fst (step ds c)).
  Proof.
    intro Hd. destruct c; cbn [Driver.step]; try exact Hd.
    - rewrite fst_let. apply use_write_handles; auto.
      intros c g c' g' r Hc. apply txn_insert_handles. exact Hc.
    - rewrite fst_let. apply use_write_handles; auto.
      intros c g c' g' r Hc. apply txn_insert_handles. exact Hc.
    - rewrite fst_let. apply use_write_handles; auto.
      intros c g c' g' r Hc. apply txn_update_handles. exact Hc.
    - destruct (first_key_dollar repl); [exact Hd|].
      rewrite fst_let. apply use_write_handles; auto.
      intros c g c' g' r Hc. apply txn_replace_handles. exact Hc.
    - rewrite fst_let. apply use_write_handles; auto.
      intros c g c' g' r Hc. apply txn_delete_handles. exact Hc.
    - rewrite fst_let. apply use_write_handles; auto.
      apply (fn_h_project proj after
               (fun cat g => txn_update matchf applyf extractf cat g h q sort u 0 1 upsert afs now)).
      intros c g c' g' r Hc. apply txn_update_handles. exact Hc.
    - destruct (first_key_dollar repl); [exact Hd|].
      rewrite fst_let. apply use_write_handles; auto.
      apply (fn_h_project proj after
               (fun cat g => txn_replace matchf applyf extractf cat g h q sort repl upsert now)).
      intros c g c' g' r Hc. apply txn_replace_handles. exact Hc.
    - rewrite fst_let. apply use_write_handles; auto.
      apply (fn_h_project proj false (fun cat g => txn_delete matchf cat g h q sort 0 1)).
      intros c g c' g' r Hc. apply txn_delete_handles. exact Hc.
    - destruct (existsb _ ops); [exact Hd|].
      rewrite fst_let. apply use_write_handles; auto.
      intros c g c' g' r Hc. apply txn_bulk_handles. exact Hc.
    - rewrite fst_let. apply use_direct_handles; auto.
      apply (fn_h_nogen (fun cat => txn_create_index matchf cat h name
                                      (mkConfig key unique partial (expiry_ns expire_s)))).
      intros c c' r Hc. apply txn_create_index_handles. exact Hc.
    - rewrite fst_let. apply use_direct_handles; auto.
      apply (fn_h_nogen (fun cat => txn_drop_index cat h name)).
      intros c c' r Hc. apply txn_drop_index_handles. exact Hc.
    - rewrite fst_let. apply use_direct_handles; auto.
      apply (fn_h_nogen (fun cat => txn_drop_index cat h "")).
      intros c c' r Hc. apply txn_drop_index_handles. exact Hc.
    - rewrite fst_let. apply use_direct_handles; auto.
      intros c g c' g' r Hc. apply txn_drop_handles. exact Hc.
    - rewrite fst_let. apply use_direct_handles; auto.
      intros c g c' g' r Hc. apply txn_drop_handles. exact Hc.
    - (* start *)
      assert (S : ds_handles (mkD (ds_cat ds) (ds_gen ds)
                    (sess_set (ds_sessions ds) sid (mkSess (Some (ds_cat ds)) false)))).
      { apply ds_handles_set; auto; [apply Hd|].
        cbn [s_txn]. intros tc H. inversion H; subst. apply Hd. }
      destruct (sess_get (ds_sessions ds) sid) as [[[t|] [|]]|]; try exact Hd;
        destruct (token_held ds); cbn [fst]; auto.
    - (* commit *)
      destruct (sess_get (ds_sessions ds) sid) as [[[tc|] [|]]|] eqn:E; try exact Hd.
      cbn [fst]. apply sess_get_in in E. apply ds_handles_set; auto.
      + destruct Hd as [_ Hs]. eapply Hs; eauto.
      + cbn [s_txn]. intros tc0 H. discriminate.
    - (* abort *)
      destruct (sess_get (ds_sessions ds) sid) as [[t [|]]|]; try exact Hd; cbn [fst];
        (apply ds_handles_set; auto; [apply Hd|cbn [s_txn]; intros tc0 H; discriminate]).
    - (* end session *)
      cbn [fst]. apply ds_handles_set; auto; [apply Hd|cbn [s_txn]; intros tc0 H; discriminate].
    - (* trim *)
      destruct (token_held ds); [exact Hd|].
      destruct (0 <? _); [|exact Hd]. cbn [fst].
      apply ds_handles_keep; auto. unfold cat_handles. cbn [cat_ns].
      apply keys_good_set; [apply Hd|apply good_oplog].
    - (* expire *)
      destruct (token_held ds); [exact Hd|].
      destruct (txn_expire matchf (ds_cat ds) (ds_gen ds) now_ms) as [[c' g'] r] eqn:E.
      pose proof (txn_expire_handles _ _ _ _ _ _ (proj1 Hd) E) as A.
      destruct r; cbn [fst]; apply ds_handles_keep; auto. apply Hd.
  Qed.

  Lemma d_init_handles : ds_handles d_init.
  Proof.
    split; cbn [d_init ds_cat ds_sessions].
    - intros k [<-|[]]. apply good_oplog.
    - intros sid s tc [].
  Qed.

  Lemma run_handles_from calls : forall ds, ds_handles ds -> ds_handles (fst (run ds calls)).
  Proof.
    induction calls as [|c t IH]; intros ds Hd; cbn [Driver.run]; [exact Hd|].
    pose proof (step_handles ds c Hd) as H1.
    destruct (step ds c) as [ds1 r]. cbn [fst] in H1.
    specialize (IH ds1 H1). destruct (run ds1 t) as [ds2 rs]. exact IH.
  Qed.

  Theorem run_handles calls : ds_handles (fst (run d_init calls)).
  Proof. apply run_handles_from. apply d_init_handles. Qed.

End ReloadHandles.

(* ------------------------------------------------------------------ *)
(* the File.v side: handles_ok of the image *)

Lemma has_dot_no_dot s : has_dot s = false -> no_dot s = true.
Proof.
  induction s as [|c t IH]; cbn [has_dot no_dot]; [reflexivity|].
  intro H. apply orb_false_elim in H. destruct H as [H1 H2].
  unfold dot. rewrite H1, (IH H2). reflexivity.
Qed.

Theorem handles_ok_image c : cat_handles c -> handles_ok (image c) = true.
Proof.
  intro H. unfold handles_ok, image. apply forallb_forall. intros [h fc] Hin.
  apply in_map_iff in Hin. destruct Hin as [[k nc] [He Hin]].
  unfold image_ns in He. cbn [fst snd] in He. inversion He; subst. cbn [fst].
  destruct (H h) as [->|Hd].
  - apply in_map_iff. exists (h, nc). split; [reflexivity|exact Hin].
  - reflexivity.
  - apply has_dot_no_dot. exact Hd.
Qed.

Print Assumptions run_handles.
Print Assumptions handles_ok_image.
