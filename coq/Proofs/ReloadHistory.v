(* ReloadHistory.v — C06 lifted to histories: after ANY history of driver
   calls, storing the committed catalog to the file and loading it again
   gives back the same file image (documents in order, index definitions,
   change log), the real index builder succeeds on every stored index, and
   the Txn-level catalog rebuilt from the file is equivalent to the one that
   was stored (ReloadProofs.cat_equiv).

   The only hypotheses left are the codec-side ones, about the VALUES that
   were stored (they are not provable from how documents enter: the calls of
   Model/Driver.v carry arbitrary `doc` values and the update operator
   semantics is a parameter):
     catalog_ok (image c)   every name is NUL-free, every stored value is in
                            the codec's range (File.catalog_ok / codec_ok)
     the marshalled file is smaller than 2^31 bytes. *)
From Coq Require Import List ZArith String Lia Bool.
From Lungo.Model Require Import File.
From Lungo.Model Require Import Driver Reload.
From Lungo.Proofs Require Import CodecProofs FileProofs CollInv CatInv HistoryInv ReloadProofs ReloadHandles.
Import ListNotations.
Open Scope Z_scope.
Open Scope list_scope.

Lemma has_oplog_image c :
  (exists o, ns_get (cat_ns c) Txn.oplog_handle = Some o) -> has_oplog (image c) = true.
Proof.
  intros [o Ho]. apply ns_get_in in Ho. unfold has_oplog, image. apply existsb_exists.
  exists (image_ns (Txn.oplog_handle, o)). split.
  - apply in_map. exact Ho.
  - reflexivity.
Qed.

(* the codec-side conditions on the stored values *)
Definition storable_image (nilp : string -> bool) (c : Txn.catalog) : Prop :=
  catalog_ok (image c) = true /\
  Z.of_nat (List.length (store_bytes nilp (image c))) < two31.

Section ReloadHistory.
  Set Default Proof Using "Type".
  Variable matchf : doc -> doc -> res bool.
  Variable applyf : doc -> doc -> doc -> bool -> list doc -> Z -> res (doc * list (string * value)).
  Variable extractf : doc -> res doc.
  Variable projectf : doc -> doc -> res doc.
  Variable now : Z.

  Local Notation step := (Driver.step matchf applyf extractf projectf now).
  Local Notation run := (Driver.run matchf applyf extractf projectf now).
  Local Notation cat_inv := (CatInv.cat_inv matchf).
  Local Notation ds_inv := (HistoryInv.ds_inv matchf).
  Local Notation build_ok_real := (Reload.build_ok_real matchf).
  Local Notation load := (Reload.load matchf).
  Local Notation reopen := (Reload.reopen matchf).

  (* from the two invariants of a driver state *)
  Theorem reload_state ds nilp :
    ds_inv ds -> ds_handles ds -> storable_image nilp (ds_cat ds) ->
    indexes_build build_ok_real (image (ds_cat ds)) = true /\
    handles_ok (image (ds_cat ds)) = true /\
    reload_g build_ok_real nilp (image (ds_cat ds)) = Some (image (ds_cat ds)) /\
    exists c', load (cat_clock (ds_cat ds)) (image (ds_cat ds)) = Some c' /\
               cat_equiv (ds_cat ds) c' /\
               cat_inv c' (next_did (image (ds_cat ds))) /\
               reopen nilp ds =
                 Some (mkD c' (mkGen (next_did (image (ds_cat ds))) (g_oid (ds_gen ds))) []).
  Proof.
    intros [Hc _] [Hh _] [Hok Hlen].
    pose proof (indexes_build_image matchf _ _ Hc) as Hb.
    pose proof (handles_ok_image _ Hh) as Hho.
    assert (Hr : reload_g build_ok_real nilp (image (ds_cat ds)) = Some (image (ds_cat ds))).
    { apply reload_identity_g; auto. split; [exact Hok|]. split; [|exact Hlen].
      apply has_oplog_image. destruct Hc as [_ [H _]]. exact H. }
    split; [exact Hb|]. split; [exact Hho|]. split; [exact Hr|].
    destruct (load_image matchf _ _ Hc) as [c' [Hl [He Hi]]].
    exists c'. split; [exact Hl|]. split; [exact He|]. split; [exact Hi|].
    unfold Reload.reopen. rewrite Hr. change (Reload.load matchf) with load. rewrite Hl. reflexivity.
  Qed.

  (* ... hence after every history *)
  Theorem reload_history calls nilp :
    let ds := fst (run d_init calls) in
    storable_image nilp (ds_cat ds) ->
    indexes_build build_ok_real (image (ds_cat ds)) = true /\
    handles_ok (image (ds_cat ds)) = true /\
    reload_g build_ok_real nilp (image (ds_cat ds)) = Some (image (ds_cat ds)) /\
    exists c', load (cat_clock (ds_cat ds)) (image (ds_cat ds)) = Some c' /\
               cat_equiv (ds_cat ds) c' /\
               cat_inv c' (next_did (image (ds_cat ds))) /\
               reopen nilp ds =
                 Some (mkD c' (mkGen (next_did (image (ds_cat ds))) (g_oid (ds_gen ds))) []).
  Proof.
    intro ds. apply reload_state.
    - apply run_inv.
    - apply run_handles.
  Qed.

End ReloadHistory.

Print Assumptions reload_state.
Print Assumptions reload_history.
