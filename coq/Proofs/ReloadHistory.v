(* ReloadHistory.v — C06 lifted to histories: after ANY history of driver
   calls, storing the committed catalog to the file and loading it again
   gives back the same file image (documents in order, index definitions,
   change log), the real index builder succeeds on every stored index, and
   the Txn-level catalog rebuilt from the file is equivalent to the one that
   was stored (ReloadProofs.cat_equiv).

   The only hypotheses left are the codec-side ones, about the VALUES that
   were stored (they are not provable from how documents enter: the calls of
   Model/Driver.v carry arbitrary `doc` values and the update operator
   semantics is a parameter):
     catalog_ok (image c)   every name is NUL-free, every stored value is in
                            the codec's range (File.catalog_ok / codec_ok)
     the marshalled file is smaller than 2^31 bytes.

   "Enforces the same constraints and answers every later call identically":
   the reopened engine (Reload.reopen: fresh identities, rebuilt indexes, no
   sessions) is related to the original by the simulation of ReloadSimStep.v,
   so for EVERY continuation history — CRUD, bulk-write, index management,
   drops, sessions and transactions started afterwards, oplog trim, TTL
   expiry, reads of local.oplog — both give the same replies and stay
   related.  The original is taken without its client sessions
   (`forget_sessions`: a new engine has none); for histories without explicit
   session control calls that is the original state itself. *)
From Coq Require Import List ZArith String Lia Bool.
From Lungo.Model Require Import File.
From Lungo.Model Require Import Driver Reload.
From Lungo.Proofs Require Import CodecProofs FileProofs CollInv CatInv HistoryInv ReloadProofs ReloadHandles
  RefineColl ReloadSimColl ReloadSimTxn ReloadSimCat ReloadSimStep.
Import ListNotations.
Open Scope Z_scope.
Open Scope list_scope.

Lemma has_oplog_image c :
  (exists o, ns_get (cat_ns c) Txn.oplog_handle = Some o) -> has_oplog (image c) = true.
Proof.
  intros [o Ho]. apply ns_get_in in Ho. unfold has_oplog, image. apply existsb_exists.
  exists (image_ns (Txn.oplog_handle, o)). split.
  - apply in_map. exact Ho.
  - reflexivity.
Qed.

(* the codec-side conditions on the stored values *)
Definition storable_image (nilp : string -> bool) (c : Txn.catalog) : Prop :=
  catalog_ok (image c) = true /\
  Z.of_nat (List.length (store_bytes nilp (image c))) < two31.

Section ReloadHistory.
  Set Default Proof Using "Type".
  Variable matchf : doc -> doc -> res bool.
  Variable applyf : doc -> doc -> doc -> bool -> list doc -> Z -> res (doc * list (string * value)).
  Variable extractf : doc -> res doc.
  Variable projectf : doc -> doc -> res doc.
  Variable now : Z.

  Local Notation step := (Driver.step matchf applyf extractf projectf now).
  Local Notation run := (Driver.run matchf applyf extractf projectf now).
  Local Notation cat_inv := (CatInv.cat_inv matchf).
  Local Notation ds_inv := (HistoryInv.ds_inv matchf).
  Local Notation build_ok_real := (Reload.build_ok_real matchf).
  Local Notation load := (Reload.load matchf).
  Local Notation reopen := (Reload.reopen matchf).

  (* from the two invariants of a driver state *)
  Theorem reload_state ds nilp :
    ds_inv ds -> ds_handles ds -> storable_image nilp (ds_cat ds) ->
    indexes_build build_ok_real (image (ds_cat ds)) = true /\
    handles_ok (image (ds_cat ds)) = true /\
    reload_g build_ok_real nilp (image (ds_cat ds)) = Some (image (ds_cat ds)) /\
    exists c', load (cat_clock (ds_cat ds)) (image (ds_cat ds)) = Some c' /\
               cat_equiv (ds_cat ds) c' /\
               cat_inv c' (next_did (image (ds_cat ds))) /\
               reopen nilp ds =
                 Some (mkD c' (mkGen (next_did (image (ds_cat ds))) (g_oid (ds_gen ds))) []).
  Proof.
    intros [Hc _] [Hh _] [Hok Hlen].
    pose proof (indexes_build_image matchf _ _ Hc) as Hb.
    pose proof (handles_ok_image _ Hh) as Hho.
    assert (Hr : reload_g build_ok_real nilp (image (ds_cat ds)) = Some (image (ds_cat ds))).
    { apply reload_identity_g; auto. split; [exact Hok|]. split; [|exact Hlen].
      apply has_oplog_image. destruct Hc as [_ [H _]]. exact H. }
    split; [exact Hb|]. split; [exact Hho|]. split; [exact Hr|].
    destruct (load_image matchf _ _ Hc) as [c' [Hl [He Hi]]].
    exists c'. split; [exact Hl|]. split; [exact He|]. split; [exact Hi|].
    unfold Reload.reopen. rewrite Hr. change (Reload.load matchf) with load. rewrite Hl. reflexivity.
  Qed.

  (* ... hence after every history *)
  Theorem reload_history calls nilp :
    let ds := fst (run d_init calls) in
    storable_image nilp (ds_cat ds) ->
    indexes_build build_ok_real (image (ds_cat ds)) = true /\
    handles_ok (image (ds_cat ds)) = true /\
    reload_g build_ok_real nilp (image (ds_cat ds)) = Some (image (ds_cat ds)) /\
    exists c', load (cat_clock (ds_cat ds)) (image (ds_cat ds)) = Some c' /\
               cat_equiv (ds_cat ds) c' /\
               cat_inv c' (next_did (image (ds_cat ds))) /\
               reopen nilp ds =
                 Some (mkD c' (mkGen (next_did (image (ds_cat ds))) (g_oid (ds_gen ds))) []).
  Proof.
    intro ds. apply reload_state.
    - apply run_inv.
    - apply run_handles.
  Qed.

  (* no database name of a reachable catalog contains a dot: the hypothesis
     `handles_ok` of the file-level theorem is an invariant *)
  Theorem handles_ok_history calls :
    handles_ok (image (ds_cat (fst (run d_init calls)))) = true.
  Proof. apply handles_ok_image. apply (run_handles matchf applyf extractf projectf now calls). Qed.

  (* ---------------------------------------------------------------- *)
  (* the reloaded database answers every later call identically *)

  Lemma index_equiv_defof rho l l' : Forall2 (index_equiv rho) l l' -> map defof l = map defof l'.
  Proof.
    intro F. induction F as [|a b l l' [Hn [Hc [Hl _]]] _ IH]; [reflexivity|].
    cbn [map]. rewrite IH. f_equal. unfold defof. rewrite Hn, Hc, Hl. reflexivity.
  Qed.

  Lemma coll_equiv_csim x y : coll_equiv x y -> csim x y.
  Proof.
    intros [E [_ [_ F]]]. unfold csim. rewrite !abs_coll_eq. f_equal; [exact E|].
    eapply index_equiv_defof; eauto.
  Qed.

  Lemma cat_equiv_catsim c c' : cat_equiv c c' -> catsim c c'.
  Proof.
    intros [K F]. split; [|exact K]. unfold ens.
    induction F as [|[h x] [h' y] l l' [Hh Hx] _ IH]; [reflexivity|].
    cbn [map fst snd] in *. subst h'. rewrite IH, (coll_equiv_csim _ _ Hx). reflexivity.
  Qed.

  (* the original engine as seen by clients that hold no session of it *)
  Definition forget_sessions (ds : dstate) : dstate := mkD (ds_cat ds) (ds_gen ds) [].

  Local Notation dsim := (ReloadSimStep.dsim matchf).

  Theorem reopen_related ds nilp :
    ds_inv ds -> ds_handles ds -> storable_image nilp (ds_cat ds) ->
    exists ds', reopen nilp ds = Some ds' /\ cat_equiv (ds_cat ds) (ds_cat ds') /\
                dsim (forget_sessions ds) ds'.
  Proof.
    intros Hi Hh Hs. destruct (reload_state ds nilp Hi Hh Hs) as [_ [_ [_ [c' [_ [He [Hc Hr]]]]]]].
    eexists. split; [exact Hr|]. split; [exact He|].
    split; [|split].
    - split; [apply Hi|]. intros sid s tc [].
    - split; [exact Hc|]. intros sid s tc [].
    - split; [apply cat_equiv_catsim; exact He|]. split; [reflexivity|constructor].
  Qed.

  Theorem reload_continuation_state ds nilp more :
    ds_inv ds -> ds_handles ds -> storable_image nilp (ds_cat ds) ->
    exists ds', reopen nilp ds = Some ds' /\ cat_equiv (ds_cat ds) (ds_cat ds') /\
                snd (run ds' more) = snd (run (forget_sessions ds) more) /\
                dsim (fst (run (forget_sessions ds) more)) (fst (run ds' more)).
  Proof.
    intros Hi Hh Hs. destruct (reopen_related ds nilp Hi Hh Hs) as [ds' [Hr [He Hd]]].
    exists ds'. split; [exact Hr|]. split; [exact He|].
    destruct (run_sim matchf applyf extractf projectf now more _ _ Hd) as [R S].
    split; [symmetry; exact R|exact S].
  Qed.

  (* after every history, for every continuation *)
  Theorem reload_continuation calls nilp more :
    let ds := fst (run d_init calls) in
    storable_image nilp (ds_cat ds) ->
    exists ds', reopen nilp ds = Some ds' /\ cat_equiv (ds_cat ds) (ds_cat ds') /\
                snd (run ds' more) = snd (run (forget_sessions ds) more) /\
                dsim (fst (run (forget_sessions ds) more)) (fst (run ds' more)).
  Proof.
    intro ds. apply reload_continuation_state; [apply run_inv|apply run_handles].
  Qed.

  (* histories without explicit session control never create a session *)
  Definition plain_call (c : call) : Prop :=
    match c with
    | CStart _ | CCommit _ | CAbort _ | CEnd _ => False
    | _ => True
    end.

  Lemma use_write_plain {A} ds sid (fn : catalog -> gen -> catalog * gen * (A + ekind)) :
    ds_sessions ds = [] -> ds_sessions (fst (use_write ds sid fn)) = [].
  Proof.
    intro H. unfold use_write, routed. rewrite H. cbn [sess_get].
    destruct (sid <=? 0); (destruct (token_held ds); [exact H|]);
      destruct (fn (ds_cat ds) (ds_gen ds)) as [[c' g'] [r|e]]; first [exact H|reflexivity].
  Qed.

  Lemma use_direct_plain {A} ds sid (fn : catalog -> gen -> catalog * gen * (A + ekind)) :
    ds_sessions ds = [] -> ds_sessions (fst (use_direct ds sid fn)) = [].
  Proof.
    intro H. unfold use_direct, routed. rewrite H. cbn [sess_get].
    destruct (sid <=? 0); (destruct (token_held ds); [exact H|]);
      destruct (fn (ds_cat ds) (ds_gen ds)) as [[c' g'] [r|e]]; first [exact H|reflexivity].
  Qed.

  Lemma step_plain ds c : ds_sessions ds = [] -> plain_call c -> ds_sessions (fst (step ds c)) = [].
  Proof.
    intros H P. destruct c; cbn [Driver.step plain_call] in *; try contradiction; try exact H;
      try (rewrite fst_let; first [apply use_write_plain|apply use_direct_plain]; exact H).
    - destruct (first_key_dollar repl); [exact H|]. rewrite fst_let. apply use_write_plain. exact H.
    - destruct (first_key_dollar repl); [exact H|]. rewrite fst_let. apply use_write_plain. exact H.
    - destruct (existsb _ ops); [exact H|]. rewrite fst_let. apply use_write_plain. exact H.
    - destruct (token_held ds); [exact H|]. destruct (0 <? _); exact H.
    - destruct (token_held ds); [exact H|].
      destruct (txn_expire matchf (ds_cat ds) (ds_gen ds) now_ms) as [[c' g'] [r|e]]; exact H.
  Qed.

  Lemma run_plain calls : forall ds,
    ds_sessions ds = [] -> Forall plain_call calls -> ds_sessions (fst (run ds calls)) = [].
  Proof.
    induction calls as [|c t IH]; intros ds H F; cbn [Driver.run]; [exact H|].
    inversion F as [|? ? Pc Pt]; subst. pose proof (step_plain ds c H Pc) as H1.
    destruct (step ds c) as [ds1 r]. cbn [fst] in H1. specialize (IH ds1 H1 Pt).
    destruct (run ds1 t) as [ds2 rs]. exact IH.
  Qed.

  (* ... then the reloaded engine answers exactly as the original would *)
  Theorem reload_continuation_plain calls nilp more :
    let ds := fst (run d_init calls) in
    Forall plain_call calls -> storable_image nilp (ds_cat ds) ->
    exists ds', reopen nilp ds = Some ds' /\ cat_equiv (ds_cat ds) (ds_cat ds') /\
                snd (run ds' more) = snd (run ds more).
  Proof.
    intros ds P Hs. destruct (reload_continuation calls nilp more Hs) as [ds' [Hr [He [R _]]]].
    exists ds'. split; [exact Hr|]. split; [exact He|]. rewrite R. f_equal. f_equal.
    unfold forget_sessions. fold ds.
    pose proof (run_plain calls d_init eq_refl P) as H. fold ds in H.
    destruct ds as [c g ss]. cbn [ds_sessions ds_cat ds_gen] in *. rewrite H. reflexivity.
  Qed.

End ReloadHistory.

Print Assumptions reload_state.
Print Assumptions reload_history.
Print Assumptions handles_ok_history.
Print Assumptions reload_continuation.
Print Assumptions reload_continuation_plain.
