(* HistoryDup.v — C07 exactness at the DRIVER level, for reachable states:
   the reply of InsertOne is the uniqueness error exactly when the insert
   would create a duplicate pair in the catalog the call works on (the
   committed catalog, or the transaction of the session it is routed to), and
   the reply of CreateIndex is the uniqueness error exactly when the stored
   documents contain a duplicate pair for the new index. *)
From Coq Require Import List ZArith Lia Bool.
From Lungo.Model Require Import Driver.
From Lungo.Proofs Require Import EntryLemmas IndexInv CollLists CollInv CollDup TxnProofs OplogProofs
     DriverProofs CatInv HistoryInv HistoryProps ReplayBase.
Import ListNotations.
Open Scope Z_scope.
Open Scope list_scope.

Section HistoryDup.
  Set Default Proof Using "Type".
  Variable matchf : doc -> doc -> res bool.
  Variable applyf : doc -> doc -> doc -> bool -> list doc -> Z -> res (doc * list (string * value)).
  Variable extractf : doc -> res doc.
  Variable projectf : doc -> doc -> res doc.
  Variable now : Z.

  Local Notation step := (Driver.step matchf applyf extractf projectf now).
  Local Notation run := (Driver.run matchf applyf extractf projectf now).
  Local Notation after := (HistoryProps.after matchf applyf extractf projectf now).
  Local Notation coll_insert := (Collection.coll_insert matchf).
  Local Notation coll_create_index := (Collection.coll_create_index matchf).
  Local Notation txn_insert := (Txn.txn_insert matchf).
  Local Notation txn_create_index := (Txn.txn_create_index matchf).
  Local Notation first_reject := (CollDup.first_reject matchf).
  Local Notation dup_pair := (IndexInv.dup_pair matchf).
  Local Notation covers_ok := (IndexInv.covers_ok matchf).

  (* the error of a single-document Insert is the error of the collection
     insert on the target namespace *)
  Lemma txn_insert_one_error c g h d c' g' r e :
    guard_write h = None -> txn_insert c g h [d] true = (c', g', r) ->
    exists tr, r = inl tr /\
      (t_error tr = Some e <->
       exists ns', coll_insert (ns_or_new c h) (g_did g) d (gen_oid (g_oid g)) = (ns', inr e)) /\
      (t_error tr = None -> t_modified tr <> []).
  Proof.
    intros G. unfold Txn.txn_insert. rewrite G. cbn [Txn.insert_loop].
    unfold Txn.t_insert. cbn [open_w w_ns w_gen].
    destruct (coll_insert (ns_or_new c h) (g_did g) d (gen_oid (g_oid g))) as [ns' [cr|e0]] eqn:E.
    - destruct (coll_insert_modified matchf _ _ _ _ _ _ E) as [sd Hsd]. rewrite Hsd.
      cbn [t_modified app]. intro H. inversion H; subst.
      eexists. split; [reflexivity|]. cbn [t_error t_modified]. split; [|intros _; discriminate].
      split; [discriminate|]. intros [ns2 H2]. discriminate.
    - intro H. inversion H; subst. eexists. split; [reflexivity|]. cbn [t_error t_modified].
      split; [|discriminate]. split.
      + intro H1. inversion H1; subst. eauto.
      + intros [ns2 H2]. inversion H2; subst. reflexivity.
  Qed.

  (* the catalog a write call with session context sid works on *)
  Definition target (ds : dstate) (sid : Z) : catalog := read_cat ds sid.

  (* the call actually runs: it is routed to an open transaction, or no
     transaction holds the engine token *)
  Definition can_write (ds : dstate) (sid : Z) : Prop :=
    routed ds sid <> None \/ token_held ds = false.

  Lemma use_write_result {A} ds sid (fn : catalog -> gen -> catalog * gen * (A + ekind)) :
    can_write ds sid ->
    snd (use_write ds sid fn) = snd (fn (target ds sid) (ds_gen ds)).
  Proof.
    intros W. unfold use_write, target, read_cat. destruct (routed ds sid) as [tc|] eqn:R.
    - destruct (fn tc (ds_gen ds)) as [[tc' g'] r]. reflexivity.
    - destruct W as [W|W]; [congruence|]. rewrite W.
      destruct (fn (ds_cat ds) (ds_gen ds)) as [[c' g'] r]. destruct r; reflexivity.
  Qed.

  Lemma snd_let {A B C} (x : A * B) (f : B -> C) : snd (let '(a, b) := x in (a, f b)) = f (snd x).
  Proof. destruct x. reflexivity. Qed.

  Lemma target_visible ds sid : visible_cat ds (target ds sid).
  Proof.
    unfold target, read_cat. destruct (routed ds sid) as [tc|] eqn:R; [|left; reflexivity].
    right. unfold routed in R. destruct (sid <=? 0); [discriminate|].
    destruct (sess_get (ds_sessions ds) sid) as [s|] eqn:E; [|discriminate].
    exists sid, s. split; [apply sess_get_in; exact E|exact R].
  Qed.

  (* InsertOne after any history: rejected with the uniqueness error exactly
     when the first index (in map order) that does not accept the document
     rejects it as a duplicate of a stored document *)
  Theorem hist_insert_one_dup_iff calls sid h d :
    let ds := after calls in
    let nc := ns_or_new (target ds sid) h in
    guard_write h = None -> can_write ds sid ->
    (snd (step ds (CInsertOne sid h d)) = RErr EDup <->
     exists d', ensure_id d (gen_oid (g_oid (ds_gen ds))) = Ok d' /\
                first_reject (c_indexes nc) (docs_of nc) d').
  Proof.
    intros ds nc G W. cbn [Driver.step]. rewrite snd_let.
    rewrite (use_write_result ds sid (fun cat g => txn_insert cat g h [d] true) W).
    destruct (txn_insert (target ds sid) (ds_gen ds) h [d] true) as [[c' g'] r] eqn:E. cbn [snd].
    destruct (txn_insert_one_error _ _ _ _ _ _ _ EDup G E) as [tr [-> [He Hm]]].
    assert (Hinv : CatInv.cat_inv matchf (target ds sid) (g_did (ds_gen ds))).
    { apply (visible_inv matchf ds); [apply run_inv|apply target_visible]. }
    destruct (ns_or_new_ok matchf _ _ h Hinv (guard_not_oplog h G)) as [A [_ C]]. fold nc in A, C.
    rewrite <- (insert_dup_iff matchf nc (g_did (ds_gen ds)) d (gen_oid (g_oid (ds_gen ds))) A C).
    fold nc in He. rewrite <- He. clear He. split.
    - destruct (t_error tr) as [e|] eqn:Et.
      + intro H. inversion H; subst. reflexivity.
      + destruct (t_modified tr) eqn:Em; [intro; exfalso; apply (Hm eq_refl); reflexivity|discriminate].
    - intros ->. reflexivity.
  Qed.

  (* CreateIndex after any history *)
  Lemma txn_create_index_error c h name cf c' r e :
    guard_write h = None -> txn_create_index c h name cf = (c', r) ->
    (r = inr e <-> exists n', coll_create_index (ns_or_new c h) name cf = (n', inr e)).
  Proof.
    intros G. unfold Txn.txn_create_index. rewrite G.
    destruct (coll_create_index (ns_or_new c h) name cf) as [n' [nm|e0]] eqn:E;
      intro H; inversion H; subst.
    - split; [discriminate|]. intros [n2 H2]. discriminate.
    - split.
      + intro H1. inversion H1; subst. eauto.
      + intros [n2 H2]. inversion H2; subst. reflexivity.
  Qed.

  Lemma use_direct_result {A} ds sid (fn : catalog -> gen -> catalog * gen * (A + ekind)) :
    routed ds sid = None -> token_held ds = false ->
    snd (use_direct ds sid fn) = snd (fn (ds_cat ds) (ds_gen ds)).
  Proof.
    intros R T. unfold use_direct. rewrite R, T.
    destruct (fn (ds_cat ds) (ds_gen ds)) as [[c' g'] r]. destruct r; reflexivity.
  Qed.

  (* a uniqueness rejection of an index build means the stored documents
     contain a duplicate pair for it *)
  Theorem hist_create_index_dup_sound calls sid h name key unique partial expire_s :
    let ds := after calls in
    let nc := ns_or_new (ds_cat ds) h in
    let cf := mkConfig key unique partial (expiry_ns expire_s) in
    guard_write h = None -> routed ds sid = None -> token_held ds = false ->
    snd (step ds (CCreateIndex sid h name key unique partial expire_s)) = RErr EDup ->
    exists n ix0, index_name name cf = Ok n /\ find_index (c_indexes nc) n = None /\
                  new_index cf = Ok ix0 /\ dup_pair (docs_of nc) ix0.
  Proof.
    intros ds nc cf G R T. cbn [Driver.step]. rewrite snd_let.
    rewrite (use_direct_result ds sid _ R T).
    fold cf. destruct (txn_create_index (ds_cat ds) h name cf) as [c' r] eqn:E. cbn [snd].
    destruct r as [nm|e]; [discriminate|]. intro H. inversion H; subst e.
    destruct (proj1 (txn_create_index_error _ _ _ _ _ _ EDup G E) eq_refl) as [n' Hn].
    assert (Hinv : CatInv.cat_inv matchf (ds_cat ds) (g_did (ds_gen ds))) by apply run_inv.
    destruct (ns_or_new_ok matchf _ _ h Hinv (guard_not_oplog h G)) as [A _].
    eapply create_dup_sound; eauto.
  Qed.

  (* and conversely, when the name is free, no index has that key, the
     configuration is valid and its partial filter is defined on the stored
     documents *)
  Theorem hist_create_index_dup_iff calls sid h name key unique partial expire_s n ix0 :
    let ds := after calls in
    let nc := ns_or_new (ds_cat ds) h in
    let cf := mkConfig key unique partial (expiry_ns expire_s) in
    guard_write h = None -> routed ds sid = None -> token_held ds = false ->
    index_name name cf = Ok n -> find_index (c_indexes nc) n = None ->
    key_clash nc cf = false -> new_index cf = Ok ix0 ->
    (forall sd, In sd (c_docs nc) -> covers_ok ix0 (snd sd)) ->
    (snd (step ds (CCreateIndex sid h name key unique partial expire_s)) = RErr EDup <->
     dup_pair (docs_of nc) ix0).
  Proof.
    intros ds nc cf G R T Hn Hf Hk Hi Hcov. cbn [Driver.step]. rewrite snd_let.
    rewrite (use_direct_result ds sid _ R T).
    fold cf. destruct (txn_create_index (ds_cat ds) h name cf) as [c' r] eqn:E. cbn [snd].
    assert (Hinv : CatInv.cat_inv matchf (ds_cat ds) (g_did (ds_gen ds))) by apply run_inv.
    destruct (ns_or_new_ok matchf _ _ h Hinv (guard_not_oplog h G)) as [A _]. fold nc in A.
    pose proof (create_dup_iff matchf nc name cf n ix0 A Hn Hf Hk Hi Hcov) as D.
    pose proof (txn_create_index_error _ _ _ _ _ _ EDup G E) as TE.
    unfold nc in *. rewrite <- D, <- TE. split.
    - destruct r as [nm|e]; [discriminate|]. intro H. inversion H; subst. reflexivity.
    - intros ->. reflexivity.
  Qed.

  (* "all documents for _id": two distinct documents of a namespace never
     have compare-equal _id values, whatever their BSON type *)
  Theorem hist_ids_distinct calls c h nc i1 d1 i2 d2 :
    visible_cat (after calls) c -> In (h, nc) (cat_ns c) -> h <> oplog_handle ->
    In (i1, d1) (c_docs nc) -> In (i2, d2) (c_docs nc) -> i1 <> i2 ->
    compare (Get d1 "_id") (Get d2 "_id") <> Eq.
  Proof.
    intros V Hin N H1 H2 Ni E.
    destruct (reachable_user_ok matchf applyf extractf projectf now calls c h nc V Hin N) as [A B].
    pose proof (ids_distinct matchf nc i1 d1 i2 d2 A B H1 H2 Ni) as K.
    unfold keq, idv in K. rewrite E in K. discriminate.
  Qed.

End HistoryDup.

Print Assumptions hist_insert_one_dup_iff.
Print Assumptions hist_create_index_dup_sound.
Print Assumptions hist_create_index_dup_iff.
Print Assumptions hist_ids_distinct.
