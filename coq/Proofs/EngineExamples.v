(* EngineExamples.v — non-vacuity: concrete reachable states of the model. *)
From Coq Require Import List Arith Lia Bool.
From Lungo.Model Require Import Base Engine.
From Lungo.Proofs Require Import EngineProofs EngineLive.
Import ListNotations.
Local Open Scope list_scope.

Definition taus (t : tid) (n : nat) : list label := repeat (LThread t ATau) n.

(* [holds o P]: the run succeeded and its final state satisfies P *)
Definition holds (o : option state) (P : state -> Prop) : Prop :=
  match o with Some s => P s | None => False end.

Lemma holds_reachable : forall c s0 ls P,
  reachable c s0 -> holds (run_labels c s0 ls) P ->
  exists s, run_labels c s0 ls = Some s /\ reachable c s /\ P s.
Proof.
  intros c s0 ls P R H. destruct (run_labels c s0 ls) as [s|] eqn:E; [|contradiction].
  exists s. split; auto. split; auto. eapply run_labels_reachable; eauto.
Qed.

Definition thread_is (s : state) (t : tid) (p : pc) (r : list result) : Prop :=
  match nth_error (st_threads s) t with
  | Some th => th_pc th = p /\ th_results th = r
  | None => False
  end.

(* a writer between Begin and Commit: e.txn installed, token taken, a second
   writer waits at Acquire and cannot get the token *)
Definition open_writer_init : state := init_state 0 [(false, [OBegin true None; OWrite 7; OCommit]); (false, [OBegin true None; OCommit])].
Definition open_writer_labels : list label := taus 0 3 ++ [LThread 0 AAcqOk] ++ taus 0 4 ++ taus 1 3.
Definition open_writer_props (s : state) : Prop :=
  etxn (st_g s) = Some 0 /\ token_free (st_g s) = false /\ txn_status (st_g s) 0 = Some TOpen /\
  step cfg_fixed s (LThread 1 AAcqOk) = None.
Lemma open_writer_holds : holds (run_labels cfg_fixed open_writer_init open_writer_labels) open_writer_props.
Proof. vm_compute. repeat split. Qed.
Example open_writer :
  exists s, run_labels cfg_fixed open_writer_init open_writer_labels = Some s /\ reachable cfg_fixed s /\ open_writer_props s.
Proof. apply holds_reachable; [apply reach_init|exact open_writer_holds]. Qed.

(* the writer commits: the log has one entry whose result is the base plus its
   operation, the token is handed to the waiting writer *)
Definition commit_then_next_writer_init : state := init_state 0 [(false, [OBegin true None; OWrite 7; OCommit]); (false, [OBegin true None; OCommit])].
Definition commit_then_next_writer_labels : list label := taus 0 3 ++ [LThread 0 AAcqOk] ++ taus 0 4 ++ taus 1 3 ++ taus 0 8 ++ [LThread 1 AAcqOk] ++ taus 1 3.
Definition commit_then_next_writer_props (s : state) : Prop :=
  catalog (st_g s) = [7] /\ version (st_g s) = 1 /\ List.length (log (st_g s)) = 1 /\
  etxn (st_g s) = Some 1 /\ txn_status (st_g s) 0 = Some TCommitted.
Lemma commit_then_next_writer_holds : holds (run_labels cfg_fixed commit_then_next_writer_init commit_then_next_writer_labels) commit_then_next_writer_props.
Proof. vm_compute. repeat split. Qed.
Example commit_then_next_writer :
  exists s, run_labels cfg_fixed commit_then_next_writer_init commit_then_next_writer_labels = Some s /\ reachable cfg_fixed s /\ commit_then_next_writer_props s.
Proof. apply holds_reachable; [apply reach_init|exact commit_then_next_writer_holds]. Qed.

(* a panicking useTransaction callback: the deferred Abort releases the token *)
Definition panic_callback_releases_init : state := init_state 0 [(false, [OUse None 3 CbPanic])].
Definition panic_callback_releases_labels : list label := taus 0 3 ++ [LThread 0 AAcqOk] ++ taus 0 7.
Definition panic_callback_releases_props (s : state) : Prop :=
  token_free (st_g s) = true /\ etxn (st_g s) = None /\ sem_panic (st_g s) = false /\
  txn_status (st_g s) 0 = Some TAborted /\ thread_is s 0 PIdle [RPanic].
Lemma panic_callback_releases_holds : holds (run_labels cfg_fixed panic_callback_releases_init panic_callback_releases_labels) panic_callback_releases_props.
Proof. vm_compute. repeat split. Qed.
Example panic_callback_releases :
  exists s, run_labels cfg_fixed panic_callback_releases_init panic_callback_releases_labels = Some s /\ reachable cfg_fixed s /\ panic_callback_releases_props s.
Proof. apply holds_reachable; [apply reach_init|exact panic_callback_releases_holds]. Qed.

(* a failing Store: Commit returns the error, nothing is published, the token is released *)
Definition store_error_releases_init : state := init_state 0 [(false, [OBegin true None; OWrite 1; OCommit])].
Definition store_error_releases_labels : list label := taus 0 3 ++ [LThread 0 AAcqOk] ++ taus 0 6 ++ [LFailStore] ++ taus 0 4.
Definition store_error_releases_props (s : state) : Prop :=
  token_free (st_g s) = true /\ etxn (st_g s) = None /\ catalog (st_g s) = [] /\ log (st_g s) = [] /\
  txn_status (st_g s) 0 = Some TFailed /\ thread_is s 0 PIdle [RStoreErr; ROk; ROk].
Lemma store_error_releases_holds : holds (run_labels cfg_fixed store_error_releases_init store_error_releases_labels) store_error_releases_props.
Proof. vm_compute. repeat split. Qed.
Example store_error_releases :
  exists s, run_labels cfg_fixed store_error_releases_init store_error_releases_labels = Some s /\ reachable cfg_fixed s /\ store_error_releases_props s.
Proof. apply holds_reachable; [apply reach_init|exact store_error_releases_holds]. Qed.

(* Close while a writer waits at Acquire: the waiter is enabled and returns closed *)
Definition close_unblocks_waiter_init : state := init_state 0 [(false, [OBegin true None]); (false, [OBegin true None]); (false, [OClose])].
Definition close_unblocks_waiter_labels : list label := taus 0 3 ++ [LThread 0 AAcqOk] ++ taus 0 3 ++ taus 1 3 ++ taus 2 5 ++ [LThread 1 AAcqCancel] ++ taus 1 2.
Definition close_unblocks_waiter_props (s : state) : Prop :=
  alive (st_g s) = false /\ thread_is s 1 PIdle [RClosed] /\ thread_is s 2 PIdle [ROk].
Lemma close_unblocks_waiter_holds : holds (run_labels cfg_fixed close_unblocks_waiter_init close_unblocks_waiter_labels) close_unblocks_waiter_props.
Proof. vm_compute. repeat split. Qed.
Example close_unblocks_waiter :
  exists s, run_labels cfg_fixed close_unblocks_waiter_init close_unblocks_waiter_labels = Some s /\ reachable cfg_fixed s /\ close_unblocks_waiter_props s.
Proof. apply holds_reachable; [apply reach_init|exact close_unblocks_waiter_holds]. Qed.

(* two concurrent StartTransaction calls on one session: the second sees the reservation *)
Definition second_start_refused_init : state := init_state 1 [(false, [OSStart 0]); (false, [OSStart 0])].
Definition second_start_refused_labels : list label := taus 0 3 ++ taus 1 3.
Definition second_start_refused_props (s : state) : Prop :=
  thread_is s 1 PIdle [RExisting] /\ sess_starting (st_g s) 0 = true.
Lemma second_start_refused_holds : holds (run_labels cfg_fixed second_start_refused_init second_start_refused_labels) second_start_refused_props.
Proof. vm_compute. repeat split. Qed.
Example second_start_refused :
  exists s, run_labels cfg_fixed second_start_refused_init second_start_refused_labels = Some s /\ reachable cfg_fixed s /\ second_start_refused_props s.
Proof. apply holds_reachable; [apply reach_init|exact second_start_refused_holds]. Qed.
