(* DriverProofs.v — statements about Driver.step, for ANY operator semantics:
   C02 (a call that reports an error changes nobody's view of the database),
   C03 (visibility: other clients see only committed state; a session sees its
   own writes; the committed catalog changes only at commit). *)
From Coq Require Import List ZArith Lia Bool.
From Lungo.Model Require Import Driver.
From Lungo.Proofs Require Import TxnProofs.
Import ListNotations.
Open Scope Z_scope.
Open Scope list_scope.

Section DriverProofs.
  Variable matchf : doc -> doc -> res bool.
  Variable applyf : doc -> doc -> doc -> bool -> list doc -> Z -> res (doc * list (string * value)).
  Variable extractf : doc -> res doc.
  Variable projectf : doc -> doc -> res doc.
  Variable now : Z.

  Notation step := (step matchf applyf extractf projectf now).

  (* what a client using session context `sid` (0 = none) reads *)
  Definition view (ds : dstate) (sid : Z) : catalog := read_cat ds sid.

  (* nobody's view differs: same committed catalog, same open transactions *)
  Definition same_views (ds ds' : dstate) : Prop :=
    ds_cat ds' = ds_cat ds /\ forall sid, routed ds' sid = routed ds sid.

  Lemma same_views_refl ds : same_views ds ds.
  Proof. split; auto. Qed.

  Lemma same_views_view ds ds' : same_views ds ds' -> forall sid, view ds' sid = view ds sid.
  Proof. intros [Hc Hr] sid. unfold view, read_cat. rewrite Hr, Hc. reflexivity. Qed.

  (* ---------------------------------------------------------------- *)
  (* sessions as association list *)

  Lemma sess_get_set_same l sid s : sess_get (sess_set l sid s) sid = Some s.
  Proof.
    induction l as [|[k x] t IH]; simpl.
    - rewrite Z.eqb_refl. reflexivity.
    - destruct (k =? sid) eqn:E; simpl.
      + rewrite Z.eqb_refl. reflexivity.
      + rewrite E. exact IH.
  Qed.

  Lemma sess_get_set_other l sid sid' s : sid' <> sid -> sess_get (sess_set l sid s) sid' = sess_get l sid'.
  Proof.
    intro N. induction l as [|[k x] t IH]; simpl.
    - destruct (sid =? sid') eqn:E; [apply Z.eqb_eq in E; congruence | reflexivity].
    - destruct (k =? sid) eqn:E; simpl.
      + apply Z.eqb_eq in E. subst.
        destruct (sid =? sid') eqn:E2; [apply Z.eqb_eq in E2; congruence | reflexivity].
      + destruct (k =? sid'); [reflexivity | exact IH].
  Qed.

  Lemma routed_set_same c g l sid tc : 0 < sid ->
    routed (mkD c g (sess_set l sid (mkSess (Some tc) false))) sid = Some tc.
  Proof.
    intro P. unfold routed. simpl.
    destruct (sid <=? 0) eqn:E; [apply Z.leb_le in E; lia|].
    rewrite sess_get_set_same. reflexivity.
  Qed.

  Lemma routed_set_other ds c g sid sid' s : sid' <> sid ->
    routed (mkD c g (sess_set (ds_sessions ds) sid s)) sid' = routed ds sid'.
  Proof.
    intro N. unfold routed. simpl. destruct (sid' <=? 0); [reflexivity|].
    rewrite sess_get_set_other by exact N. reflexivity.
  Qed.

  Lemma routed_pos ds sid tc : routed ds sid = Some tc -> 0 < sid.
  Proof.
    unfold routed. destruct (sid <=? 0) eqn:E; [discriminate|].
    intros _. apply Z.leb_gt in E. exact E.
  Qed.

  (* ---------------------------------------------------------------- *)
  (* use_write / use_direct *)

  (* if, from whatever catalog, producing this very result means the catalog
     came back unchanged, then nobody's view changes *)
  Lemma use_write_noop_if {A} ds sid (fn : catalog -> gen -> catalog * gen * (A + ekind)) ds' r :
    use_write ds sid fn = (ds', r) ->
    (forall c c' g', fn c (ds_gen ds) = (c', g', r) -> c' = c) ->
    same_views ds ds'.
  Proof.
    intros U Hfn. unfold use_write in U.
    destruct (routed ds sid) as [tc|] eqn:R.
    - destruct (fn tc (ds_gen ds)) as [[tc' g'] x] eqn:F.
      inversion U; subst. apply Hfn in F. subst.
      split; [reflexivity|]. intro sid'.
      destruct (Z.eq_dec sid' sid) as [->|N].
      + rewrite routed_set_same by (eapply routed_pos; eauto). symmetry; exact R.
      + apply routed_set_other; exact N.
    - destruct (token_held ds).
      + inversion U; subst. apply same_views_refl.
      + destruct (fn (ds_cat ds) (ds_gen ds)) as [[c' g'] x] eqn:F.
        destruct x; inversion U; subst.
        * apply Hfn in F. subst. split; reflexivity.
        * split; reflexivity.
  Qed.

  (* not routed: the implicit transaction is aborted whatever the callback did *)
  Lemma use_write_error_unrouted {A} ds sid (fn : catalog -> gen -> catalog * gen * (A + ekind)) ds' e :
    routed ds sid = None ->
    use_write ds sid fn = (ds', inr e) -> same_views ds ds'.
  Proof.
    intros R. unfold use_write. rewrite R.
    destruct (token_held ds).
    - intro H; inversion H; subst. apply same_views_refl.
    - destruct (fn (ds_cat ds) (ds_gen ds)) as [[c' g'] r].
      destruct r; intro H; inversion H; subst. split; reflexivity.
  Qed.

  Lemma use_direct_error_noop {A} ds sid (fn : catalog -> gen -> catalog * gen * (A + ekind)) ds' e :
    use_direct ds sid fn = (ds', inr e) -> same_views ds ds'.
  Proof.
    unfold use_direct. destruct (routed ds sid).
    - intro H; inversion H; subst. apply same_views_refl.
    - destruct (token_held ds).
      + intro H; inversion H; subst. apply same_views_refl.
      + destruct (fn (ds_cat ds) (ds_gen ds)) as [[c' g'] r].
        destruct r; intro H; inversion H; subst. split; reflexivity.
  Qed.

  (* ---------------------------------------------------------------- *)
  (* C02: single write calls *)

  Inductive single_write : call -> Prop :=
  | sw_insert sid h d : single_write (CInsertOne sid h d)
  | sw_update sid h m q u up afs : single_write (CUpdate sid h m q u up afs)
  | sw_replace sid h q r up : single_write (CReplace sid h q r up)
  | sw_delete sid h m q : single_write (CDelete sid h m q)
  | sw_fau sid h q u s p up af afs : single_write (CFindOneAndUpdate sid h q u s p up af afs)
  | sw_far sid h q r s p up af : single_write (CFindOneAndReplace sid h q r s p up af)
  | sw_fad sid h q s p : single_write (CFindOneAndDelete sid h q s p)
  | sw_create sid h n k u p e : single_write (CCreateIndex sid h n k u p e)
  | sw_dropi sid h n : single_write (CDropIndex sid h n)
  | sw_dropall sid h : single_write (CDropAllIndexes sid h)
  | sw_dropc sid h : single_write (CDropColl sid h)
  | sw_dropd sid db : single_write (CDropDb sid db).

  Lemma txn_insert_nothing_noop c g h l o c' g' tr :
    txn_insert matchf c g h l o = (c', g', inl tr) -> t_modified tr = [] -> c' = c.
  Proof.
    unfold txn_insert. destruct (guard_write h); [intro H; inversion H|].
    destruct (insert_loop _ _ _ _ _ _ _ _) as [[[c2 g2] acc] err].
    destruct acc; intro H; inversion H; subst; simpl; [reflexivity|discriminate].
  Qed.

  Lemma txn_insert_inr_noop c g h l o c' g' e :
    txn_insert matchf c g h l o = (c', g', inr e) -> c' = c.
  Proof.
    unfold txn_insert. destruct (guard_write h); [intro H; inversion H; reflexivity|].
    destruct (insert_loop _ _ _ _ _ _ _ _) as [[[c2 g2] acc] err].
    destruct acc; intro H; inversion H.
  Qed.

  (* the projection step: without a projection it never turns a success into
     an error; an error of the write itself is passed through *)
  Lemma project_in_txn_inr proj after cp c0 g0 r c' g' k :
    project_in_txn projectf proj after cp (c0, g0, r) = (c', g', inr k) ->
    (c' = c0 /\ r = inr k) \/ (c' = cp /\ proj <> None /\ exists tr, r = inl tr).
  Proof.
    unfold project_in_txn. destruct r as [tr|e].
    - destruct (reply_doc projectf proj (pick_doc tr after)) eqn:RD; intro H; inversion H; subst.
      right. split; [reflexivity|]. split; [|eauto].
      intro Hp. subst proj. unfold reply_doc in RD. destruct (pick_doc tr after); simpl in RD; discriminate.
    - intro H; inversion H; subst. left. split; reflexivity.
  Qed.

  Theorem step_error_noop ds c ds' e :
    single_write c ->
    step ds c = (ds', RErr e) -> same_views ds ds'.
  Proof.
    intros SW. destruct SW; simpl in *.
    - (* insertOne *)
      destruct (use_write ds sid _) as [ds1 r] eqn:U. intro H; inversion H; subst; clear H.
      eapply use_write_noop_if; [exact U|].
      intros c c' g' F; cbv beta in F. destruct r as [tr|k].
      + destruct (t_error tr) eqn:TE.
        * eapply txn_insert_one_error_noop; [exact F|congruence].
        * destruct (t_modified tr) eqn:TM; [|discriminate].
          eapply txn_insert_nothing_noop; eauto.
      + eapply txn_insert_inr_noop; eauto.
    - (* update *)
      destruct (use_write ds sid _) as [ds1 r] eqn:U. intro H; inversion H; subst; clear H.
      destruct r as [tr|k].
      + unfold upd_reply in H2. destruct (t_upserted tr); discriminate.
      + eapply use_write_noop_if; [exact U|].
        intros c c' g' F; cbv beta in F. eapply txn_update_error_noop; eauto.
    - (* replace *)
      destruct (first_key_dollar r); [intro H; inversion H; subst; apply same_views_refl|].
      destruct (use_write ds sid _) as [ds1 r0] eqn:U. intro H; inversion H; subst; clear H.
      destruct r0 as [tr|k].
      + unfold upd_reply in H2. destruct (t_upserted tr); discriminate.
      + eapply use_write_noop_if; [exact U|].
        intros c c' g' F; cbv beta in F. eapply txn_replace_error_noop; eauto.
    - (* delete *)
      destruct (use_write ds sid _) as [ds1 r] eqn:U. intro H; inversion H; subst; clear H.
      destruct r as [tr|k]; [discriminate|].
      eapply use_write_noop_if; [exact U|].
      intros c c' g' F; cbv beta in F. eapply txn_delete_error_noop; eauto.
    - (* findOneAndUpdate *)
      destruct (use_write ds sid _) as [ds1 r] eqn:U. intro H; inversion H; subst; clear H.
      destruct r as [rp|k].
      + (* the callback succeeded with reply rp = RErr e: impossible *)
        exfalso. subst rp.
        unfold use_write in U.
        destruct (routed ds sid).
        * destruct (txn_update _ _ _ _ _ _ _ _ _ _ _ _ _ _) as [[c1 g1] r1] eqn:TU.
          unfold project_in_txn in U. destruct r1 as [tr|k].
          -- destruct (reply_doc projectf p (pick_doc tr af)) eqn:RD; inversion U.
          -- inversion U.
        * destruct (token_held ds); [inversion U|].
          destruct (txn_update _ _ _ _ _ _ _ _ _ _ _ _ _ _) as [[c1 g1] r1] eqn:TU.
          unfold project_in_txn in U. destruct r1 as [tr|k].
          -- destruct (reply_doc projectf p (pick_doc tr af)) eqn:RD; inversion U.
          -- inversion U.
      + destruct (routed ds sid) as [tc|] eqn:R.
        * (* routed: excluded unless there is no projection *)
          eapply use_write_noop_if; [exact U|].
          intros c c' g' F; cbv beta in F.
          destruct (txn_update matchf applyf extractf c (ds_gen ds) h q s u 0 1 up afs now) as [[c1 g1] r1] eqn:TU.
          apply project_in_txn_inr in F. destruct F as [[-> ->]|[-> _]]; [|reflexivity].
          eapply txn_update_error_noop; eauto.
        * eapply use_write_error_unrouted; eauto.
    - (* findOneAndReplace *)
      destruct (first_key_dollar r); [intro H; inversion H; subst; apply same_views_refl|].
      destruct (use_write ds sid _) as [ds1 r0] eqn:U. intro H; inversion H; subst; clear H.
      destruct r0 as [rp|k].
      + exfalso. subst rp.
        unfold use_write in U.
        destruct (routed ds sid).
        * destruct (txn_replace _ _ _ _ _ _ _ _ _ _ _) as [[c1 g1] r1] eqn:TU.
          unfold project_in_txn in U. destruct r1 as [tr|k].
          -- destruct (reply_doc projectf p (pick_doc tr af)) eqn:RD; inversion U.
          -- inversion U.
        * destruct (token_held ds); [inversion U|].
          destruct (txn_replace _ _ _ _ _ _ _ _ _ _ _) as [[c1 g1] r1] eqn:TU.
          unfold project_in_txn in U. destruct r1 as [tr|k].
          -- destruct (reply_doc projectf p (pick_doc tr af)) eqn:RD; inversion U.
          -- inversion U.
      + destruct (routed ds sid) as [tc|] eqn:R.
        * eapply use_write_noop_if; [exact U|].
          intros c c' g' F; cbv beta in F.
          destruct (txn_replace matchf applyf extractf c (ds_gen ds) h q s r up now) as [[c1 g1] r1] eqn:TU.
          apply project_in_txn_inr in F. destruct F as [[-> ->]|[-> _]]; [|reflexivity].
          eapply txn_replace_error_noop; eauto.
        * eapply use_write_error_unrouted; eauto.
    - (* findOneAndDelete *)
      destruct (use_write ds sid _) as [ds1 r] eqn:U. intro H; inversion H; subst; clear H.
      destruct r as [rp|k].
      + exfalso. subst rp.
        unfold use_write in U.
        destruct (routed ds sid).
        * destruct (txn_delete _ _ _ _ _ _ _ _) as [[c1 g1] r1] eqn:TU.
          unfold project_in_txn in U. destruct r1 as [tr|k].
          -- destruct (reply_doc projectf p (pick_doc tr false)) eqn:RD; inversion U.
          -- inversion U.
        * destruct (token_held ds); [inversion U|].
          destruct (txn_delete _ _ _ _ _ _ _ _) as [[c1 g1] r1] eqn:TU.
          unfold project_in_txn in U. destruct r1 as [tr|k].
          -- destruct (reply_doc projectf p (pick_doc tr false)) eqn:RD; inversion U.
          -- inversion U.
      + destruct (routed ds sid) as [tc|] eqn:R.
        * eapply use_write_noop_if; [exact U|].
          intros c c' g' F; cbv beta in F.
          destruct (txn_delete matchf c (ds_gen ds) h q s 0 1) as [[c1 g1] r1] eqn:TU.
          apply project_in_txn_inr in F. destruct F as [[-> ->]|[-> _]]; [|reflexivity].
          eapply txn_delete_error_noop; eauto.
        * eapply use_write_error_unrouted; eauto.
    - (* createIndex *)
      destruct (use_direct ds sid _) as [ds1 r] eqn:U. intro H; inversion H; subst; clear H.
      destruct r as [nm|kk]; [discriminate|]. eapply use_direct_error_noop; eauto.
    - destruct (use_direct ds sid _) as [ds1 r] eqn:U. intro H; inversion H; subst; clear H.
      destruct r as [nm|kk]; [discriminate|]. eapply use_direct_error_noop; eauto.
    - destruct (use_direct ds sid _) as [ds1 r] eqn:U. intro H; inversion H; subst; clear H.
      destruct r as [nm|kk]; [discriminate|]. eapply use_direct_error_noop; eauto.
    - destruct (use_direct ds sid _) as [ds1 r] eqn:U. intro H; inversion H; subst; clear H.
      destruct r as [nm|kk]; [discriminate|]. eapply use_direct_error_noop; eauto.
    - destruct (use_direct ds sid _) as [ds1 r] eqn:U. intro H; inversion H; subst; clear H.
      destruct r as [nm|kk]; [discriminate|]. eapply use_direct_error_noop; eauto.
  Qed.

  (* ---------------------------------------------------------------- *)
  (* C03: visibility *)

  Definition sid_of (c : call) : Z :=
    match c with
    | CInsertOne s _ _ | CInsertMany s _ _ _ | CFind s _ _ _ _ _ _ | CFindOne s _ _ _ _ _
    | CCount s _ _ _ _ | CDistinct s _ _ _ | CUpdate s _ _ _ _ _ _ | CReplace s _ _ _ _
    | CDelete s _ _ _ | CFindOneAndUpdate s _ _ _ _ _ _ _ _ | CFindOneAndReplace s _ _ _ _ _ _ _
    | CFindOneAndDelete s _ _ _ _ | CBulk s _ _ _ | CCreateIndex s _ _ _ _ _ _ | CDropIndex s _ _
    | CDropAllIndexes s _ | CListIndexes s _ | CDropColl s _ | CDropDb s _
    | CStart s | CCommit s | CAbort s | CEnd s => s
    | CTrim _ | CExpire _ => 0
    end.

  Definition is_read (c : call) : Prop :=
    match c with
    | CFind _ _ _ _ _ _ _ | CFindOne _ _ _ _ _ _ | CCount _ _ _ _ _ | CDistinct _ _ _ _
    | CListIndexes _ _ => True
    | _ => False
    end.

  Lemma view_unrouted ds sid : routed ds sid = None -> view ds sid = ds_cat ds.
  Proof. unfold view, read_cat. intros ->. reflexivity. Qed.

  Lemma view_routed ds sid tc : routed ds sid = Some tc -> view ds sid = tc.
  Proof. unfold view, read_cat. intros ->. reflexivity. Qed.

  (* reads change nothing *)
  Theorem reads_are_pure ds c : is_read c -> fst (step ds c) = ds.
  Proof. destruct c; simpl; intro H; try contradiction; reflexivity. Qed.

  (* a read depends only on the view of its session context: clients without
     an open transaction see exactly the committed catalog, a session with an
     open transaction sees exactly that transaction (its own earlier writes) *)
  Theorem read_depends_on_view ds1 ds2 c :
    is_read c -> view ds1 (sid_of c) = view ds2 (sid_of c) ->
    snd (step ds1 c) = snd (step ds2 c).
  Proof.
    destruct c; simpl; intro H; try contradiction; unfold view; intros ->; reflexivity.
  Qed.

  Lemma use_write_routed {A} ds sid (fn : catalog -> gen -> catalog * gen * (A + ekind)) tc ds' r :
    routed ds sid = Some tc -> use_write ds sid fn = (ds', r) ->
    exists tc' g', fn tc (ds_gen ds) = (tc', g', r) /\ routed ds' sid = Some tc' /\
                   ds_cat ds' = ds_cat ds /\ (forall sid', sid' <> sid -> routed ds' sid' = routed ds sid').
  Proof.
    intros R. unfold use_write. rewrite R.
    destruct (fn tc (ds_gen ds)) as [[tc' g'] x] eqn:F. intro H; inversion H; subst.
    exists tc', g'. repeat split.
    - apply routed_set_same. eapply routed_pos; eauto.
    - intros sid' N. apply routed_set_other; exact N.
  Qed.

  Lemma use_direct_routed {A} ds sid (fn : catalog -> gen -> catalog * gen * (A + ekind)) tc ds' r :
    routed ds sid = Some tc -> use_direct ds sid fn = (ds', r) -> ds' = ds.
  Proof. intros R. unfold use_direct. rewrite R. intro H; inversion H; reflexivity. Qed.

  Lemma routed_zero ds : routed ds 0 = None.
  Proof. reflexivity. Qed.

  (* everything written through a session with an open transaction stays
     invisible to the committed catalog until that session commits *)
  Theorem routed_call_invisible ds c ds' r :
    routed ds (sid_of c) <> None -> (forall s, c <> CCommit s) ->
    step ds c = (ds', r) -> ds_cat ds' = ds_cat ds.
  Proof.
    intros R NC.
    destruct (routed ds (sid_of c)) as [tc|] eqn:E; [clear R|congruence].
    destruct c; simpl in E |- *;
      try (intro H; inversion H; reflexivity);
      try (rewrite routed_zero in E; discriminate).
    - destruct (use_write ds sid _) as [ds1 x] eqn:U. intro H; inversion H; subst.
      destruct (use_write_routed _ _ _ _ _ _ E U) as (tc' & g' & _ & _ & Hc & _). exact Hc.
    - destruct (use_write ds sid _) as [ds1 x] eqn:U. intro H; inversion H; subst.
      destruct (use_write_routed _ _ _ _ _ _ E U) as (tc' & g' & _ & _ & Hc & _). exact Hc.
    - destruct (use_write ds sid _) as [ds1 x] eqn:U. intro H; inversion H; subst.
      destruct (use_write_routed _ _ _ _ _ _ E U) as (tc' & g' & _ & _ & Hc & _). exact Hc.
    - destruct (first_key_dollar repl); [intro H; inversion H; reflexivity|].
      destruct (use_write ds sid _) as [ds1 x] eqn:U. intro H; inversion H; subst.
      destruct (use_write_routed _ _ _ _ _ _ E U) as (tc' & g' & _ & _ & Hc & _). exact Hc.
    - destruct (use_write ds sid _) as [ds1 x] eqn:U. intro H; inversion H; subst.
      destruct (use_write_routed _ _ _ _ _ _ E U) as (tc' & g' & _ & _ & Hc & _). exact Hc.
    - destruct (use_write ds sid _) as [ds1 x] eqn:U. intro H; inversion H; subst.
      destruct (use_write_routed _ _ _ _ _ _ E U) as (tc' & g' & _ & _ & Hc & _). exact Hc.
    - destruct (first_key_dollar repl); [intro H; inversion H; reflexivity|].
      destruct (use_write ds sid _) as [ds1 x] eqn:U. intro H; inversion H; subst.
      destruct (use_write_routed _ _ _ _ _ _ E U) as (tc' & g' & _ & _ & Hc & _). exact Hc.
    - destruct (use_write ds sid _) as [ds1 x] eqn:U. intro H; inversion H; subst.
      destruct (use_write_routed _ _ _ _ _ _ E U) as (tc' & g' & _ & _ & Hc & _). exact Hc.
    - destruct (existsb _ ops); [intro H; inversion H; reflexivity|].
      destruct (use_write ds sid _) as [ds1 x] eqn:U. intro H; inversion H; subst.
      destruct (use_write_routed _ _ _ _ _ _ E U) as (tc' & g' & _ & _ & Hc & _). exact Hc.
    - destruct (use_direct ds sid _) as [ds1 x] eqn:U. intro H; inversion H; subst.
      rewrite (use_direct_routed _ _ _ _ _ _ E U). reflexivity.
    - destruct (use_direct ds sid _) as [ds1 x] eqn:U. intro H; inversion H; subst.
      rewrite (use_direct_routed _ _ _ _ _ _ E U). reflexivity.
    - destruct (use_direct ds sid _) as [ds1 x] eqn:U. intro H; inversion H; subst.
      rewrite (use_direct_routed _ _ _ _ _ _ E U). reflexivity.
    - destruct (use_direct ds sid _) as [ds1 x] eqn:U. intro H; inversion H; subst.
      rewrite (use_direct_routed _ _ _ _ _ _ E U). reflexivity.
    - destruct (use_direct ds sid _) as [ds1 x] eqn:U. intro H; inversion H; subst.
      rewrite (use_direct_routed _ _ _ _ _ _ E U). reflexivity.
    - (* start *) destruct (sess_get (ds_sessions ds) sid) as [[[t|] [|]]|];
        try (intro H; inversion H; reflexivity);
        destruct (token_held ds); intro H; inversion H; reflexivity.
    - exfalso. eapply NC. reflexivity.
    - destruct (sess_get (ds_sessions ds) sid) as [[t [|]]|]; intro H; inversion H; reflexivity.
  Qed.

  (* commit publishes exactly the transaction's catalog, all at once *)
  Theorem commit_publishes ds sid ds' :
    step ds (CCommit sid) = (ds', ROk) ->
    exists tc, sess_get (ds_sessions ds) sid = Some (mkSess (Some tc) false) /\
               ds_cat ds' = tc /\ sess_get (ds_sessions ds') sid = Some (mkSess None false).
  Proof.
    simpl. destruct (sess_get (ds_sessions ds) sid) as [[[tc|] [|]]|] eqn:E; intro H; inversion H; subst.
    exists tc. repeat split. simpl. apply sess_get_set_same.
  Qed.

  (* abort and end-session never change the committed catalog and drop the
     transaction *)
  Theorem abort_discards ds sid ds' r :
    step ds (CAbort sid) = (ds', r) -> ds_cat ds' = ds_cat ds /\ (r = ROk -> routed ds' sid = None).
  Proof.
    simpl. destruct (sess_get (ds_sessions ds) sid) as [[t [|]]|] eqn:E; intro H; inversion H; subst;
      (split; [reflexivity|]); intro; try discriminate;
      unfold routed; simpl; destruct (sid <=? 0); try reflexivity; rewrite sess_get_set_same; reflexivity.
  Qed.

  Theorem end_discards ds sid ds' r :
    step ds (CEnd sid) = (ds', r) -> ds_cat ds' = ds_cat ds /\ routed ds' sid = None.
  Proof.
    simpl. intro H; inversion H; subst. split; [reflexivity|].
    unfold routed; simpl; destruct (sid <=? 0); try reflexivity; rewrite sess_get_set_same; reflexivity.
  Qed.

  (* a write routed to an open transaction is applied to that transaction's
     own catalog (so later reads of the session see it) and to nothing else *)
  Theorem session_write_accumulates ds sid tc h d ds' r :
    routed ds sid = Some tc ->
    step ds (CInsertOne sid h d) = (ds', r) ->
    exists tc' g' x, txn_insert matchf tc (ds_gen ds) h [d] true = (tc', g', x) /\
                     view ds' sid = tc' /\ ds_cat ds' = ds_cat ds /\
                     (forall sid', sid' <> sid -> routed ds' sid' = routed ds sid').
  Proof.
    intros R. simpl. destruct (use_write ds sid _) as [ds1 x] eqn:U. intro H; inversion H; subst.
    destruct (use_write_routed _ _ _ _ _ _ R U) as (tc' & g' & F & R' & Hc & Ho).
    exists tc', g', x. repeat split; auto. apply view_routed; exact R'.
  Qed.

End DriverProofs.

Print Assumptions step_error_noop.
Print Assumptions routed_call_invisible.
Print Assumptions read_depends_on_view.
