(* NoPanic.v — C20 assembled: the statements of Properties/C20.v in their
   explicit form (`<> Panic /\ <> OutOfFuel`), the instantiation of the driver
   theorems with the real operator models (Model/ApiOps.v) and the examples. *)
From Coq Require Import List ZArith Lia Bool String.
From Lungo.Model Require Import Match Apply Project Lists Driver ApiOps RunMatch.
From Lungo.Proofs Require Import NoPanicBase NoPanicMatch NoPanicOps NoPanicExtract NoPanicArith
     NoPanicApply NoPanicColl NoPanicDriver DriverProofs.
Import ListNotations.
Open Scope string_scope.
Open Scope Z_scope.

(* returns a result or an error: no panic, and the model's fuel sufficed *)
Definition returns {A} (r : res A) : Prop := r <> Panic /\ r <> OutOfFuel.

Lemma returns_of_safe {A} (r : res A) : safe r -> returns r.
Proof. apply safe_iff. Qed.

(* ------------------------------------------------------------------ *)
(* bsonkit / mongokit *)

Theorem match_returns : forall d q, returns (Match d q).
Proof. intros. apply returns_of_safe. apply Match_safe. Qed.

Theorem schema_returns : forall s v, returns (sch s v).
Proof. intros. apply returns_of_safe. apply sch_safe. Qed.

Theorem apply_returns : forall d q u upsert filters now, returns (Apply d q u upsert filters now).
Proof. intros. apply returns_of_safe. apply Apply_safe. Qed.

Theorem extract_returns : forall q, returns (Extract q) /\ Extract q <> Unmodelled.
Proof.
  intro q. pose proof (Extract_total q) as H. apply total_iff in H.
  destruct H as [H1 [H2 H3]]. repeat split; assumption.
Qed.

Theorem project_returns : forall d p, wf (VDoc p) = true -> returns (Project d p).
Proof. intros. apply returns_of_safe. apply Project_safe. assumption. Qed.

Theorem put_returns : forall d path v prepend,
  returns (Put d path v prepend) /\ Put d path v prepend <> Unmodelled.
Proof.
  intros. pose proof (Put_total d path v prepend) as H. apply total_iff in H.
  destruct H as [H1 [H2 H3]]. repeat split; assumption.
Qed.

Theorem columns_returns : forall s, returns (columns s) /\ columns s <> Unmodelled.
Proof.
  intro s. pose proof (columns_total s) as H. apply total_iff in H.
  destruct H as [H1 [H2 H3]]. repeat split; assumption.
Qed.

Theorem arith_returns : forall a b,
  returns (Lungo.Model.Arith.Add a b) /\ returns (Lungo.Model.Arith.Mul a b) /\ returns (Lungo.Model.Arith.Mod a b).
Proof.
  intros a b. split; [|split]; apply returns_of_safe; [apply Add_safe|apply Mul_safe|apply Mod_safe].
Qed.

(* the collection's find pipeline (sort + filter + skip + limit), any sort
   document, any window: with a matcher that returns, it returns *)
Theorem find_returns : forall matchf, (forall d q, returns (matchf d q)) ->
  forall l q sort skip limit, returns (find_list matchf l q sort skip limit).
Proof.
  intros matchf Hm l q sort skip limit. apply returns_of_safe. apply find_list_safe.
  intros d0 q0. apply safe_iff. apply Hm.
Qed.

(* ------------------------------------------------------------------ *)
(* collection layer, for any operator semantics that returns *)

Definition op_returns (matchf : doc -> doc -> res bool)
           (applyf : doc -> doc -> doc -> bool -> list doc -> Z -> res (doc * list (string * value)))
           (extractf : doc -> res doc) : Prop :=
  (forall d q, returns (matchf d q)) /\
  (forall d q u up afs now, returns (applyf d q u up afs now)) /\
  (forall q, returns (extractf q)).

Definition no_panic_kind (e : ekind) : Prop := e <> EPanic /\ e <> EFuel.

Definition outcome_ok {A} (o : coll * (A + ekind)) : Prop :=
  forall e, snd o = inr e -> no_panic_kind e.

Lemma sum_ok_outcome {A} (o : coll * (A + ekind)) : sum_ok (snd o) -> outcome_ok o.
Proof. intros H e E. rewrite E in H. apply ek_ok_iff. exact H. Qed.

Theorem collection_returns : forall matchf applyf extractf, op_returns matchf applyf extractf ->
  (forall c q sort skip limit, outcome_ok (coll_find matchf c q sort skip limit)) /\
  (forall c fresh d oid, outcome_ok (coll_insert matchf c fresh d oid)) /\
  (forall c fresh q repl sort, outcome_ok (coll_replace matchf c fresh q repl sort)) /\
  (forall c fresh q u sort skip limit afs now,
      outcome_ok (coll_update matchf applyf c fresh q u sort skip limit afs now)) /\
  (forall c fresh q repl update afs oid now,
      outcome_ok (coll_upsert matchf applyf extractf c fresh q repl update afs oid now)) /\
  (forall c q sort skip limit, outcome_ok (coll_delete matchf c q sort skip limit)) /\
  (forall c name cf, outcome_ok (coll_create_index matchf c name cf)) /\
  (forall c name, outcome_ok (coll_drop_index c name)).
Proof.
  intros matchf applyf extractf [Hm [Ha He]].
  assert (Hm' : forall d q, safe (matchf d q)) by (intros; apply safe_iff; apply Hm).
  assert (Ha' : forall d q u up afs now, safe (applyf d q u up afs now)) by (intros; apply safe_iff; apply Ha).
  assert (He' : forall q, safe (extractf q)) by (intros; apply safe_iff; apply He).
  repeat (match goal with |- _ /\ _ => split end); intros; apply sum_ok_outcome.
  - apply coll_find_ok; assumption.
  - apply coll_insert_ok; assumption.
  - apply coll_replace_ok; assumption.
  - apply coll_update_ok; assumption.
  - apply coll_upsert_ok; assumption.
  - apply coll_delete_ok; assumption.
  - apply coll_create_index_ok; assumption.
  - apply coll_drop_index_ok.
Qed.

(* ------------------------------------------------------------------ *)
(* driver level, instantiated with the models of Match / Apply / Extract /
   Project (Model/ApiOps.v) *)

Definition api_step (now : Z) : dstate -> call -> dstate * reply :=
  step api_match api_apply api_extract api_project now.
Definition api_run (now : Z) : dstate -> list call -> dstate * list reply :=
  run api_match api_apply api_extract api_project now.

(* the projection document of the call, if any, is a Go value: its int32
   fields fit 32 bits, ... (Model/Bson.v wf) *)
Definition call_wf (c : call) : Prop :=
  match proj_of c with Some p => wf (VDoc p) = true | None => True end.

Theorem driver_step_returns : forall now ds c, call_wf c -> reply_ok (snd (api_step now ds c)).
Proof.
  intros now ds c Hc. unfold api_step.
  apply (step_reply_ok api_match api_apply api_extract api_project now
           Match_safe Apply_safe Extract_safe (fun p => wf (VDoc p) = true)).
  - intros d p Hp. apply Project_safe. exact Hp.
  - exact Hc.
Qed.

(* every reply of every history *)
Theorem history_returns : forall now cs,
  Forall call_wf cs -> Forall reply_ok (snd (api_run now d_init cs)).
Proof.
  intros now cs Hcs. unfold api_run.
  apply (run_replies_ok api_match api_apply api_extract api_project now
           Match_safe Apply_safe Extract_safe (fun p => wf (VDoc p) = true)).
  - intros d p Hp. apply Project_safe. exact Hp.
  - exact Hcs.
Qed.

(* the engine serves the next call after ANY history — whatever was called
   before, with whatever arguments, failing or not *)
Theorem next_call_served : forall now cs c,
  call_wf c -> reply_ok (snd (api_step now (fst (api_run now d_init cs)) c)).
Proof. intros now cs c Hc. apply driver_step_returns. exact Hc. Qed.

(* ------------------------------------------------------------------ *)
(* examples: odd inputs are answered by an error, not by a panic *)

Example wrong_typed_operator_argument :
  Match [("a", VInt32 1)] [("a", VDoc [("$in", VInt32 1)])] = Err /\
  Match [("a", VInt32 1)] [("a", VDoc [("$mod", VArr [VInt32 0; VInt32 0])])] = Err /\
  Match [("a", VInt32 1)] [("$and", VArr [])] = Err /\
  Match [("a", VInt32 1)] [("", VDoc [("$size", VDouble 9218868437227405312)])] = Err.
Proof. vm_compute. repeat split. Qed.

Example push_slice_min_int64 :
  Apply [("a", VArr [VInt32 1; VInt32 2])] []
        [("$push", VDoc [("a", VDoc [("$each", VArr []); ("$slice", VInt64 (-9223372036854775808))])])]
        false [] 0
  = Ok ([("a", VArr [VInt32 1; VInt32 2])], [("a", VArr [VInt32 1; VInt32 2])]).
Proof. vm_compute. reflexivity. Qed.

Example huge_array_index_is_an_error :
  Apply [("a", VArr [])] [] [("$set", VDoc [("a.9223372036854775806", VInt32 1)])] false [] 0 = Err /\
  Apply [("a", VArr [])] [] [("$set", VDoc [("a.1500001", VInt32 1)])] false [] 0 = Err.
Proof. vm_compute. split; reflexivity. Qed.

Definition ex_id : value := VDoc [("k", VBin 0 "x")].
Definition ex_history : list call :=
  [ CInsertOne 0 ("db", "c") [("_id", ex_id); ("a", VArr [VInt32 1; VInt32 2; VInt32 3])]
  ; CUpdate 0 ("db", "c") false [("_id", ex_id)] [("$inc", VDoc [("a", VString "x")])] false []
  ; CFind 0 ("db", "c") [] None None (-1) 0
  ; CFind 0 ("db", "c") [] None (Some [("a", VDoc [("$slice", VDouble 9218868437227405312)])]) 0 0
  ; CReplace 0 ("db", "c") [("_id", ex_id)] [("_id", ex_id); ("b", VNull)] false
  ; CCount 0 ("db", "c") [("$where", VNull)] 0 0
  ; CCount 0 ("db", "c") [] 0 0 ].

Example odd_history :
  Forall call_wf ex_history /\
  snd (api_run 0 d_init ex_history) =
    [ RId ex_id; RErr EErr; RErr EErr
    ; RDocs [[("_id", ex_id); ("a", VArr [VInt32 1; VInt32 2; VInt32 3])]]
    ; RUpdate 1 1 0 VNull; RErr EErr; RCount 1 ].
Proof.
  split; [repeat constructor|]. vm_compute. reflexivity.
Qed.

(* the typing hypothesis on the projection is needed by the model: an "int32"
   outside the int32 range (not a value of a Go program) reaches the window
   arithmetic of $slice unclamped *)
Example ill_typed_int32_reaches_slice :
  snd (api_run 0 d_init
         [ CInsertOne 0 ("db", "c") [("_id", VInt32 1); ("a", VArr [VInt32 1])]
         ; CFind 0 ("db", "c") [] None
                 (Some [("a", VDoc [("$slice", VArr [VInt32 1; VInt32 9223372036854775807])])]) 0 0 ])
  = [RId (VInt32 1); RErr EPanic].
Proof. vm_compute. reflexivity. Qed.
