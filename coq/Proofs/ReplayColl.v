(* ReplayColl.v — the change-log replay on the documents of ONE namespace
   (C08): what "set the full document under its key" / "remove it" do to a
   document list, and that each collection operation of Model/Collection.v
   changes the document list exactly as replaying its events does.

   Documents are identified by their `_id` compared with `compare` (BSON
   equality across numeric types), as a consumer of the change stream does. *)
From Coq Require Import List ZArith Lia Bool.
From Lungo.Model Require Import Collection.
From Lungo.Proofs Require Import OrderLaws CompareOrder EntryLemmas IndexInv CollLists CollInv
     ReplayBase.
Import ListNotations.
Open Scope Z_scope.
Open Scope list_scope.

(* ------------------------------------------------------------------ *)
(* the replay rule on a document list *)

(* replace in place the document(s) whose _id is compare-equal to key *)
Definition set_at (key : value) (d' : doc) (l : list doc) : list doc :=
  map (fun x => if keq (idv x) key then d' else x) l.

(* remove the document(s) whose _id is compare-equal to key *)
Definition del_at (key : value) (l : list doc) : list doc :=
  filter (fun x => negb (keq (idv x) key)) l.

(* insert: append, unless a document with that key exists (then replace) *)
Definition ins_at (key : value) (d' : doc) (l : list doc) : list doc :=
  if existsb (fun x => keq (idv x) key) l then set_at key d' l else l ++ [d'].

(* ------------------------------------------------------------------ *)
(* document lists with distinct identities and compare-distinct _id *)

Definition good_docs (docs : list sdoc) : Prop :=
  NoDup (map fst docs) /\
  forall x y, In x docs -> In y docs -> fst x <> fst y ->
              keq (idv (snd x)) (idv (snd y)) = false.

Lemma good_docs_sub docs docs' :
  good_docs docs -> NoDup (map fst docs') -> incl docs' docs -> good_docs docs'.
Proof. intros [_ P] Hn Hi. split; auto. Qed.

Section Good.
  Set Default Proof Using "Type".
  Variable matchf : doc -> doc -> res bool.

  Lemma user_good c : CollInv.coll_inv matchf c -> has_id_index c -> good_docs (c_docs c).
  Proof.
    intros Hinv Hid. split; [destruct Hinv; auto|].
    intros [i1 d1] [i2 d2] H1 H2 N. simpl in *.
    eapply (ids_distinct matchf c); eauto.
  Qed.
End Good.

(* ------------------------------------------------------------------ *)
(* insert *)

Lemma ins_append docs fresh d' :
  good_docs (docs ++ [(fresh, d')]) ->
  ins_at (idv d') d' (map snd docs) = map snd (docs ++ [(fresh, d')]).
Proof.
  intros [Hnd P]. unfold ins_at.
  destruct (existsb (fun x => keq (idv x) (idv d')) (map snd docs)) eqn:E.
  - exfalso. apply existsb_exists in E. destruct E as [x [Hx Hk]].
    apply in_map_iff in Hx. destruct Hx as [sd [<- Hsd]].
    assert (Q : keq (idv (snd sd)) (idv d') = false); [|rewrite Q in Hk; discriminate].
    apply (P sd (fresh, d')).
    + apply in_or_app. left. exact Hsd.
    + apply in_or_app. right. left. reflexivity.
    + simpl. intro Heq. rewrite map_app in Hnd. simpl in Hnd.
      apply NoDup_remove_2 in Hnd. rewrite app_nil_r in Hnd. apply Hnd.
      rewrite <- Heq. apply in_map. exact Hsd.
  - rewrite map_app. reflexivity.
Qed.

(* ------------------------------------------------------------------ *)
(* replace in place *)

Lemma set_replace_docs docs old new :
  good_docs docs -> In old docs -> keq (idv (snd old)) (idv (snd new)) = true ->
  map snd (set_replace docs (fst old) new) = set_at (idv (snd new)) (snd new) (map snd docs).
Proof.
  intros [Hnd P] Ho K. unfold set_replace, set_at. rewrite !map_map. apply map_ext_in.
  intros x Hx. cbv beta. unfold sdoc, did in *. destruct (fst x =? fst old) eqn:E.
  - apply Z.eqb_eq in E. rewrite (nodup_ids_eq docs x old Hnd Hx Ho E), K. reflexivity.
  - apply Z.eqb_neq in E. rewrite <- (keq_r (idv (snd x)) _ _ K), (P x old Hx Ho E). reflexivity.
Qed.

Lemma set_replace_same docs old new :
  NoDup (map fst docs) -> In old docs -> snd new = snd old ->
  map snd (set_replace docs (fst old) new) = map snd docs.
Proof.
  intros Hnd Ho S. unfold set_replace. rewrite map_map. apply map_ext_in.
  intros x Hx. cbv beta. unfold sdoc, did in *. destruct (fst x =? fst old) eqn:E; [|reflexivity].
  apply Z.eqb_eq in E. rewrite (nodup_ids_eq docs x old Hnd Hx Ho E). exact S.
Qed.

Lemma good_set_replace docs old new :
  good_docs docs -> In old docs -> ~ In (fst new) (map fst docs) ->
  keq (idv (snd old)) (idv (snd new)) = true ->
  good_docs (set_replace docs (fst old) new).
Proof.
  intros [Hnd P] Ho Hf K. split; [apply set_replace_nodup; auto|].
  assert (Q : forall x, In x docs -> x <> old -> keq (idv (snd x)) (idv (snd new)) = false).
  { intros x Hx Hn. rewrite <- (keq_r (idv (snd x)) _ _ K). apply P; auto.
    intro E. apply Hn. apply (nodup_ids_eq docs); auto. }
  intros x y Hx Hy N.
  apply (set_replace_in_nodup docs old new x Hnd Ho) in Hx.
  apply (set_replace_in_nodup docs old new y Hnd Ho) in Hy.
  destruct Hx as [[Hx Hxo]| ->], Hy as [[Hy Hyo]| ->].
  - apply P; auto.
  - apply Q; auto.
  - rewrite keq_sym. apply Q; auto.
  - exfalso. apply N. reflexivity.
Qed.

(* ------------------------------------------------------------------ *)
(* update (one or many): the events of the MODIFIED documents, in order *)

Definition set_docs (l : list sdoc) (L : list doc) : list doc :=
  fold_left (fun L sd => set_at (idv (snd sd)) (snd sd) L) l L.

Lemma replace_docs_replay matched : forall newl chs docs,
  good_docs docs -> incl matched docs -> NoDup (map fst matched) ->
  (forall n, In n newl -> ~ In (fst n) (map fst docs)) -> NoDup (map fst newl) ->
  List.length newl = List.length matched -> List.length chs = List.length matched ->
  ids_unchanged matched newl = true ->
  set_docs (fst (modified_only matched newl chs)) (map snd docs) =
  map snd (replace_docs docs matched newl).
Proof.
  induction matched as [|o matched IH]; intros newl chs docs G Hi Hm Hf Hn L1 L2 U.
  - destruct newl; [|discriminate]. reflexivity.
  - destruct newl as [|n newl]; [discriminate|]. destruct chs as [|ch chs]; [discriminate|].
    simpl in L1, L2. injection L1 as L1. injection L2 as L2.
    cbn [ids_unchanged] in U. apply andb_true_iff in U. destruct U as [U1 U].
    apply value_eqb_eq in U1.
    simpl in Hm, Hn. inversion Hm as [|? ? Hm1 Hm2]; subst. inversion Hn as [|? ? Hn1 Hn2]; subst.
    assert (Ho : In o docs) by (apply Hi; left; auto).
    assert (Hfn : ~ In (fst n) (map fst docs)) by (apply Hf; left; auto).
    assert (K : keq (idv (snd o)) (idv (snd n)) = true).
    { unfold idv. rewrite U1. apply keq_refl. }
    pose proof G as [Hnd _].
    cbn [replace_docs modified_only].
    specialize (IH newl chs (set_replace docs (fst o) n)).
    destruct (modified_only matched newl chs) as [m cs] eqn:Em. cbn [fst] in IH.
    assert (IH' : set_docs m (map snd (set_replace docs (fst o) n)) =
                  map snd (replace_docs (set_replace docs (fst o) n) matched newl)).
    { apply IH; auto.
      - apply good_set_replace; auto.
      - intros x Hx. apply (set_replace_in_nodup docs o n x Hnd Ho). left. split.
        + apply Hi. right. exact Hx.
        + intros ->. apply Hm1. apply in_map. exact Hx.
      - intros n' Hn' Hin. apply in_map_iff in Hin. destruct Hin as [x [Hx Hin]].
        apply (set_replace_in_nodup docs o n x Hnd Ho) in Hin. destruct Hin as [[Hin _]| ->].
        + apply (Hf n'); [right; auto|]. rewrite <- Hx. apply in_map. exact Hin.
        + apply Hn1. rewrite Hx. apply in_map. exact Hn'. }
    destruct (value_eqb (VDoc (snd o)) (VDoc (snd n))) eqn:Ev; cbn [fst].
    + apply value_eqb_eq in Ev. injection Ev as Ev.
      rewrite <- IH'. rewrite (set_replace_same docs o n Hnd Ho (eq_sym Ev)). reflexivity.
    + rewrite <- IH'. unfold set_docs. cbn [fold_left].
      rewrite (set_replace_docs docs o n G Ho K). reflexivity.
Qed.

(* ------------------------------------------------------------------ *)
(* delete *)

Definition del_docs (l : list sdoc) (L : list doc) : list doc :=
  fold_left (fun L sd => del_at (idv (snd sd)) L) l L.

Lemma del_docs_filter matched : forall L,
  del_docs matched L =
  filter (fun d => negb (existsb (fun m : sdoc => keq (idv d) (idv (snd m))) matched)) L.
Proof.
  induction matched as [|m matched IH]; intro L; unfold del_docs; cbn [fold_left].
  - induction L as [|a L IHL]; simpl; auto. f_equal. exact IHL.
  - fold (del_docs matched (del_at (idv (snd m)) L)). rewrite IH. unfold del_at. clear IH.
    induction L as [|a L IHL]; simpl; auto.
    destruct (keq (idv a) (idv (snd m))); simpl; rewrite IHL; reflexivity.
Qed.

Lemma map_filter_ext {A B} (f : A -> B) (p : A -> bool) (q : B -> bool) l :
  (forall x, In x l -> p x = q (f x)) -> map f (filter p l) = filter q (map f l).
Proof.
  induction l as [|a l IH]; intro H; simpl; auto.
  rewrite <- (H a (or_introl eq_refl)). destruct (p a); simpl; rewrite IH; auto.
  - intros x Hx. apply H. right. exact Hx.
  - intros x Hx. apply H. right. exact Hx.
Qed.

Lemma minus_matched_replay docs matched :
  good_docs docs -> incl matched docs ->
  del_docs matched (map snd docs) = map snd (minus_matched docs matched).
Proof.
  intros [Hnd P] Hi. rewrite del_docs_filter. unfold minus_matched. symmetry.
  apply map_filter_ext. intros x Hx. f_equal.
  induction matched as [|m matched IH]; simpl; auto.
  rewrite IH by (intros y Hy; apply Hi; right; exact Hy). f_equal.
  assert (Hm : In m docs) by (apply Hi; left; reflexivity).
  unfold sdoc, did in *. destruct (fst m =? fst x) eqn:E.
  - apply Z.eqb_eq in E. rewrite (nodup_ids_eq docs m x Hnd Hm Hx E). symmetry. apply keq_refl.
  - apply Z.eqb_neq in E. symmetry. apply P; auto.
Qed.

(* ------------------------------------------------------------------ *)
(* inversion of Replace and Update with the full result *)

Section Inv.
  Set Default Proof Using "Type".
  Variable matchf : doc -> doc -> res bool.
  Variable applyf : doc -> doc -> doc -> bool -> list doc -> Z -> res (doc * list (string * value)).

  Local Notation find_list := (Collection.find_list matchf).
  Local Notation apply_list := (Collection.apply_list applyf).
  Local Notation coll_replace := (Collection.coll_replace matchf).
  Local Notation coll_update := (Collection.coll_update matchf applyf).

  Lemma coll_replace_full c fresh query repl sort c' r :
    coll_replace c fresh query repl sort = (c', inl r) ->
    (find_list (c_docs c) query sort 0 1 = Ok [] /\ c' = c /\ r = empty_result) \/
    exists old rest repl',
      find_list (c_docs c) query sort 0 1 = Ok (old :: rest) /\
      replace_prepared (snd old) repl = Ok repl' /\
      c_docs c' = set_replace (c_docs c) (fst old) (fresh, repl') /\
      r = mkResult (old :: rest)
                   (if value_eqb (VDoc (snd old)) (VDoc repl') then [] else [(fresh, repl')])
                   None [].
  Proof.
    rewrite (coll_replace_eq matchf). unfold replace_with, failr, fail.
    destruct (find_list (c_docs c) query sort 0 1) as [[|old rest]| | | |] eqn:Hf; try discriminate.
    - intro H. inversion H. left. auto.
    - destruct (replace_prepared (snd old) repl) as [repl'| | | |] eqn:Hp; try discriminate.
      cbv zeta.
      destruct (swap_all matchf (c_indexes c) old (fresh, repl')) as [ixs [e|]] eqn:Hs; try discriminate.
      destruct (set_has (c_docs c) fresh); try discriminate.
      intro H. inversion H; subst. right. exists old, rest, repl'. auto.
  Qed.

  Lemma apply_list_lengths l : forall fresh query update afs now newl chs,
    apply_list l fresh query update afs now = Ok (newl, chs) ->
    List.length newl = List.length l /\ List.length chs = List.length l.
  Proof.
    induction l as [|sd t IH]; intros fresh query update afs now newl chs H; simpl in H.
    - inversion H; subst. auto.
    - destruct (applyf (snd sd) query update false afs now) as [r| | | |];
        cbn [bind] in H; try discriminate.
      destruct (apply_list t (fresh + 1) query update afs now) as [[nl cs]| | | |] eqn:E;
        cbn [bind] in H; try discriminate.
      inversion H; subst. destruct (IH _ _ _ _ _ _ _ E) as [A B]. simpl. split; congruence.
  Qed.

  Lemma coll_update_full c fresh query update sort skip limit afs now c' r :
    coll_update c fresh query update sort skip limit afs now = (c', inl r) ->
    (find_list (c_docs c) query sort skip limit = Ok [] /\ c' = c /\ r = empty_result) \/
    exists matched newl chs,
      find_list (c_docs c) query sort skip limit = Ok matched /\ matched <> [] /\
      apply_list matched fresh query update afs now = Ok (newl, chs) /\
      ids_unchanged matched newl = true /\
      c_docs c' = replace_docs (c_docs c) matched newl /\
      r = mkResult matched (fst (modified_only matched newl chs)) None
                   (snd (modified_only matched newl chs)).
  Proof.
    rewrite (coll_update_eq matchf applyf). unfold update_with, failr, fail.
    destruct (find_list (c_docs c) query sort skip limit) as [[|m rest]| | | |] eqn:Hf;
      try discriminate.
    - intro H. inversion H. left. auto.
    - destruct (apply_list (m :: rest) fresh query update afs now) as [[newl chs]| | | |] eqn:Hap;
        try discriminate.
      destruct (ids_unchanged (m :: rest) newl) eqn:Hi; simpl negb; cbv iota; try discriminate.
      destruct (remove_docs matchf (c_indexes c) (m :: rest)) as [ixs [e|]] eqn:Hr; try discriminate.
      destruct (add_docs matchf ixs newl) as [ixs' [e|]] eqn:Ha; try discriminate.
      destruct (modified_only (m :: rest) newl chs) as [md cs] eqn:Em.
      intro H. inversion H; subst. right. exists (m :: rest), newl, chs. cbn [c_docs]. rewrite Em. cbn [fst snd].
      repeat split; auto. discriminate.
  Qed.

  (* the replacement document keeps the _id of the replaced one *)
  Lemma replace_prepared_id od repl repl' :
    replace_prepared od repl = Ok repl' -> idv repl' = idv od.
  Proof.
    unfold replace_prepared. destruct (is_missing (Get repl "_id")).
    - destruct (Put repl "_id" (Get od "_id") true) as [r| | | |] eqn:E; cbn [bind]; try discriminate.
      intro H. inversion H; subst. apply (put_get_id _ _ _ E).
    - destruct (value_eqb (Get repl "_id") (Get od "_id")) eqn:E; [|discriminate].
      intro H. inversion H; subst. apply value_eqb_eq in E. exact E.
  Qed.
End Inv.

Print Assumptions replace_docs_replay.
Print Assumptions minus_matched_replay.
Print Assumptions coll_update_full.
