(* ArithProofs.v — the numeric rules of bsonkit.Add / Mul (Model/Arith.v):
   result type = join in int32 < int64 < double < decimal, exact integer
   results when representable, and the two clauses of MongoDB's promotion
   rules that the faithful model REFUTES (integer overflow wraps instead of
   promoting / failing; decimal results over 34 digits become the zero value). *)
From Coq Require Import List ZArith QArith Lia Bool String.
From Lungo.Model Require Import Arith.
Import ListNotations.
Open Scope Z_scope.

Definition num_rank (v : value) : Z :=
  match v with
  | VInt32 _ => 0
  | VInt64 _ => 1
  | VDouble _ => 2
  | VDecimal _ _ => 3
  | _ => -1
  end.

Lemma dec_result_decimal d r : dec_result d = Ok r -> r = VMissing \/ num_rank r = 3.
Proof.
  unfold dec_result. destruct (d128_of_bigint (fst d) (snd d)) as [[h l]| | | |]; intro H; try discriminate;
    injection H as <-; auto.
Qed.

Lemma dec_binop_decimal op a b r :
  is_num a = true -> is_num b = true -> dec_binop dec_result op a b = Ok r -> r = VMissing \/ num_rank r = 3.
Proof.
  unfold dec_binop. intros Ha Hb.
  destruct (dec_operand a) as [[x|]|] eqn:Ea; destruct (dec_operand b) as [[y|]|] eqn:Eb; intro H; try discriminate;
    try (eapply dec_result_decimal; exact H).
  all: destruct a; try discriminate; destruct b; discriminate.
Qed.

(* the result type of Add / Mul: the wider operand type — except that an
   int32 op int32 result that does not fit is promoted to int64 — or the
   operation is rejected (Missing: int64 overflow, Decimal128 not representable) *)
Definition result_rank_ok (a b r : value) : Prop :=
  r = VMissing \/
  num_rank r = Z.max (num_rank a) (num_rank b) \/
  (num_rank a = 0 /\ num_rank b = 0 /\ num_rank r = 1).

(* ---- the nonFinite test in front of Add / Mul ---- *)

Lemma non_finite_no_decimal a b mul :
  is_decimal_value a = false -> is_decimal_value b = false -> non_finite a b mul = None.
Proof. intros Ha Hb. unfold non_finite. rewrite Ha, Hb. reflexivity. Qed.

Lemma non_finite_special a b mul r :
  non_finite a b mul = Some r -> r = d128_nan \/ r = d128_pos_inf \/ r = d128_neg_inf.
Proof.
  unfold non_finite. destruct (negb (is_decimal_value a || is_decimal_value b)); [discriminate|].
  destruct (number_shape a) as [sa|]; [|discriminate]. destruct (number_shape b) as [sb|]; [|discriminate].
  repeat match goal with |- context [if ?c then _ else _] => destruct c end; intro H; try discriminate;
    injection H as <-; auto.
Qed.

Lemma special_rank r : r = d128_nan \/ r = d128_pos_inf \/ r = d128_neg_inf -> num_rank r = 3.
Proof. intros [->|[->| ->]]; reflexivity. Qed.

Lemma non_finite_needs_decimal a b mul r :
  non_finite a b mul = Some r -> is_decimal_value a = true \/ is_decimal_value b = true.
Proof.
  unfold non_finite. destruct (is_decimal_value a); [auto|]. destruct (is_decimal_value b); [auto|]. discriminate.
Qed.

Lemma Add_finite a b : non_finite a b false = None -> Add a b = add_finite a b.
Proof. intro H. unfold Add. rewrite H. reflexivity. Qed.

Lemma Mul_finite a b : non_finite a b true = None -> Mul a b = mul_finite a b.
Proof. intro H. unfold Mul. rewrite H. reflexivity. Qed.

Lemma decimal_rank_max a b :
  is_num a = true -> is_num b = true -> is_decimal_value a = true \/ is_decimal_value b = true ->
  Z.max (num_rank a) (num_rank b) = 3.
Proof.
  intros Ha Hb [H|H]; destruct a; try discriminate; destruct b; try discriminate; reflexivity.
Qed.

Lemma add_finite_type a b r :
  is_num a = true -> is_num b = true -> add_finite a b = Ok r -> result_rank_ok a b r.
Proof.
  intros Ha Hb H. unfold result_rank_ok.
  destruct a; try discriminate; destruct b; try discriminate; cbn [add_finite] in H;
    try (injection H as <-; cbn; unfold narrow_int32, checked_int64;
         repeat match goal with |- context [if ?c then _ else _] => destruct c end; cbn; auto; fail);
    (destruct (dec_binop_decimal _ _ _ _ Ha Hb H) as [E|E]; [left; exact E | right; left; rewrite E; reflexivity]).
Qed.

Lemma mul_finite_type a b r :
  is_num a = true -> is_num b = true -> mul_finite a b = Ok r -> result_rank_ok a b r.
Proof.
  intros Ha Hb H. unfold result_rank_ok.
  destruct a; try discriminate; destruct b; try discriminate; cbn [mul_finite] in H;
    try (injection H as <-; cbn; unfold narrow_int32, checked_int64;
         repeat match goal with |- context [if ?c then _ else _] => destruct c end; cbn; auto; fail);
    (destruct (dec_binop_decimal _ _ _ _ Ha Hb H) as [E|E]; [left; exact E | right; left; rewrite E; reflexivity]).
Qed.

Theorem add_type a b r :
  is_num a = true -> is_num b = true -> Add a b = Ok r -> result_rank_ok a b r.
Proof.
  intros Ha Hb H. unfold Add in H. destruct (non_finite a b false) as [s|] eqn:N.
  - injection H as <-. right. left.
    rewrite (special_rank _ (non_finite_special _ _ _ _ N)).
    symmetry. apply decimal_rank_max; auto. eapply non_finite_needs_decimal; exact N.
  - apply add_finite_type; assumption.
Qed.

Theorem mul_type a b r :
  is_num a = true -> is_num b = true -> Mul a b = Ok r -> result_rank_ok a b r.
Proof.
  intros Ha Hb H. unfold Mul in H. destruct (non_finite a b true) as [s|] eqn:N.
  - injection H as <-. right. left.
    rewrite (special_rank _ (non_finite_special _ _ _ _ N)).
    symmetry. apply decimal_rank_max; auto. eapply non_finite_needs_decimal; exact N.
  - apply mul_finite_type; assumption.
Qed.

(* non-numbers give Missing, whatever the other operand *)
Theorem add_non_number a b : is_num a = false \/ is_num b = false -> Add a b = Ok VMissing.
Proof.
  intros H. assert (N : non_finite a b false = None).
  { unfold non_finite. destruct (negb (is_decimal_value a || is_decimal_value b)); [reflexivity|].
    destruct H as [H|H]; [destruct a | destruct b]; try discriminate; cbn [number_shape]; try reflexivity;
      destruct (number_shape _); reflexivity. }
  rewrite (Add_finite _ _ N).
  destruct H as [H|H]; destruct a; try discriminate; destruct b; try discriminate; try reflexivity.
Qed.

(* ------------------------------------------------------------------ *)
(* integers: exact, promoted, or rejected *)

Definition in32 (z : Z) : Prop := - two31 <= z < two31.
Definition in64 (z : Z) : Prop := - two63 <= z < two63.

Lemma in_int32_spec z : in_int32 z = true <-> in32 z.
Proof. unfold in_int32, in32. rewrite andb_true_iff, Z.leb_le, Z.ltb_lt. tauto. Qed.

Lemma in_int64_spec z : in_int64 z = true <-> in64 z.
Proof. unfold in_int64, in64. rewrite andb_true_iff, Z.leb_le, Z.ltb_lt. tauto. Qed.

Lemma wrap32_id z : in32 z -> wrap32 z = z.
Proof.
  unfold in32, wrap32, two31, two32. intro H. rewrite Z.mod_small by lia. lia.
Qed.

Lemma wrap64_id z : in64 z -> wrap64 z = z.
Proof.
  unfold in64, wrap64, two63, two64. intro H. rewrite Z.mod_small by lia. lia.
Qed.

(* the integer value of an integer BSON number *)
Definition int_of (v : value) : option Z :=
  match v with VInt32 z | VInt64 z => Some z | _ => None end.

(* the complete description of integer Add / Mul: with z the mathematical
   result, int32 op int32 gives int32 z if it fits and int64 z otherwise;
   every other integer pair gives int64 z if it fits and is rejected otherwise *)
Definition int_result (a b : value) (z : Z) : value :=
  if (num_rank a =? 0) && (num_rank b =? 0)
  then (if in_int32 z then VInt32 z else VInt64 z)
  else (if in_int64 z then VInt64 z else VMissing).

Theorem add_int_full a b x y :
  int_of a = Some x -> int_of b = Some y -> Add a b = Ok (int_result a b (x + y)).
Proof.
  intros Ha Hb. destruct a; try discriminate; destruct b; try discriminate;
    cbn in Ha, Hb; injection Ha as ->; injection Hb as ->; reflexivity.
Qed.

Theorem mul_int_full a b x y :
  int_of a = Some x -> int_of b = Some y -> Mul a b = Ok (int_result a b (x * y)).
Proof.
  intros Ha Hb. destruct a; try discriminate; destruct b; try discriminate;
    cbn in Ha, Hb; injection Ha as ->; injection Hb as ->; reflexivity.
Qed.

(* MongoDB's promotion rule, now the full statement: the result, when there is
   one, is the mathematical sum; there is none exactly when an int64 result
   would overflow; int32 operands (well-formed) are never rejected *)
Theorem add_promotes a b x y r :
  int_of a = Some x -> int_of b = Some y -> Add a b = Ok r ->
  (int_of r = Some (x + y) /\
   num_rank r = (if (num_rank a =? 0) && (num_rank b =? 0) && in_int32 (x + y) then 0 else 1)) \/
  (r = VMissing /\ ~ in64 (x + y) /\ Z.max (num_rank a) (num_rank b) = 1).
Proof.
  intros Ha Hb H. rewrite (add_int_full _ _ _ _ Ha Hb) in H. injection H as <-. unfold int_result.
  destruct a; try discriminate; destruct b; try discriminate; cbn [num_rank Z.eqb andb].
  - destruct (in_int32 (x + y)); left; auto.
  - destruct (in_int64 (x + y)) eqn:E; [left; auto | right]. split; [reflexivity|]. split; [|reflexivity].
    rewrite <- in_int64_spec. congruence.
  - destruct (in_int64 (x + y)) eqn:E; [left; auto | right]. split; [reflexivity|]. split; [|reflexivity].
    rewrite <- in_int64_spec. congruence.
  - destruct (in_int64 (x + y)) eqn:E; [left; auto | right]. split; [reflexivity|]. split; [|reflexivity].
    rewrite <- in_int64_spec. congruence.
Qed.

Theorem mul_promotes a b x y r :
  int_of a = Some x -> int_of b = Some y -> Mul a b = Ok r ->
  (int_of r = Some (x * y) /\
   num_rank r = (if (num_rank a =? 0) && (num_rank b =? 0) && in_int32 (x * y) then 0 else 1)) \/
  (r = VMissing /\ ~ in64 (x * y) /\ Z.max (num_rank a) (num_rank b) = 1).
Proof.
  intros Ha Hb H. rewrite (mul_int_full _ _ _ _ Ha Hb) in H. injection H as <-. unfold int_result.
  destruct a; try discriminate; destruct b; try discriminate; cbn [num_rank Z.eqb andb].
  - destruct (in_int32 (x * y)); left; auto.
  - destruct (in_int64 (x * y)) eqn:E; [left; auto | right]. split; [reflexivity|]. split; [|reflexivity].
    rewrite <- in_int64_spec. congruence.
  - destruct (in_int64 (x * y)) eqn:E; [left; auto | right]. split; [reflexivity|]. split; [|reflexivity].
    rewrite <- in_int64_spec. congruence.
  - destruct (in_int64 (x * y)) eqn:E; [left; auto | right]. split; [reflexivity|]. split; [|reflexivity].
    rewrite <- in_int64_spec. congruence.
Qed.

(* two int32 values are never rejected: sum and product fit int64 *)
Theorem int32_never_rejected x y :
  in32 x -> in32 y ->
  (exists r, Add (VInt32 x) (VInt32 y) = Ok r /\ int_of r = Some (x + y)) /\
  (exists r, Mul (VInt32 x) (VInt32 y) = Ok r /\ int_of r = Some (x * y)).
Proof.
  intros _ _. split; eexists; (split; [reflexivity|]); cbn [Add Mul]; unfold narrow_int32;
    match goal with |- context [if ?c then _ else _] => destruct c end; reflexivity.
Qed.

(* the former counter-examples, now: promotion and rejection *)
Theorem int_overflow_promotes_or_rejects :
  Add (VInt32 2147483647) (VInt32 1) = Ok (VInt64 2147483648) /\
  Mul (VInt32 65536) (VInt32 65536) = Ok (VInt64 4294967296) /\
  Add (VInt64 9223372036854775807) (VInt64 1) = Ok VMissing /\
  Mul (VInt64 (-9223372036854775808)) (VInt32 (-1)) = Ok VMissing.
Proof. vm_compute. repeat split; reflexivity. Qed.

(* Decimal128 values *)
Definition dec_value (v : value) : option Q :=
  match v with
  | VDecimal h l => match dec_decode h l with DFin c e => Some (q_of_dec c e) | _ => None end
  | _ => None
  end.

Definition dec_a : value := VDecimal 3476845838389450546 16033479673939144690. (* 1234567890123456789012345678901234 *)
Definition dec_b : value := VDecimal 3476778912330022912 12345678901234567.    (* 12345678901234567 *)

(* ------------------------------------------------------------------ *)
(* Decimal128: when the exact result has at most 34 digits and an exponent in
   range, the stored result is exactly that (coefficient, exponent) *)

Lemma div_unique_pos a b q r : 0 <= r < b -> a = b * q + r -> a / b = q.
Proof. intros H E. symmetry. eapply Z.div_unique_pos; eauto. Qed.

Lemma mod_unique_pos a b q r : 0 <= r < b -> a = b * q + r -> a mod b = r.
Proof. intros H E. symmetry. eapply Z.mod_unique_pos; eauto. Qed.

Lemma d128_encode_decode m E (neg : bool) :
  0 <= m <= d128_maxS -> 0 <= E <= 12287 ->
  dec_decode (m / two64 + E * 2 ^ 49 + (if neg then two63 else 0)) (m mod two64) =
  DFin (if neg then - m else m) (E - 6176).
Proof.
  intros Hm HE. unfold d128_maxS, two64, two63 in *.
  set (H0 := m / 18446744073709551616). set (L := m mod 18446744073709551616).
  assert (Em : m = 18446744073709551616 * H0 + L) by (apply Z.div_mod; lia).
  assert (HL : 0 <= L < 18446744073709551616) by (apply Z.mod_pos_bound; lia).
  assert (HH : 0 <= H0 < 562949953421312).
  { split; [apply Z.div_pos; lia|]. apply Z.div_lt_upper_bound; lia. }
  set (S := if neg then 9223372036854775808 else 0).
  assert (HS : S = 0 \/ S = 9223372036854775808) by (destruct neg; auto).
  change (2 ^ 49) with 562949953421312.
  set (h := H0 + E * 562949953421312 + S).
  pose proof (Z.div_mod E 512 ltac:(lia)) as E9. pose proof (Z.mod_pos_bound E 512 ltac:(lia)) as R9.
  pose proof (Z.div_mod E 4096 ltac:(lia)) as E12. pose proof (Z.mod_pos_bound E 4096 ltac:(lia)) as R12.
  assert (Q9 : 0 <= E / 512 < 24) by (split; [apply Z.div_pos; lia | apply Z.div_lt_upper_bound; lia]).
  assert (Q12 : 0 <= E / 4096 < 3) by (split; [apply Z.div_pos; lia | apply Z.div_lt_upper_bound; lia]).
  unfold dec_decode. change (2 ^ 49) with 562949953421312.
  change (2 ^ 63) with 9223372036854775808. change (2 ^ 58) with 288230376151711744.
  change (2 ^ 61) with 2305843009213693952. change (2 ^ 47) with 140737488355328.
  change (2 ^ 14) with 16384. change (2 ^ 64) with 18446744073709551616.
  assert (D63 : h / 9223372036854775808 = if neg then 1 else 0).
  { destruct neg; unfold h, S; [apply div_unique_pos with (r := H0 + E * 562949953421312) | apply div_unique_pos with (r := H0 + E * 562949953421312)]; lia. }
  assert (D58 : (h / 288230376151711744) mod 32 = E / 512).
  { assert (h / 288230376151711744 = E / 512 + 32 * (if neg then 1 else 0)) as ->.
    { apply div_unique_pos with (r := H0 + (E mod 512) * 562949953421312); destruct neg; unfold h, S; lia. }
    apply mod_unique_pos with (q := if neg then 1 else 0); destruct neg; lia. }
  assert (D61 : (h / 2305843009213693952) mod 4 = E / 4096).
  { assert (h / 2305843009213693952 = E / 4096 + 4 * (if neg then 1 else 0)) as ->.
    { apply div_unique_pos with (r := H0 + (E mod 4096) * 562949953421312); destruct neg; unfold h, S; lia. }
    apply mod_unique_pos with (q := if neg then 1 else 0); destruct neg; lia. }
  assert (D49 : (h / 562949953421312) mod 16384 = E).
  { assert (h / 562949953421312 = E + 16384 * (if neg then 1 else 0)) as ->.
    { apply div_unique_pos with (r := H0); destruct neg; unfold h, S; lia. }
    apply mod_unique_pos with (q := if neg then 1 else 0); destruct neg; lia. }
  assert (M49 : h mod 562949953421312 = H0).
  { apply mod_unique_pos with (q := E + 16384 * (if neg then 1 else 0)); destruct neg; unfold h, S; lia. }
  rewrite D63, D58, D61, D49, M49.
  assert (N : (1 <=? (if neg then 1 else 0)) = neg) by (destruct neg; reflexivity). rewrite N.
  destruct (Z.eqb_spec (E / 512) 31); [lia|]. destruct (Z.eqb_spec (E / 512) 30); [lia|].
  destruct (Z.eqb_spec (E / 4096) 3); [lia|].
  replace (H0 * 18446744073709551616 + L) with m by lia. reflexivity.
Qed.

(* ---- the three loops of ParseDecimal128FromBigInt keep the value ---- *)

Lemma quot_rem_10 bi : Z.rem bi 10 = 0 -> bi = Z.quot bi 10 * 10.
Proof. intro H. pose proof (Z.quot_rem' bi 10) as E. rewrite H in E. lia. Qed.

Lemma abs_quot_le bi : Z.abs (Z.quot bi 10) <= Z.abs bi.
Proof.
  pose proof (Z.quot_rem' bi 10) as E.
  destruct (Z_le_gt_dec 0 bi) as [P|N].
  - pose proof (Z.rem_bound_pos bi 10 P ltac:(lia)). lia.
  - pose proof (Z.rem_bound_pos_neg bi 10 ltac:(lia) ltac:(lia)). lia.
Qed.

Lemma shrink_spec f : forall bi e b' e',
  d128_shrink f bi e = Ok (b', e') ->
  exists k, 0 <= k /\ bi = b' * 10 ^ k /\ e' = e + k /\ Z.abs b' <= d128_maxS /\ (k = 0 \/ e' <= d128_max_exp).
Proof.
  induction f as [|f IH]; intros bi e b' e' H; cbn [d128_shrink] in H.
  - destruct (Z.leb_spec (Z.abs bi) d128_maxS); [|discriminate]. injection H as <- <-.
    exists 0. rewrite Z.mul_1_r. repeat split; auto; lia.
  - destruct (Z.leb_spec (Z.abs bi) d128_maxS).
    + injection H as <- <-. exists 0. rewrite Z.mul_1_r. repeat split; auto; lia.
    + destruct (Z.eqb_spec (Z.rem bi 10) 0) as [R|]; [|discriminate].
      destruct (Z.ltb_spec d128_max_exp (e + 1)); [discriminate|].
      destruct (IH _ _ _ _ H) as (k & Hk & E & Ee & Hb & Hm).
      exists (k + 1). split; [lia|]. split.
      * rewrite Z.pow_add_r by lia. rewrite (quot_rem_10 _ R), E. change (10 ^ 1) with 10. ring.
      * split; [lia|]. split; [exact Hb|]. right. destruct Hm; lia.
Qed.

Lemma raise_spec f : forall bi e b' e',
  d128_raise f bi e = Ok (b', e') ->
  exists k, 0 <= k /\ bi = b' * 10 ^ k /\ e' = e + k /\ Z.abs b' <= Z.abs bi /\
            ((k = 0 /\ d128_min_exp <= e) \/ e' = d128_min_exp).
Proof.
  induction f as [|f IH]; intros bi e b' e' H; cbn [d128_raise] in H.
  - destruct (Z.leb_spec d128_min_exp e); [|discriminate]. injection H as <- <-.
    exists 0. rewrite Z.mul_1_r. repeat split; auto; lia.
  - destruct (Z.leb_spec d128_min_exp e).
    + injection H as <- <-. exists 0. rewrite Z.mul_1_r. repeat split; auto; lia.
    + destruct (Z.eqb_spec (Z.rem bi 10) 0) as [R|]; [|discriminate].
      destruct (IH _ _ _ _ H) as (k & Hk & E & Ee & Hb & Hm).
      exists (k + 1). split; [lia|]. split.
      * rewrite Z.pow_add_r by lia. rewrite (quot_rem_10 _ R), E. change (10 ^ 1) with 10. ring.
      * split; [lia|]. split; [pose proof (abs_quot_le bi); lia|]. right. destruct Hm as [[-> Hm]|Hm]; lia.
Qed.

Lemma clamp_spec f : forall bi e b' e',
  d128_clamp f bi e = Ok (b', e') ->
  exists k, 0 <= k /\ b' = bi * 10 ^ k /\ e' = e - k /\ e' <= d128_max_exp /\
            (k = 0 \/ (Z.abs b' <= d128_maxS /\ e' = d128_max_exp)).
Proof.
  induction f as [|f IH]; intros bi e b' e' H; cbn [d128_clamp] in H.
  - destruct (Z.leb_spec e d128_max_exp); [|discriminate]. injection H as <- <-.
    exists 0. rewrite Z.mul_1_r. repeat split; auto; lia.
  - destruct (Z.leb_spec e d128_max_exp).
    + injection H as <- <-. exists 0. rewrite Z.mul_1_r. repeat split; auto; lia.
    + destruct (Z.ltb_spec d128_maxS (Z.abs (bi * 10))); [discriminate|].
      destruct (IH _ _ _ _ H) as (k & Hk & E & Ee & Hle & Hm).
      exists (k + 1). split; [lia|]. split.
      * rewrite Z.pow_add_r by lia. rewrite E. change (10 ^ 1) with 10. ring.
      * split; [lia|]. split; [exact Hle|]. right. destruct Hm as [->|[Hb He]].
        -- rewrite Z.pow_0_r, Z.mul_1_r in E. subst b'. split; [assumption | lia].
        -- auto.
Qed.

(* the same decimal number: coefficient * 10^exponent agree (written without
   fractions: one coefficient is the other times a power of ten) *)
Definition same_decimal (c e c' e' : Z) : Prop :=
  (c = 0 /\ c' = 0) \/
  exists k, 0 <= k /\ ((c = c' * 10 ^ k /\ e' = e + k) \/ (c' = c * 10 ^ k /\ e = e' + k)).

(* ParseDecimal128FromBigInt: when it succeeds the stored (coefficient,
   exponent) is within the Decimal128 limits and denotes exactly c * 10^e *)
Theorem d128_of_bigint_exact c e h l :
  d128_of_bigint c e = Ok (h, l) ->
  exists c' e', dec_decode h l = DFin c' e' /\ same_decimal c e c' e' /\
                Z.abs c' <= d128_maxS /\ d128_min_exp <= e' <= d128_max_exp.
Proof.
  unfold d128_of_bigint. intro H.
  set (e0 := if c =? 0 then Z.max d128_min_exp (Z.min d128_max_exp e) else e) in H.
  destruct (d128_shrink (digits_fuel c) c e0) as [[b1 e1]| | | |] eqn:S1; cbn [bind] in H; try discriminate.
  destruct (d128_raise (digits_fuel b1) b1 e1) as [[b2 e2]| | | |] eqn:S2; cbn [bind] in H; try discriminate.
  destruct (d128_clamp 40 b2 e2) as [[b3 e3]| | | |] eqn:S3; cbn [bind] in H; try discriminate.
  injection H as <- <-.
  destruct (shrink_spec _ _ _ _ _ S1) as (k1 & K1 & E1 & Ee1 & B1 & M1).
  destruct (raise_spec _ _ _ _ _ S2) as (k2 & K2 & E2 & Ee2 & B2 & M2).
  destruct (clamp_spec _ _ _ _ _ S3) as (k3 & K3 & E3 & Ee3 & L3 & M3).
  assert (Hb3 : Z.abs b3 <= d128_maxS).
  { destruct M3 as [->|[Hb _]]; [|exact Hb]. rewrite Z.pow_0_r, Z.mul_1_r in E3. subst b3. lia. }
  assert (He3 : d128_min_exp <= e3 <= d128_max_exp).
  { split; [|exact L3]. destruct M3 as [->|[_ ->]]; [|unfold d128_min_exp, d128_max_exp; lia].
    destruct M2 as [[_ Hm]|Hm]; lia. }
  exists b3, e3. split; [|split; [|split; assumption]].
  - replace (e3 - d128_min_exp) with (e3 + 6176) by (unfold d128_min_exp; lia).
    change (Z.pow_pos 2 49) with (2 ^ 49).
    pose proof (d128_encode_decode (Z.abs b3) (e3 + 6176) (b3 <? 0)) as R.
    replace (e3 + 6176 - 6176) with e3 in R by lia.
    rewrite R; [|lia | unfold d128_min_exp, d128_max_exp in *; lia].
    f_equal. destruct (Z.ltb_spec b3 0); lia.
  - destruct (Z.eqb_spec c 0) as [->|Hc].
    + left. split; [reflexivity|].
      assert (Z1 : b1 = 0).
      { symmetry in E1. apply Z.mul_eq_0 in E1. destruct E1 as [|P]; [assumption|]. pose proof (Z.pow_pos_nonneg 10 k1). lia. }
      rewrite Z1 in E2.
      assert (Z2 : b2 = 0).
      { symmetry in E2. apply Z.mul_eq_0 in E2. destruct E2 as [|P]; [assumption|]. pose proof (Z.pow_pos_nonneg 10 k2). lia. }
      rewrite E3, Z2. ring.
    + right. subst e0.
      (* k3 > 0 only if the first two loops did nothing *)
      destruct (Z.eq_dec k3 0) as [->|N3].
      * exists (k1 + k2). split; [lia|]. left. rewrite Z.pow_0_r, Z.mul_1_r in E3. subst b3.
        split; [rewrite E1, E2, Z.pow_add_r by lia; ring | lia].
      * destruct M3 as [->|[_ He]]; [congruence|].
        assert (k2 = 0) by (destruct M2 as [[-> _]|M2]; [reflexivity|]; unfold d128_min_exp, d128_max_exp in *; lia).
        subst k2.
        assert (k1 = 0) by (destruct M1 as [|M1]; [assumption|]; unfold d128_min_exp, d128_max_exp in *; lia).
        subst k1. rewrite Z.pow_0_r, Z.mul_1_r in E1, E2. subst b1 b2.
        exists k3. split; [lia|]. right. split; [exact E3 | lia].
Qed.

(* a result that fits as it is (at most 34 digits, exponent in range) is stored
   exactly as (c, e) and never rejected *)
Theorem dec_result_fits c e :
  Z.abs c <= d128_maxS -> d128_min_exp <= e <= d128_max_exp ->
  exists h l, dec_result (c, e) = Ok (VDecimal h l) /\ dec_decode h l = DFin c e.
Proof.
  intros Hc He. unfold dec_result, d128_of_bigint. cbn [fst snd].
  assert (E0 : (if c =? 0 then Z.max d128_min_exp (Z.min d128_max_exp e) else e) = e).
  { destruct (c =? 0); [|reflexivity]. unfold d128_min_exp, d128_max_exp in *. lia. }
  rewrite E0.
  assert (S1 : forall f, d128_shrink f c e = Ok (c, e)).
  { intro f. destruct f; cbn [d128_shrink]; destruct (Z.leb_spec (Z.abs c) d128_maxS); try reflexivity; lia. }
  assert (S2 : forall f, d128_raise f c e = Ok (c, e)).
  { intro f. destruct f; cbn [d128_raise]; destruct (Z.leb_spec d128_min_exp e); try reflexivity; lia. }
  assert (S3 : d128_clamp 40 c e = Ok (c, e)).
  { cbn [d128_clamp]. destruct (Z.leb_spec e d128_max_exp); [reflexivity | lia]. }
  rewrite S1. cbn [bind]. rewrite S2. cbn [bind]. rewrite S3. cbn [bind].
  do 2 eexists. split; [reflexivity|].
  replace (e - d128_min_exp) with (e + 6176) by (unfold d128_min_exp; lia).
  pose proof (d128_encode_decode (Z.abs c) (e + 6176) (c <? 0)) as R.
  replace (e + 6176 - 6176) with e in R by lia.
  rewrite R; [|lia | unfold d128_min_exp, d128_max_exp in *; lia].
  f_equal. destruct (Z.ltb_spec c 0); lia.
Qed.

(* dec_result: exact or rejected (never a wrong value) *)
Theorem dec_result_exact_or_rejected c e r :
  dec_result (c, e) = Ok r ->
  r = VMissing \/
  exists h l c' e', r = VDecimal h l /\ dec_decode h l = DFin c' e' /\ same_decimal c e c' e'.
Proof.
  unfold dec_result. cbn [fst snd]. destruct (d128_of_bigint c e) as [[h l]| | | |] eqn:E; intro H; try discriminate.
  - injection H as <-. right. destruct (d128_of_bigint_exact _ _ _ _ E) as (c' & e' & D & S & _).
    exists h, l, c', e'. auto.
  - injection H as <-. left. reflexivity.
Qed.

Lemma non_finite_finite_decimals h1 l1 h2 l2 c1 e1 c2 e2 mul :
  dec_decode h1 l1 = DFin c1 e1 -> dec_decode h2 l2 = DFin c2 e2 ->
  non_finite (VDecimal h1 l1) (VDecimal h2 l2) mul = None.
Proof. intros D1 D2. unfold non_finite. cbn [is_decimal_value orb negb number_shape]. rewrite D1, D2. reflexivity. Qed.

(* Mul / Add of two finite decimals: the exact product / sum, or rejected *)
Theorem mul_decimal_exact_or_rejected h1 l1 h2 l2 c1 e1 c2 e2 r :
  dec_decode h1 l1 = DFin c1 e1 -> dec_decode h2 l2 = DFin c2 e2 ->
  Mul (VDecimal h1 l1) (VDecimal h2 l2) = Ok r ->
  r = VMissing \/
  exists h l c' e', r = VDecimal h l /\ dec_decode h l = DFin c' e' /\ same_decimal (c1 * c2) (e1 + e2) c' e'.
Proof.
  intros D1 D2 H. rewrite (Mul_finite _ _ (non_finite_finite_decimals _ _ _ _ _ _ _ _ _ D1 D2)) in H.
  cbn [mul_finite] in H. unfold dec_binop, dec_operand, dec_of_d128 in H. rewrite D1, D2 in H.
  cbn [dec_mul] in H. apply dec_result_exact_or_rejected. exact H.
Qed.

Theorem add_decimal_exact_or_rejected h1 l1 h2 l2 c1 e1 c2 e2 r :
  dec_decode h1 l1 = DFin c1 e1 -> dec_decode h2 l2 = DFin c2 e2 ->
  Add (VDecimal h1 l1) (VDecimal h2 l2) = Ok r ->
  let e := Z.min e1 e2 in
  let c := c1 * zpow 10 (e1 - e) + c2 * zpow 10 (e2 - e) in
  r = VMissing \/
  exists h l c' e', r = VDecimal h l /\ dec_decode h l = DFin c' e' /\ same_decimal c e c' e'.
Proof.
  intros D1 D2 H e c. rewrite (Add_finite _ _ (non_finite_finite_decimals _ _ _ _ _ _ _ _ _ D1 D2)) in H.
  cbn [add_finite] in H. unfold dec_binop, dec_operand, dec_of_d128 in H. rewrite D1, D2 in H.
  cbn [dec_add] in H. apply dec_result_exact_or_rejected. exact H.
Qed.

(* ... and it is not rejected when the exact result fits as it is *)
Theorem mul_decimal_fits h1 l1 h2 l2 c1 e1 c2 e2 :
  dec_decode h1 l1 = DFin c1 e1 -> dec_decode h2 l2 = DFin c2 e2 ->
  Z.abs (c1 * c2) <= d128_maxS -> d128_min_exp <= e1 + e2 <= d128_max_exp ->
  exists h l, Mul (VDecimal h1 l1) (VDecimal h2 l2) = Ok (VDecimal h l) /\
              dec_decode h l = DFin (c1 * c2) (e1 + e2).
Proof.
  intros D1 D2 Hc He. rewrite (Mul_finite _ _ (non_finite_finite_decimals _ _ _ _ _ _ _ _ _ D1 D2)).
  cbn [mul_finite]. unfold dec_binop, dec_operand, dec_of_d128. rewrite D1, D2.
  cbn [dec_mul]. apply dec_result_fits; assumption.
Qed.

Theorem add_decimal_fits h1 l1 h2 l2 c1 e1 c2 e2 :
  dec_decode h1 l1 = DFin c1 e1 -> dec_decode h2 l2 = DFin c2 e2 ->
  let e := Z.min e1 e2 in
  let c := c1 * zpow 10 (e1 - e) + c2 * zpow 10 (e2 - e) in
  Z.abs c <= d128_maxS -> d128_min_exp <= e <= d128_max_exp ->
  exists h l, Add (VDecimal h1 l1) (VDecimal h2 l2) = Ok (VDecimal h l) /\ dec_decode h l = DFin c e.
Proof.
  intros D1 D2 e c Hc He. rewrite (Add_finite _ _ (non_finite_finite_decimals _ _ _ _ _ _ _ _ _ D1 D2)).
  cbn [add_finite]. unfold dec_binop, dec_operand, dec_of_d128. rewrite D1, D2.
  cbn [dec_add]. apply dec_result_fits; assumption.
Qed.

(* the former counter-example: the 50-digit product is rejected now *)
Theorem decimal_overflow_rejected : Mul dec_a dec_b = Ok VMissing.
Proof. vm_compute. reflexivity. Qed.

(* ------------------------------------------------------------------ *)
(* NaN and infinities next to a Decimal128 (after the nonFinite fix): the
   IEEE 754 table *)

Inductive nkind : Type :=
| KNaN
| KInf (neg : bool)
| KFin (neg zero : bool).     (* finite: sign, is it zero *)

(* the kind of a number, read off its exact interpretation *)
Definition kind_of (v : value) : option nkind :=
  match v with
  | VInt32 z | VInt64 z => Some (KFin (z <? 0) (z =? 0))
  | VDouble b =>
      if is_nan_bits b then Some KNaN
      else if is_inf_bits b then Some (KInf (dbl_sign b))
      else Some (KFin (dbl_sign b) (is_zero_bits b))
  | VDecimal h l =>
      match dec_decode h l with
      | DNaN => Some KNaN
      | DInf n => Some (KInf n)
      | DFin c _ => Some (KFin (1 <=? h / 2 ^ 63) (c =? 0))
      end
  | _ => None
  end.

Definition d128_inf (neg : bool) : value := if neg then d128_neg_inf else d128_pos_inf.

(* IEEE 754 addition / multiplication when an operand is NaN or infinite;
   None: both operands are finite *)
Definition ieee_add (x y : nkind) : option value :=
  match x, y with
  | KNaN, _ | _, KNaN => Some d128_nan
  | KInf s, KInf t => if Bool.eqb s t then Some (d128_inf s) else Some d128_nan
  | KInf s, KFin _ _ | KFin _ _, KInf s => Some (d128_inf s)
  | KFin _ _, KFin _ _ => None
  end.

Definition ieee_mul (x y : nkind) : option value :=
  match x, y with
  | KNaN, _ | _, KNaN => Some d128_nan
  | KInf s, KInf t => Some (d128_inf (xorb s t))
  | KInf s, KFin n z | KFin n z, KInf s => if z then Some d128_nan else Some (d128_inf (xorb s n))
  | KFin _ _, KFin _ _ => None
  end.

Lemma nan_not_inf b : is_nan_bits b = true -> is_inf_bits b = false.
Proof.
  unfold is_nan_bits, is_inf_bits. destruct (dbl_exp b =? 2047); [|reflexivity].
  destruct (dbl_man b =? 0); [discriminate | reflexivity].
Qed.

Definition kind_of_shape (s : shape) : nkind :=
  if sh_nan s then KNaN else if sh_inf s then KInf (sh_neg s) else KFin (sh_neg s) (sh_zero s).

Lemma inf_not_zero b : is_inf_bits b = true -> is_zero_bits b = false.
Proof.
  unfold is_inf_bits, is_zero_bits. destruct (Z.eqb_spec (dbl_exp b) 2047) as [E|]; [|discriminate].
  intros _. rewrite E. reflexivity.
Qed.

Lemma kind_shape v k : kind_of v = Some k ->
  exists s, number_shape v = Some s /\ k = kind_of_shape s /\
            (sh_nan s = true -> sh_inf s = false) /\ (sh_inf s = true -> sh_zero s = false).
Proof.
  destruct v; try discriminate; cbn [kind_of number_shape].
  - intro H. injection H as <-. eexists. split; [reflexivity|]. split; [reflexivity|]. split; discriminate.
  - intro H. injection H as <-. eexists. split; [reflexivity|]. split; [reflexivity|]. split; discriminate.
  - intro H. eexists. split; [reflexivity|]. unfold kind_of_shape. cbn [sh_nan sh_inf sh_neg sh_zero].
    destruct (is_nan_bits bits) eqn:N.
    + injection H as <-. split; [reflexivity|]. split; [intros _; apply nan_not_inf; exact N | apply inf_not_zero].
    + destruct (is_inf_bits bits) eqn:I; injection H as <-; (split; [reflexivity|]); (split; [discriminate|]);
        [intros _; apply inf_not_zero; exact I | discriminate].
  - destruct (dec_decode h l); intro H; injection H as <-; eexists; (split; [reflexivity|]); (split; [reflexivity|]);
      cbn; split; auto; discriminate.
Qed.

Lemma non_finite_table a b mul ka kb :
  kind_of a = Some ka -> kind_of b = Some kb -> is_decimal_value a || is_decimal_value b = true ->
  non_finite a b mul = if mul then ieee_mul ka kb else ieee_add ka kb.
Proof.
  intros Ka Kb D. destruct (kind_shape _ _ Ka) as (sa & Sa & -> & Ia & Za). destruct (kind_shape _ _ Kb) as (sb & Sb & -> & Ib & Zb).
  unfold non_finite. rewrite D, Sa, Sb. cbn [negb]. unfold kind_of_shape.
  destruct sa as [na ia ga za], sb as [nb ib gb zb]. cbn [sh_nan sh_inf sh_neg sh_zero] in *.
  destruct na, ia, za, nb, ib, zb;
    try (discriminate (Ia eq_refl)); try (discriminate (Za eq_refl));
    try (discriminate (Ib eq_refl)); try (discriminate (Zb eq_refl));
    destruct ga, gb, mul; reflexivity.
Qed.

(* Add with a Decimal128 partner: the IEEE table when an operand is NaN or
   infinite (whatever its type), the finite arithmetic otherwise *)
Theorem add_nonfinite_spec a b ka kb :
  kind_of a = Some ka -> kind_of b = Some kb -> is_decimal_value a || is_decimal_value b = true ->
  Add a b = match ieee_add ka kb with Some r => Ok r | None => add_finite a b end.
Proof. intros Ka Kb D. unfold Add. rewrite (non_finite_table _ _ false _ _ Ka Kb D). reflexivity. Qed.

Theorem mul_nonfinite_spec a b ka kb :
  kind_of a = Some ka -> kind_of b = Some kb -> is_decimal_value a || is_decimal_value b = true ->
  Mul a b = match ieee_mul ka kb with Some r => Ok r | None => mul_finite a b end.
Proof. intros Ka Kb D. unfold Mul. rewrite (non_finite_table _ _ true _ _ Ka Kb D). reflexivity. Qed.

(* the table answers exactly when an operand is not finite, with a Decimal128 *)
Theorem ieee_result_special x y r :
  (ieee_add x y = Some r \/ ieee_mul x y = Some r) ->
  (r = d128_nan \/ r = d128_pos_inf \/ r = d128_neg_inf) /\ num_rank r = 3.
Proof.
  intro H. assert (S : r = d128_nan \/ r = d128_pos_inf \/ r = d128_neg_inf).
  { destruct H as [H|H]; destruct x as [|[]|[] []], y as [|[]|[] []]; cbn in H; try discriminate; injection H as <-; cbn; auto. }
  split; [exact S | apply special_rank; exact S].
Qed.

Theorem ieee_table_domain x y :
  (ieee_add x y = None <-> exists n1 z1 n2 z2, x = KFin n1 z1 /\ y = KFin n2 z2) /\
  (ieee_mul x y = None <-> exists n1 z1 n2 z2, x = KFin n1 z1 /\ y = KFin n2 z2).
Proof.
  split; split.
  - destruct x as [|s|n z], y as [|t|n' z']; cbn; try discriminate; [destruct (Bool.eqb s t); discriminate | eauto 8].
  - intros (n1 & z1 & n2 & z2 & -> & ->). reflexivity.
  - destruct x as [|s|n z], y as [|t|n' z']; cbn; try discriminate; try (destruct z; discriminate); try (destruct z'; discriminate); eauto 8.
  - intros (n1 & z1 & n2 & z2 & -> & ->). reflexivity.
Qed.

(* the product / sum of any two Decimal128 values, on the FULL domain: finite
   operands give the exact result or are rejected, otherwise the IEEE table *)
Theorem mul_decimal_total h1 l1 h2 l2 r :
  Mul (VDecimal h1 l1) (VDecimal h2 l2) = Ok r ->
  (exists c1 e1 c2 e2, dec_decode h1 l1 = DFin c1 e1 /\ dec_decode h2 l2 = DFin c2 e2 /\
     (r = VMissing \/
      exists h l c' e', r = VDecimal h l /\ dec_decode h l = DFin c' e' /\ same_decimal (c1 * c2) (e1 + e2) c' e')) \/
  (exists ka kb, kind_of (VDecimal h1 l1) = Some ka /\ kind_of (VDecimal h2 l2) = Some kb /\ ieee_mul ka kb = Some r).
Proof.
  intro H.
  destruct (kind_of (VDecimal h1 l1)) as [ka|] eqn:Ka; [|cbn in Ka; destruct (dec_decode h1 l1); discriminate].
  destruct (kind_of (VDecimal h2 l2)) as [kb|] eqn:Kb; [|cbn in Kb; destruct (dec_decode h2 l2); discriminate].
  rewrite (mul_nonfinite_spec _ _ _ _ Ka Kb eq_refl) in H.
  destruct (ieee_mul ka kb) as [s|] eqn:T.
  - right. injection H as <-. eauto.
  - left. cbn [kind_of] in Ka, Kb.
    destruct (dec_decode h1 l1) as [|n1|c1 e1] eqn:D1; destruct (dec_decode h2 l2) as [|n2|c2 e2] eqn:D2;
      injection Ka as <-; injection Kb as <-; cbn in T; try discriminate;
      try (destruct (c1 =? 0); discriminate); try (destruct (c2 =? 0); discriminate).
    exists c1, e1, c2, e2. split; [reflexivity|]. split; [reflexivity|].
    cbn [mul_finite] in H. unfold dec_binop, dec_operand, dec_of_d128 in H. rewrite D1, D2 in H.
    cbn [dec_mul] in H. apply dec_result_exact_or_rejected. exact H.
Qed.

Theorem add_decimal_total h1 l1 h2 l2 r :
  Add (VDecimal h1 l1) (VDecimal h2 l2) = Ok r ->
  (exists c1 e1 c2 e2, dec_decode h1 l1 = DFin c1 e1 /\ dec_decode h2 l2 = DFin c2 e2 /\
     let e := Z.min e1 e2 in
     let c := c1 * zpow 10 (e1 - e) + c2 * zpow 10 (e2 - e) in
     (r = VMissing \/
      exists h l c' e', r = VDecimal h l /\ dec_decode h l = DFin c' e' /\ same_decimal c e c' e')) \/
  (exists ka kb, kind_of (VDecimal h1 l1) = Some ka /\ kind_of (VDecimal h2 l2) = Some kb /\ ieee_add ka kb = Some r).
Proof.
  intro H.
  destruct (kind_of (VDecimal h1 l1)) as [ka|] eqn:Ka; [|cbn in Ka; destruct (dec_decode h1 l1); discriminate].
  destruct (kind_of (VDecimal h2 l2)) as [kb|] eqn:Kb; [|cbn in Kb; destruct (dec_decode h2 l2); discriminate].
  rewrite (add_nonfinite_spec _ _ _ _ Ka Kb eq_refl) in H.
  destruct (ieee_add ka kb) as [s|] eqn:T.
  - right. injection H as <-. eauto.
  - left. cbn [kind_of] in Ka, Kb.
    destruct (dec_decode h1 l1) as [|n1|c1 e1] eqn:D1; destruct (dec_decode h2 l2) as [|n2|c2 e2] eqn:D2;
      injection Ka as <-; injection Kb as <-; cbn in T; try discriminate;
      try (destruct (Bool.eqb n1 n2); discriminate).
    exists c1, e1, c2, e2. split; [reflexivity|]. split; [reflexivity|].
    cbn [add_finite] in H. unfold dec_binop, dec_operand, dec_of_d128 in H. rewrite D1, D2 in H.
    cbn [dec_add] in H. apply dec_result_exact_or_rejected. exact H.
Qed.

(* the former finding: Infinity + 5 is Infinity, 0 * Infinity is NaN, and a
   double NaN next to a decimal gives the decimal NaN *)
Theorem nonfinite_examples :
  Add d128_pos_inf (VInt32 5) = Ok d128_pos_inf /\
  Add d128_pos_inf d128_neg_inf = Ok d128_nan /\
  Mul (VInt64 0) d128_neg_inf = Ok d128_nan /\
  Mul (VInt32 (-2)) d128_pos_inf = Ok d128_neg_inf /\
  Mul (VDouble 9221120237041090561) (VDecimal 3476778912330022912 1) = Ok d128_nan /\
  Add (VDouble 18442240474082181120) (VDecimal 3476778912330022912 1) = Ok d128_neg_inf.
Proof. vm_compute. repeat split; reflexivity. Qed.
