(* ArithProofs.v — the numeric rules of bsonkit.Add / Mul (Model/Arith.v):
   result type = join in int32 < int64 < double < decimal, exact integer
   results when representable, and the two clauses of MongoDB's promotion
   rules that the faithful model REFUTES (integer overflow wraps instead of
   promoting / failing; decimal results over 34 digits become the zero value). *)
From Coq Require Import List ZArith QArith Lia Bool String.
From Lungo.Model Require Import Arith.
Import ListNotations.
Open Scope Z_scope.

Definition num_rank (v : value) : Z :=
  match v with
  | VInt32 _ => 0
  | VInt64 _ => 1
  | VDouble _ => 2
  | VDecimal _ _ => 3
  | _ => -1
  end.

Lemma dec_to_d128_decimal d r : dec_to_d128 d = Ok r -> num_rank r = 3.
Proof.
  unfold dec_to_d128. destruct (d128_of_bigint (fst d) (snd d)) as [[h l]| | | |]; intro H; try discriminate;
    injection H as <-; reflexivity.
Qed.

Lemma dec_binop_decimal op a b r :
  is_num a = true -> is_num b = true -> dec_binop op a b = Ok r -> num_rank r = 3.
Proof.
  unfold dec_binop. intros Ha Hb.
  destruct (dec_operand a) as [[x|]|] eqn:Ea; destruct (dec_operand b) as [[y|]|] eqn:Eb; intro H; try discriminate;
    try (eapply dec_to_d128_decimal; exact H).
  all: destruct a; try discriminate; destruct b; discriminate.
Qed.

(* the result type of Add is the larger operand type *)
Theorem add_type a b r :
  is_num a = true -> is_num b = true -> Add a b = Ok r ->
  num_rank r = Z.max (num_rank a) (num_rank b).
Proof.
  intros Ha Hb H. destruct a; try discriminate; destruct b; try discriminate; cbn [Add] in H;
    try (injection H as <-; reflexivity);
    (erewrite dec_binop_decimal; [reflexivity| | |exact H]; reflexivity).
Qed.

Theorem mul_type a b r :
  is_num a = true -> is_num b = true -> Mul a b = Ok r ->
  num_rank r = Z.max (num_rank a) (num_rank b).
Proof.
  intros Ha Hb H. destruct a; try discriminate; destruct b; try discriminate; cbn [Mul] in H;
    try (injection H as <-; reflexivity);
    (erewrite dec_binop_decimal; [reflexivity| | |exact H]; reflexivity).
Qed.

(* non-numbers give Missing, whatever the other operand *)
Theorem add_non_number a b : is_num a = false \/ is_num b = false -> Add a b = Ok VMissing.
Proof.
  intros [H|H]; destruct a; try discriminate; destruct b; try discriminate; try reflexivity.
Qed.

(* ------------------------------------------------------------------ *)
(* exact integer arithmetic when the result is representable *)

Definition in32 (z : Z) : Prop := - two31 <= z < two31.
Definition in64 (z : Z) : Prop := - two63 <= z < two63.

Lemma wrap32_id z : in32 z -> wrap32 z = z.
Proof.
  unfold in32, wrap32, two31, two32. intro H. rewrite Z.mod_small by lia. lia.
Qed.

Lemma wrap64_id z : in64 z -> wrap64 z = z.
Proof.
  unfold in64, wrap64, two63, two64. intro H. rewrite Z.mod_small by lia. lia.
Qed.

Lemma wrap32_range z : in32 (wrap32 z).
Proof.
  unfold in32, wrap32, two31, two32. pose proof (Z.mod_pos_bound (z + 2147483648) 4294967296). lia.
Qed.

Lemma wrap64_range z : in64 (wrap64 z).
Proof.
  unfold in64, wrap64, two63, two64. pose proof (Z.mod_pos_bound (z + 9223372036854775808) 18446744073709551616). lia.
Qed.

(* the integer value and width of an integer BSON number *)
Definition int_of (v : value) : option Z :=
  match v with VInt32 z | VInt64 z => Some z | _ => None end.

Definition fits (rank : Z) (z : Z) : Prop := if rank =? 0 then in32 z else in64 z.

(* when the mathematical sum fits the result type, the result is exact *)
Theorem add_exact_int a b x y :
  int_of a = Some x -> int_of b = Some y ->
  fits (Z.max (num_rank a) (num_rank b)) (x + y) ->
  exists r, Add a b = Ok r /\ int_of r = Some (x + y) /\ num_rank r = Z.max (num_rank a) (num_rank b).
Proof.
  intros Ha Hb F. destruct a; try discriminate; destruct b; try discriminate;
    cbn in Ha, Hb; injection Ha as ->; injection Hb as ->; cbn [Add]; eexists; split; try reflexivity; cbn in F |- *.
  - rewrite wrap32_id by exact F. auto.
  - rewrite wrap64_id by exact F. auto.
  - rewrite wrap64_id by exact F. auto.
  - rewrite wrap64_id by exact F. auto.
Qed.

Theorem mul_exact_int a b x y :
  int_of a = Some x -> int_of b = Some y ->
  fits (Z.max (num_rank a) (num_rank b)) (x * y) ->
  exists r, Mul a b = Ok r /\ int_of r = Some (x * y) /\ num_rank r = Z.max (num_rank a) (num_rank b).
Proof.
  intros Ha Hb F. destruct a; try discriminate; destruct b; try discriminate;
    cbn in Ha, Hb; injection Ha as ->; injection Hb as ->; cbn [Mul]; eexists; split; try reflexivity; cbn in F |- *.
  - rewrite wrap32_id by exact F. auto.
  - rewrite wrap64_id by exact F. auto.
  - rewrite wrap64_id by exact F. auto.
  - rewrite wrap64_id by exact F. auto.
Qed.

(* integer results always stay inside their type (the wrap-around) *)
Theorem add_int_wraps a b x y :
  int_of a = Some x -> int_of b = Some y ->
  exists r z, Add a b = Ok r /\ int_of r = Some z /\ fits (num_rank r) z /\
              (z - (x + y)) mod (if num_rank r =? 0 then two32 else two64) = 0.
Proof.
  intros Ha Hb. destruct a; try discriminate; destruct b; try discriminate;
    cbn in Ha, Hb; injection Ha as ->; injection Hb as ->; cbn [Add]; do 2 eexists; (split; [reflexivity|]); cbn [int_of num_rank Z.eqb fits];
    (split; [reflexivity|]); split.
  all: try apply wrap32_range; try apply wrap64_range.
  - unfold wrap32, two31, two32. rewrite (Z.mod_eq (x + y + 2147483648) 4294967296) by lia.
    replace (x + y + 2147483648 - 4294967296 * ((x + y + 2147483648) / 4294967296) - 2147483648 - (x + y))
      with ((- ((x + y + 2147483648) / 4294967296)) * 4294967296) by lia. apply Z.mod_mul. lia.
  - unfold wrap64, two63, two64. rewrite (Z.mod_eq (x + y + 9223372036854775808) 18446744073709551616) by lia.
    replace (x + y + 9223372036854775808 - 18446744073709551616 * ((x + y + 9223372036854775808) / 18446744073709551616) - 9223372036854775808 - (x + y))
      with ((- ((x + y + 9223372036854775808) / 18446744073709551616)) * 18446744073709551616) by lia. apply Z.mod_mul. lia.
  - unfold wrap64, two63, two64. rewrite (Z.mod_eq (x + y + 9223372036854775808) 18446744073709551616) by lia.
    replace (x + y + 9223372036854775808 - 18446744073709551616 * ((x + y + 9223372036854775808) / 18446744073709551616) - 9223372036854775808 - (x + y))
      with ((- ((x + y + 9223372036854775808) / 18446744073709551616)) * 18446744073709551616) by lia. apply Z.mod_mul. lia.
  - unfold wrap64, two63, two64. rewrite (Z.mod_eq (x + y + 9223372036854775808) 18446744073709551616) by lia.
    replace (x + y + 9223372036854775808 - 18446744073709551616 * ((x + y + 9223372036854775808) / 18446744073709551616) - 9223372036854775808 - (x + y))
      with ((- ((x + y + 9223372036854775808) / 18446744073709551616)) * 18446744073709551616) by lia. apply Z.mod_mul. lia.
Qed.

(* ------------------------------------------------------------------ *)
(* MongoDB's promotion rule: "an integer result that does not fit its type is
   promoted to the next wider type (int32 -> int64), and an int64 overflow is
   an error".  In the value domain: the result, when there is one, denotes the
   mathematical sum. *)

Definition add_promotes : Prop :=
  forall a b x y r, int_of a = Some x -> int_of b = Some y -> wf a = true -> wf b = true ->
    Add a b = Ok r -> int_of r = Some (x + y).

(* the faithful model refutes it: int32 2147483647 + 1 = int32 -2147483648 *)
Theorem int_overflow_refuted :
  Add (VInt32 2147483647) (VInt32 1) = Ok (VInt32 (-2147483648)) /\
  Add (VInt64 9223372036854775807) (VInt64 1) = Ok (VInt64 (-9223372036854775808)) /\
  Mul (VInt32 65536) (VInt32 65536) = Ok (VInt32 0) /\
  ~ add_promotes.
Proof.
  split; [vm_compute; reflexivity|]. split; [vm_compute; reflexivity|]. split; [vm_compute; reflexivity|].
  intro H. specialize (H (VInt32 2147483647) (VInt32 1) 2147483647 1 _ eq_refl eq_refl eq_refl eq_refl eq_refl).
  vm_compute in H. discriminate.
Qed.

(* what does hold: without overflow the result is the mathematical sum *)
Theorem add_promotes_partial a b x y r :
  int_of a = Some x -> int_of b = Some y ->
  fits (Z.max (num_rank a) (num_rank b)) (x + y) ->
  Add a b = Ok r -> int_of r = Some (x + y).
Proof.
  intros Ha Hb F H. destruct (add_exact_int _ _ _ _ Ha Hb F) as (r' & E & I & _). congruence.
Qed.

(* Decimal128: "the result is the exact product / sum, or an error".  The model
   refutes it: a product with more than 34 significant digits is silently
   replaced by the zero value Decimal128{} (bits 0,0 = 0E-6176). *)

Definition dec_value (v : value) : option Q :=
  match v with
  | VDecimal h l => match dec_decode h l with DFin c e => Some (q_of_dec c e) | _ => None end
  | _ => None
  end.

Definition mul_decimal_exact : Prop :=
  forall a b x y r, dec_value a = Some x -> dec_value b = Some y -> Mul a b = Ok r ->
    exists z, dec_value r = Some z /\ Qeq z (x * y).

(* 1234567890123456789012345678901234 * 3 = 3703703670370370367037037036703702 fits;
   1234567890123456789012345678901234 * 12345678901234567 has 50 digits *)
Definition dec_a : value := VDecimal 3476845838389450546 16033479673939144690. (* 1234567890123456789012345678901234 *)
Definition dec_b : value := VDecimal 3476778912330022912 12345678901234567.    (* 12345678901234567 *)

Lemma q_of_dec_zero e : exists p, q_of_dec 0 e = 0 # p.
Proof. unfold q_of_dec. destruct (0 <=? e); [exists 1%positive; reflexivity | eexists; reflexivity]. Qed.

Theorem decimal_overflow_refuted :
  dec_value dec_a = Some (1234567890123456789012345678901234 # 1) /\
  dec_value dec_b = Some (12345678901234567 # 1) /\
  Mul dec_a dec_b = Ok (VDecimal 0 0) /\
  dec_decode 0 0 = DFin 0 (-6176) /\
  ~ mul_decimal_exact.
Proof.
  assert (Ea : dec_value dec_a = Some (1234567890123456789012345678901234 # 1)) by (vm_compute; reflexivity).
  assert (Eb : dec_value dec_b = Some (12345678901234567 # 1)) by (vm_compute; reflexivity).
  assert (Em : Mul dec_a dec_b = Ok (VDecimal 0 0)) by (vm_compute; reflexivity).
  assert (D0 : dec_decode 0 0 = DFin 0 (-6176)) by (vm_compute; reflexivity).
  split; [exact Ea|]. split; [exact Eb|]. split; [exact Em|]. split; [exact D0|].
  intro H. destruct (H _ _ _ _ _ Ea Eb Em) as (z & Hz & Hq).
  unfold dec_value in Hz. rewrite D0 in Hz. destruct (q_of_dec_zero (-6176)) as [p Ep]. rewrite Ep in Hz.
  injection Hz as <-. unfold Qeq, Qmult in Hq. cbn [Qnum Qden] in Hq.
  rewrite Z.mul_0_l in Hq. symmetry in Hq. apply Z.mul_eq_0 in Hq. destruct Hq as [Hq|Hq]; [|discriminate].
  apply Z.mul_eq_0 in Hq. destruct Hq; discriminate.
Qed.

(* ------------------------------------------------------------------ *)
(* Decimal128: when the exact result has at most 34 digits and an exponent in
   range, the stored result is exactly that (coefficient, exponent) *)

Lemma div_unique_pos a b q r : 0 <= r < b -> a = b * q + r -> a / b = q.
Proof. intros H E. symmetry. eapply Z.div_unique_pos; eauto. Qed.

Lemma mod_unique_pos a b q r : 0 <= r < b -> a = b * q + r -> a mod b = r.
Proof. intros H E. symmetry. eapply Z.mod_unique_pos; eauto. Qed.

Lemma d128_encode_decode m E (neg : bool) :
  0 <= m <= d128_maxS -> 0 <= E <= 12287 ->
  dec_decode (m / two64 + E * 2 ^ 49 + (if neg then two63 else 0)) (m mod two64) =
  DFin (if neg then - m else m) (E - 6176).
Proof.
  intros Hm HE. unfold d128_maxS, two64, two63 in *.
  set (H0 := m / 18446744073709551616). set (L := m mod 18446744073709551616).
  assert (Em : m = 18446744073709551616 * H0 + L) by (apply Z.div_mod; lia).
  assert (HL : 0 <= L < 18446744073709551616) by (apply Z.mod_pos_bound; lia).
  assert (HH : 0 <= H0 < 562949953421312).
  { split; [apply Z.div_pos; lia|]. apply Z.div_lt_upper_bound; lia. }
  set (S := if neg then 9223372036854775808 else 0).
  assert (HS : S = 0 \/ S = 9223372036854775808) by (destruct neg; auto).
  change (2 ^ 49) with 562949953421312.
  set (h := H0 + E * 562949953421312 + S).
  pose proof (Z.div_mod E 512 ltac:(lia)) as E9. pose proof (Z.mod_pos_bound E 512 ltac:(lia)) as R9.
  pose proof (Z.div_mod E 4096 ltac:(lia)) as E12. pose proof (Z.mod_pos_bound E 4096 ltac:(lia)) as R12.
  assert (Q9 : 0 <= E / 512 < 24) by (split; [apply Z.div_pos; lia | apply Z.div_lt_upper_bound; lia]).
  assert (Q12 : 0 <= E / 4096 < 3) by (split; [apply Z.div_pos; lia | apply Z.div_lt_upper_bound; lia]).
  unfold dec_decode. change (2 ^ 49) with 562949953421312.
  change (2 ^ 63) with 9223372036854775808. change (2 ^ 58) with 288230376151711744.
  change (2 ^ 61) with 2305843009213693952. change (2 ^ 47) with 140737488355328.
  change (2 ^ 14) with 16384. change (2 ^ 64) with 18446744073709551616.
  assert (D63 : h / 9223372036854775808 = if neg then 1 else 0).
  { destruct neg; unfold h, S; [apply div_unique_pos with (r := H0 + E * 562949953421312) | apply div_unique_pos with (r := H0 + E * 562949953421312)]; lia. }
  assert (D58 : (h / 288230376151711744) mod 32 = E / 512).
  { assert (h / 288230376151711744 = E / 512 + 32 * (if neg then 1 else 0)) as ->.
    { apply div_unique_pos with (r := H0 + (E mod 512) * 562949953421312); destruct neg; unfold h, S; lia. }
    apply mod_unique_pos with (q := if neg then 1 else 0); destruct neg; lia. }
  assert (D61 : (h / 2305843009213693952) mod 4 = E / 4096).
  { assert (h / 2305843009213693952 = E / 4096 + 4 * (if neg then 1 else 0)) as ->.
    { apply div_unique_pos with (r := H0 + (E mod 4096) * 562949953421312); destruct neg; unfold h, S; lia. }
    apply mod_unique_pos with (q := if neg then 1 else 0); destruct neg; lia. }
  assert (D49 : (h / 562949953421312) mod 16384 = E).
  { assert (h / 562949953421312 = E + 16384 * (if neg then 1 else 0)) as ->.
    { apply div_unique_pos with (r := H0); destruct neg; unfold h, S; lia. }
    apply mod_unique_pos with (q := if neg then 1 else 0); destruct neg; lia. }
  assert (M49 : h mod 562949953421312 = H0).
  { apply mod_unique_pos with (q := E + 16384 * (if neg then 1 else 0)); destruct neg; unfold h, S; lia. }
  rewrite D63, D58, D61, D49, M49.
  assert (N : (1 <=? (if neg then 1 else 0)) = neg) by (destruct neg; reflexivity). rewrite N.
  destruct (Z.eqb_spec (E / 512) 31); [lia|]. destruct (Z.eqb_spec (E / 512) 30); [lia|].
  destruct (Z.eqb_spec (E / 4096) 3); [lia|].
  replace (H0 * 18446744073709551616 + L) with m by lia. reflexivity.
Qed.

Theorem dec_to_d128_exact c e :
  Z.abs c <= d128_maxS -> d128_min_exp <= e <= d128_max_exp ->
  exists h l, dec_to_d128 (c, e) = Ok (VDecimal h l) /\ dec_decode h l = DFin c e.
Proof.
  intros Hc He. unfold dec_to_d128, d128_of_bigint. cbn [fst snd].
  assert (E0 : (if c =? 0 then Z.max d128_min_exp (Z.min d128_max_exp e) else e) = e).
  { destruct (c =? 0); [|reflexivity]. unfold d128_min_exp, d128_max_exp in *. lia. }
  rewrite E0.
  assert (S1 : forall f, d128_shrink f c e = Ok (c, e)).
  { intro f. destruct f; cbn [d128_shrink]; destruct (Z.leb_spec (Z.abs c) d128_maxS); try reflexivity; lia. }
  assert (S2 : forall f, d128_raise f c e = Ok (c, e)).
  { intro f. destruct f; cbn [d128_raise]; destruct (Z.leb_spec d128_min_exp e); try reflexivity; lia. }
  assert (S3 : d128_clamp 40 c e = Ok (c, e)).
  { cbn [d128_clamp]. destruct (Z.leb_spec e d128_max_exp); [reflexivity | lia]. }
  rewrite S1. cbn [bind]. rewrite S2. cbn [bind]. rewrite S3. cbn [bind].
  do 2 eexists. split; [reflexivity|].
  replace (e - d128_min_exp) with (e + 6176) by (unfold d128_min_exp; lia).
  pose proof (d128_encode_decode (Z.abs c) (e + 6176) (c <? 0)) as R.
  replace (e + 6176 - 6176) with e in R by lia.
  rewrite R; [|lia | unfold d128_min_exp, d128_max_exp in *; lia].
  f_equal. destruct (Z.ltb_spec c 0); lia.
Qed.

(* the product of two finite decimals that fits 34 digits is stored exactly *)
Theorem mul_decimal_exact_partial h1 l1 h2 l2 c1 e1 c2 e2 :
  dec_decode h1 l1 = DFin c1 e1 -> dec_decode h2 l2 = DFin c2 e2 ->
  Z.abs (c1 * c2) <= d128_maxS -> d128_min_exp <= e1 + e2 <= d128_max_exp ->
  exists h l, Mul (VDecimal h1 l1) (VDecimal h2 l2) = Ok (VDecimal h l) /\
              dec_decode h l = DFin (c1 * c2) (e1 + e2).
Proof.
  intros D1 D2 Hc He. cbn [Mul]. unfold dec_binop, dec_operand, dec_of_d128. rewrite D1, D2.
  cbn [dec_mul]. apply dec_to_d128_exact; assumption.
Qed.

(* the sum of two finite decimals that fits 34 digits is stored exactly *)
Theorem add_decimal_exact_partial h1 l1 h2 l2 c1 e1 c2 e2 :
  dec_decode h1 l1 = DFin c1 e1 -> dec_decode h2 l2 = DFin c2 e2 ->
  let e := Z.min e1 e2 in
  let c := c1 * zpow 10 (e1 - e) + c2 * zpow 10 (e2 - e) in
  Z.abs c <= d128_maxS -> d128_min_exp <= e <= d128_max_exp ->
  exists h l, Add (VDecimal h1 l1) (VDecimal h2 l2) = Ok (VDecimal h l) /\ dec_decode h l = DFin c e.
Proof.
  intros D1 D2 e c Hc He. cbn [Add]. unfold dec_binop, dec_operand, dec_of_d128. rewrite D1, D2.
  cbn [dec_add]. apply dec_to_d128_exact; assumption.
Qed.
