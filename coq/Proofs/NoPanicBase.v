(* NoPanicBase.v — C20: the predicate `safe` (an outcome that is neither a Go
   panic nor an exhausted model fuel, i.e. the modelled call returns a result
   or an error and the recursion the model unrolls terminates within the fuel
   the model itself computes), its closure lemmas for the outcome monad, and
   the size facts used as termination measures. *)
From Coq Require Import List ZArith Lia Bool String.
From Lungo.Model Require Import Base Bson.
Import ListNotations.

Definition safe {A} (r : res A) : Prop :=
  match r with
  | Panic | OutOfFuel => False
  | _ => True
  end.

(* additionally inside the modelled fragment *)
Definition total {A} (r : res A) : Prop :=
  match r with
  | Ok _ | Err => True
  | _ => False
  end.

Lemma safe_iff {A} (r : res A) : safe r <-> r <> Panic /\ r <> OutOfFuel.
Proof. destruct r; cbn; split; intro H; try tauto; try (split; discriminate); destruct H; congruence. Qed.

Lemma total_iff {A} (r : res A) : total r <-> r <> Panic /\ r <> OutOfFuel /\ r <> Unmodelled.
Proof. destruct r; cbn; split; intro H; try tauto; try (repeat split; discriminate); destruct H as [H1 [H2 H3]]; congruence. Qed.

Lemma total_safe {A} (r : res A) : total r -> safe r.
Proof. destruct r; cbn; tauto. Qed.

Lemma safe_dec {A} (r : res A) : {safe r} + {~ safe r}.
Proof. destruct r; cbn; auto. Qed.

Lemma safe_ok {A} (x : A) : safe (Ok x).
Proof. exact I. Qed.
Lemma safe_err {A} : safe (@Err A).
Proof. exact I. Qed.

Lemma bind_safe {A B} (r : res A) (f : A -> res B) :
  safe r -> (forall x, r = Ok x -> safe (f x)) -> safe (bind r f).
Proof. destruct r; cbn; intros H1 H2; try tauto. apply H2. reflexivity. Qed.

Lemma bind_safe_all {A B} (r : res A) (f : A -> res B) :
  safe r -> (forall x, safe (f x)) -> safe (bind r f).
Proof. intros H1 H2. apply bind_safe; auto. Qed.

Lemma bind_total {A B} (r : res A) (f : A -> res B) :
  total r -> (forall x, r = Ok x -> total (f x)) -> total (bind r f).
Proof. destruct r; cbn; intros H1 H2; try tauto. apply H2. reflexivity. Qed.

Lemma rmap_safe {A B} (f : A -> B) (r : res A) : safe r -> safe (rmap f r).
Proof. destruct r; cbn; tauto. Qed.

Lemma mapM_safe {A B} (f : A -> res B) (l : list A) :
  (forall x, In x l -> safe (f x)) -> safe (mapM f l).
Proof.
  induction l as [|x t IH]; intro H; cbn [mapM]; [exact I|].
  apply bind_safe_all; [apply H; left; reflexivity|]. intro y.
  apply bind_safe_all; [apply IH; intros z Hz; apply H; right; exact Hz|]. intro ys. exact I.
Qed.

(* a `match r with Ok x => k x | Err => Err | Panic => Panic | ... end`
   written out by hand in the model is a bind *)
Lemma safe_match_prop {A B} (r : res A) (k : A -> res B) :
  safe r -> (forall x, safe (k x)) ->
  safe (match r with Ok x => k x | Err => Err | Panic => Panic
                | OutOfFuel => OutOfFuel | Unmodelled => Unmodelled end).
Proof. destruct r; cbn; auto. Qed.

(* ------------------------------------------------------------------ *)
(* sizes *)

Fixpoint dsize (d : list (string * value)) : nat :=
  match d with [] => O | (_, x) :: t => (vsize x + dsize t)%nat end.
Fixpoint asize (a : list value) : nat :=
  match a with [] => O | x :: t => (vsize x + asize t)%nat end.

Lemma vsize_doc d : vsize (VDoc d) = S (dsize d).
Proof. reflexivity. Qed.

Lemma vsize_arr a : vsize (VArr a) = S (asize a).
Proof. reflexivity. Qed.

Lemma vsize_pos v : (1 <= vsize v)%nat.
Proof. destruct v; cbn [vsize]; lia. Qed.

Lemma dsize_in d k x : In (k, x) d -> (vsize x <= dsize d)%nat.
Proof.
  induction d as [|[k' y] t IH]; cbn [In dsize]; [tauto|].
  intros [E|H]; [inversion E; subst; lia|]. specialize (IH H). lia.
Qed.

Lemma asize_in a x : In x a -> (vsize x <= asize a)%nat.
Proof.
  induction a as [|y t IH]; cbn [In asize]; [tauto|].
  intros [E|H]; [subst; lia|]. specialize (IH H). lia.
Qed.

Lemma dsize_app d e : dsize (d ++ e) = (dsize d + dsize e)%nat.
Proof. induction d as [|[k x] t IH]; cbn [dsize app]; [reflexivity|]. rewrite IH. lia. Qed.

Lemma safe_nonempty_total {A B} (l : list A) (r : res B) :
  total r -> total (match l with [] => Err | _ :: _ => r end).
Proof. destruct l; cbn; auto. Qed.
