(* EngineLive.v — C16: the token is conserved and released exactly once, the
   engine never wedges, shutdown is prompt, and (for the Begin that reads the
   session before locking) no thread waits for a mutex forever. Progress is
   proved as enabledness; real-time bounds (the one-minute acquisition
   timeout, ticker intervals) and fairness of the Go scheduler are outside
   the model. *)
From Coq Require Import List Arith Lia Bool.
From Lungo.Model Require Import Base Engine.
From Lungo.Proofs Require Import EngineProofs.
Import ListNotations.
Local Open Scope list_scope.

(* ---- token_conservation ---- *)

Theorem token_conservation_thm : forall c s,
  reachable c s ->
  (token_free (st_g s) = true <->
     etxn (st_g s) = None /\ forall t th, nth_error (st_threads s) t = Some th -> transit (th_pc th) = false) /\
  b2n (is_some (etxn (st_g s))) + count thr_transit (st_threads s) <= 1 /\
  (forall t u th thu, nth_error (st_threads s) t = Some th -> nth_error (st_threads s) u = Some thu ->
     transit (th_pc th) = true -> transit (th_pc thu) = true -> t = u).
Proof.
  intros c s R. destruct (token_invariant _ _ R) as [_ EQ]. split; [split|split].
  - intros TF. rewrite TF in EQ. simpl in EQ. split.
    + destruct (etxn (st_g s)); simpl in EQ; auto; lia.
    + intros t th N. destruct (transit (th_pc th)) eqn:TR; auto.
      pose proof (count_pos _ thr_transit _ _ _ N TR). lia.
  - intros [E A]. rewrite E in EQ. simpl in EQ. rewrite count_zero in EQ.
    + destruct (token_free (st_g s)); simpl in EQ; auto; lia.
    + intros n x N. apply (A _ _ N).
  - lia.
  - intros. eapply (count_le_one_unique _ thr_transit); eauto. lia.
Qed.

(* ---- release_once ---- *)

Lemma tstep_release_owner : forall c t bgs g th a g' th',
  tstep c t bgs g th a = Some (g', th') ->
  token_free g = false -> token_free g' = true ->
  transit (th_pc th) = true \/ (exists x k, th_pc th = PAbortL x k /\ etxn g = Some x).
Proof.
  intros c t bgs g th a g' th' H TF TF'.
  destruct th as [p prog cur canc bg inv pub rd res str].
  destruct a; [destruct p|destruct p|destruct p|destruct p]; step_cases H; simp; simpl in *;
    try congruence; try (left; reflexivity).
  all: try (destruct ok; simpl in *; try discriminate; left; reflexivity).
  right. unfold is_txn in *. destruct (etxn g) eqn:ET; simpl in *; try discriminate.
  apply negb_false_iff in E0. apply Nat.eqb_eq in E0. subst. eauto.
Qed.

Theorem release_once_thm : forall c s,
  reachable c s ->
  sem_panic (st_g s) = false /\
  forall t a s', step c s (LThread t a) = Some s' ->
    token_free (st_g s) = false -> token_free (st_g s') = true ->
    exists th, nth_error (st_threads s) t = Some th /\
      (transit (th_pc th) = true \/ (exists x k, th_pc th = PAbortL x k /\ etxn (st_g s) = Some x)).
Proof.
  intros c s R. split; [apply (token_invariant _ _ R)|].
  intros t a s' ST TF TF'. apply step_inv in ST. destruct ST as [ST|[ST|[ST|ST]]].
  - destruct ST as (t0 & a0 & th & g' & th' & EQ & N & T & ->). inversion EQ; subst.
    exists th. split; auto. eapply tstep_release_owner; eauto.
  - destruct ST as (? & ? & EQ & _). discriminate.
  - destruct ST as [EQ _]. discriminate.
  - destruct ST as [EQ _]. discriminate.
Qed.

(* ---- no_wedge ---- *)

Definition idle_pc (p : pc) : bool := match p with PIdle | PExited => true | _ => false end.

(* every write transaction finished or abandoned: no transaction is open any
   more (Commit or Abort ran for it) and no call is in progress *)
Theorem no_wedge_thm : forall c s,
  reachable c s ->
  (forall t th, nth_error (st_threads s) t = Some th -> idle_pc (th_pc th) = true) ->
  (forall x, txn_status (st_g s) x <> Some TOpen) ->
  token_free (st_g s) = true /\ etxn (st_g s) = None.
Proof.
  intros c s R IDLE FIN.
  destruct (txn_invariant _ _ R) as [D1 _].
  assert (E : etxn (st_g s) = None).
  { destruct (etxn (st_g s)) eqn:ET; auto. exfalso. apply (FIN t). apply D1. auto. }
  split; auto.
  apply (proj1 (token_conservation_thm _ _ R)). split; auto.
  intros t th N. specialize (IDLE _ _ N). destruct (th_pc th); simpl in *; try discriminate; auto.
Qed.

(* Commit and Abort finish the transaction they are given (while the engine
   is alive), and a finished transaction never becomes open again *)
Lemma tstep_finishes : forall c t bgs g th g' th' x k,
  tstep c t bgs g th ATau = Some (g', th') ->
  (th_pc th = PAbortL x k \/ th_pc th = PCommitL x k) ->
  alive g = true -> txn_ok g ->
  txn_status g' x <> Some TOpen.
Proof.
  intros c t bgs g th g' th' x k H PC AL [D1 D2].
  destruct th as [p prog cur canc bg inv pub rd res str]. simpl in PC.
  destruct PC as [-> | ->]; step_cases H; simp; unfold txn_status, is_txn in *; simp;
    rewrite ?nth_upd_match, ?Nat.eqb_refl; try rewrite AL in *; simpl in *; try discriminate.
  all: try (intros X; apply D2 in X; rewrite X in *; simpl in *; rewrite ?Nat.eqb_refl in *; discriminate).
  all: try (destruct (nth_error (txns g) x); simpl; congruence).
  intros X. apply D2 in X. inversion X; subst. rewrite Nat.eqb_refl in E1. discriminate.
Qed.

Lemma tstep_etxn_change : forall c t bgs g th a g' th',
  tstep c t bgs g th a = Some (g', th') ->
  etxn g' = etxn g \/ etxn g' = None \/ etxn g' = Some (List.length (txns g)).
Proof.
  intros c t bgs g th a g' th' H.
  destruct th as [p prog cur canc bg inv pub rd res str].
  destruct a; [destruct p|destruct p|destruct p|destruct p]; step_cases H; simp; auto.
Qed.

Theorem finished_stable : forall c s l s' x,
  reachable c s -> step c s l = Some s' ->
  x < List.length (txns (st_g s)) -> txn_status (st_g s) x <> Some TOpen ->
  txn_status (st_g s') x <> Some TOpen.
Proof.
  intros c s l s' x R ST LT FIN.
  pose proof (txn_invariant _ _ R) as [D1 _].
  pose proof (txn_invariant _ _ (reach_step _ _ _ _ R ST)) as [_ D2'].
  intros X. apply D2' in X.
  apply step_inv in ST. destruct ST as [ST|[ST|[ST|ST]]].
  - destruct ST as (t & a & th & g' & th' & -> & N & T & ->). simpl in X.
    destruct (tstep_etxn_change _ _ _ _ _ _ _ _ T) as [E|[E|E]]; rewrite E in X.
    + apply FIN. apply D1. auto.
    + discriminate.
    + inversion X. lia.
  - destruct ST as (t & th & -> & N & ->). simpl in X. apply FIN. apply D1. auto.
  - destruct ST as [-> ->]. simpl in X. apply FIN. apply D1. auto.
  - destruct ST as [-> ->]. simpl in X. apply FIN. apply D1. auto.
Qed.

(* with the token free a waiting writer proceeds immediately: Acquire is
   enabled, and the re-locked Begin installs its transaction *)
Theorem next_write_proceeds : forall c s t th k,
  reachable c s -> nth_error (st_threads s) t = Some th -> th_pc th = PBeginAcq k ->
  token_free (st_g s) = true ->
  exists s1, step c s (LThread t AAcqOk) = Some s1 /\
    exists th1, nth_error (st_threads s1) t = Some th1 /\ th_pc th1 = PBeginWoke true k /\
    (alive (st_g s1) = true -> emutex (st_g s1) = None ->
     exists s2 th2 x, step c s1 (LThread t ATau) = Some s2 /\ nth_error (st_threads s2) t = Some th2 /\
       th_pc th2 = PBeginInst x k /\ etxn (st_g s2) = Some x).
Proof.
  intros c s t th k R N PC TF.
  destruct (proj1 (proj1 (token_conservation_thm _ _ R)) TF) as [EN _].
  assert (T1 : forall bgs, tstep c t bgs (st_g s) th AAcqOk =
               Some (g_set_token (st_g s) false, th_set_pc th (PBeginWoke true k))).
  { intros. unfold tstep, acquire, goto. rewrite PC, TF. reflexivity. }
  unfold step at 1. rewrite N, T1. eexists. split; [reflexivity|].
  cbn [st_threads st_g]. rewrite (nth_error_upd_same _ _ _ _ _ N).
  eexists. split; [reflexivity|]. split; [reflexivity|].
  intros AL EM. cbn in AL, EM.
  assert (T2 : forall bgs g1, emutex g1 = None -> alive g1 = true -> etxn g1 = None ->
               tstep c t bgs g1 (th_set_pc th (PBeginWoke true k)) ATau =
               Some (g_set_etxn (g_set_txns (g_set_emutex g1 (Some t))
                       (txns g1 ++ [{| t_base_ver := version g1; t_base_cat := catalog g1; t_ops := []; t_status := TOpen |}]))
                       (Some (List.length (txns g1))),
                     th_set_pc (th_set_pc th (PBeginWoke true k)) (PBeginInst (List.length (txns g1)) k))).
  { intros bgs g1 A B C. unfold tstep, tau, goto, efree, new_txn. cbn [th_pc th_set_pc]. rewrite A, B, C. reflexivity. }
  unfold step. cbn [st_threads st_g]. rewrite (nth_error_upd_same _ _ _ _ _ N).
  rewrite T2; auto.
  eexists. eexists. eexists. split; [reflexivity|]. cbn [st_threads st_g].
  erewrite nth_error_upd_same; [|eapply nth_error_upd_same; eauto].
  split; [reflexivity|]. split; reflexivity.
Qed.

(* ---- closed_is_prompt ---- *)

Lemma tstep_alive_mono : forall c t bgs g th a g' th',
  tstep c t bgs g th a = Some (g', th') -> alive g = false -> alive g' = false.
Proof.
  intros c t bgs g th a g' th' H AL.
  destruct th as [p prog cur canc bg inv pub rd res str].
  destruct a; [destruct p|destruct p|destruct p|destruct p]; step_cases H; simp; auto;
    rewrite AL in *; simpl in *; discriminate.
Qed.

Theorem closed_stays_closed : forall c s l s',
  step c s l = Some s' -> alive (st_g s) = false -> alive (st_g s') = false.
Proof.
  intros c s l s' ST AL. apply step_inv in ST. destruct ST as [ST|[ST|[ST|ST]]].
  - destruct ST as (t & a & th & g' & th' & -> & N & T & ->). simpl. eapply tstep_alive_mono; eauto.
  - destruct ST as (t & th & -> & N & ->). auto.
  - destruct ST as [-> ->]. auto.
  - destruct ST as [-> ->]. auto.
Qed.

(* After Close (tomb dead): every entry point returns the closed error in a
   bounded number of the caller's own steps (lock; unlock+return), each of
   which only needs the engine mutex; a blocked acquirer is enabled (the tomb
   context is cancelled) and then returns closed whether or not it got the
   token; Abort returns; the expiry goroutine exits. *)
Theorem closed_is_prompt_thm : forall c t bgs g th,
  alive g = false ->
  (forall l cs n k, th_pc th = PBegin0 l cs n k -> emutex g = None ->
     exists g' th', tstep c t bgs g th ATau = Some (g', th') /\ th_pc th' = PRetE RClosed None k) /\
  (forall ok k, th_pc th = PBeginWoke ok k -> emutex g = None ->
     exists g' th', tstep c t bgs g th ATau = Some (g', th') /\ th_pc th' = PRetE RClosed None k) /\
  (forall k, th_pc th = PBeginAcq k ->
     exists g' th', tstep c t bgs g th AAcqCancel = Some (g', th') /\ th_pc th' = PBeginWoke false k) /\
  (forall x k, th_pc th = PCommitL x k ->
     exists g' th', tstep c t bgs g th ATau = Some (g', th') /\ th_pc th' = PRetE RClosed None k) /\
  (forall x k, th_pc th = PCommit0 x k -> emutex g = None ->
     exists g' th', tstep c t bgs g th ATau = Some (g', th') /\ th_pc th' = PCommitL x k) /\
  (th_pc th = PWatch0 -> emutex g = None ->
     exists g' th', tstep c t bgs g th ATau = Some (g', th') /\ th_pc th' = PRetE RClosed None KTop) /\
  (forall x k, th_pc th = PAbortL x k ->
     exists g' th', tstep c t bgs g th ATau = Some (g', th') /\ th_pc th' = PRetE ROk None k /\
       etxn g' = etxn g /\ token_free g' = token_free g) /\
  (th_pc th = PClose0 -> emutex g = None ->
     exists g' th', tstep c t bgs g th ATau = Some (g', th') /\ th_pc th' = PRetE ROk None KTop) /\
  (forall r x, th_pc th = PRetE r x KTop ->
     exists g' th', tstep c t bgs g th ATau = Some (g', th') /\ th_pc th' = PIdle /\
       th_results th' = r :: th_results th /\ emutex g' = None) /\
  (th_pc th = PIdle -> th_prog th = [] -> th_bg th = true ->
     exists g' th', tstep c t bgs g th ATau = Some (g', th') /\ th_pc th' = PExited).
Proof.
  intros c t bgs g th AL.
  destruct th as [p prog cur canc bg inv pub rd res str]. simpl.
  repeat split; intros; subst; unfold tstep, tau, acquire, goto, efree, ereturn, finish; simpl;
    rewrite ?AL; try rewrite H0; try rewrite H; simpl; rewrite ?orb_true_r; simpl;
    try (destruct ok); try (destruct l); simpl; eauto 10.
  destruct x; simpl; eauto 10.
Qed.

(* ---- progress: no thread waits for a mutex forever (fixed Begin) ---- *)

(* Engine.Begin is never entered with a Session.mutex held *)
Definition wf_pc (p : pc) : bool :=
  match p with
  | PBeginPre _ k | PBegin0 _ _ _ k | PBeginSess _ k | PBeginUnl k | PBeginAcq k | PBeginWoke _ k
  | PBeginInst _ k => negb (is_some (cont_sess k))
  | _ => true
  end.

Definition is_begin_sess (p : pc) : bool := match p with PBeginSess _ _ => true | _ => false end.

Lemma tstep_wf : forall c t bgs g th a g' th',
  tstep c t bgs g th a = Some (g', th') -> wf_pc (th_pc th) = true ->
  wf_pc (th_pc th') = true /\
  (is_begin_sess (th_pc th') = true -> sess_under_lock c = true).
Proof.
  intros c t bgs g th a g' th' H W.
  destruct th as [p prog cur canc bg inv pub rd res str]. simpl in W.
  destruct a; [destruct p|destruct p|destruct p|destruct p]; step_cases H; simp; simpl in *;
    split; auto; try discriminate.
  all: try (destruct k; simpl in *; auto; discriminate).
Qed.

Definition inv_wf (c : config) (g : globals) (t : tid) (th : thread) : Prop :=
  wf_pc (th_pc th) = true /\ (is_begin_sess (th_pc th) = true -> sess_under_lock c = true).

Theorem wf_invariant : forall c s, reachable c s -> all_threads (inv_wf c) s.
Proof.
  induction 1.
  - intros t th N. apply init_thread_nth in N. destruct N as [N _]. unfold inv_wf. rewrite N. simpl.
    split; auto. discriminate.
  - eapply all_threads_step; eauto.
    + constructor; intros; exact H1.
    + intros t a th g' th' N T. split.
      * apply (tstep_wf _ _ _ _ _ _ _ _ T (proj1 (IHreachable _ _ N))).
      * intros u thu NE NU. exact (IHreachable _ _ NU).
Qed.

Definition can_step (c : config) (s : state) (t : tid) : Prop :=
  exists s', step c s (LThread t ATau) = Some s'.

Lemma holderE_can_step : forall c t bgs g th,
  holdsE (th_pc th) = true -> is_begin_sess (th_pc th) = false ->
  exists r, tstep c t bgs g th ATau = Some r.
Proof.
  intros c t bgs g th HE NB. destruct th as [p prog cur canc bg inv pub rd res str]. simpl in *.
  destruct p; simpl in *; try discriminate; unfold tstep, tau, goto; simpl; eauto.
  - destruct (negb (alive g)); eauto. destruct (etxn g); eauto.
    destruct (negb (Nat.eqb t0 x)); eauto. destruct (txn_ops g x); eauto.
  - destruct (store_panic g); eauto. destruct (store_fail g); eauto.
  - destruct (negb (alive g)); eauto. destruct (negb (is_txn (etxn g) x)); eauto.
Qed.

Lemma holderS_can_step : forall c t bgs g th s,
  holdsS (th_pc th) = Some s -> wf_pc (th_pc th) = true ->
  (exists r, tstep c t bgs g th ATau = Some r) \/
  (emutex g <> None /\ holdsE (th_pc th) = false).
Proof.
  intros c t bgs g th s HS W. destruct th as [p prog cur canc bg inv pub rd res str]. simpl in *.
  destruct (emutex g) eqn:EM.
  - destruct (holdsE p) eqn:HE.
    + left. apply holderE_can_step; simpl; auto. destruct p; simpl in *; auto.
      destruct (cont_sess k); simpl in *; discriminate.
    + right. split; auto. discriminate.
  - left. destruct p; simpl in *; try discriminate; unfold tstep, tau, goto, efree; simpl; rewrite ?EM; simpl; eauto;
      try (destruct (cont_sess k); simpl in *; discriminate).
    + destruct (negb (alive g)); eauto. destruct (etxn g); eauto.
      destruct (negb (Nat.eqb t0 x)); eauto. destruct (txn_ops g x); eauto.
    + destruct (store_panic g); eauto. destruct (store_fail g); eauto.
    + destruct (negb (alive g)); eauto. destruct (negb (is_txn (etxn g) x)); eauto.
    + destruct (sess_ended g s0); eauto. destruct (is_some (sess_txn g s0) || sess_starting g s0); eauto.
    + destruct x; eauto. destruct (negb (is_ok r)); eauto. destruct (sess_ended g s0); eauto.
    + destruct (sess_ended g s0); eauto. destruct (sess_txn g s0); eauto.
    + destruct (sess_ended g s0); eauto. destruct (sess_txn g s0); eauto.
    + destruct (sess_ended g s0); eauto. destruct (sess_txn g s0); eauto.
Qed.

Theorem owners_exist : forall c s, reachable c s ->
  (forall u, emutex (st_g s) = Some u -> exists th, nth_error (st_threads s) u = Some th) /\
  (forall x u, smutex (st_g s) x = Some u -> exists th, nth_error (st_threads s) u = Some th).
Proof.
  induction 1.
  - split; simpl; intros; try discriminate. unfold smutex in H. simpl in H.
    destruct (nth_error (repeat init_session n) x) eqn:E; try discriminate.
    apply nth_error_In in E. apply repeat_spec in E. subst. discriminate.
  - destruct IHreachable as [IE IS].
    pose proof (emutex_owner _ _ H) as EO. pose proof (smutex_owner _ _ H) as SO.
    apply step_inv in H0. destruct H0 as [H0|[H0|[H0|H0]]].
    + destruct H0 as (t & a & th & g' & th' & -> & N & T & ->).
      destruct (tstep_emutex _ _ _ _ _ _ _ _ T (EO _ _ N)) as [_ FE].
      destruct (tstep_smutex _ _ _ _ _ _ _ _ T (SO _ _ N)) as [_ FS].
      split; simpl.
      * intros u EM. rewrite (nth_error_upd _ _ _ _ _ _ N). destruct (Nat.eqb_spec t u); eauto.
        apply IE. apply FE; auto.
      * intros x u SM. rewrite (nth_error_upd _ _ _ _ _ _ N). destruct (Nat.eqb_spec t u); eauto.
        apply (IS x). apply (FS u x); auto.
    + destruct H0 as (t & th & -> & N & ->). split; simpl.
      * intros u EM. rewrite (nth_error_upd _ _ _ _ _ _ N). destruct (Nat.eqb_spec t u); eauto.
      * intros x u SM. rewrite (nth_error_upd _ _ _ _ _ _ N). destruct (Nat.eqb_spec t u); eauto.
    + destruct H0 as [-> ->]. split; simpl; auto.
    + destruct H0 as [-> ->]. split; simpl; auto.
Qed.

Lemma can_step_of_tstep : forall c s t th r,
  nth_error (st_threads s) t = Some th ->
  tstep c t (bg_stopped (st_threads s)) (st_g s) th ATau = Some r -> can_step c s t.
Proof. intros c s t th [g' th'] N T. unfold can_step, step. rewrite N, T. eauto. Qed.

(* With the Begin that reads the session before locking: whoever holds
   Engine.mutex can always take its next step; whoever holds a Session.mutex
   can take its next step or waits only for Engine.mutex, whose holder can.
   Hence every wait for a mutex ends: there is no wait-for cycle. *)
Theorem mutex_progress_thm : forall s,
  reachable cfg_fixed s ->
  (forall u, emutex (st_g s) = Some u -> can_step cfg_fixed s u) /\
  (forall x u, smutex (st_g s) x = Some u ->
     can_step cfg_fixed s u \/ (exists v, emutex (st_g s) = Some v /\ v <> u /\ can_step cfg_fixed s v)).
Proof.
  intros s R.
  destruct (owners_exist _ _ R) as [OE OS].
  pose proof (emutex_owner _ _ R) as EO. pose proof (smutex_owner _ _ R) as SO.
  pose proof (wf_invariant _ _ R) as WF.
  assert (HE : forall u, emutex (st_g s) = Some u -> can_step cfg_fixed s u).
  { intros u EM. destruct (OE _ EM) as [th N].
    assert (H1 : holdsE (th_pc th) = true) by (apply (EO _ _ N); auto).
    assert (H2 : is_begin_sess (th_pc th) = false).
    { destruct (is_begin_sess (th_pc th)) eqn:B; auto. apply (proj2 (WF _ _ N)) in B. discriminate. }
    destruct (holderE_can_step cfg_fixed u (bg_stopped (st_threads s)) (st_g s) th H1 H2) as [r T].
    eapply can_step_of_tstep; eauto. }
  split; auto.
  intros x u SM. destruct (OS _ _ SM) as [th N].
  assert (H1 : holdsS (th_pc th) = Some x) by (apply (SO _ _ N); auto).
  destruct (holderS_can_step cfg_fixed u (bg_stopped (st_threads s)) (st_g s) th x H1 (proj1 (WF _ _ N))) as [[r T]|[EM NH]].
  - left. eapply can_step_of_tstep; eauto.
  - right. destruct (emutex (st_g s)) as [v|] eqn:EV; [|congruence].
    exists v. split; auto. split; auto.
    intros ->. assert (holdsE (th_pc th) = true) by (apply (EO _ _ N); auto). congruence.
Qed.

(* ---- the lock-order inversion of the unpatched Begin is a real deadlock ---- *)

Lemma run_labels_reachable : forall c ls s s',
  reachable c s -> run_labels c s ls = Some s' -> reachable c s'.
Proof.
  induction ls; simpl; intros s s' R H.
  - inversion H; subst; auto.
  - destruct (step c s a) eqn:E; try discriminate. apply (IHls s0 s'); auto. eapply reach_step; eauto.
Qed.

(* goroutine 0: sess.StartTransaction(); sess.CommitTransaction()
   goroutine 1: engine.Begin(ctx carrying sess, true) *)
Definition dl_init : state :=
  init_state 1 [(false, [OSStart 0; OSCommit 0]); (false, [OBegin true (Some 0)])].

Definition dl_schedule : list label :=
  [LThread 0 ATau; LThread 0 ATau; LThread 0 ATau; LThread 0 ATau; LThread 0 ATau; LThread 0 AAcqOk;
   LThread 0 ATau; LThread 0 ATau; LThread 0 ATau; LThread 0 ATau; LThread 0 ATau; LThread 0 ATau;
   LThread 0 ATau; LThread 0 ATau; LThread 0 ATau;       (* CommitTransaction holds Session.mutex, wants Engine.mutex *)
   LThread 1 ATau; LThread 1 ATau].                      (* Begin holds Engine.mutex, wants Session.mutex *)

Definition deadlocked (s : state) : Prop :=
  exists th0 th1 x k0,
    st_threads s = [th0; th1] /\
    th_pc th0 = PCommit0 x (KSessCommit 0 k0) /\ th_pc th1 = PBeginSess 0 KTop /\
    emutex (st_g s) = Some 1 /\ smutex (st_g s) 0 = Some 0.

Lemma deadlocked_stuck : forall s l s',
  deadlocked s -> step cfg_inverted s l = Some s' ->
  deadlocked s' /\ (forall t a, l <> LThread t a).
Proof.
  intros s l s' (th0 & th1 & x & k0 & TH & P0 & P1 & EM & SM) ST.
  apply step_inv in ST. destruct ST as [ST|[ST|[ST|ST]]].
  - exfalso. destruct ST as (t & a & th & g' & th' & -> & N & T & ->). rewrite TH in N.
    destruct t as [|[|t]]; simpl in N.
    + inversion N; subst th. unfold tstep, tau, acquire, efree in T. rewrite P0, EM in T.
      destruct a; simpl in T; discriminate.
    + inversion N; subst th. unfold tstep, tau, acquire, sess_free in T. rewrite P1 in T.
      unfold smutex in SM. destruct (nth_error (sessions (st_g s)) 0); try discriminate.
      rewrite SM in T. destruct a; simpl in T; discriminate.
    + destruct t; discriminate.
  - destruct ST as (t & th & -> & N & ->). split; [|intros; discriminate].
    rewrite TH in N. rewrite TH. destruct t as [|[|t]]; simpl in N.
    + inversion N; subst th. exists (th_set_cancelled th0 true), th1, x, k0. simpl. auto.
    + inversion N; subst th. exists th0, (th_set_cancelled th1 true), x, k0. simpl. auto.
    + destruct t; discriminate.
  - destruct ST as [-> ->]. split; [|intros; discriminate]. exists th0, th1, x, k0. simpl. auto.
  - destruct ST as [-> ->]. split; [|intros; discriminate]. exists th0, th1, x, k0. simpl. auto.
Qed.

Lemma dl_state_deadlocked :
  match run_labels cfg_inverted dl_init dl_schedule with Some s => deadlocked s | None => False end.
Proof. vm_compute. repeat eexists. Qed.

Lemma deadlocked_forever : forall ls s0 s',
  deadlocked s0 -> run_labels cfg_inverted s0 ls = Some s' ->
  deadlocked s' /\ (forall t a, ~ In (LThread t a) ls).
Proof.
  induction ls; simpl; intros s0 s' D H.
  - inversion H; subst. split; auto.
  - destruct (step cfg_inverted s0 a) eqn:ST; try discriminate.
    destruct (deadlocked_stuck _ _ _ D ST) as [D' NL]. destruct (IHls _ _ D' H) as [D'' NI].
    split; auto. intros t b [->|I]; [eapply NL; eauto|eapply NI; eauto].
Qed.

Theorem deadlock_refuted_thm :
  exists s, reachable cfg_inverted s /\ deadlocked s /\
    forall ls s', run_labels cfg_inverted s ls = Some s' ->
      deadlocked s' /\ (forall t a, ~ In (LThread t a) ls).
Proof.
  pose proof dl_state_deadlocked as D.
  destruct (run_labels cfg_inverted dl_init dl_schedule) as [s|] eqn:E; [|contradiction].
  exists s. split; [|split; [exact D|]].
  - eapply run_labels_reachable; [apply reach_init|exact E].
  - intros ls s' H. eapply deadlocked_forever; eauto.
Qed.

(* the same schedule on the fixed Begin: goroutine 1 waits for the session
   mutex before taking any other mutex, and goroutine 0 proceeds *)
Definition fixed_schedule_props (s : state) : Prop :=
  step cfg_fixed s (LThread 1 ATau) = None /\ emutex (st_g s) = None /\
  exists s', step cfg_fixed s (LThread 0 ATau) = Some s'.

Example fixed_schedule_proceeds :
  match run_labels cfg_fixed dl_init (firstn 16 dl_schedule) with
  | Some s => fixed_schedule_props s
  | None => False
  end.
Proof. vm_compute. split; [reflexivity|split; [reflexivity|eexists; reflexivity]]. Qed.
