(* HistoryProps.v — C15 (index coherence) and C07 (uniqueness) for EVERY
   history of driver calls: the collection-level theorems of CollInv.v and
   CollDup.v instantiated at every namespace of every catalog an observer can
   see (the committed catalog and the catalog of every open session
   transaction) after any call sequence, through HistoryInv.run_inv. *)
From Coq Require Import List ZArith Lia Bool.
From Lungo.Model Require Import Driver.
From Lungo.Proofs Require Import EntryLemmas IndexInv CollLists CollInv CollDup TxnProofs OplogProofs
     DriverProofs CatInv HistoryInv.
Import ListNotations.
Open Scope Z_scope.
Open Scope list_scope.

Lemma ns_set_same l h c : ns_get l h = Some c -> ns_set l h c = l.
Proof.
  induction l as [|[k d] t IH]; simpl; [discriminate|].
  destruct (handle_eqb k h) eqn:E.
  - apply handle_eqb_eq in E. subst. intro H. inversion H. reflexivity.
  - intro H. rewrite IH by exact H. reflexivity.
Qed.

Section HistoryProps.
  Set Default Proof Using "Type".
  Variable matchf : doc -> doc -> res bool.
  Variable applyf : doc -> doc -> doc -> bool -> list doc -> Z -> res (doc * list (string * value)).
  Variable extractf : doc -> res doc.
  Variable projectf : doc -> doc -> res doc.
  Variable now : Z.

  Local Notation run := (Driver.run matchf applyf extractf projectf now).
  Local Notation coll_inv := (CollInv.coll_inv matchf).
  Local Notation cat_inv := (CatInv.cat_inv matchf).
  Local Notation ix_ok := (IndexInv.ix_ok matchf).
  Local Notation ix_unique_ok := (IndexInv.ix_unique_ok matchf).
  Local Notation dup_pair := (IndexInv.dup_pair matchf).
  Local Notation covers_ok := (IndexInv.covers_ok matchf).
  Local Notation build := (Collection.build matchf).
  Local Notation find_list := (Collection.find_list matchf).
  Local Notation apply_list := (Collection.apply_list applyf).
  Local Notation coll_insert := (Collection.coll_insert matchf).
  Local Notation coll_replace := (Collection.coll_replace matchf).
  Local Notation coll_update := (Collection.coll_update matchf applyf).
  Local Notation coll_upsert := (Collection.coll_upsert matchf applyf extractf).
  Local Notation coll_create_index := (Collection.coll_create_index matchf).
  Local Notation txn_create_index := (Txn.txn_create_index matchf).
  Local Notation first_reject := (CollDup.first_reject matchf).
  Local Notation would_dup := (CollDup.would_dup matchf).
  Local Notation filters_defined := (CollDup.filters_defined matchf).
  Local Notation upsert_prepared := (CollInv.upsert_prepared applyf extractf).
  Local Notation key_clash := (CollInv.key_clash).

  (* the state after a history *)
  Definition after (calls : list call) : dstate := fst (run d_init calls).

  (* nc is a namespace (any: user or oplog) of a catalog visible after some
     history *)
  Definition reachable_coll (nc : coll) : Prop :=
    exists calls c h, visible_cat (after calls) c /\ In (h, nc) (cat_ns c).

  (* nc is a USER namespace of a visible catalog after some history, and
     `fresh` is an identity the generator may hand out next *)
  Definition reachable_ns (nc : coll) (fresh : Z) : Prop :=
    exists calls c h, visible_cat (after calls) c /\ In (h, nc) (cat_ns c) /\
                      h <> oplog_handle /\ g_did (ds_gen (after calls)) <= fresh.

  Lemma reachable_coll_inv nc : reachable_coll nc -> coll_inv nc.
  Proof.
    intros [calls [c [h [V Hin]]]].
    destruct (reachable_cat_inv matchf applyf extractf projectf now calls c V) as [H1 _].
    destruct (H1 _ _ Hin) as [Ho Hu]. destruct (handle_eq_dec h oplog_handle) as [E|N].
    - eapply oplog_coll_inv. apply Ho. exact E.
    - apply Hu. exact N.
  Qed.

  Lemma reachable_ns_inv nc fresh :
    reachable_ns nc fresh -> coll_inv nc /\ has_id_index nc /\ ids_lt nc fresh.
  Proof.
    intros [calls [c [h [V [Hin [N L]]]]]].
    destruct (reachable_cat_inv matchf applyf extractf projectf now calls c V) as [H1 _].
    destruct (H1 _ _ Hin) as [_ Hu]. destruct (Hu N) as [A [B C]].
    split; [|split]; auto. eapply ids_lt_mono; eauto.
  Qed.

  Lemma reachable_ns_coll nc fresh : reachable_ns nc fresh -> reachable_coll nc.
  Proof. intros [calls [c [h [V [Hin _]]]]]. exists calls, c, h. auto. Qed.

  (* ================================================================ *)
  (* C15 *)

  (* after any history, every index of every namespace of every visible
     catalog holds exactly the covered documents' key tuples, each once *)
  Theorem hist_index_exact calls c h nc n ix :
    visible_cat (after calls) c -> In (h, nc) (cat_ns c) -> In (n, ix) (c_indexes nc) ->
    ix_ok (docs_of nc) ix.
  Proof.
    intros V Hin Hix.
    assert (R : reachable_coll nc) by (exists calls, c, h; auto).
    destruct (reachable_coll_inv nc R) as [_ [_ G]]. rewrite Forall_forall in G.
    destruct (G _ Hix) as [H _]. exact H.
  Qed.

  (* ... and equals the index rebuilt from scratch over the current documents
     (which is what reopening the file does: indexes are not stored, they are
     rebuilt from the documents and the index configurations) *)
  Theorem hist_index_rebuild calls c h nc n ix :
    visible_cat (after calls) c -> In (h, nc) (cat_ns c) -> In (n, ix) (c_indexes nc) ->
    exists ix0 ix',
      new_index (ix_config ix) = Ok ix0 /\
      build ix0 (c_docs nc) = (ix', None) /\
      ix_config ix' = ix_config ix /\ ix_cols ix' = ix_cols ix /\
      nodup_entries (ix_entries ix') /\ nodup_entries (ix_entries ix) /\
      forall t id, mem (ix_entries ix') t id <-> mem (ix_entries ix) t id.
  Proof.
    intros V Hin Hix. apply (rebuild_equal matchf nc n ix); auto.
    apply reachable_coll_inv. exists calls, c, h. auto.
  Qed.

  (* the _id index is always there *)
  Theorem hist_id_index_present calls c h nc :
    visible_cat (after calls) c -> In (h, nc) (cat_ns c) -> h <> oplog_handle ->
    has_id_index nc.
  Proof.
    intros V Hin N.
    destruct (reachable_ns_inv nc (g_did (ds_gen (after calls)))) as [_ [H _]]; auto.
    exists calls, c, h. repeat split; auto. lia.
  Qed.

  (* index names and namespace handles are unique keys *)
  Theorem hist_index_names_distinct calls c h nc :
    visible_cat (after calls) c -> In (h, nc) (cat_ns c) -> NoDup (map fst (c_indexes nc)).
  Proof.
    intros V Hin. assert (R : reachable_coll nc) by (exists calls, c, h; auto).
    destruct (reachable_coll_inv nc R) as [_ [H _]]. exact H.
  Qed.

  Theorem hist_namespaces_distinct calls c :
    visible_cat (after calls) c -> NoDup (map fst (cat_ns c)).
  Proof.
    intros V.
    destruct (reachable_cat_inv matchf applyf extractf projectf now calls c V) as [_ [_ [H _]]].
    exact H.
  Qed.

  (* the index catalogue at the transaction layer *)

  Theorem txn_create_same_is_noop c h nc name cf n ix :
    guard_write h = None -> ns_get (cat_ns c) h = Some nc ->
    index_name name cf = Ok n -> find_index (c_indexes nc) n = Some ix ->
    config_equal cf (ix_config ix) = true ->
    txn_create_index c h name cf = (c, inl n).
  Proof.
    intros G Hg Hn Hf He. unfold Txn.txn_create_index, ns_or_new. rewrite G, Hg.
    rewrite (create_same_is_noop matchf nc name cf n ix Hn Hf He).
    rewrite (ns_set_same _ _ _ Hg). destruct c; reflexivity.
  Qed.

  Theorem txn_create_conflicting_fails c h nc name cf n :
    guard_write h = None -> ns_get (cat_ns c) h = Some nc ->
    index_name name cf = Ok n ->
    (exists ix, find_index (c_indexes nc) n = Some ix /\ config_equal cf (ix_config ix) = false) \/
    (find_index (c_indexes nc) n = None /\
     exists m ix, In (m, ix) (c_indexes nc) /\
                  compare (VDoc (cf_key cf)) (VDoc (cf_key (ix_config ix))) = Eq) ->
    txn_create_index c h name cf = (c, inr EErr).
  Proof.
    intros G Hg Hn H. unfold Txn.txn_create_index, ns_or_new. rewrite G, Hg.
    rewrite (create_conflicting_fails matchf nc name cf n Hn H). reflexivity.
  Qed.

  (* whatever DropIndex does (one name, all, error), the namespace keeps its
     _id index *)
  Theorem txn_drop_keeps_id c h name c' r nc :
    NoDup (map fst (cat_ns c)) ->
    txn_drop_index c h name = (c', r) -> ns_get (cat_ns c) h = Some nc ->
    exists nc', ns_get (cat_ns c') h = Some nc' /\
                find_index (c_indexes nc') "_id_" = find_index (c_indexes nc) "_id_" /\
                c_docs nc' = c_docs nc.
  Proof.
    intros Hnd. unfold txn_drop_index. destruct (guard_write h).
    - intros H Hg; inversion H; subst. exists nc. auto.
    - intros H Hg. rewrite Hg in H.
      destruct (coll_drop_index nc name) as [n' [[|x l]|e]] eqn:E; inversion H; subst;
        try (exists nc; auto; fail).
      exists n'. cbn [cat_ns]. rewrite ns_get_set_same. split; [reflexivity|].
      destruct (drop_never_removes_id nc name n' _ E) as [A _]. split; [exact A|].
      apply coll_drop_index_shape in E. destruct E as [p [-> _]]. reflexivity.
  Qed.

  (* ================================================================ *)
  (* C07 *)

  (* after any history, in every namespace of every visible catalog, no two
     distinct documents covered by a unique index share a key tuple *)
  Theorem hist_unique calls c h nc n ix :
    visible_cat (after calls) c -> In (h, nc) (cat_ns c) -> In (n, ix) (c_indexes nc) ->
    ix_unique_ok (docs_of nc) ix.
  Proof.
    intros V Hin Hix.
    assert (R : reachable_coll nc) by (exists calls, c, h; auto).
    destruct (reachable_coll_inv nc R) as [_ [_ G]]. rewrite Forall_forall in G.
    destruct (G _ Hix) as [_ [H _]]. exact H.
  Qed.

  Theorem hist_no_dup_pair calls c h nc ni :
    visible_cat (after calls) c -> In (h, nc) (cat_ns c) -> In ni (c_indexes nc) ->
    ~ dup_pair (docs_of nc) (snd ni).
  Proof.
    intros V Hin Hix. apply coll_inv_no_dup; auto.
    apply reachable_coll_inv. exists calls, c, h. auto.
  Qed.

  (* ---- exactness of the uniqueness rejections at reachable namespaces ---- *)

  Theorem hist_insert_dup_iff nc fresh d oid :
    reachable_ns nc fresh ->
    ((exists c', coll_insert nc fresh d oid = (c', inr EDup)) <->
     exists d', ensure_id d oid = Ok d' /\ first_reject (c_indexes nc) (docs_of nc) d').
  Proof. intro R. destruct (reachable_ns_inv _ _ R) as [A [_ C]]. apply insert_dup_iff; auto. Qed.

  Theorem hist_insert_dup_iff_total nc fresh d oid d' :
    reachable_ns nc fresh ->
    ensure_id d oid = Ok d' -> filters_defined (c_indexes nc) d' ->
    ((exists c', coll_insert nc fresh d oid = (c', inr EDup)) <->
     would_dup (c_indexes nc) (docs_of nc) d').
  Proof. intro R. destruct (reachable_ns_inv _ _ R) as [A [_ C]]. apply insert_dup_iff_total; auto. Qed.

  Theorem hist_insert_accepts nc fresh d oid d' :
    reachable_ns nc fresh ->
    ensure_id d oid = Ok d' -> filters_defined (c_indexes nc) d' ->
    ~ would_dup (c_indexes nc) (docs_of nc) d' ->
    exists c', coll_insert nc fresh d oid = (c', inl (mkResult [] [(fresh, d')] None [])).
  Proof. intro R. destruct (reachable_ns_inv _ _ R) as [A [_ C]]. apply insert_accepts; auto. Qed.

  Theorem hist_upsert_dup_iff nc fresh query repl update afs oid now0 :
    reachable_ns nc fresh ->
    ((exists c', coll_upsert nc fresh query repl update afs oid now0 = (c', inr EDup)) <->
     exists d', upsert_prepared query repl update afs oid now0 = Ok d' /\
                first_reject (c_indexes nc) (docs_of nc) d').
  Proof. intro R. destruct (reachable_ns_inv _ _ R) as [A [_ C]]. apply upsert_dup_iff; auto. Qed.

  Theorem hist_upsert_dup_iff_total nc fresh query repl update afs oid now0 d' :
    reachable_ns nc fresh ->
    upsert_prepared query repl update afs oid now0 = Ok d' ->
    filters_defined (c_indexes nc) d' ->
    ((exists c', coll_upsert nc fresh query repl update afs oid now0 = (c', inr EDup)) <->
     would_dup (c_indexes nc) (docs_of nc) d').
  Proof. intro R. destruct (reachable_ns_inv _ _ R) as [A [_ C]]. apply upsert_dup_iff_total; auto. Qed.

  Theorem hist_upsert_accepts nc fresh query repl update afs oid now0 d' :
    reachable_ns nc fresh ->
    upsert_prepared query repl update afs oid now0 = Ok d' ->
    filters_defined (c_indexes nc) d' ->
    ~ would_dup (c_indexes nc) (docs_of nc) d' ->
    exists c', coll_upsert nc fresh query repl update afs oid now0 =
               (c', inl (mkResult [] [] (Some (fresh, d')) [])).
  Proof. intro R. destruct (reachable_ns_inv _ _ R) as [A [_ C]]. apply upsert_accepts; auto. Qed.

  Theorem hist_replace_dup_iff nc fresh query repl sort :
    reachable_ns nc fresh ->
    ((exists c', coll_replace nc fresh query repl sort = (c', inr EDup)) <->
     exists old rest repl',
       find_list (c_docs nc) query sort 0 1 = Ok (old :: rest) /\
       replace_prepared (snd old) repl = Ok repl' /\
       first_reject (c_indexes nc) (fun x => docs_of nc x /\ x <> old) repl').
  Proof. intro R. destruct (reachable_ns_inv _ _ R) as [A [_ C]]. apply replace_dup_iff; auto. Qed.

  Theorem hist_replace_dup_iff_total nc fresh query repl sort old rest repl' :
    reachable_ns nc fresh ->
    find_list (c_docs nc) query sort 0 1 = Ok (old :: rest) ->
    replace_prepared (snd old) repl = Ok repl' ->
    filters_defined (c_indexes nc) repl' ->
    ((exists c', coll_replace nc fresh query repl sort = (c', inr EDup)) <->
     would_dup (c_indexes nc) (fun x => docs_of nc x /\ x <> old) repl').
  Proof. intro R. destruct (reachable_ns_inv _ _ R) as [A [_ C]]. apply replace_dup_iff_total; auto. Qed.

  Theorem hist_replace_accepts nc fresh query repl sort old rest repl' :
    reachable_ns nc fresh ->
    find_list (c_docs nc) query sort 0 1 = Ok (old :: rest) ->
    replace_prepared (snd old) repl = Ok repl' ->
    filters_defined (c_indexes nc) repl' ->
    ~ would_dup (c_indexes nc) (fun x => docs_of nc x /\ x <> old) repl' ->
    exists c' r, coll_replace nc fresh query repl sort = (c', inl r).
  Proof. intro R. destruct (reachable_ns_inv _ _ R) as [A [_ C]]. apply replace_accepts; auto. Qed.

  Theorem hist_create_dup_sound nc name cf c' :
    reachable_coll nc -> coll_create_index nc name cf = (c', inr EDup) ->
    exists n ix0, index_name name cf = Ok n /\ find_index (c_indexes nc) n = None /\
                  new_index cf = Ok ix0 /\ dup_pair (docs_of nc) ix0.
  Proof. intro R. apply create_dup_sound. apply reachable_coll_inv. exact R. Qed.

  Theorem hist_create_dup_iff nc name cf n ix0 :
    reachable_coll nc ->
    index_name name cf = Ok n -> find_index (c_indexes nc) n = None ->
    key_clash nc cf = false -> new_index cf = Ok ix0 ->
    (forall sd, In sd (c_docs nc) -> covers_ok ix0 (snd sd)) ->
    ((exists c', coll_create_index nc name cf = (c', inr EDup)) <-> dup_pair (docs_of nc) ix0).
  Proof. intro R. apply create_dup_iff. apply reachable_coll_inv. exact R. Qed.

  Theorem hist_create_accepts nc name cf n ix0 :
    reachable_coll nc ->
    index_name name cf = Ok n -> find_index (c_indexes nc) n = None ->
    key_clash nc cf = false -> new_index cf = Ok ix0 ->
    (forall sd, In sd (c_docs nc) -> covers_ok ix0 (snd sd)) ->
    ~ dup_pair (docs_of nc) ix0 ->
    exists c', coll_create_index nc name cf = (c', inl n).
  Proof. intro R. apply create_accepts. apply reachable_coll_inv. exact R. Qed.

  Theorem hist_update_dup_sound nc fresh query update sort skip limit afs now0 c' :
    reachable_ns nc fresh ->
    coll_update nc fresh query update sort skip limit afs now0 = (c', inr EDup) ->
    exists matched newl chs,
      find_list (c_docs nc) query sort skip limit = Ok matched /\
      apply_list matched fresh query update afs now0 = Ok (newl, chs) /\
      exists ni, In ni (c_indexes nc) /\ dup_pair (final_docs nc matched newl) (snd ni).
  Proof. intro R. destruct (reachable_ns_inv _ _ R) as [A [_ C]]. apply update_dup_sound; auto. Qed.

  Theorem hist_update_dup_complete nc fresh query update sort skip limit afs now0 matched newl chs :
    reachable_ns nc fresh ->
    find_list (c_docs nc) query sort skip limit = Ok matched -> matched <> [] ->
    apply_list matched fresh query update afs now0 = Ok (newl, chs) ->
    ids_unchanged matched newl = true ->
    (forall ni sd, In ni (c_indexes nc) -> In sd newl -> covers_ok (snd ni) (snd sd)) ->
    (exists ni, In ni (c_indexes nc) /\ dup_pair (final_docs nc matched newl) (snd ni)) ->
    exists c', coll_update nc fresh query update sort skip limit afs now0 = (c', inr EDup).
  Proof. intro R. destruct (reachable_ns_inv _ _ R) as [A [_ C]]. apply update_dup_complete; auto. Qed.

  Theorem hist_update_dup_iff nc fresh query update sort skip limit afs now0 matched newl chs :
    reachable_ns nc fresh ->
    find_list (c_docs nc) query sort skip limit = Ok matched -> matched <> [] ->
    apply_list matched fresh query update afs now0 = Ok (newl, chs) ->
    ids_unchanged matched newl = true ->
    (forall ni sd, In ni (c_indexes nc) -> In sd newl -> covers_ok (snd ni) (snd sd)) ->
    ((exists c', coll_update nc fresh query update sort skip limit afs now0 = (c', inr EDup)) <->
     exists ni, In ni (c_indexes nc) /\ dup_pair (final_docs nc matched newl) (snd ni)).
  Proof. intro R. destruct (reachable_ns_inv _ _ R) as [A [_ C]]. apply update_dup_iff; auto. Qed.

  Theorem hist_update_accepts nc fresh query update sort skip limit afs now0 matched newl chs :
    reachable_ns nc fresh ->
    find_list (c_docs nc) query sort skip limit = Ok matched -> matched <> [] ->
    apply_list matched fresh query update afs now0 = Ok (newl, chs) ->
    ids_unchanged matched newl = true ->
    (forall ni sd, In ni (c_indexes nc) -> In sd newl -> covers_ok (snd ni) (snd sd)) ->
    (forall ni, In ni (c_indexes nc) -> ~ dup_pair (final_docs nc matched newl) (snd ni)) ->
    exists c' r, coll_update nc fresh query update sort skip limit afs now0 = (c', inl r).
  Proof. intro R. destruct (reachable_ns_inv _ _ R) as [A [_ C]]. apply update_accepts; auto. Qed.

End HistoryProps.

Print Assumptions hist_index_exact.
Print Assumptions hist_index_rebuild.
Print Assumptions hist_unique.
Print Assumptions hist_update_dup_iff.

(* IndexView.DropOneWithKey is a drop by name (Model/Driver.v drop_by_key_call):
   every statement about histories of `step` calls covers it *)
Lemma drop_by_key_is_drop_by_name ds sid h key :
  exists name, drop_by_key_call ds sid h key = CDropIndex sid h name.
Proof. unfold drop_by_key_call. eexists. reflexivity. Qed.
