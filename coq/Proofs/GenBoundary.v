(* GenBoundary.v — obligation G7 (C17): every value that crosses the driver
   API boundary in /repo/collection.go, indexes.go, cursor.go, result.go is
   copied (bsonkit.Transform on the way in; bsonkit.Decode / copyValue on the
   way out) or is a count / nil.  The table is regenerated from the source on
   every run. *)
From Coq Require Import List String Bool.
From Lungo.Model Require Import Cow.
From Lungo.Gen Require Import Boundary.
Import ListNotations.
Open Scope string_scope.

Definition crossing_of (s : string) : crossing :=
  if String.eqb s "transform" then XTransform
  else if String.eqb s "decode" then XDecode
  else if String.eqb s "copy" then XCopy
  else if String.eqb s "count" then XCount
  else if String.eqb s "none" then XNone
  else XUnknown.

Definition boundary_copies (t : list (string * string * string)) : bool :=
  forallb (fun row => crossing_copies (crossing_of (snd row))) t.

(* the components that must be present (so that an emptied table cannot pass) *)
Definition required : list (string * string) :=
  [("Collection.InsertOne", "arg:document"); ("Collection.InsertOne", "result:mongo.InsertOneResult.InsertedID");
   ("Collection.InsertMany", "arg:documents"); ("Collection.InsertMany", "result:mongo.InsertManyResult.InsertedIDs");
   ("Collection.UpdateOne", "arg:filter"); ("Collection.UpdateOne", "arg:update");
   ("Collection.UpdateOne", "result:mongo.UpdateResult.UpsertedID");
   ("Collection.UpdateMany", "result:mongo.UpdateResult.UpsertedID");
   ("Collection.ReplaceOne", "arg:replacement"); ("Collection.ReplaceOne", "result:mongo.UpdateResult.UpsertedID");
   ("Collection.BulkWrite", "arg:models"); ("Collection.BulkWrite", "result:UpsertedIDs[]");
   ("Collection.Distinct", "arg:filter"); ("Collection.Distinct", "result:values");
   ("Collection.Find", "arg:filter"); ("Collection.Find", "result:Cursor");
   ("Collection.FindOne", "result:SingleResult");
   ("Collection.FindOneAndUpdate", "arg:update"); ("Collection.FindOneAndUpdate", "result:SingleResult");
   ("Collection.FindOneAndReplace", "arg:replacement"); ("Collection.FindOneAndDelete", "result:SingleResult");
   ("Collection.DeleteOne", "arg:filter"); ("Collection.DeleteMany", "arg:filter");
   ("Collection.CountDocuments", "arg:filter");
   ("IndexView.CreateOne", "arg:index"); ("IndexView.List", "result:Cursor");
   ("Cursor.Decode", "exposes"); ("Cursor.All", "exposes"); ("SingleResult.Decode", "exposes")].

Definition has_row (t : list (string * string * string)) (mc : string * string) : bool :=
  existsb (fun row => String.eqb (fst (fst row)) (fst mc) && String.eqb (snd (fst row)) (snd mc)) t.

Definition boundary_complete (t : list (string * string * string)) : bool :=
  forallb (has_row t) required.

Theorem gen_boundary_copies : boundary_copies gen_boundary = true.
Proof. vm_compute. reflexivity. Qed.

Theorem gen_boundary_complete : boundary_complete gen_boundary = true.
Proof. vm_compute. reflexivity. Qed.

(* what the boolean means *)
Theorem boundary_copies_sound t :
  boundary_copies t = true ->
  forall m c x, In (m, c, x) t -> crossing_copies (crossing_of x) = true.
Proof.
  unfold boundary_copies. intros H m c x Hin.
  rewrite forallb_forall in H. apply (H (m, c, x) Hin).
Qed.
