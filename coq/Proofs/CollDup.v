(* CollDup.v — exactness of uniqueness rejections at operation level (C07):
   an operation of Model/Collection.v fails with EDup exactly when it would
   create two documents sharing a key of a unique index, and is never
   rejected for uniqueness otherwise.  The loops stop at the first index that
   does not accept the document, so the exact statement speaks about the
   first rejecting index (`first_reject`); when the partial filters are
   defined on the new document this is `would_dup`: some unique index covers
   the new document and an existing covered document shares a key with it. *)
From Coq Require Import List ZArith Lia Bool Permutation.
From Lungo.Model Require Import Collection.
From Lungo.Proofs Require Import OrderLaws CompareOrder EntryLemmas IndexInv CollLists CollInv.
Import ListNotations.
Open Scope Z_scope.

Section CollDup.
  Set Default Proof Using "Type".
  Variable matchf : doc -> doc -> res bool.
  Variable applyf : doc -> doc -> doc -> bool -> list doc -> Z -> res (doc * list (string * value)).
  Variable extractf : doc -> res doc.

  Local Notation covered := (Collection.covered matchf).
  Local Notation add_all := (Collection.add_all matchf).
  Local Notation swap_all := (Collection.swap_all matchf).
  Local Notation remove_docs := (Collection.remove_docs matchf).
  Local Notation add_docs := (Collection.add_docs matchf).
  Local Notation build := (Collection.build matchf).
  Local Notation find_list := (Collection.find_list matchf).
  Local Notation apply_list := (Collection.apply_list applyf).
  Local Notation coll_insert := (Collection.coll_insert matchf).
  Local Notation coll_replace := (Collection.coll_replace matchf).
  Local Notation coll_update := (Collection.coll_update matchf applyf).
  Local Notation coll_upsert := (Collection.coll_upsert matchf applyf extractf).
  Local Notation coll_create_index := (Collection.coll_create_index matchf).
  Local Notation ix_ok := (IndexInv.ix_ok matchf).
  Local Notation ix_unique_ok := (IndexInv.ix_unique_ok matchf).
  Local Notation ixs_good := (IndexInv.ixs_good matchf).
  Local Notation covers_ok := (IndexInv.covers_ok matchf).
  Local Notation dup_in := (IndexInv.dup_in matchf).
  Local Notation dup_pair := (IndexInv.dup_pair matchf).
  Local Notation coll_inv := (CollInv.coll_inv matchf).
  Local Notation upsert_prepared := (CollInv.upsert_prepared applyf extractf).
  Local Notation replace_with := (CollInv.replace_with matchf).
  Local Notation update_with := (CollInv.update_with matchf).
  Local Notation create_named := (CollInv.create_named matchf).

  (* the first index (in map order) that does not accept d rejects it as a
     duplicate of a document of P *)
  Definition first_reject (ixs : list (string * index)) (P : sdoc -> Prop) (d : doc) : Prop :=
    exists pre ni post, ixs = (pre ++ ni :: post)%list /\
      Forall (fun a => covers_ok (snd a) d) pre /\ dup_in P (snd ni) d.

  (* some unique index covers d and a covered document of P shares a key *)
  Definition would_dup (ixs : list (string * index)) (P : sdoc -> Prop) (d : doc) : Prop :=
    exists ni, In ni ixs /\ dup_in P (snd ni) d.

  (* every partial filter evaluates on d *)
  Definition filters_defined (ixs : list (string * index)) (d : doc) : Prop :=
    Forall (fun a => covers_ok (snd a) d) ixs.

  Lemma first_reject_would ixs P d : first_reject ixs P d -> would_dup ixs P d.
  Proof.
    intros [pre [ni [post [-> [_ H]]]]]. exists ni. split; auto.
    apply in_or_app. right. left. reflexivity.
  Qed.

  Lemma would_first_reject ixs P d :
    filters_defined ixs d -> would_dup ixs P d -> first_reject ixs P d.
  Proof.
    intros C [ni [Hin H]]. apply in_split in Hin. destruct Hin as [pre [post ->]].
    exists pre, ni, post. split; auto. split; auto. apply Forall_app in C.
    destruct C as [C _]. exact C.
  Qed.

  Lemma coll_inv_ok c : coll_inv c -> Forall (fun ni => ix_ok (docs_of c) (snd ni)) (c_indexes c).
  Proof. intro H. apply ixs_good_ok. apply coll_inv_good. exact H. Qed.

  (* the invariant excludes duplicate pairs *)
  Theorem coll_inv_no_dup c ni :
    coll_inv c -> In ni (c_indexes c) -> ~ dup_pair (docs_of c) (snd ni).
  Proof.
    intros [_ [_ G]] Hin D. rewrite Forall_forall in G. destruct (G ni Hin) as [_ [U _]].
    exact (dup_pair_not_unique matchf _ _ D U).
  Qed.

  (* ---------------------------------------------------------------- *)
  (* Insert / Upsert *)

  Definition append_op (c : coll) (fresh : did) (prepared : res doc) (mk : sdoc -> cresult)
    : outcome cresult :=
    match prepared with
    | Ok d' =>
        match add_all (c_indexes c) (fresh, d') with
        | (ixs, Some e) => fail (mkColl (c_docs c) ixs) e
        | (ixs, None) =>
            if set_has (c_docs c) fresh then fail (mkColl (c_docs c) ixs) EErr
            else (mkColl (c_docs c ++ [(fresh, d')])%list ixs, inl (mk (fresh, d')))
        end
    | r => failr c r
    end.

  Lemma coll_insert_eq c fresh d oid :
    coll_insert c fresh d oid =
    append_op c fresh (ensure_id d oid) (fun sd => mkResult [] [sd] None []).
  Proof.
    unfold Collection.coll_insert, append_op. destruct (ensure_id d oid); reflexivity.
  Qed.

  Lemma coll_upsert_eq c fresh query repl update afs oid now :
    coll_upsert c fresh query repl update afs oid now =
    append_op c fresh (upsert_prepared query repl update afs oid now)
              (fun sd => mkResult [] [] (Some sd) []).
  Proof.
    unfold Collection.coll_upsert, append_op, CollInv.upsert_prepared.
    destruct (bind (upsert_doc applyf extractf query repl update afs now)
                   (fun d2 => ensure_id d2 oid)); reflexivity.
  Qed.

  Lemma append_dup_iff c fresh prepared mk :
    coll_inv c -> ids_lt c fresh ->
    ((exists c', append_op c fresh prepared mk = (c', inr EDup)) <->
     exists d', prepared = Ok d' /\ first_reject (c_indexes c) (docs_of c) d').
  Proof.
    intros Hinv Hlt.
    pose proof (coll_inv_ok c Hinv) as G. pose proof (ids_lt_fresh c fresh Hlt) as F.
    unfold append_op, failr, fail.
    destruct prepared as [d'| | | |];
      try (split; [intros [c' H]; simpl in H; inversion H | intros [d' [H _]]; discriminate]).
    split.
    - intros [c' H]. exists d'. split; auto.
      apply (add_all_dup_iff matchf _ _ fresh d' G F).
      destruct (add_all (c_indexes c) (fresh, d')) as [ixs [e|]] eqn:Ha.
      + inversion H; subst. eauto.
      + destruct (set_has (c_docs c) fresh); inversion H.
    - intros [d'' [Heq Hr]]. inversion Heq; subst d''.
      apply (add_all_dup_iff matchf _ _ fresh d' G F) in Hr. destruct Hr as [ixs' Ha].
      rewrite Ha. eauto.
  Qed.

  Lemma append_accepts c fresh d' mk :
    coll_inv c -> ids_lt c fresh ->
    filters_defined (c_indexes c) d' -> ~ would_dup (c_indexes c) (docs_of c) d' ->
    exists c', append_op c fresh (Ok d') mk = (c', inl (mk (fresh, d'))).
  Proof.
    intros Hinv Hlt C Hn.
    pose proof (coll_inv_ok c Hinv) as G. pose proof (ids_lt_fresh c fresh Hlt) as F.
    unfold append_op.
    destruct (add_all_total matchf (c_indexes c) fresh d' C) as [ixs [Ha|Ha]].
    - rewrite Ha. rewrite (proj2 (set_has_false (c_docs c) fresh) (ids_lt_notin c fresh Hlt)).
      eauto.
    - exfalso. apply Hn. apply (add_all_dup_iff_total matchf _ _ fresh d' G F C). eauto.
  Qed.

  (* Insert is rejected for uniqueness exactly when a duplicate would arise *)
  Theorem insert_dup_iff c fresh d oid :
    coll_inv c -> ids_lt c fresh ->
    ((exists c', coll_insert c fresh d oid = (c', inr EDup)) <->
     exists d', ensure_id d oid = Ok d' /\ first_reject (c_indexes c) (docs_of c) d').
  Proof. intros. rewrite coll_insert_eq. apply append_dup_iff; auto. Qed.

  Theorem insert_dup_iff_total c fresh d oid d' :
    coll_inv c -> ids_lt c fresh ->
    ensure_id d oid = Ok d' -> filters_defined (c_indexes c) d' ->
    ((exists c', coll_insert c fresh d oid = (c', inr EDup)) <->
     would_dup (c_indexes c) (docs_of c) d').
  Proof.
    intros Hinv Hlt He C. rewrite (insert_dup_iff c fresh d oid Hinv Hlt). split.
    - intros [d'' [He' Hr]]. rewrite He in He'. inversion He'; subst. apply first_reject_would; auto.
    - intro Hw. exists d'. split; auto. apply would_first_reject; auto.
  Qed.

  (* ... and is never rejected otherwise *)
  Theorem insert_accepts c fresh d oid d' :
    coll_inv c -> ids_lt c fresh ->
    ensure_id d oid = Ok d' -> filters_defined (c_indexes c) d' ->
    ~ would_dup (c_indexes c) (docs_of c) d' ->
    exists c', coll_insert c fresh d oid = (c', inl (mkResult [] [(fresh, d')] None [])).
  Proof.
    intros Hinv Hlt He C Hn. rewrite coll_insert_eq, He.
    apply (append_accepts c fresh d' (fun sd => mkResult [] [sd] None [])); auto.
  Qed.

  Theorem upsert_dup_iff c fresh query repl update afs oid now :
    coll_inv c -> ids_lt c fresh ->
    ((exists c', coll_upsert c fresh query repl update afs oid now = (c', inr EDup)) <->
     exists d', upsert_prepared query repl update afs oid now = Ok d' /\
                first_reject (c_indexes c) (docs_of c) d').
  Proof. intros. rewrite coll_upsert_eq. apply append_dup_iff; auto. Qed.

  Theorem upsert_dup_iff_total c fresh query repl update afs oid now d' :
    coll_inv c -> ids_lt c fresh ->
    upsert_prepared query repl update afs oid now = Ok d' ->
    filters_defined (c_indexes c) d' ->
    ((exists c', coll_upsert c fresh query repl update afs oid now = (c', inr EDup)) <->
     would_dup (c_indexes c) (docs_of c) d').
  Proof.
    intros Hinv Hlt He C.
    rewrite (upsert_dup_iff c fresh query repl update afs oid now Hinv Hlt). split.
    - intros [d'' [He' Hr]]. rewrite He in He'. inversion He'; subst. apply first_reject_would; auto.
    - intro Hw. exists d'. split; auto. apply would_first_reject; auto.
  Qed.

  Theorem upsert_accepts c fresh query repl update afs oid now d' :
    coll_inv c -> ids_lt c fresh ->
    upsert_prepared query repl update afs oid now = Ok d' ->
    filters_defined (c_indexes c) d' ->
    ~ would_dup (c_indexes c) (docs_of c) d' ->
    exists c', coll_upsert c fresh query repl update afs oid now =
               (c', inl (mkResult [] [] (Some (fresh, d')) [])).
  Proof.
    intros Hinv Hlt He C Hn. rewrite coll_upsert_eq, He.
    apply (append_accepts c fresh d' (fun sd => mkResult [] [] (Some sd) [])); auto.
  Qed.

  (* ---------------------------------------------------------------- *)
  (* Replace: the old document does not count *)

  Theorem replace_dup_iff c fresh query repl sort :
    coll_inv c -> ids_lt c fresh ->
    ((exists c', coll_replace c fresh query repl sort = (c', inr EDup)) <->
     exists old rest repl',
       find_list (c_docs c) query sort 0 1 = Ok (old :: rest) /\
       replace_prepared (snd old) repl = Ok repl' /\
       first_reject (c_indexes c) (fun x => docs_of c x /\ x <> old) repl').
  Proof.
    intros Hinv Hlt.
    pose proof (coll_inv_ok c Hinv) as G. pose proof (ids_lt_fresh c fresh Hlt) as F.
    pose proof (coll_inv_ids_unique matchf c Hinv) as Hids.
    rewrite coll_replace_eq. unfold failr.
    destruct (find_list (c_docs c) query sort 0 1) as [[|old rest]| | | |] eqn:Hf;
      try (split; [intros [c' H]; simpl in H; inversion H
                  | intros [old' [rest' [repl' [H _]]]]; discriminate]).
    assert (Ho : docs_of c old) by (apply (find_list_in matchf _ _ _ _ _ _ Hf); left; auto).
    unfold CollInv.replace_with, failr, fail.
    destruct (replace_prepared (snd old) repl) as [repl'| | | |] eqn:Hp;
      try (split; [intros [c' H]; simpl in H; inversion H
                  | intros [old' [rest' [repl' [H1 [H2 _]]]]]; inversion H1; subst;
                    rewrite Hp in H2; discriminate]).
    cbv zeta. split.
    - intros [c' H]. exists old, rest, repl'. split; auto. split; auto.
      apply (swap_all_dup_iff matchf _ _ old fresh repl' G Ho Hids F).
      destruct (swap_all (c_indexes c) old (fresh, repl')) as [ixs [e|]] eqn:Hs.
      + inversion H; subst. eauto.
      + destruct (set_has (c_docs c) fresh); inversion H.
    - intros [old' [rest' [repl'' [H1 [H2 Hr]]]]]. inversion H1; subst old' rest'.
      rewrite Hp in H2. inversion H2; subst repl''.
      apply (swap_all_dup_iff matchf _ _ old fresh repl' G Ho Hids F) in Hr.
      destruct Hr as [ixs' Hs]. rewrite Hs. eauto.
  Qed.

  Theorem replace_dup_iff_total c fresh query repl sort old rest repl' :
    coll_inv c -> ids_lt c fresh ->
    find_list (c_docs c) query sort 0 1 = Ok (old :: rest) ->
    replace_prepared (snd old) repl = Ok repl' ->
    filters_defined (c_indexes c) repl' ->
    ((exists c', coll_replace c fresh query repl sort = (c', inr EDup)) <->
     would_dup (c_indexes c) (fun x => docs_of c x /\ x <> old) repl').
  Proof.
    intros Hinv Hlt Hf Hp C. rewrite (replace_dup_iff c fresh query repl sort Hinv Hlt). split.
    - intros [old' [rest' [repl'' [H1 [H2 Hr]]]]]. rewrite Hf in H1. inversion H1; subst.
      rewrite Hp in H2. inversion H2; subst. apply first_reject_would; auto.
    - intro Hw. exists old, rest, repl'. split; auto. split; auto.
      apply would_first_reject; auto.
  Qed.

  Theorem replace_accepts c fresh query repl sort old rest repl' :
    coll_inv c -> ids_lt c fresh ->
    find_list (c_docs c) query sort 0 1 = Ok (old :: rest) ->
    replace_prepared (snd old) repl = Ok repl' ->
    filters_defined (c_indexes c) repl' ->
    ~ would_dup (c_indexes c) (fun x => docs_of c x /\ x <> old) repl' ->
    exists c' r, coll_replace c fresh query repl sort = (c', inl r).
  Proof.
    intros Hinv Hlt Hf Hp C Hn.
    pose proof (coll_inv_ok c Hinv) as G. pose proof (ids_lt_fresh c fresh Hlt) as F.
    pose proof (coll_inv_ids_unique matchf c Hinv) as Hids.
    assert (Ho : docs_of c old) by (apply (find_list_in matchf _ _ _ _ _ _ Hf); left; auto).
    rewrite coll_replace_eq, Hf. unfold CollInv.replace_with. rewrite Hp. cbv zeta.
    destruct (swap_all_total matchf _ _ old fresh repl' G Ho Hids C) as [ixs [Hs|Hs]].
    - rewrite Hs. rewrite (proj2 (set_has_false (c_docs c) fresh) (ids_lt_notin c fresh Hlt)).
      eauto.
    - exfalso. apply Hn.
      apply (swap_all_dup_iff_total matchf _ _ old fresh repl' G Ho Hids F C). eauto.
  Qed.

  (* ---------------------------------------------------------------- *)
  (* CreateIndex: a unique build fails exactly when two covered documents
     share a key *)

  Theorem create_dup_sound c name cf c' :
    coll_inv c -> coll_create_index c name cf = (c', inr EDup) ->
    exists n ix0, index_name name cf = Ok n /\ find_index (c_indexes c) n = None /\
                  new_index cf = Ok ix0 /\ dup_pair (docs_of c) ix0.
  Proof.
    intros [Hnd _]. rewrite coll_create_index_eq. unfold failr.
    destruct (index_name name cf) as [n| | | |]; try (intro H; simpl in H; inversion H; fail).
    unfold CollInv.create_named, fail, failr.
    destruct (find_index (c_indexes c) n) as [ix|] eqn:Hf.
    - destruct (config_equal cf (ix_config ix)); intro H; inversion H.
    - destruct (key_clash c cf); [intro H; inversion H|].
      destruct (new_index cf) as [ix0| | | |] eqn:Hn; try (intro H; simpl in H; inversion H; fail).
      destruct (build ix0 (c_docs c)) as [ix' [e|]] eqn:Hb; intro H; inversion H; subst.
      exists n, ix0. split; [auto|]. split; [auto|]. split; [auto|].
      destruct (new_index_inv cf ix0 Hn) as [Hw [He _]].
      eapply dup_pair_mono; [|apply (build_dup_sound matchf (fun _ => False) ix0 (c_docs c) ix' Hb
                                       (ix_good_empty matchf ix0 Hw He)); auto].
      + simpl. intros x [[]|Hx]. exact Hx.
      + intros sd _ d [].
  Qed.

  Theorem create_dup_iff c name cf n ix0 :
    coll_inv c ->
    index_name name cf = Ok n -> find_index (c_indexes c) n = None ->
    key_clash c cf = false -> new_index cf = Ok ix0 ->
    (forall sd, In sd (c_docs c) -> covers_ok ix0 (snd sd)) ->
    ((exists c', coll_create_index c name cf = (c', inr EDup)) <-> dup_pair (docs_of c) ix0).
  Proof.
    intros Hinv Hname Hf Hk Hn C. split.
    - intros [c' H]. destruct (create_dup_sound c name cf c' Hinv H) as [n' [ix1 [_ [_ [Hn' D]]]]].
      rewrite Hn in Hn'. inversion Hn'; subst. exact D.
    - intro D. destruct Hinv as [Hnd _].
      destruct (new_index_inv cf ix0 Hn) as [Hw [He _]].
      destruct (build_dup_complete matchf (fun _ => False) ix0 (c_docs c)
                  (ix_good_empty matchf ix0 Hw He)) as [ix' Hb]; auto.
      + intros sd _ d [].
      + eapply dup_pair_mono; [|exact D]. intros x Hx. right. exact Hx.
      + rewrite coll_create_index_eq, Hname. unfold CollInv.create_named.
        rewrite Hf, Hk, Hn, Hb. unfold fail. eauto.
  Qed.

  (* a non-unique index, or data without a duplicate pair, always builds
     (when the partial filter is defined on the documents) *)
  Theorem create_accepts c name cf n ix0 :
    coll_inv c ->
    index_name name cf = Ok n -> find_index (c_indexes c) n = None ->
    key_clash c cf = false -> new_index cf = Ok ix0 ->
    (forall sd, In sd (c_docs c) -> covers_ok ix0 (snd sd)) ->
    ~ dup_pair (docs_of c) ix0 ->
    exists c', coll_create_index c name cf = (c', inl n).
  Proof.
    intros Hinv Hname Hf Hk Hn C Hnd'. pose proof Hinv as [Hnd _].
    destruct (new_index_inv cf ix0 Hn) as [Hw [He _]].
    destruct (build_total matchf (fun _ => False) ix0 (c_docs c)
                (ix_good_empty matchf ix0 Hw He)) as [ix' [Hb|Hb]]; auto.
    - intros sd _ d [].
    - rewrite coll_create_index_eq, Hname. unfold CollInv.create_named.
      rewrite Hf, Hk, Hn, Hb. eauto.
    - exfalso. apply Hnd'.
      apply (create_dup_iff c name cf n ix0 Hinv Hname Hf Hk Hn C).
      rewrite coll_create_index_eq, Hname. unfold CollInv.create_named.
      rewrite Hf, Hk, Hn, Hb. unfold fail. eauto.
  Qed.

  (* ---------------------------------------------------------------- *)
  (* Update: judged on the FINAL key set (all matched documents are removed
     from the indexes before any updated clone is added) *)

  Definition final_docs (c : coll) (matched newl : list sdoc) : sdoc -> Prop :=
    fun x => In x (replace_docs (c_docs c) matched newl).

  Lemma update_setup c fresh query update sort skip limit afs now matched newl chs :
    coll_inv c -> ids_lt c fresh ->
    find_list (c_docs c) query sort skip limit = Ok matched ->
    apply_list matched fresh query update afs now = Ok (newl, chs) ->
    exists ixs1,
      remove_docs (c_indexes c) matched = (ixs1, None) /\
      ixs_good (fun x => docs_of c x /\ ~ In x matched) ixs1 /\
      same_shape (c_indexes c) ixs1 /\
      (forall sd, In sd newl -> fresh_id (fun x => docs_of c x /\ ~ In x matched) (fst sd)) /\
      NoDup (map fst newl) /\
      (forall x, final_docs c matched newl x <->
                 (docs_of c x /\ ~ In x matched) \/ In x newl).
  Proof.
    intros Hinv Hlt Hf Hap. pose proof Hinv as [Hnd _].
    destruct (find_list_nodup matchf _ _ _ _ _ _ Hf Hnd) as [Hndm Hndm'].
    pose proof (find_list_in matchf _ _ _ _ _ _ Hf) as Hincl.
    pose proof (apply_list_ids applyf _ _ _ _ _ _ _ _ Hap) as Hids.
    destruct (update_facts matchf c fresh matched newl Hinv Hlt Hincl Hndm Hids)
      as [Hlen [Hfd [Hndn [Hfr _]]]].
    destruct (remove_docs_good matchf (docs_of c) (c_indexes c) matched
                (coll_inv_good matchf c Hinv) (coll_inv_ids_unique matchf c Hinv))
      as [ixs1 [Hr1 [G1 S1]]]; auto.
    destruct (replace_docs_spec (c_docs c) matched newl Hnd Hincl Hndm Hlen Hfd Hndn) as [_ R2].
    exists ixs1. repeat split; auto; apply R2; auto.
  Qed.

  (* a uniqueness rejection of an update means the final document set would
     contain a duplicate pair *)
  Theorem update_dup_sound c fresh query update sort skip limit afs now c' :
    coll_inv c -> ids_lt c fresh ->
    coll_update c fresh query update sort skip limit afs now = (c', inr EDup) ->
    exists matched newl chs,
      find_list (c_docs c) query sort skip limit = Ok matched /\
      apply_list matched fresh query update afs now = Ok (newl, chs) /\
      exists ni, In ni (c_indexes c) /\ dup_pair (final_docs c matched newl) (snd ni).
  Proof.
    intros Hinv Hlt. rewrite coll_update_eq. unfold failr.
    destruct (find_list (c_docs c) query sort skip limit) as [[|m rest]| | | |] eqn:Hf;
      try (intro H; simpl in H; inversion H; fail).
    unfold CollInv.update_with, failr, fail.
    destruct (apply_list (m :: rest) fresh query update afs now) as [[newl chs]| | | |] eqn:Hap;
      try (intro H; simpl in H; inversion H; fail).
    destruct (ids_unchanged (m :: rest) newl); simpl negb; cbv iota;
      [|intro H; inversion H].
    destruct (update_setup c fresh query update sort skip limit afs now (m :: rest) newl chs
                Hinv Hlt Hf Hap) as [ixs1 [Hr1 [G1 [S1 [Hfr [Hndn R]]]]]].
    rewrite Hr1.
    destruct (add_docs ixs1 newl) as [ixs' [e|]] eqn:Ha.
    - intro H. inversion H; subst.
      destruct (add_docs_dup_sound matchf _ ixs1 newl ixs' Ha G1 Hfr Hndn) as [ni1 [Hin1 D1]].
      destruct (same_shape_in _ _ ni1 (same_shape_sym _ _ S1) Hin1) as [ni [Hin [_ Hs]]].
      exists (m :: rest), newl, chs. split; auto. split; auto.
      exists ni. split; auto. apply (dup_pair_same matchf _ (snd ni1) (snd ni) Hs).
      eapply dup_pair_mono; [|exact D1]. intros x Hx. apply R. exact Hx.
    - destruct (modified_only (m :: rest) newl chs). intro H. inversion H.
  Qed.

  (* conversely, when the partial filters are defined on the updated clones *)
  Theorem update_dup_complete c fresh query update sort skip limit afs now matched newl chs :
    coll_inv c -> ids_lt c fresh ->
    find_list (c_docs c) query sort skip limit = Ok matched -> matched <> [] ->
    apply_list matched fresh query update afs now = Ok (newl, chs) ->
    ids_unchanged matched newl = true ->
    (forall ni sd, In ni (c_indexes c) -> In sd newl -> covers_ok (snd ni) (snd sd)) ->
    (exists ni, In ni (c_indexes c) /\ dup_pair (final_docs c matched newl) (snd ni)) ->
    exists c', coll_update c fresh query update sort skip limit afs now = (c', inr EDup).
  Proof.
    intros Hinv Hlt Hf Hne Hap Hi C [ni [Hin D]].
    destruct (update_setup c fresh query update sort skip limit afs now matched newl chs
                Hinv Hlt Hf Hap) as [ixs1 [Hr1 [G1 [S1 [Hfr [Hndn R]]]]]].
    rewrite coll_update_eq, Hf. destruct matched as [|m rest]; [congruence|].
    unfold CollInv.update_with. rewrite Hap, Hi. simpl negb. cbv iota. rewrite Hr1.
    destruct (add_docs_dup_complete matchf _ ixs1 newl G1 Hfr Hndn) as [ixs' Ha].
    - intros ni1 sd Hin1 Hsd.
      destruct (same_shape_in _ _ ni1 (same_shape_sym _ _ S1) Hin1) as [ni0 [Hin0 [_ Hs]]].
      apply (covers_ok_same matchf (snd ni0) (snd ni1) _ (same_def_sym _ _ Hs)). apply C; auto.
    - destruct (same_shape_in _ _ ni S1 Hin) as [ni1 [Hin1 [_ Hs]]].
      exists ni1. split; auto. apply (dup_pair_same matchf _ (snd ni) (snd ni1) Hs).
      eapply dup_pair_mono; [|exact D]. intros x Hx. apply R. exact Hx.
    - rewrite Ha. unfold fail. eauto.
  Qed.

  Theorem update_dup_iff c fresh query update sort skip limit afs now matched newl chs :
    coll_inv c -> ids_lt c fresh ->
    find_list (c_docs c) query sort skip limit = Ok matched -> matched <> [] ->
    apply_list matched fresh query update afs now = Ok (newl, chs) ->
    ids_unchanged matched newl = true ->
    (forall ni sd, In ni (c_indexes c) -> In sd newl -> covers_ok (snd ni) (snd sd)) ->
    ((exists c', coll_update c fresh query update sort skip limit afs now = (c', inr EDup)) <->
     exists ni, In ni (c_indexes c) /\ dup_pair (final_docs c matched newl) (snd ni)).
  Proof.
    intros Hinv Hlt Hf Hne Hap Hi C. split.
    - intros [c' H].
      destruct (update_dup_sound c fresh query update sort skip limit afs now c' Hinv Hlt H)
        as [matched' [newl' [chs' [Hf' [Hap' D]]]]].
      rewrite Hf in Hf'. inversion Hf'; subst matched'.
      rewrite Hap in Hap'. inversion Hap'; subst. exact D.
    - apply (update_dup_complete c fresh query update sort skip limit afs now matched newl chs);
        auto.
  Qed.

  (* and an update whose final set has no duplicate pair is accepted *)
  Theorem update_accepts c fresh query update sort skip limit afs now matched newl chs :
    coll_inv c -> ids_lt c fresh ->
    find_list (c_docs c) query sort skip limit = Ok matched -> matched <> [] ->
    apply_list matched fresh query update afs now = Ok (newl, chs) ->
    ids_unchanged matched newl = true ->
    (forall ni sd, In ni (c_indexes c) -> In sd newl -> covers_ok (snd ni) (snd sd)) ->
    (forall ni, In ni (c_indexes c) -> ~ dup_pair (final_docs c matched newl) (snd ni)) ->
    exists c' r, coll_update c fresh query update sort skip limit afs now = (c', inl r).
  Proof.
    intros Hinv Hlt Hf Hne Hap Hi C Hn.
    destruct (update_setup c fresh query update sort skip limit afs now matched newl chs
                Hinv Hlt Hf Hap) as [ixs1 [Hr1 [G1 [S1 [Hfr [Hndn R]]]]]].
    destruct (add_docs_total matchf ixs1 newl) as [ixs' [Ha|Ha]].
    { intros ni1 sd Hin1 Hsd.
      destruct (same_shape_in _ _ ni1 (same_shape_sym _ _ S1) Hin1) as [ni0 [Hin0 [_ Hs]]].
      apply (covers_ok_same matchf (snd ni0) (snd ni1) _ (same_def_sym _ _ Hs)). apply C; auto. }
    2:{ exfalso.
      destruct (add_docs_dup_sound matchf _ ixs1 newl ixs' Ha G1 Hfr Hndn) as [ni1 [Hin1 D1]].
      destruct (same_shape_in _ _ ni1 (same_shape_sym _ _ S1) Hin1) as [ni [Hin [_ Hs]]].
      apply (Hn ni Hin). apply (dup_pair_same matchf _ (snd ni1) (snd ni) Hs).
      eapply dup_pair_mono; [|exact D1]. intros x Hx. apply R. exact Hx. }
    rewrite coll_update_eq, Hf. destruct matched as [|m rest]; [congruence|].
    unfold CollInv.update_with. rewrite Hap, Hi. simpl negb. cbv iota. rewrite Hr1, Ha.
    destruct (modified_only (m :: rest) newl chs). eauto.
  Qed.

End CollDup.

Print Assumptions coll_inv_no_dup.
Print Assumptions insert_dup_iff.
Print Assumptions insert_dup_iff_total.
Print Assumptions insert_accepts.
Print Assumptions upsert_dup_iff.
Print Assumptions upsert_dup_iff_total.
Print Assumptions upsert_accepts.
Print Assumptions replace_dup_iff.
Print Assumptions replace_dup_iff_total.
Print Assumptions replace_accepts.
Print Assumptions create_dup_sound.
Print Assumptions create_dup_iff.
Print Assumptions create_accepts.
Print Assumptions update_dup_sound.
Print Assumptions update_dup_complete.
Print Assumptions update_dup_iff.
Print Assumptions update_accepts.
