(* ReloadExamples.v — non-vacuity of the history-level C06 theorems, by
   computation with the full operator models (Match / Apply / Extract /
   Project): a history that creates a unique and a TTL index, inserts, updates
   and deletes (so that the identities in use are no longer consecutive:
   1, 7 in db.c and 2, 4, 6, 8, 9 in the oplog); its catalog is storable, the
   reopened engine exists with renumbered identities (6, 7 and 1..5) and
   rebuilt entry sets, and a continuation — duplicate probes under both
   unique indexes, a TTL pass, reads, a session transaction, ListIndexes — is
   answered identically.  A catalog whose unique index misses one entry is
   NOT equivalent and answers the first probe differently. *)
From Coq Require Import List ZArith String.
From Lungo.Model Require Import File.
From Lungo.Model Require Import Driver Reload Match Apply Project ApiOps.
From Lungo.Proofs Require Import FileProofs ReloadProofs ReloadHistory.
Import ListNotations.
Open Scope string_scope.
Open Scope Z_scope.

Definition ex_h : Txn.handle := ("db", "c").

Definition ex_history : list call :=
  [ CCreateIndex 0 ex_h "" [("u", VInt32 1)] true None None;
    CCreateIndex 0 ex_h "" [("t", VInt32 1)] false None (Some 10);
    CInsertOne 0 ex_h [("_id", VInt32 1); ("u", VInt32 5); ("t", VDate 0)];
    CInsertOne 0 ex_h [("_id", VInt32 2); ("u", VInt32 6)];
    CInsertOne 0 ex_h [("_id", VInt32 3); ("u", VInt32 7); ("t", VDate 50000)];
    CUpdate 0 ex_h false [("_id", VInt32 2)] [("$set", VDoc [("u", VInt32 8)])] false [];
    CDelete 0 ex_h false [("_id", VInt32 3)] ].

Definition ex_more : list call :=
  [ CInsertOne 0 ex_h [("_id", VInt32 9); ("u", VInt32 5)];     (* clashes under u_1 *)
    CInsertOne 0 ex_h [("_id", VInt32 1); ("u", VInt32 99)];    (* clashes under _id_ *)
    CInsertOne 0 ex_h [("_id", VInt32 4); ("u", VInt32 6)];     (* u = 6 was updated away *)
    CExpire 20000;                                               (* {_id: 1} expires (t = 0, 10 s) *)
    CFind 0 ex_h [] None None 0 0;
    CCount 0 Txn.oplog_handle [] 0 0;
    CStart 1;
    CInsertOne 1 ex_h [("_id", VInt32 5); ("u", VInt32 5)];     (* u = 5 is free again *)
    CCommit 1;
    CListIndexes 0 ex_h ].

Definition ex_run := run api_match api_apply api_extract api_project 0.
Definition ex_ds : dstate := fst (ex_run d_init ex_history).
Definition ex_nilp : string -> bool := fun _ => false.

Definition ex_replies : list reply :=
  [ RErr EDup; RErr EDup; RId (VInt32 4); ROk;
    RDocs [ [("_id", VInt32 2); ("u", VInt32 8)]; [("_id", VInt32 4); ("u", VInt32 6)] ];
    RCount 7; ROk; RId (VInt32 5); ROk;
    RDocs [ [("v", VInt32 2); ("key", VDoc [("_id", VInt32 1)]); ("name", VString "_id_")];
            [("v", VInt32 2); ("key", VDoc [("t", VInt32 1)]); ("name", VString "t_1");
             ("expireAfterSeconds", VInt32 10)];
            [("v", VInt32 2); ("key", VDoc [("u", VInt32 1)]); ("name", VString "u_1");
             ("unique", VBool true)] ] ].

Definition entries_of (c : Txn.catalog) :=
  map (fun hc => (fst hc, map fst (Collection.c_docs (snd hc)),
                  map (fun ni => (fst ni, ix_entries (snd ni))) (Collection.c_indexes (snd hc))))
      (cat_ns c).

Example reload_example :
  Forall (plain_call) ex_history /\
  storable_image ex_nilp (ds_cat ex_ds) /\
  (* identities and entries before ... *)
  entries_of (ds_cat ex_ds) =
    [ (Txn.oplog_handle, [2; 4; 6; 8; 9], []);
      (ex_h, [1; 7], [ ("_id_", [([VInt32 1], 1); ([VInt32 2], 7)]);
                       ("u_1", [([VInt32 5], 1); ([VInt32 8], 7)]);
                       ("t_1", [([VDate 0], 1); ([VMissing], 7)]) ]) ] /\
  (* ... and after the reload *)
  option_map (fun d => (ds_gen d, entries_of (ds_cat d))) (reopen api_match ex_nilp ex_ds) =
    Some (mkGen 8 1,
          [ (Txn.oplog_handle, [1; 2; 3; 4; 5], []);
            (ex_h, [6; 7], [ ("_id_", [([VInt32 1], 6); ([VInt32 2], 7)]);
                             ("u_1", [([VInt32 5], 6); ([VInt32 8], 7)]);
                             ("t_1", [([VDate 0], 6); ([VMissing], 7)]) ]) ]) /\
  option_map (fun d => snd (ex_run d ex_more)) (reopen api_match ex_nilp ex_ds) = Some ex_replies /\
  snd (ex_run ex_ds ex_more) = ex_replies.
Proof.
  split; [repeat constructor|].
  split; [split; vm_compute; reflexivity|].
  split; [vm_compute; reflexivity|].
  split; [vm_compute; reflexivity|].
  split; vm_compute; reflexivity.
Qed.

(* what the equivalence protects from: the same documents and definitions,
   but the unique index u_1 built over the second document only (the
   half-built index of a faulty BuildCatalog) — the first probe is accepted *)
Definition ex_broken : dstate :=
  mkD (mkCat
         (map (fun hc =>
                 (fst hc,
                  mkColl (Collection.c_docs (snd hc))
                         (map (fun ni =>
                                 if String.eqb (fst ni) "u_1"
                                 then (fst ni, mkIndex (ix_config (snd ni)) (ix_cols (snd ni))
                                                       (tl (ix_entries (snd ni))))
                                 else ni) (Collection.c_indexes (snd hc)))))
              (cat_ns (ds_cat ex_ds)))
         (cat_clock (ds_cat ex_ds)))
      (ds_gen ex_ds) [].

Example broken_index_differs :
  image (ds_cat ex_broken) = image (ds_cat ex_ds) /\
  firstn 1 (snd (ex_run ex_broken ex_more)) = [RId (VInt32 9)] /\
  firstn 1 (snd (ex_run ex_ds ex_more)) = [RErr EDup].
Proof. split; [|split]; vm_compute; reflexivity. Qed.

(* why the continuation theorem compares with the original WITHOUT its client
   sessions: sessions do not survive a reload.  With a transaction left open
   the original engine refuses a plain write (the write token is held); the
   reopened engine has no sessions and accepts it *)
Example sessions_do_not_survive :
  let ds := fst (ex_run d_init (ex_history ++ [CStart 1])) in
  let probe := [CInsertOne 0 ex_h [("_id", VInt32 9); ("u", VInt32 0)]] in
  snd (ex_run ds probe) = [RErr EErr] /\
  option_map (fun d => snd (ex_run d probe)) (reopen api_match ex_nilp ds) = Some [RId (VInt32 9)] /\
  snd (ex_run (forget_sessions ds) probe) = [RId (VInt32 9)].
Proof. split; [|split]; vm_compute; reflexivity. Qed.
