(* RetentionProofs.v — Transaction.Clean (C08, retention): the dropped events
   are a prefix, never one of the newest minSize events, never an event
   younger than minAge, and — for a chronologically ordered log — exactly the
   events that are past both protections and beyond the maximum size or age. *)
From Coq Require Import List ZArith Lia Bool.
From Lungo.Model Require Import Txn.
Import ListNotations.
Open Scope Z_scope.

Section Retention.
  Variables (min_index max_index min_age : Z) (min_ts max_ts : Z * Z).

  (* "willing and forced to drop" for the event at position i *)
  Definition droppable (i : Z) (ts : Z * Z) : bool :=
    ((i <? min_index) && ((min_age =? 0) || ts_lt ts min_ts)) &&
    ((i <? max_index) || ts_lt ts max_ts).

  Lemma clean_count_unfold ts t i :
    clean_count (ts :: t) i min_index max_index min_age min_ts max_ts =
    if droppable i ts then 1 + clean_count t (i + 1) min_index max_index min_age min_ts max_ts else 0.
  Proof. reflexivity. Qed.

  Lemma clean_count_range evs : forall i,
    0 <= clean_count evs i min_index max_index min_age min_ts max_ts <= Z.of_nat (List.length evs).
  Proof.
    induction evs as [|ts t IH]; intro i.
    - simpl. lia.
    - rewrite clean_count_unfold. destruct (droppable i ts).
      + specialize (IH (i + 1)). simpl List.length. lia.
      + simpl List.length. lia.
  Qed.

  (* every dropped position is droppable: the dropped events are the longest
     prefix of droppable events *)
  Lemma clean_count_prefix evs : forall i j ts,
    0 <= j < clean_count evs i min_index max_index min_age min_ts max_ts ->
    nth_error evs (Z.to_nat j) = Some ts -> droppable (i + j) ts = true.
  Proof.
    induction evs as [|e t IH]; intros i j ts Hj Hn.
    - simpl in Hj. lia.
    - rewrite clean_count_unfold in Hj. destruct (droppable i e) eqn:D; [|lia].
      destruct (Z.eq_dec j 0) as [->|N].
      + simpl in Hn. inversion Hn; subst. rewrite Z.add_0_r. exact D.
      + replace (Z.to_nat j) with (S (Z.to_nat (j - 1))) in Hn by lia. simpl in Hn.
        replace (i + j) with ((i + 1) + (j - 1)) by lia.
        apply IH; [lia|exact Hn].
  Qed.

  (* the first kept event (if any) is not droppable *)
  Lemma clean_count_stops evs : forall i ts,
    nth_error evs (Z.to_nat (clean_count evs i min_index max_index min_age min_ts max_ts)) = Some ts ->
    droppable (i + clean_count evs i min_index max_index min_age min_ts max_ts) ts = false.
  Proof.
    induction evs as [|e t IH]; intros i ts Hn.
    - simpl in Hn. discriminate.
    - rewrite clean_count_unfold in *. destruct (droppable i e) eqn:D.
      + pose proof (clean_count_range t (i + 1)) as R.
        replace (Z.to_nat (1 + clean_count t (i + 1) min_index max_index min_age min_ts max_ts))
          with (S (Z.to_nat (clean_count t (i + 1) min_index max_index min_age min_ts max_ts))) in Hn by lia.
        simpl in Hn. apply IH in Hn.
        replace (i + (1 + clean_count t (i + 1) min_index max_index min_age min_ts max_ts))
          with (i + 1 + clean_count t (i + 1) min_index max_index min_age min_ts max_ts) by lia.
        exact Hn.
      + simpl in Hn. inversion Hn; subst. rewrite Z.add_0_r. exact D.
  Qed.

  (* none of the newest min_size events is dropped *)
  Lemma clean_count_min_size evs : forall i,
    clean_count evs i min_index max_index min_age min_ts max_ts <= Z.max 0 (min_index - i).
  Proof.
    induction evs as [|e t IH]; intro i.
    - simpl. lia.
    - rewrite clean_count_unfold. destruct (droppable i e) eqn:D; [|lia].
      unfold droppable in D. apply andb_true_iff in D. destruct D as [D _].
      apply andb_true_iff in D. destruct D as [D _]. apply Z.ltb_lt in D.
      specialize (IH (i + 1)). lia.
  Qed.
End Retention.

(* chronological order of (T, I) timestamps *)
Definition ts_le (a b : Z * Z) : Prop := fst a < fst b \/ (fst a = fst b /\ snd a <= snd b).

Lemma ts_lt_mono a b c : ts_le a b -> ts_lt b c = true -> ts_lt a c = true.
Proof.
  unfold ts_le, ts_lt. intros H L.
  apply orb_true_iff in L. apply orb_true_iff.
  destruct L as [L|L].
  - apply Z.ltb_lt in L. left. apply Z.ltb_lt. lia.
  - apply andb_true_iff in L. destruct L as [E L]. apply Z.eqb_eq in E. apply Z.ltb_lt in L.
    destruct H as [H|[H1 H2]].
    + left. apply Z.ltb_lt. lia.
    + right. apply andb_true_iff. split; [apply Z.eqb_eq; lia|apply Z.ltb_lt; lia].
Qed.

(* droppability is downward closed on a chronologically ordered log *)
Lemma droppable_mono mi ma age mn mx i j a b :
  i <= j -> ts_le a b -> droppable mi ma age mn mx j b = true -> droppable mi ma age mn mx i a = true.
Proof.
  unfold droppable. intros Hij Hab D.
  apply andb_true_iff in D. destruct D as [D1 D2].
  apply andb_true_iff in D1. destruct D1 as [D1 D3].
  apply Z.ltb_lt in D1.
  apply andb_true_iff. split.
  - apply andb_true_iff. split; [apply Z.ltb_lt; lia|].
    apply orb_true_iff in D3. apply orb_true_iff. destruct D3 as [D3|D3]; [left; exact D3|].
    right. eapply ts_lt_mono; eauto.
  - apply orb_true_iff in D2. apply orb_true_iff. destruct D2 as [D2|D2].
    + left. apply Z.ltb_lt in D2. apply Z.ltb_lt. lia.
    + right. eapply ts_lt_mono; eauto.
Qed.

Lemma ts_le_trans a b c : ts_le a b -> ts_le b c -> ts_le a c.
Proof.
  unfold ts_le. destruct a as [a1 a2], b as [b1 b2], c as [c1 c2]; simpl.
  intros [H1|[H1 H2]] [H3|[H3 H4]]; [left|left|left|right]; lia.
Qed.

Inductive chrono : list (Z * Z) -> Prop :=
| chrono_nil : chrono []
| chrono_one a : chrono [a]
| chrono_cons a b t : ts_le a b -> chrono (b :: t) -> chrono (a :: b :: t).

Lemma chrono_nth evs : chrono evs -> forall i j a b, (i <= j)%nat ->
  nth_error evs i = Some a -> nth_error evs j = Some b -> ts_le a b \/ a = b.
Proof.
  induction 1 as [|x|x y t Hxy Hc IH]; intros i j a b Hij Ha Hb.
  - destruct i; discriminate.
  - destruct i as [|i]; [|destruct i; discriminate].
    destruct j as [|j]; [|destruct j; discriminate].
    simpl in *. right. congruence.
  - destruct i as [|i].
    + simpl in Ha. inversion Ha; subst a.
      destruct j as [|j]; [simpl in Hb; right; congruence|].
      simpl in Hb. destruct (IH 0%nat j y b (Nat.le_0_l j) eq_refl Hb) as [L|E].
      * left. eapply ts_le_trans; eauto.
      * subst. left. exact Hxy.
    + destruct j as [|j]; [lia|]. simpl in Ha, Hb. apply (IH i j a b); [lia|exact Ha|exact Hb].
Qed.

(* on a chronologically ordered log the dropped events are EXACTLY the
   droppable ones (the droppable set is a prefix) *)
Theorem clean_exact mi ma age mn mx evs j ts :
  chrono evs -> 0 <= j -> nth_error evs (Z.to_nat j) = Some ts ->
  (j < clean_count evs 0 mi ma age mn mx <-> droppable mi ma age mn mx j ts = true).
Proof.
  intros C Hj Hn. split.
  - intro L. replace j with (0 + j) by lia. eapply clean_count_prefix; eauto; lia.
  - intro D. set (k := clean_count evs 0 mi ma age mn mx).
    destruct (Z_lt_le_dec j k) as [L|G]; [exact L|exfalso].
    pose proof (clean_count_range mi ma age mn mx evs 0) as R. fold k in R.
    assert (Hk : exists tk, nth_error evs (Z.to_nat k) = Some tk).
    { destruct (nth_error evs (Z.to_nat k)) eqn:E; [eauto|].
      apply nth_error_None in E. assert (Z.to_nat j < List.length evs)%nat by (apply nth_error_Some; congruence). lia. }
    destruct Hk as [tk Hk].
    pose proof (clean_count_stops mi ma age mn mx evs 0 tk Hk) as S. fold k in S. simpl in S.
    assert (M : droppable mi ma age mn mx k tk = true).
    { destruct (chrono_nth evs C (Z.to_nat k) (Z.to_nat j) tk ts) as [Le|Eq]; auto; [lia| |].
      - eapply droppable_mono; eauto.
      - subst. eapply droppable_mono with (j := j) (b := ts); eauto. right. split; lia. }
    congruence.
Qed.

(* the three protections, on the model's Clean *)
Theorem clean_keeps_min_size evs now mn_sz mx_sz mn_age mx_age :
  0 <= mn_sz ->
  clean_events evs now mn_sz mx_sz mn_age mx_age <= Z.max 0 (Z.of_nat (List.length evs) - mn_sz).
Proof.
  intro H. unfold clean_events.
  pose proof (clean_count_min_size (len evs - mn_sz) (len evs - mx_sz) mn_age
                (wrap_u32 (fst now - wrap_u32 (Z.quot mn_age 1000000000)), 0)
                (wrap_u32 (fst now - wrap_u32 (Z.quot mx_age 1000000000)), snd now) evs 0) as M.
  unfold len in *. lia.
Qed.

Theorem clean_keeps_young evs now mn_sz mx_sz mn_age mx_age j ts :
  mn_age <> 0 -> 0 <= j < clean_events evs now mn_sz mx_sz mn_age mx_age ->
  nth_error evs (Z.to_nat j) = Some ts ->
  ts_lt ts (wrap_u32 (fst now - wrap_u32 (Z.quot mn_age 1000000000)), 0) = true.
Proof.
  intros NZ Hj Hn. unfold clean_events in Hj.
  pose proof (clean_count_prefix _ _ _ _ _ evs 0 j ts Hj Hn) as D.
  unfold droppable in D. apply andb_true_iff in D. destruct D as [D _].
  apply andb_true_iff in D. destruct D as [_ D].
  apply orb_true_iff in D. destruct D as [D|D]; [apply Z.eqb_eq in D; contradiction|exact D].
Qed.

Theorem clean_range evs now mn_sz mx_sz mn_age mx_age :
  0 <= clean_events evs now mn_sz mx_sz mn_age mx_age <= Z.of_nat (List.length evs).
Proof. unfold clean_events. apply clean_count_range. Qed.

Print Assumptions clean_exact.
Print Assumptions clean_keeps_young.
