(* GenEngineBoundary.v — obligation tying the engine-level ownership boundary
   to /repo/transaction.go (G9, translator/gen_engine_boundary.go ->
   Gen/EngineBoundary.v), for C17.

   Every caller-owned document whose values can end up in a stored document —
   the list of Insert, the replacement of Replace, the filter of Replace /
   Update (an upsert seeds the new document from it), the update document
   (operators store their operands), the documents of Bulk's insert and
   replace operations — is cloned (bsonkit.Clone / CloneList) before anything
   else uses it, on every path to the two storing calls namespace.Insert and
   namespace.Replace:

     Insert:  list cloned first; the loop ranges over the cloned list
     Replace: repl cloned first, handed to t.replace; query handed to t.replace
     Update:  query, update handed to t.update
     replace: query cloned first; repl goes to namespace.Replace (its callers
              Replace and Bulk hand a clone)
     update:  query and update cloned first
     insert:  doc goes to namespace.Insert (its callers Insert and Bulk hand a clone)
     Bulk:    bsonkit.Clone(op.Document) at both calls

   Removing or moving any of these clones changes Gen/EngineBoundary.v and the
   equality stops checking (the state before /repo 8e5582a and 1225705 does
   not satisfy it: `replace`/`update` used query and update as they were, Bulk
   handed op.Document itself). *)
From Coq Require Import List String Bool.
From Lungo.Gen Require Import EngineBoundary.
Import ListNotations.
Open Scope string_scope.

Definition expected_engine_boundary : list (string * string * string) :=
  [("Insert", "list", "clone");
   ("Replace", "repl", "clone");
   ("Replace", "query", "pass:t.replace");
   ("Update", "query", "pass:t.update");
   ("Update", "update", "pass:t.update");
   ("replace", "query", "clone");
   ("replace", "repl", "pass:namespace.Replace");
   ("update", "query", "clone");
   ("update", "update", "clone");
   ("insert", "doc", "pass:namespace.Insert");
   ("Bulk", "insert document", "call:t.insert:clone");
   ("Bulk", "replacement", "call:t.replace:clone");
   ("Replace", "replacement", "call:t.replace:param:clone");
   ("Insert", "doc", "range:list")].

Theorem gen_engine_boundary_ok : gen_engine_boundary = expected_engine_boundary.
Proof. reflexivity. Qed.

(* what the table is checked for: a document reaches a storing call
   (namespace.Insert / namespace.Replace) only from a clone *)
Definition prefix (p s : string) : bool := String.eqb p (String.substring 0 (String.length p) s).

Definition crossing_ok (c : string) : bool :=
  String.eqb c "clone" || String.eqb c "range:list" ||
  prefix "pass:t." c || String.eqb c "call:t.insert:clone" || String.eqb c "call:t.replace:clone" ||
  String.eqb c "call:t.replace:param:clone".

(* the two rows that hand a parameter to a storing call are exactly the
   private helpers whose every caller row is a clone *)
Definition stores_param (r : string * string * string) : bool :=
  prefix "pass:namespace." (snd r).

Definition boundary_safe (t : list (string * string * string)) : bool :=
  forallb (fun r => crossing_ok (snd r) || stores_param r) t &&
  forallb (fun r => negb (stores_param r) ||
                    (String.eqb (fst (fst r)) "replace" && String.eqb (snd (fst r)) "repl") ||
                    (String.eqb (fst (fst r)) "insert" && String.eqb (snd (fst r)) "doc")) t &&
  (* callers of the helpers *)
  existsb (fun r => String.eqb (snd r) "call:t.insert:clone") t &&
  existsb (fun r => String.eqb (snd r) "call:t.replace:clone") t &&
  existsb (fun r => String.eqb (snd r) "call:t.replace:param:clone") t &&
  existsb (fun r => String.eqb (fst (fst r)) "Insert" && String.eqb (snd r) "range:list") t &&
  negb (existsb (fun r => prefix "Unknown" (snd r)) t).

Theorem gen_engine_boundary_safe : boundary_safe gen_engine_boundary = true.
Proof. vm_compute. reflexivity. Qed.
