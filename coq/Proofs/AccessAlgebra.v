(* AccessAlgebra.v — the algebra of bsonkit.Get / Put / Unset (Model/Access.v)
   for ALL documents, paths and values: what a write changes and what it
   leaves alone.  Basis of "untouched fields keep value and position" and of
   the idempotence theorems of C11. *)
From Coq Require Import List ZArith Lia Bool String.
From Lungo.Model Require Import Access.
Import ListNotations.
Open Scope Z_scope.

(* ------------------------------------------------------------------ *)
(* first-order views of the nested fixpoints *)

Fixpoint nth_z (l : list value) (i : Z) : option value :=
  match l with
  | [] => None
  | x :: t => if i =? 0 then Some x else nth_z t (i - 1)
  end.

(* replace / remove the first entry with the key *)
Fixpoint replace_first (k : string) (x : value) (d : doc) : doc :=
  match d with
  | [] => []
  | (k', y) :: t => if String.eqb k' k then (k', x) :: t else (k', y) :: replace_first k x t
  end.

Fixpoint remove_first (k : string) (d : doc) : doc :=
  match d with
  | [] => []
  | (k', y) :: t => if String.eqb k' k then t else (k', y) :: remove_first k t
  end.

Lemma get_nil v c k : get v [] c k = (v, false).
Proof. destruct v; reflexivity. Qed.

Lemma get_doc d key rest c k :
  get (VDoc d) (key :: rest) c k =
  if empty_path (key :: rest) then (VMissing, false)
  else match lookup d key with
       | Some x => get x rest c k
       | None => (VMissing, false)
       end.
Proof.
  cbn [get]. destruct (empty_path (key :: rest)); [reflexivity|].
  induction d as [|[k' x] t IH]; [reflexivity|].
  cbn [lookup]. destruct (String.eqb k' key); [reflexivity | exact IH].
Qed.

Lemma get_arr a key rest k :
  get (VArr a) (key :: rest) false k =
  if empty_path (key :: rest) then (VMissing, false)
  else match parse_index key with
       | Some i => match nth_z a i with
                   | Some x => get x rest false k
                   | None => (VMissing, false)
                   end
       | None => (VMissing, false)
       end.
Proof.
  cbn [get]. destruct (empty_path (key :: rest)); [reflexivity|].
  destruct (parse_index key) as [i|]; [|reflexivity].
  assert (E : forall l i,
    (fix nth (l : list value) (i : Z) {struct l} : option (value * bool) :=
       match l with
       | [] => None
       | x :: t => if i =? 0 then Some (get x rest false k) else nth t (i - 1)
       end) l i = option_map (fun x => get x rest false k) (nth_z l i)).
  { induction l as [|x t IH]; intro j; [reflexivity|].
    cbn [nth_z]. destruct (j =? 0); [reflexivity | apply IH]. }
  rewrite E. destruct (nth_z a i); reflexivity.
Qed.

Lemma get_empty_path v p c k : empty_path p = true -> get v p c k = (VMissing, false).
Proof.
  intro H. destruct p as [|s t]; [discriminate|]. destruct s; [|discriminate].
  destruct t; [|discriminate]. destruct v; reflexivity.
Qed.

Lemma get_scalar v key rest c k :
  (forall d, v <> VDoc d) -> (forall a, v <> VArr a) ->
  get v (key :: rest) c k = (VMissing, false).
Proof.
  intros Hd Ha. destruct v; cbn [get]; try (destruct (empty_path (key :: rest)); reflexivity).
  - exfalso; eapply Hd; reflexivity.
  - exfalso; eapply Ha; reflexivity.
Qed.

(* put on a document *)
Lemma put_doc d key rest nv pre :
  put (VDoc d) (key :: rest) nv pre =
  if empty_path (key :: rest) then None
  else match lookup d key with
       | Some x =>
           match put x rest nv pre with
           | None => None
           | Some (old, x') =>
               Some (old, VDoc (if is_missing x' then remove_first key d else replace_first key x' d))
           end
       | None =>
           if is_missing nv then None
           else match put_new rest nv with
                | None => None
                | Some inner =>
                    Some (VMissing, VDoc (if pre then (key, inner) :: d else d ++ [(key, inner)]))
                end
       end.
Proof.
  cbn [put]. destruct (empty_path (key :: rest)); [reflexivity|].
  set (upd := fix upd (d0 : list (string * value)) : option (option (value * list (string * value))) :=
    match d0 with
    | [] => None
    | (k, x) :: t =>
        if String.eqb k key then
          match put x rest nv pre with
          | None => Some None
          | Some (old, x') => if is_missing x' then Some (Some (old, t)) else Some (Some (old, (k, x') :: t))
          end
        else match upd t with
             | None => None
             | Some None => Some None
             | Some (Some (old, t')) => Some (Some (old, (k, x) :: t'))
             end
    end).
  assert (E : upd d =
    match lookup d key with
    | Some x => match put x rest nv pre with
                | None => Some None
                | Some (old, x') => Some (Some (old, if is_missing x' then remove_first key d else replace_first key x' d))
                end
    | None => None
    end).
  { induction d as [|[k' x] t IH]; [reflexivity|].
    cbn [upd lookup remove_first replace_first]. fold upd.
    destruct (String.eqb k' key).
    - destruct (put x rest nv pre) as [[old x']|]; [|reflexivity].
      destruct (is_missing x'); reflexivity.
    - rewrite IH. destruct (lookup t key) as [y|]; [|reflexivity].
      destruct (put y rest nv pre) as [[old y']|]; [|reflexivity].
      destruct (is_missing y'); reflexivity. }
  rewrite E. destruct (lookup d key) as [x|].
  - destruct (put x rest nv pre) as [[old x']|]; reflexivity.
  - destruct (is_missing nv); [reflexivity|].
    destruct (put_new rest nv); [|reflexivity]. destruct pre; reflexivity.
Qed.

Lemma put_arr a key rest nv pre :
  put (VArr a) (key :: rest) nv pre =
  if empty_path (key :: rest) then None
  else match atoi key with
       | None => None
       | Some i =>
           if i <? 0 then None
           else if i <? len a then
             match nth_z a i with
             | Some x =>
                 match put x rest nv pre with
                 | None => None
                 | Some (old, x') => Some (old, VArr (replace_nth a i (if is_missing x' then VNull else x')))
                 end
             | None => None
             end
           else if is_missing nv then None
           else if max_array_backfill <? i - len a then None
           else match put_new rest nv with
                | None => None
                | Some inner => Some (VMissing, VArr (a ++ repeat_null (Z.to_nat (i - len a)) ++ [inner]))
                end
       end.
Proof.
  cbn [put]. destruct (empty_path (key :: rest)); [reflexivity|].
  destruct (atoi key) as [i|]; [|reflexivity].
  destruct (i <? 0); [reflexivity|].
  destruct (i <? len a); [|reflexivity].
  assert (E : forall l j,
    (fix nth (l : list value) (i : Z) {struct l} : option (value * value) :=
       match l with
       | [] => None
       | x :: t => if i =? 0 then put x rest nv pre else nth t (i - 1)
       end) l j = match nth_z l j with Some x => put x rest nv pre | None => None end).
  { induction l as [|x t IH]; intro j; [reflexivity|].
    cbn [nth_z]. destruct (j =? 0); [reflexivity | apply IH]. }
  rewrite E. destruct (nth_z a i) as [x|]; [|reflexivity].
  destruct (put x rest nv pre) as [[old x']|]; reflexivity.
Qed.

Lemma put_missing key rest nv pre :
  put VMissing (key :: rest) nv pre =
  if empty_path (key :: rest) then None
  else if is_missing nv then None
  else match put_new rest nv with
       | None => None
       | Some inner => Some (VMissing, VDoc [(key, inner)])
       end.
Proof. reflexivity. Qed.

Lemma put_nil v nv pre : put v [] nv pre = Some (v, nv).
Proof. destruct v; reflexivity. Qed.

Lemma put_scalar v key rest nv pre :
  (forall d, v <> VDoc d) -> (forall a, v <> VArr a) -> v <> VMissing ->
  put v (key :: rest) nv pre = None.
Proof.
  intros Hd Ha Hm. destruct v; cbn [put]; try (destruct (empty_path (key :: rest)); reflexivity).
  - congruence.
  - exfalso; eapply Hd; reflexivity.
  - exfalso; eapply Ha; reflexivity.
Qed.

(* ------------------------------------------------------------------ *)
(* list facts *)

Lemma len_cons {A} (x : A) t : len (x :: t) = 1 + len t.
Proof. unfold len. cbn [List.length]. lia. Qed.

Lemma len_nonneg {A} (l : list A) : 0 <= len l.
Proof. unfold len. lia. Qed.

Lemma len_app {A} (a b : list A) : len (a ++ b) = len a + len b.
Proof. unfold len. rewrite app_length. lia. Qed.

Lemma nth_z_bounds a : forall i x, nth_z a i = Some x -> 0 <= i < len a.
Proof.
  induction a as [|y t IH]; intros i x H; [discriminate|].
  cbn [nth_z] in H. rewrite len_cons. destruct (Z.eqb_spec i 0).
  - pose proof (len_nonneg t). lia.
  - apply IH in H. lia.
Qed.

Lemma nth_z_in_range a : forall i, 0 <= i < len a -> exists x, nth_z a i = Some x.
Proof.
  induction a as [|y t IH]; intros i H.
  - unfold len in H. cbn in H. lia.
  - cbn [nth_z]. rewrite len_cons in H. destruct (Z.eqb_spec i 0); [eauto|].
    apply IH. lia.
Qed.

Lemma nth_z_none a : forall i, len a <= i -> nth_z a i = None.
Proof.
  induction a as [|y t IH]; intros i H; [reflexivity|].
  cbn [nth_z]. rewrite len_cons in H. pose proof (len_nonneg t).
  destruct (Z.eqb_spec i 0); [lia|]. apply IH. lia.
Qed.

Lemma replace_nth_same a : forall i x, nth_z a i = Some x -> replace_nth a i x = a.
Proof.
  induction a as [|y t IH]; intros i x H; [reflexivity|].
  cbn [nth_z] in H. cbn [replace_nth]. destruct (i =? 0).
  - congruence.
  - f_equal. apply IH. exact H.
Qed.

Lemma nth_z_replace_eq a : forall i x y, nth_z a i = Some x -> nth_z (replace_nth a i y) i = Some y.
Proof.
  induction a as [|z t IH]; intros i x y H; [discriminate|].
  cbn [nth_z] in H. cbn [replace_nth]. destruct (i =? 0) eqn:E.
  - cbn [nth_z]. rewrite E. reflexivity.
  - cbn [nth_z]. rewrite E. eapply IH. exact H.
Qed.

Lemma nth_z_replace_neq a : forall i j y, i <> j -> nth_z (replace_nth a i y) j = nth_z a j.
Proof.
  induction a as [|z t IH]; intros i j y H; [reflexivity|].
  cbn [replace_nth]. destruct (Z.eqb_spec i 0).
  - cbn [nth_z]. destruct (Z.eqb_spec j 0); [lia | reflexivity].
  - cbn [nth_z]. destruct (Z.eqb_spec j 0); [reflexivity|]. apply IH. lia.
Qed.

Lemma len_replace_nth a : forall i y, len (replace_nth a i y) = len a.
Proof.
  induction a as [|z t IH]; intros i y; [reflexivity|].
  cbn [replace_nth]. destruct (i =? 0); rewrite !len_cons; [reflexivity|]. rewrite IH. reflexivity.
Qed.

Lemma nth_z_app_l a b : forall i x, nth_z a i = Some x -> nth_z (a ++ b) i = Some x.
Proof.
  induction a as [|z t IH]; intros i x H; [discriminate|].
  cbn [nth_z app] in *. destruct (i =? 0); [exact H | apply IH; exact H].
Qed.

Lemma nth_z_app_r a b : forall i, len a <= i -> nth_z (a ++ b) i = nth_z b (i - len a).
Proof.
  induction a as [|z t IH]; intros i H.
  - cbn [app]. unfold len. cbn. f_equal. lia.
  - cbn [app nth_z]. rewrite len_cons in *. pose proof (len_nonneg t).
    destruct (Z.eqb_spec i 0); [lia|]. rewrite IH by lia. f_equal. lia.
Qed.

Lemma len_repeat_null n : len (repeat_null n) = Z.of_nat n.
Proof. induction n as [|n IH]; [reflexivity|]. cbn [repeat_null]. rewrite len_cons, IH. lia. Qed.

Lemma nth_z_repeat_null n : forall i x, nth_z (repeat_null n) i = Some x -> x = VNull.
Proof.
  induction n as [|n IH]; intros i x H; [discriminate|].
  cbn [repeat_null nth_z] in H. destruct (i =? 0); [congruence | eapply IH; exact H].
Qed.

Lemma nth_z_pad_end a n x : nth_z (a ++ repeat_null n ++ [x]) (len a + Z.of_nat n) = Some x.
Proof.
  rewrite nth_z_app_r by lia. replace (len a + Z.of_nat n - len a) with (len (repeat_null n)) by (rewrite len_repeat_null; lia).
  rewrite nth_z_app_r by lia. rewrite Z.sub_diag. reflexivity.
Qed.

Lemma lookup_replace_first_same d : forall k x, lookup d k = Some x -> replace_first k x d = d.
Proof.
  induction d as [|[k' y] t IH]; intros k x H; [reflexivity|].
  cbn [lookup] in H. cbn [replace_first]. destruct (String.eqb k' k).
  - congruence.
  - f_equal. apply IH. exact H.
Qed.

Lemma lookup_replace_first_eq d : forall k x y, lookup d k = Some x -> lookup (replace_first k y d) k = Some y.
Proof.
  induction d as [|[k' z] t IH]; intros k x y H; [discriminate|].
  cbn [lookup] in H. cbn [replace_first]. destruct (String.eqb k' k) eqn:E.
  - cbn [lookup]. rewrite E. reflexivity.
  - cbn [lookup]. rewrite E. eapply IH. exact H.
Qed.

Lemma lookup_replace_first_neq d : forall k k' y, k <> k' -> lookup (replace_first k y d) k' = lookup d k'.
Proof.
  induction d as [|[k0 z] t IH]; intros k k' y H; [reflexivity|].
  cbn [replace_first]. destruct (String.eqb_spec k0 k).
  - subst. cbn [lookup]. destruct (String.eqb_spec k k'); [contradiction | reflexivity].
  - cbn [lookup]. destruct (String.eqb k0 k'); [reflexivity|]. apply IH. exact H.
Qed.

Lemma lookup_remove_first_neq d : forall k k', k <> k' -> lookup (remove_first k d) k' = lookup d k'.
Proof.
  induction d as [|[k0 z] t IH]; intros k k' H; [reflexivity|].
  cbn [remove_first]. destruct (String.eqb_spec k0 k).
  - subst. cbn [lookup]. destruct (String.eqb_spec k k'); [contradiction | reflexivity].
  - cbn [lookup]. destruct (String.eqb k0 k'); [reflexivity|]. apply IH. exact H.
Qed.

Lemma lookup_app_new d : forall k x, lookup d k = None -> lookup (d ++ [(k, x)]) k = Some x.
Proof.
  induction d as [|[k0 z] t IH]; intros k x H.
  - cbn. rewrite String.eqb_refl. reflexivity.
  - cbn [lookup app] in *. destruct (String.eqb k0 k); [discriminate|]. apply IH. exact H.
Qed.

Lemma lookup_app_other d : forall k k' x, k <> k' -> lookup (d ++ [(k, x)]) k' = lookup d k'.
Proof.
  induction d as [|[k0 z] t IH]; intros k k' x H.
  - cbn. destruct (String.eqb_spec k k'); [contradiction | reflexivity].
  - cbn [lookup app]. destruct (String.eqb k0 k'); [reflexivity|]. apply IH. exact H.
Qed.

(* ------------------------------------------------------------------ *)
(* index segments: Get reads them with ParseIndex (digits only), Put with
   strconv.Atoi (optional sign) *)

Lemma parse_index_atoi s i : parse_index s = Some i -> atoi s = Some i.
Proof.
  unfold parse_index, atoi. intro H. destruct s as [|c t]; [discriminate|].
  destruct (Ascii.eqb_spec c "+"%char) as [->|Hp].
  { unfold atoi_digits in H. cbn in H. discriminate. }
  destruct (Ascii.eqb_spec c "-"%char) as [->|Hm].
  { unfold atoi_digits in H. cbn in H. discriminate. }
  destruct c as [[] [] [] [] [] [] [] []]; try exact H; congruence.
Qed.

Lemma parse_index_nonneg s i : parse_index s = Some i -> 0 <= i.
Proof.
  unfold parse_index, atoi_digits. destruct s as [|c t]; [discriminate|].
  destruct (all_digits (String c t)); [|discriminate].
  assert (G : forall u acc r, 0 <= acc -> parse_nat_go u acc = Some r -> 0 <= r).
  { induction u as [|d u IH]; intros acc r Ha Hr; cbn in Hr.
    - congruence.
    - unfold digit_of in Hr. destruct ((48 <=? Z.of_N (N_of_ascii d)) && (Z.of_N (N_of_ascii d) <=? 57)) eqn:E; [|discriminate].
      apply IH in Hr; [exact Hr|]. apply andb_true_iff in E. destruct E as [E1 E2].
      apply Z.leb_le in E1. lia. }
  destruct (parse_nat_go (String c t) 0) as [n|] eqn:E; [|discriminate].
  destruct (n <? two63); [|discriminate]. intro H. injection H as <-.
  eapply G; [|exact E]. lia.
Qed.

(* a segment is canonical when both readings agree *)
Definition canon_seg (s : string) : Prop := atoi s = parse_index s.
Definition canon_path (p : path) : Prop := Forall canon_seg p.

(* ------------------------------------------------------------------ *)
(* shape of a successful put *)

Lemma put_cons_shape x key rest nv pre r :
  put x (key :: rest) nv pre = Some r ->
  (exists d, x = VDoc d) \/ (exists a, x = VArr a) \/ x = VMissing.
Proof.
  intro H. destruct x; try (rewrite put_scalar in H by (intros; congruence); discriminate); eauto.
Qed.

Lemma put_cons_not_empty x key rest nv pre r :
  put x (key :: rest) nv pre = Some r -> empty_path (key :: rest) = false.
Proof.
  intro H. destruct (empty_path (key :: rest)) eqn:E; [|reflexivity].
  destruct (put_cons_shape _ _ _ _ _ _ H) as [[d ->]|[[a ->]| ->]].
  - rewrite put_doc, E in H. discriminate.
  - rewrite put_arr, E in H. discriminate.
  - rewrite put_missing, E in H. discriminate.
Qed.

(* writing a real value never yields the "removed" marker *)
Lemma put_result_not_missing p : forall x nv pre old x',
  is_missing nv = false -> put x p nv pre = Some (old, x') -> is_missing x' = false.
Proof.
  destruct p as [|key rest]; intros x nv pre old x' Hnv H.
  - rewrite put_nil in H. congruence.
  - pose proof (put_cons_not_empty _ _ _ _ _ _ H) as Hne.
    destruct (put_cons_shape _ _ _ _ _ _ H) as [[d ->]|[[a ->]| ->]].
    + rewrite put_doc, Hne in H. destruct (lookup d key).
      * destruct (put v rest nv pre) as [[o y]|]; [|discriminate]. injection H as _ <-. reflexivity.
      * rewrite Hnv in H. destruct (put_new rest nv); [|discriminate]. injection H as _ <-. reflexivity.
    + rewrite put_arr, Hne in H. destruct (atoi key) as [i|]; [|discriminate].
      destruct (i <? 0); [discriminate|]. destruct (i <? len a).
      * destruct (nth_z a i); [|discriminate]. destruct (put v rest nv pre) as [[o y]|]; [|discriminate].
        injection H as _ <-. reflexivity.
      * rewrite Hnv in H. destruct (max_array_backfill <? i - len _); [discriminate|].
        destruct (put_new rest nv); [|discriminate]. injection H as _ <-. reflexivity.
    + rewrite put_missing, Hne, Hnv in H. destruct (put_new rest nv); [|discriminate].
      injection H as _ <-. reflexivity.
Qed.

Lemma put_new_cons key rest nv x :
  put_new (key :: rest) nv = Some x ->
  empty_path (key :: rest) = false /\ exists inner, put_new rest nv = Some inner /\ x = VDoc [(key, inner)].
Proof.
  cbn [put_new]. destruct (empty_path (key :: rest)); [discriminate|].
  destruct (put_new rest nv) as [inner|]; [|discriminate]. intro H. injection H as <-. eauto.
Qed.

(* the chain of fresh documents holds the value at the path *)
Lemma put_new_get p : forall nv x k, put_new p nv = Some x -> get x p false k = (nv, false).
Proof.
  induction p as [|key rest IH]; intros nv x k H.
  - cbn in H. injection H as <-. apply get_nil.
  - destruct (put_new_cons _ _ _ _ H) as (Hne & inner & Hi & ->).
    rewrite get_doc, Hne. cbn [lookup]. rewrite String.eqb_refl. apply IH. exact Hi.
Qed.

Lemma put_new_not_missing p nv x : is_missing nv = false -> put_new p nv = Some x -> is_missing x = false.
Proof.
  destruct p as [|key rest]; intros Hnv H.
  - cbn in H. congruence.
  - destruct (put_new_cons _ _ _ _ H) as (_ & inner & _ & ->). reflexivity.
Qed.

Lemma put_new_put p : forall nv x pre, is_missing nv = false -> put_new p nv = Some x -> put x p nv pre = Some (nv, x).
Proof.
  induction p as [|key rest IH]; intros nv x pre Hnv H.
  - cbn in H. injection H as <-. apply put_nil.
  - destruct (put_new_cons _ _ _ _ H) as (Hne & inner & Hi & ->).
    rewrite put_doc, Hne. cbn [lookup]. rewrite String.eqb_refl.
    rewrite (IH _ _ pre Hnv Hi). rewrite (put_new_not_missing _ _ _ Hnv Hi).
    cbn [replace_first]. rewrite String.eqb_refl. reflexivity.
Qed.

(* ------------------------------------------------------------------ *)
(* get after put, same path *)

Lemma get_put_same_val p : forall x nv pre old x',
  canon_path p -> is_missing nv = false ->
  put x p nv pre = Some (old, x') -> get x' p false false = (nv, false).
Proof.
  induction p as [|key rest IH]; intros x nv pre old x' Hc Hnv H.
  - rewrite put_nil in H. injection H as _ <-. apply get_nil.
  - pose proof (put_cons_not_empty _ _ _ _ _ _ H) as Hne.
    inversion Hc as [|? ? Hk Hrest]; subst.
    destruct (put_cons_shape _ _ _ _ _ _ H) as [[d ->]|[[a ->]| ->]].
    + rewrite put_doc, Hne in H. destruct (lookup d key) as [y|] eqn:L.
      * destruct (put y rest nv pre) as [[o y']|] eqn:P; [|discriminate].
        rewrite (put_result_not_missing _ _ _ _ _ _ Hnv P) in H. injection H as _ <-.
        rewrite get_doc, Hne, (lookup_replace_first_eq _ _ _ _ L). eapply IH; eauto.
      * rewrite Hnv in H. destruct (put_new rest nv) as [inner|] eqn:N; [|discriminate].
        injection H as _ <-. rewrite get_doc, Hne.
        destruct pre.
        -- cbn [lookup]. rewrite String.eqb_refl. apply put_new_get. exact N.
        -- rewrite (lookup_app_new _ _ _ L). apply put_new_get. exact N.
    + rewrite put_arr, Hne in H. destruct (atoi key) as [i|] eqn:A; [|discriminate].
      destruct (Z.ltb_spec i 0); [discriminate|].
      red in Hk. rewrite A in Hk.
      destruct (Z.ltb_spec i (len a)).
      * destruct (nth_z a i) as [y|] eqn:N; [|discriminate].
        destruct (put y rest nv pre) as [[o y']|] eqn:P; [|discriminate].
        rewrite (put_result_not_missing _ _ _ _ _ _ Hnv P) in H. injection H as _ <-.
        rewrite get_arr, Hne, <- Hk.
        rewrite (nth_z_replace_eq _ _ _ _ N). eapply IH; eauto.
      * rewrite Hnv in H. destruct (max_array_backfill <? i - len _); [discriminate|].
        destruct (put_new rest nv) as [inner|] eqn:N; [|discriminate]. injection H as _ <-.
        rewrite get_arr, Hne, <- Hk.
        replace i with (len a + Z.of_nat (Z.to_nat (i - len a))) at 2 by lia.
        rewrite nth_z_pad_end. apply put_new_get. exact N.
    + rewrite put_missing, Hne, Hnv in H. destruct (put_new rest nv) as [inner|] eqn:N; [|discriminate].
      injection H as _ <-. rewrite get_doc, Hne. cbn [lookup]. rewrite String.eqb_refl.
      apply put_new_get. exact N.
Qed.

Lemma get_source_not_missing x p c k v n :
  get x p c k = (v, n) -> is_missing v = false -> is_missing x = false.
Proof.
  intros G Hv. destruct x; try reflexivity. destruct p as [|key rest].
  - rewrite get_nil in G. injection G as <- _. exact Hv.
  - rewrite get_scalar in G by (intros; congruence). injection G as <- _. exact Hv.
Qed.

(* put of a value that is already there changes nothing *)
Lemma put_get_id_val p : forall x v pre k,
  get x p false k = (v, false) -> is_missing v = false -> put x p v pre = Some (v, x).
Proof.
  induction p as [|key rest IH]; intros x v pre k G Hv.
  - rewrite get_nil in G. injection G as <-. apply put_nil.
  - destruct (empty_path (key :: rest)) eqn:Hne.
    { destruct x; cbn [get] in G; rewrite Hne in G; injection G as <-; discriminate. }
    destruct x; try (rewrite get_scalar in G by (intros; congruence); injection G as <-; discriminate).
    + rewrite get_doc, Hne in G. destruct (lookup d key) as [y|] eqn:L.
      * rewrite put_doc, Hne, L. rewrite (IH _ _ pre _ G Hv). rewrite (get_source_not_missing _ _ _ _ _ _ G Hv).
        rewrite (lookup_replace_first_same _ _ _ L). reflexivity.
      * injection G as <-. discriminate.
    + rewrite get_arr, Hne in G. destruct (parse_index key) as [i|] eqn:PI.
      * destruct (nth_z a i) as [y|] eqn:N.
        -- pose proof (nth_z_bounds _ _ _ N) as B.
           rewrite put_arr, Hne, (parse_index_atoi _ _ PI).
           destruct (Z.ltb_spec i 0); [lia|]. destruct (Z.ltb_spec i (len a)); [|lia].
           rewrite N, (IH _ _ pre _ G Hv), (get_source_not_missing _ _ _ _ _ _ G Hv), (replace_nth_same _ _ _ N). reflexivity.
        -- injection G as <-. discriminate.
      * injection G as <-. discriminate.
Qed.

(* put twice = put once *)
Lemma put_put_same_val p : forall x nv pre old x',
  is_missing nv = false -> put x p nv pre = Some (old, x') -> put x' p nv pre = Some (nv, x').
Proof.
  induction p as [|key rest IH]; intros x nv pre old x' Hnv H.
  - rewrite put_nil in H. injection H as _ <-. apply put_nil.
  - pose proof (put_cons_not_empty _ _ _ _ _ _ H) as Hne.
    destruct (put_cons_shape _ _ _ _ _ _ H) as [[d ->]|[[a ->]| ->]].
    + rewrite put_doc, Hne in H. destruct (lookup d key) as [y|] eqn:L.
      * destruct (put y rest nv pre) as [[o y']|] eqn:P; [|discriminate].
        rewrite (put_result_not_missing _ _ _ _ _ _ Hnv P) in H. injection H as _ <-.
        rewrite put_doc, Hne, (lookup_replace_first_eq _ _ _ _ L), (IH _ _ _ _ _ Hnv P), (put_result_not_missing _ _ _ _ _ _ Hnv P).
        rewrite (lookup_replace_first_same _ _ _ (lookup_replace_first_eq _ _ _ _ L)). reflexivity.
      * rewrite Hnv in H. destruct (put_new rest nv) as [inner|] eqn:N; [|discriminate].
        injection H as _ <-. rewrite put_doc, Hne.
        destruct pre.
        -- cbn [lookup]. rewrite String.eqb_refl, (put_new_put _ _ _ _ Hnv N), (put_new_not_missing _ _ _ Hnv N).
           cbn [replace_first]. rewrite String.eqb_refl. reflexivity.
        -- rewrite (lookup_app_new _ _ _ L), (put_new_put _ _ _ _ Hnv N), (put_new_not_missing _ _ _ Hnv N).
           rewrite (lookup_replace_first_same _ _ _ (lookup_app_new _ _ _ L)). reflexivity.
    + rewrite put_arr, Hne in H. destruct (atoi key) as [i|] eqn:A; [|discriminate].
      destruct (Z.ltb_spec i 0); [discriminate|].
      destruct (Z.ltb_spec i (len a)).
      * destruct (nth_z a i) as [y|] eqn:N; [|discriminate].
        destruct (put y rest nv pre) as [[o y']|] eqn:P; [|discriminate].
        rewrite (put_result_not_missing _ _ _ _ _ _ Hnv P) in H. injection H as _ <-.
        rewrite put_arr, Hne, A. destruct (Z.ltb_spec i 0); [lia|].
        rewrite len_replace_nth. destruct (Z.ltb_spec i (len a)); [|lia].
        rewrite (nth_z_replace_eq _ _ _ _ N), (IH _ _ _ _ _ Hnv P), (put_result_not_missing _ _ _ _ _ _ Hnv P).
        rewrite (replace_nth_same _ _ _ (nth_z_replace_eq _ _ _ _ N)). reflexivity.
      * rewrite Hnv in H. destruct (max_array_backfill <? i - len _); [discriminate|].
        destruct (put_new rest nv) as [inner|] eqn:N; [|discriminate]. injection H as _ <-.
        set (a' := (a ++ repeat_null (Z.to_nat (i - len a)) ++ [inner])%list).
        assert (Ni : nth_z a' i = Some inner).
        { unfold a'. replace i with (len a + Z.of_nat (Z.to_nat (i - len a))) at 2 by lia. apply nth_z_pad_end. }
        pose proof (nth_z_bounds _ _ _ Ni) as B.
        rewrite put_arr, Hne, A. destruct (Z.ltb_spec i 0); [lia|]. destruct (Z.ltb_spec i (len a')); [|lia].
        rewrite Ni, (put_new_put _ _ _ _ Hnv N), (put_new_not_missing _ _ _ Hnv N), (replace_nth_same _ _ _ Ni). reflexivity.
    + rewrite put_missing, Hne, Hnv in H. destruct (put_new rest nv) as [inner|] eqn:N; [|discriminate].
      injection H as _ <-. rewrite put_doc, Hne. cbn [lookup]. rewrite String.eqb_refl.
      rewrite (put_new_put _ _ _ _ Hnv N), (put_new_not_missing _ _ _ Hnv N). cbn [replace_first]. rewrite String.eqb_refl. reflexivity.
Qed.

(* ------------------------------------------------------------------ *)
(* disjoint paths.  Two segments are separate when they differ as strings and
   do not denote the same array index ("1", "01" and "+1" are three strings
   but one index for Put).  Two paths are disjoint when, after a (possibly
   empty) common prefix, they continue with separate segments: neither is a
   prefix of the other, and they do not meet in one array element. *)

Definition seg_sep (s t : string) : Prop :=
  s <> t /\ forall i, atoi s = Some i -> atoi t <> Some i.

Fixpoint disjoint (p q : path) : Prop :=
  match p, q with
  | s :: p', t :: q' => (s = t /\ disjoint p' q') \/ seg_sep s t
  | _, _ => False
  end.

Lemma seg_sep_sym s t : seg_sep s t -> seg_sep t s.
Proof. intros [H1 H2]. split; [congruence|]. intros i Hi Hs. exact (H2 i Hs Hi). Qed.

Lemma disjoint_sym p : forall q, disjoint p q -> disjoint q p.
Proof.
  induction p as [|s p' IH]; intros [|t q'] H; try contradiction.
  cbn [disjoint] in *. destruct H as [[-> H]|H]; [left; split; [reflexivity | apply IH; exact H] | right; apply seg_sep_sym; exact H].
Qed.

Fixpoint is_prefix (p q : path) : Prop :=
  match p, q with
  | [], _ => True
  | s :: p', t :: q' => s = t /\ is_prefix p' q'
  | _ :: _, [] => False
  end.

(* disjoint paths are not prefixes of one another *)
Lemma disjoint_not_prefix p : forall q, disjoint p q -> ~ is_prefix p q /\ ~ is_prefix q p.
Proof.
  induction p as [|s p' IH]; intros [|t q'] H; try contradiction.
  cbn [disjoint is_prefix] in *. destruct H as [[-> H]|[H _]].
  - destruct (IH _ H) as [A B]. split; intros [_ C]; auto.
  - split; intros [C _]; congruence.
Qed.

Lemma disjoint_nonempty_l p q : disjoint p q -> p <> [].
Proof. destruct p; [contradiction | discriminate]. Qed.

(* a put below a container leaves a container *)
Lemma put_cons_result_not_missing x key rest nv pre old x' :
  put x (key :: rest) nv pre = Some (old, x') -> is_missing x' = false.
Proof.
  intro H. pose proof (put_cons_not_empty _ _ _ _ _ _ H) as Hne.
  destruct (put_cons_shape _ _ _ _ _ _ H) as [[d ->]|[[a ->]| ->]].
  - rewrite put_doc, Hne in H. destruct (lookup d key).
    + destruct (put v rest nv pre) as [[o y]|]; [|discriminate]. injection H as _ <-. reflexivity.
    + destruct (is_missing nv); [discriminate|]. destruct (put_new rest nv); [|discriminate]. injection H as _ <-. reflexivity.
  - rewrite put_arr, Hne in H. destruct (atoi key) as [i|]; [|discriminate].
    destruct (i <? 0); [discriminate|]. destruct (i <? len a).
    + destruct (nth_z a i); [|discriminate]. destruct (put v rest nv pre) as [[o y]|]; [|discriminate].
      injection H as _ <-. reflexivity.
    + destruct (is_missing nv); [discriminate|]. destruct (max_array_backfill <? i - len _); [discriminate|].
      destruct (put_new rest nv); [|discriminate]. injection H as _ <-. reflexivity.
  - rewrite put_missing, Hne in H. destruct (is_missing nv); [discriminate|].
    destruct (put_new rest nv); [|discriminate]. injection H as _ <-. reflexivity.
Qed.

(* frame: a write (or a removal, nv = VMissing) at p does not change what is
   read at a disjoint path q.  A write may pad an array with nulls up to a new
   index, so for writes the value at q must exist beforehand. *)
Lemma put_frame_val p : forall x q nv pre old x',
  put x p nv pre = Some (old, x') -> disjoint p q ->
  is_missing nv = true \/ is_missing (fst (get x q false false)) = false ->
  get x' q false false = get x q false false.
Proof.
  induction p as [|s p' IH]; intros x q nv pre old x' H D Hq; [contradiction|].
  destruct q as [|t q']; [contradiction|].
  pose proof (put_cons_not_empty _ _ _ _ _ _ H) as Hne.
  cbn [disjoint] in D.
  destruct (empty_path (t :: q')) eqn:Hqe; [rewrite !get_empty_path by assumption; reflexivity|].
  destruct (put_cons_shape _ _ _ _ _ _ H) as [[d ->]|[[a ->]| ->]].
  - (* document *)
    rewrite put_doc, Hne in H. rewrite get_doc, Hqe in Hq.
    destruct (lookup d s) as [y|] eqn:L.
    + destruct (put y p' nv pre) as [[o y']|] eqn:P; [|discriminate]. injection H as _ <-.
      rewrite !get_doc, Hqe.
      destruct D as [[<- D]|[Hst _]].
      * destruct p' as [|k r]; [contradiction|].
        rewrite (put_cons_result_not_missing _ _ _ _ _ _ _ P).
        rewrite (lookup_replace_first_eq _ _ _ _ L), L.
        eapply IH; eauto. rewrite L in Hq. exact Hq.
      * destruct (is_missing y').
        -- rewrite (lookup_remove_first_neq _ _ _ Hst). reflexivity.
        -- rewrite (lookup_replace_first_neq _ _ _ _ Hst). reflexivity.
    + destruct (is_missing nv) eqn:Hnv; [discriminate|].
      destruct (put_new p' nv) as [inner|]; [|discriminate]. injection H as _ <-.
      rewrite !get_doc, Hqe.
      destruct D as [[<- D]|[Hst _]].
      * exfalso. destruct Hq as [Hq|Hq]; [discriminate|]. rewrite L in Hq. discriminate.
      * destruct pre.
        -- cbn [lookup]. destruct (String.eqb_spec s t); [contradiction | reflexivity].
        -- rewrite (lookup_app_other _ _ _ _ Hst). reflexivity.
  - (* array *)
    rewrite put_arr, Hne in H. destruct (atoi s) as [i|] eqn:A; [|discriminate].
    destruct (Z.ltb_spec i 0); [discriminate|].
    rewrite get_arr, Hqe in Hq.
    destruct (Z.ltb_spec i (len a)).
    + destruct (nth_z a i) as [y|] eqn:N; [|discriminate].
      destruct (put y p' nv pre) as [[o y']|] eqn:P; [|discriminate]. injection H as _ <-.
      rewrite !get_arr, Hqe.
      destruct (parse_index t) as [j|] eqn:PJ; [|reflexivity].
      pose proof (parse_index_atoi _ _ PJ) as AJ.
      destruct D as [[<- D]|[_ Hsep]].
      * assert (j = i) by congruence. subst j.
        destruct p' as [|k r]; [contradiction|].
        rewrite (put_cons_result_not_missing _ _ _ _ _ _ _ P).
        rewrite (nth_z_replace_eq _ _ _ _ N), N. eapply IH; eauto.
        rewrite N in Hq. exact Hq.
      * rewrite nth_z_replace_neq; [reflexivity|]. intros ->. exact (Hsep _ A AJ).
    + destruct (is_missing nv) eqn:Hnv; [discriminate|].
      destruct (max_array_backfill <? i - len _); [discriminate|].
      destruct (put_new p' nv) as [inner|]; [|discriminate]. injection H as _ <-.
      rewrite !get_arr, Hqe.
      destruct (parse_index t) as [j|] eqn:PJ; [|reflexivity].
      destruct Hq as [Hq|Hq]; [discriminate|].
      destruct (nth_z a j) as [z|] eqn:NJ; [|discriminate].
      rewrite (nth_z_app_l _ _ _ _ NJ). reflexivity.
  - (* missing: nothing can be read below it *)
    rewrite put_missing, Hne in H. destruct (is_missing nv) eqn:Hnv; [discriminate|].
    exfalso. destruct Hq as [Hq|Hq]; [discriminate|].
    rewrite get_scalar in Hq by (intros; congruence). discriminate.
Qed.

(* reading a fresh chain at a disjoint path finds nothing *)
Lemma put_new_get_disjoint p : forall q nv x,
  put_new p nv = Some x -> disjoint p q -> fst (get x q false false) = VMissing.
Proof.
  induction p as [|s r IH]; intros q nv x H D; [contradiction|].
  destruct q as [|t q']; [contradiction|].
  destruct (put_new_cons _ _ _ _ H) as (Hne & inner & Hi & ->).
  destruct (empty_path (t :: q')) eqn:Hqe; [rewrite get_empty_path by assumption; reflexivity|].
  rewrite get_doc, Hqe. cbn [lookup disjoint] in *.
  destruct D as [[<- D]|[Hst _]].
  - rewrite String.eqb_refl. eapply IH; eauto.
  - destruct (String.eqb_spec s t); [contradiction | reflexivity].
Qed.

Lemma get_null q c k : fst (get VNull q c k) = VMissing \/ fst (get VNull q c k) = VNull.
Proof.
  destruct q as [|t q']; [right; reflexivity|]. left. rewrite get_scalar by (intros; congruence). reflexivity.
Qed.

Lemma nth_z_pad_mid a n x j :
  len a <= j < len a + Z.of_nat n -> nth_z (a ++ repeat_null n ++ [x]) j = Some VNull.
Proof.
  intro H. rewrite nth_z_app_r by lia.
  destruct (nth_z_in_range (repeat_null n) (j - len a)) as [y Hy]; [rewrite len_repeat_null; lia|].
  rewrite (nth_z_app_l _ _ _ _ Hy). rewrite (nth_z_repeat_null _ _ _ Hy). reflexivity.
Qed.

Lemma nth_z_pad_beyond a n x j :
  len a + Z.of_nat n < j -> nth_z (a ++ repeat_null n ++ [x]) j = None.
Proof.
  intro H. apply nth_z_none. rewrite !len_app, len_repeat_null. change (len [x]) with 1. lia.
Qed.

(* frame where nothing was readable: still nothing, or the null padding *)
Lemma put_frame_missing_val p : forall x q nv pre old x',
  put x p nv pre = Some (old, x') -> disjoint p q -> is_missing nv = false ->
  fst (get x q false false) = VMissing ->
  fst (get x' q false false) = VMissing \/ fst (get x' q false false) = VNull.
Proof.
  induction p as [|s p' IH]; intros x q nv pre old x' H D Hnv G; [contradiction|].
  destruct q as [|t q']; [contradiction|].
  pose proof (put_cons_not_empty _ _ _ _ _ _ H) as Hne.
  cbn [disjoint] in D.
  destruct (empty_path (t :: q')) eqn:Hqe; [left; rewrite get_empty_path by assumption; reflexivity|].
  destruct (put_cons_shape _ _ _ _ _ _ H) as [[d ->]|[[a ->]| ->]].
  - rewrite put_doc, Hne in H. rewrite get_doc, Hqe in G.
    destruct (lookup d s) as [y|] eqn:L.
    + destruct (put y p' nv pre) as [[o y']|] eqn:P; [|discriminate]. injection H as _ <-.
      rewrite (put_result_not_missing _ _ _ _ _ _ Hnv P). rewrite get_doc, Hqe.
      destruct D as [[<- D]|[Hst _]].
      * rewrite (lookup_replace_first_eq _ _ _ _ L). rewrite L in G. eapply IH; eauto.
      * rewrite (lookup_replace_first_neq _ _ _ _ Hst). left. exact G.
    + rewrite Hnv in H. destruct (put_new p' nv) as [inner|] eqn:N; [|discriminate]. injection H as _ <-.
      rewrite get_doc, Hqe.
      destruct D as [[<- D]|[Hst _]].
      * left. destruct pre.
        -- cbn [lookup]. rewrite String.eqb_refl. eapply put_new_get_disjoint; eauto.
        -- rewrite (lookup_app_new _ _ _ L). eapply put_new_get_disjoint; eauto.
      * left. destruct pre.
        -- cbn [lookup]. destruct (String.eqb_spec s t); [contradiction | exact G].
        -- rewrite (lookup_app_other _ _ _ _ Hst). exact G.
  - rewrite put_arr, Hne in H. destruct (atoi s) as [i|] eqn:A; [|discriminate].
    destruct (Z.ltb_spec i 0); [discriminate|].
    rewrite get_arr, Hqe in G.
    destruct (Z.ltb_spec i (len a)).
    + destruct (nth_z a i) as [y|] eqn:N; [|discriminate].
      destruct (put y p' nv pre) as [[o y']|] eqn:P; [|discriminate]. injection H as _ <-.
      rewrite (put_result_not_missing _ _ _ _ _ _ Hnv P). rewrite get_arr, Hqe.
      destruct (parse_index t) as [j|] eqn:PJ; [|left; reflexivity].
      pose proof (parse_index_atoi _ _ PJ) as AJ.
      destruct D as [[<- D]|[_ Hsep]].
      * assert (j = i) by congruence. subst j.
        rewrite (nth_z_replace_eq _ _ _ _ N). rewrite N in G. eapply IH; eauto.
      * rewrite nth_z_replace_neq; [left; exact G|]. intros ->. exact (Hsep _ A AJ).
    + rewrite Hnv in H. destruct (max_array_backfill <? i - len _); [discriminate|].
      destruct (put_new p' nv) as [inner|] eqn:N; [|discriminate]. injection H as _ <-.
      rewrite get_arr, Hqe.
      destruct (parse_index t) as [j|] eqn:PJ; [|left; reflexivity].
      pose proof (parse_index_atoi _ _ PJ) as AJ. pose proof (parse_index_nonneg _ _ PJ).
      set (n := Z.to_nat (i - len a)). assert (Hi : i = len a + Z.of_nat n) by (unfold n; lia).
      destruct D as [[<- D]|[_ Hsep]].
      * assert (j = i) by congruence. subst j. rewrite Hi at 1. rewrite nth_z_pad_end.
        left. eapply put_new_get_disjoint; eauto.
      * assert (j <> i) by (intros ->; exact (Hsep _ A AJ)).
        destruct (Z.ltb_spec j (len a)).
        -- destruct (nth_z_in_range a j) as [z Hz]; [lia|]. rewrite (nth_z_app_l _ _ _ _ Hz).
           rewrite Hz in G. left. exact G.
        -- destruct (Z.ltb_spec j i).
           ++ rewrite nth_z_pad_mid by lia. apply get_null.
           ++ rewrite nth_z_pad_beyond by lia. left. reflexivity.
  - rewrite put_missing, Hne, Hnv in H. destruct (put_new p' nv) as [inner|] eqn:N; [|discriminate].
    injection H as _ <-. rewrite get_doc, Hqe. cbn [lookup]. left.
    destruct D as [[<- D]|[Hst _]].
    + rewrite String.eqb_refl. eapply put_new_get_disjoint; eauto.
    + destruct (String.eqb_spec s t); [contradiction | reflexivity].
Qed.

(* ------------------------------------------------------------------ *)
(* removal *)

Inductive uniq_keys : value -> Prop :=
| uk_doc d : NoDup (map fst d) -> Forall (fun kv => uniq_keys (snd kv)) d -> uniq_keys (VDoc d)
| uk_arr a : Forall uniq_keys a -> uniq_keys (VArr a)
| uk_other v : (forall d, v <> VDoc d) -> (forall a, v <> VArr a) -> uniq_keys v.

Lemma uniq_keys_doc d : uniq_keys (VDoc d) -> NoDup (map fst d) /\ Forall (fun kv => uniq_keys (snd kv)) d.
Proof. intro H. inversion H; subst; [auto|]. exfalso. eapply H0. reflexivity. Qed.

Lemma uniq_keys_arr a : uniq_keys (VArr a) -> Forall uniq_keys a.
Proof. intro H. inversion H; subst; [auto|]. exfalso. eapply H1. reflexivity. Qed.

Lemma lookup_in d : forall k x, lookup d k = Some x -> In (k, x) d.
Proof.
  induction d as [|[k' y] t IH]; intros k x H; [discriminate|].
  cbn [lookup] in H. destruct (String.eqb_spec k' k).
  - left. congruence.
  - right. apply IH. exact H.
Qed.

Lemma lookup_none_notin d : forall k, lookup d k = None <-> ~ In k (map fst d).
Proof.
  induction d as [|[k' y] t IH]; intro k; cbn [lookup map fst In].
  - split; auto.
  - destruct (String.eqb_spec k' k).
    + split; [discriminate | intro H; exfalso; apply H; left; exact e].
    + rewrite IH. split; [intros H [E|E]; [contradiction | auto] | intros H E; apply H; right; exact E].
Qed.

Lemma lookup_remove_first_nodup d : forall k, NoDup (map fst d) -> lookup (remove_first k d) k = None.
Proof.
  induction d as [|[k' y] t IH]; intros k ND; [reflexivity|].
  cbn [remove_first]. inversion ND; subst. destruct (String.eqb_spec k' k).
  - subst. apply lookup_none_notin. assumption.
  - cbn [lookup]. destruct (String.eqb_spec k' k); [contradiction|]. apply IH. assumption.
Qed.

Lemma nth_z_in a : forall i x, nth_z a i = Some x -> In x a.
Proof.
  induction a as [|y t IH]; intros i x H; [discriminate|].
  cbn [nth_z] in H. destruct (i =? 0); [left; congruence | right; eapply IH; exact H].
Qed.

(* a removal that cannot be carried out: nothing is readable there either *)
Lemma put_missing_none_get p : forall x pre,
  put x p VMissing pre = None -> fst (get x p false false) = VMissing.
Proof.
  induction p as [|s p' IH]; intros x pre H; [rewrite put_nil in H; discriminate|].
  destruct x; try (rewrite get_scalar by (intros; congruence); reflexivity).
  - rewrite put_doc in H. rewrite get_doc. destruct (empty_path (s :: p')); [reflexivity|].
    destruct (lookup d s) as [y|]; [|reflexivity].
    destruct (put y p' VMissing pre) as [[o y']|] eqn:P; [discriminate|]. eapply IH; exact P.
  - rewrite put_arr in H. rewrite get_arr. destruct (empty_path (s :: p')); [reflexivity|].
    destruct (parse_index s) as [j|] eqn:PJ; [|reflexivity].
    rewrite (parse_index_atoi _ _ PJ) in H. pose proof (parse_index_nonneg _ _ PJ).
    destruct (Z.ltb_spec j 0); [lia|].
    destruct (Z.ltb_spec j (len a)).
    + destruct (nth_z a j) as [y|]; [|reflexivity].
      destruct (put y p' VMissing pre) as [[o y']|] eqn:P; [discriminate|]. eapply IH; exact P.
    + rewrite nth_z_none by lia. reflexivity.
Qed.

(* after a removal the path reads Missing (document field) or null (array slot) *)
Lemma get_after_remove_val p : forall x pre old x',
  uniq_keys x -> p <> [] -> put x p VMissing pre = Some (old, x') ->
  fst (get x' p false false) = VMissing \/ fst (get x' p false false) = VNull.
Proof.
  induction p as [|s p' IH]; intros x pre old x' U Hp H; [congruence|].
  pose proof (put_cons_not_empty _ _ _ _ _ _ H) as Hne.
  destruct (put_cons_shape _ _ _ _ _ _ H) as [[d ->]|[[a ->]| ->]].
  - destruct (uniq_keys_doc _ U) as [ND FA].
    rewrite put_doc, Hne in H. destruct (lookup d s) as [y|] eqn:L; [|discriminate].
    destruct (put y p' VMissing pre) as [[o y']|] eqn:P; [|discriminate]. injection H as _ <-.
    rewrite get_doc, Hne. destruct p' as [|k r].
    + rewrite put_nil in P. injection P as _ <-. cbn [is_missing].
      rewrite (lookup_remove_first_nodup _ _ ND). left; reflexivity.
    + rewrite (put_cons_result_not_missing _ _ _ _ _ _ _ P), (lookup_replace_first_eq _ _ _ _ L).
      eapply IH; [|discriminate|exact P].
      rewrite Forall_forall in FA. exact (FA _ (lookup_in _ _ _ L)).
  - pose proof (uniq_keys_arr _ U) as FA.
    rewrite put_arr, Hne in H. destruct (atoi s) as [i|] eqn:A; [|discriminate].
    destruct (Z.ltb_spec i 0); [discriminate|].
    destruct (Z.ltb_spec i (len a)); [|discriminate].
    destruct (nth_z a i) as [y|] eqn:N; [|discriminate].
    destruct (put y p' VMissing pre) as [[o y']|] eqn:P; [|discriminate]. injection H as _ <-.
    rewrite get_arr, Hne. destruct (parse_index s) as [j|] eqn:PJ; [|left; reflexivity].
    rewrite (parse_index_atoi _ _ PJ) in A. injection A as ->.
    destruct p' as [|k r].
    + rewrite put_nil in P. injection P as _ <-. cbn [is_missing].
      rewrite (nth_z_replace_eq _ _ _ _ N). rewrite get_nil. right; reflexivity.
    + rewrite (put_cons_result_not_missing _ _ _ _ _ _ _ P), (nth_z_replace_eq _ _ _ _ N).
      eapply IH; [|discriminate|exact P].
      rewrite Forall_forall in FA. exact (FA _ (nth_z_in _ _ _ N)).
  - rewrite put_missing, Hne in H. discriminate.
Qed.

(* removing twice = removing once *)
Lemma remove_twice_val p : forall x pre old x',
  uniq_keys x -> p <> [] -> put x p VMissing pre = Some (old, x') ->
  put x' p VMissing pre = None \/ exists o, put x' p VMissing pre = Some (o, x').
Proof.
  induction p as [|s p' IH]; intros x pre old x' U Hp H; [congruence|].
  pose proof (put_cons_not_empty _ _ _ _ _ _ H) as Hne.
  destruct (put_cons_shape _ _ _ _ _ _ H) as [[d ->]|[[a ->]| ->]].
  - destruct (uniq_keys_doc _ U) as [ND FA].
    rewrite put_doc, Hne in H. destruct (lookup d s) as [y|] eqn:L; [|discriminate].
    destruct (put y p' VMissing pre) as [[o y']|] eqn:P; [|discriminate]. injection H as _ <-.
    rewrite put_doc, Hne. destruct p' as [|k r].
    + rewrite put_nil in P. injection P as _ <-. cbn [is_missing].
      rewrite (lookup_remove_first_nodup _ _ ND). left; reflexivity.
    + rewrite (put_cons_result_not_missing _ _ _ _ _ _ _ P), (lookup_replace_first_eq _ _ _ _ L).
      assert (Uy : uniq_keys y) by (rewrite Forall_forall in FA; exact (FA _ (lookup_in _ _ _ L))).
      destruct (IH _ _ _ _ Uy ltac:(discriminate) P) as [E|[o' E]]; rewrite E; [left; reflexivity|].
      right. exists o'. rewrite (put_cons_result_not_missing _ _ _ _ _ _ _ P).
      rewrite (lookup_replace_first_same _ _ _ (lookup_replace_first_eq _ _ _ _ L)). reflexivity.
  - pose proof (uniq_keys_arr _ U) as FA.
    rewrite put_arr, Hne in H. destruct (atoi s) as [i|] eqn:A; [|discriminate].
    destruct (Z.ltb_spec i 0); [discriminate|].
    destruct (Z.ltb_spec i (len a)); [|discriminate].
    destruct (nth_z a i) as [y|] eqn:N; [|discriminate].
    destruct (put y p' VMissing pre) as [[o y']|] eqn:P; [|discriminate]. injection H as _ <-.
    rewrite put_arr, Hne, A. destruct (Z.ltb_spec i 0); [lia|].
    rewrite len_replace_nth. destruct (Z.ltb_spec i (len a)); [|lia].
    destruct p' as [|k r].
    + rewrite put_nil in P. injection P as _ <-. cbn [is_missing].
      rewrite (nth_z_replace_eq _ _ _ _ N), put_nil. cbn [is_missing].
      right. exists VNull. rewrite (replace_nth_same _ _ _ (nth_z_replace_eq _ _ _ _ N)). reflexivity.
    + rewrite (put_cons_result_not_missing _ _ _ _ _ _ _ P), (nth_z_replace_eq _ _ _ _ N).
      assert (Uy : uniq_keys y) by (rewrite Forall_forall in FA; exact (FA _ (nth_z_in _ _ _ N))).
      destruct (IH _ _ _ _ Uy ltac:(discriminate) P) as [E|[o' E]]; rewrite E; [left; reflexivity|].
      right. exists o'. rewrite (put_cons_result_not_missing _ _ _ _ _ _ _ P).
      rewrite (replace_nth_same _ _ _ (nth_z_replace_eq _ _ _ _ N)). reflexivity.
  - rewrite put_missing, Hne in H. discriminate.
Qed.

(* ------------------------------------------------------------------ *)
(* the theorems on documents (bsonkit.Get / Put / Unset on segment lists;
   the string API is `Get d s = get_path d (split_path s)` etc.) *)

Lemma is_missing_false v : is_missing v = false <-> v <> VMissing.
Proof. destruct v; cbn; split; congruence. Qed.

Lemma put_path_ok d p v pre old d' :
  put_path d p v pre = Ok (old, d') ->
  is_missing v = false /\ put (VDoc d) p v pre = Some (old, VDoc d').
Proof.
  unfold put_path. destruct (is_missing v); [discriminate|].
  destruct (put (VDoc d) p v pre) as [[o x]|]; [|discriminate].
  destruct x; try discriminate. intro H. injection H as -> ->. auto.
Qed.

(* what was written is what is read back (canonical index segments) *)
Theorem get_put_same d p v pre old d' :
  canon_path p -> put_path d p v pre = Ok (old, d') -> get_path d' p = v.
Proof.
  intros C H. destruct (put_path_ok _ _ _ _ _ _ H) as [Hv P].
  unfold get_path. rewrite (get_put_same_val _ _ _ _ _ _ C Hv P). reflexivity.
Qed.

(* a write leaves every existing value at a disjoint path alone *)
Theorem get_put_frame d p q v pre old d' :
  disjoint p q -> put_path d p v pre = Ok (old, d') ->
  get_path d q <> VMissing -> get_path d' q = get_path d q.
Proof.
  intros D H G. destruct (put_path_ok _ _ _ _ _ _ H) as [Hv P].
  unfold get_path in *. rewrite (put_frame_val _ _ _ _ _ _ _ P D); [reflexivity|].
  right. apply is_missing_false. exact G.
Qed.

(* ... and where nothing was readable, the only thing that can appear is the
   null padding of an array extended up to a new index *)
Theorem get_put_frame_missing d p q v pre old d' :
  disjoint p q -> put_path d p v pre = Ok (old, d') ->
  get_path d q = VMissing -> get_path d' q = VMissing \/ get_path d' q = VNull.
Proof.
  intros D H G. destruct (put_path_ok _ _ _ _ _ _ H) as [Hv P].
  exact (put_frame_missing_val _ _ _ _ _ _ _ P D Hv G).
Qed.

(* writing the same value again changes nothing *)
Theorem put_put_same d p v pre old d1 :
  put_path d p v pre = Ok (old, d1) -> put_path d1 p v pre = Ok (v, d1).
Proof.
  intro H. destruct (put_path_ok _ _ _ _ _ _ H) as [Hv P].
  unfold put_path. rewrite Hv, (put_put_same_val _ _ _ _ _ _ Hv P). reflexivity.
Qed.

(* writing the value that is already there changes nothing *)
Theorem put_get_id d p v pre :
  get_path d p = v -> v <> VMissing -> put_path d p v pre = Ok (v, d).
Proof.
  intros G Hv. apply is_missing_false in Hv. unfold put_path, get_path in *. rewrite Hv.
  destruct (get (VDoc d) p false false) as [w n] eqn:E. cbn in G. subst w.
  assert (n = false).
  { clear Hv. revert E. generalize (VDoc d). induction p as [|s r IH]; intros x E.
    - rewrite get_nil in E. congruence.
    - destruct (empty_path (s :: r)) eqn:Hne; [rewrite get_empty_path in E by assumption; congruence|].
      destruct x; try (rewrite get_scalar in E by (intros; congruence); congruence).
      + rewrite get_doc, Hne in E. destruct (lookup d0 s); [eapply IH; exact E | congruence].
      + rewrite get_arr, Hne in E. destruct (parse_index s); [|congruence].
        destruct (nth_z a z); [eapply IH; exact E | congruence]. }
  subst n. rewrite (put_get_id_val _ _ _ pre _ E Hv). reflexivity.
Qed.

Lemma map_fst_replace_first k x d : map fst (replace_first k x d) = map fst d.
Proof.
  induction d as [|[k' y] t IH]; [reflexivity|]. cbn [replace_first].
  destruct (String.eqb k' k); cbn [map fst]; [reflexivity | rewrite IH; reflexivity].
Qed.

Lemma nth_error_replace_first k x d : forall n k' y,
  nth_error d n = Some (k', y) -> k' <> k -> nth_error (replace_first k x d) n = Some (k', y).
Proof.
  induction d as [|[k0 z] t IH]; intros n k' y H Hk; [destruct n; discriminate|].
  cbn [replace_first]. destruct (String.eqb_spec k0 k).
  - destruct n; cbn in *; [congruence | exact H].
  - destruct n; cbn in *; [exact H | eapply IH; eauto].
Qed.

(* top-level fields keep their position: an existing key is updated in place,
   a new key is appended at the end *)
Theorem put_preserves_order d key rest v old d' :
  put_path d (key :: rest) v false = Ok (old, d') ->
  (lookup d key <> None /\ map fst d' = map fst d) \/
  (lookup d key = None /\ map fst d' = (map fst d ++ [key])%list).
Proof.
  intro H. destruct (put_path_ok _ _ _ _ _ _ H) as [Hv P].
  pose proof (put_cons_not_empty _ _ _ _ _ _ P) as Hne.
  rewrite put_doc, Hne in P. destruct (lookup d key) as [y|] eqn:L.
  - left. split; [discriminate|].
    destruct (put y rest v false) as [[o y']|] eqn:Q; [|discriminate].
    rewrite (put_result_not_missing _ _ _ _ _ _ Hv Q) in P. injection P as _ <-.
    apply map_fst_replace_first.
  - right. split; [reflexivity|]. rewrite Hv in P.
    destruct (put_new rest v); [|discriminate]. injection P as _ <-.
    rewrite map_app. reflexivity.
Qed.

(* ... and every other top-level field keeps position and value *)
Theorem put_other_fields d key rest v old d' n k x :
  put_path d (key :: rest) v false = Ok (old, d') ->
  nth_error d n = Some (k, x) -> k <> key -> nth_error d' n = Some (k, x).
Proof.
  intros H N Hk. destruct (put_path_ok _ _ _ _ _ _ H) as [Hv P].
  pose proof (put_cons_not_empty _ _ _ _ _ _ P) as Hne.
  rewrite put_doc, Hne in P. destruct (lookup d key) as [y|] eqn:L.
  - destruct (put y rest v false) as [[o y']|] eqn:Q; [|discriminate].
    rewrite (put_result_not_missing _ _ _ _ _ _ Hv Q) in P. injection P as _ <-.
    apply nth_error_replace_first; assumption.
  - rewrite Hv in P. destruct (put_new rest v); [|discriminate]. injection P as _ <-.
    rewrite nth_error_app1; [exact N|]. apply nth_error_Some. congruence.
Qed.

(* removal *)

Lemma unset_path_cases d p old d' :
  unset_path d p = (old, d') ->
  (put (VDoc d) p VMissing false = Some (old, VDoc d')) \/
  (old = VMissing /\ d' = d).
Proof.
  unfold unset_path. destruct (put (VDoc d) p VMissing false) as [[o x]|] eqn:P.
  - destruct x; intro H; injection H as <- <-; auto.
  - intro H; injection H as <- <-; auto.
Qed.

Lemma unset_path_changed d p old d' :
  unset_path d p = (old, d') -> p <> [] ->
  (put (VDoc d) p VMissing false = Some (old, VDoc d')) \/
  (put (VDoc d) p VMissing false = None /\ old = VMissing /\ d' = d).
Proof.
  unfold unset_path. intros H Hp. destruct p as [|s r]; [congruence|].
  destruct (put (VDoc d) (s :: r) VMissing false) as [[o x]|] eqn:P.
  - pose proof (put_cons_result_not_missing _ _ _ _ _ _ _ P) as M.
    pose proof (put_cons_not_empty _ _ _ _ _ _ P) as Hne.
    rewrite put_doc, Hne in P. destruct (lookup d s); [|discriminate].
    destruct (put v r VMissing false) as [[o' y']|]; [|discriminate].
    injection P as <- <-. injection H as <- <-. auto.
  - injection H as <- <-. auto.
Qed.

(* after Unset the path reads Missing (a removed field) or null (an array
   slot is nulled, not removed) *)
Theorem unset_get d p old d' :
  uniq_keys (VDoc d) -> p <> [] -> unset_path d p = (old, d') ->
  get_path d' p = VMissing \/ get_path d' p = VNull.
Proof.
  intros U Hp H. destruct (unset_path_changed _ _ _ _ H Hp) as [P|(P & _ & ->)].
  - exact (get_after_remove_val _ _ _ _ _ U Hp P).
  - left. exact (put_missing_none_get _ _ _ P).
Qed.

(* Unset leaves every disjoint path alone *)
Theorem unset_frame d p q old d' :
  disjoint p q -> unset_path d p = (old, d') -> get_path d' q = get_path d q.
Proof.
  intros D H. destruct (unset_path_cases _ _ _ _ H) as [P|[_ ->]]; [|reflexivity].
  unfold get_path. rewrite (put_frame_val _ _ _ _ _ _ _ P D); [reflexivity|]. left; reflexivity.
Qed.

(* Unset twice = Unset once *)
Theorem unset_unset_same d p old d1 :
  uniq_keys (VDoc d) -> p <> [] -> unset_path d p = (old, d1) -> snd (unset_path d1 p) = d1.
Proof.
  intros U Hp H. destruct (unset_path_changed _ _ _ _ H Hp) as [P|(P & _ & ->)].
  - unfold unset_path. destruct (remove_twice_val _ _ _ _ _ U Hp P) as [E|[o E]]; rewrite E; reflexivity.
  - unfold unset_path. rewrite P. reflexivity.
Qed.

(* Unset returns what Get read (canonical index segments) *)
Theorem unset_returns_old d p old d' :
  unset_path d p = (old, d') -> old <> VMissing -> canon_path p -> get_path d p = old.
Proof.
  intros H Ho C. destruct (unset_path_cases _ _ _ _ H) as [P|[-> _]]; [|congruence].
  clear H. unfold get_path. revert P. generalize (VDoc d') as x'. generalize (VDoc d) as x.
  induction p as [|s r IH]; intros x x' P.
  - rewrite put_nil in P. injection P as <- _. rewrite get_nil. reflexivity.
  - inversion C as [|? ? Hs Hr]; subst.
    pose proof (put_cons_not_empty _ _ _ _ _ _ P) as Hne.
    destruct (put_cons_shape _ _ _ _ _ _ P) as [[e ->]|[[a ->]| ->]].
    + rewrite put_doc, Hne in P. rewrite get_doc, Hne. destruct (lookup e s); [|discriminate].
      destruct (put v r VMissing false) as [[o y']|] eqn:Q; [|discriminate]. injection P as <- _.
      eapply IH; eauto.
    + rewrite put_arr, Hne in P. rewrite get_arr, Hne. red in Hs. rewrite <- Hs.
      destruct (atoi s) as [i|]; [|discriminate]. destruct (i <? 0); [discriminate|].
      destruct (i <? len a); [|discriminate]. destruct (nth_z a i); [|discriminate].
      destruct (put v r VMissing false) as [[o y']|] eqn:Q; [|discriminate]. injection P as <- _.
      eapply IH; eauto.
    + rewrite put_missing, Hne in P. discriminate.
Qed.

(* ------------------------------------------------------------------ *)
(* field paths: no segment reads as an array index.  Writes along a field path
   never touch (or pad) an array, so the frame property is unconditional. *)

Definition field_path (p : path) : Prop := Forall (fun s => atoi s = None) p.

Lemma field_path_canon p : field_path p -> canon_path p.
Proof.
  unfold field_path, canon_path. intro H. eapply Forall_impl; [|exact H].
  intros s Hs. cbv beta in Hs. red. destruct (parse_index s) as [i|] eqn:E; [|exact Hs].
  rewrite (parse_index_atoi _ _ E) in Hs. discriminate.
Qed.

Lemma get_nocollect_flag p : forall x k, snd (get x p false k) = false.
Proof.
  induction p as [|s r IH]; intros x k; [rewrite get_nil; reflexivity|].
  destruct (empty_path (s :: r)) eqn:Hne; [rewrite get_empty_path by assumption; reflexivity|].
  destruct x; try (rewrite get_scalar by (intros; congruence); reflexivity).
  - rewrite get_doc, Hne. destruct (lookup d s); [apply IH | reflexivity].
  - rewrite get_arr, Hne. destruct (parse_index s); [|reflexivity].
    destruct (nth_z a z); [apply IH | reflexivity].
Qed.

Lemma get_pair_eq x y p q k :
  fst (get x p false k) = fst (get y q false k) -> get x p false k = get y q false k.
Proof.
  intro H. pose proof (get_nocollect_flag p x k). pose proof (get_nocollect_flag q y k).
  destruct (get x p false k), (get y q false k). cbn in *. congruence.
Qed.

Lemma get_missing_pair x q k : fst (get x q false k) = VMissing -> get x q false k = (VMissing, false).
Proof.
  intro H. pose proof (get_nocollect_flag q x k). destruct (get x q false k). cbn in *. congruence.
Qed.

Lemma put_frame_field_val p : forall x q nv pre old x',
  field_path p -> put x p nv pre = Some (old, x') -> disjoint p q ->
  get x' q false false = get x q false false.
Proof.
  induction p as [|s p' IH]; intros x q nv pre old x' F H D; [contradiction|].
  destruct q as [|t q']; [contradiction|].
  inversion F as [|? ? Fs Fp]; subst.
  pose proof (put_cons_not_empty _ _ _ _ _ _ H) as Hne.
  cbn [disjoint] in D.
  destruct (empty_path (t :: q')) eqn:Hqe; [rewrite !get_empty_path by assumption; reflexivity|].
  destruct (put_cons_shape _ _ _ _ _ _ H) as [[d ->]|[[a ->]| ->]].
  - rewrite put_doc, Hne in H.
    destruct (lookup d s) as [y|] eqn:L.
    + destruct (put y p' nv pre) as [[o y']|] eqn:P; [|discriminate]. injection H as _ <-.
      rewrite !get_doc, Hqe.
      destruct D as [[<- D]|[Hst _]].
      * destruct p' as [|k r]; [contradiction|].
        rewrite (put_cons_result_not_missing _ _ _ _ _ _ _ P).
        rewrite (lookup_replace_first_eq _ _ _ _ L), L. eapply IH; eauto.
      * destruct (is_missing y').
        -- rewrite (lookup_remove_first_neq _ _ _ Hst). reflexivity.
        -- rewrite (lookup_replace_first_neq _ _ _ _ Hst). reflexivity.
    + destruct (is_missing nv) eqn:Hnv; [discriminate|].
      destruct (put_new p' nv) as [inner|] eqn:N; [|discriminate]. injection H as _ <-.
      rewrite !get_doc, Hqe.
      destruct D as [[<- D]|[Hst _]].
      * rewrite L. destruct pre.
        -- cbn [lookup]. rewrite String.eqb_refl. apply get_missing_pair. eapply put_new_get_disjoint; eauto.
        -- rewrite (lookup_app_new _ _ _ L). apply get_missing_pair. eapply put_new_get_disjoint; eauto.
      * destruct pre.
        -- cbn [lookup]. destruct (String.eqb_spec s t); [contradiction | reflexivity].
        -- rewrite (lookup_app_other _ _ _ _ Hst). reflexivity.
  - rewrite put_arr, Hne, Fs in H. discriminate.
  - rewrite put_missing, Hne in H. destruct (is_missing nv) eqn:Hnv; [discriminate|].
    destruct (put_new p' nv) as [inner|] eqn:N; [|discriminate]. injection H as _ <-.
    rewrite get_doc, Hqe. rewrite (get_scalar VMissing) by (intros; congruence).
    cbn [lookup].
    destruct D as [[<- D]|[Hst _]].
    + rewrite String.eqb_refl. apply get_missing_pair. eapply put_new_get_disjoint; eauto.
    + destruct (String.eqb_spec s t); [contradiction | reflexivity].
Qed.

(* a write along a field path leaves every disjoint path alone, readable or not *)
Theorem get_put_frame_field d p q v pre old d' :
  field_path p -> disjoint p q -> put_path d p v pre = Ok (old, d') -> get_path d' q = get_path d q.
Proof.
  intros F D H. destruct (put_path_ok _ _ _ _ _ _ H) as [Hv P].
  unfold get_path. rewrite (put_frame_field_val _ _ _ _ _ _ _ F P D). reflexivity.
Qed.
