(* OrderLaws.v — generic facts about comparison functions: the five laws of a
   total preorder stated "at a point", and their closure under lexicographic
   lists, pairs and projections. *)
From Coq Require Import List ZArith Lia.
From Lungo.Model Require Import Compare.
Import ListNotations.

Section Laws.
  Context {A : Type} (cmp : A -> A -> comparison).

  (* the laws at a, against arguments taken from a subset S *)
  Record laws_in (S : A -> Prop) (a : A) : Prop := {
    l_refl : cmp a a = Eq;
    l_anti : forall b, S b -> cmp b a = CompOpp (cmp a b);
    l_eql : forall b c, S b -> S c -> cmp a b = Eq -> cmp a c = cmp b c;
    l_trans : forall b c, S b -> S c -> cmp a b = Lt -> cmp b c = Lt -> cmp a c = Lt;
    l_eqr : forall b c, S b -> S c -> cmp b c = Eq -> cmp a b = cmp a c
  }.

  Definition laws_at (a : A) : Prop := laws_in (fun _ => True) a.
  Definition total_laws : Prop := forall a, laws_at a.
End Laws.

Lemma CompOpp_eq_iff c d : CompOpp c = d <-> c = CompOpp d.
Proof. destruct c, d; simpl; split; congruence. Qed.

(* ---------------------------------------------------------------- *)
(* consequences of the laws holding everywhere *)

Section Consequences.
  Context {A : Type} (cmp : A -> A -> comparison) (T : total_laws cmp).

  Lemma tl_refl a : cmp a a = Eq.
  Proof. apply T. Qed.

  Lemma tl_anti a b : cmp b a = CompOpp (cmp a b).
  Proof. apply T; exact I. Qed.

  Lemma tl_eql a b c : cmp a b = Eq -> cmp a c = cmp b c.
  Proof. apply T; exact I. Qed.

  Lemma tl_eqr a b c : cmp b c = Eq -> cmp a b = cmp a c.
  Proof. apply T; exact I. Qed.

  Lemma tl_lt_trans a b c : cmp a b = Lt -> cmp b c = Lt -> cmp a c = Lt.
  Proof. apply T; exact I. Qed.

  Lemma tl_eq_sym a b : cmp a b = Eq -> cmp b a = Eq.
  Proof. intro H. rewrite tl_anti, H. reflexivity. Qed.

  Lemma tl_eq_trans a b c : cmp a b = Eq -> cmp b c = Eq -> cmp a c = Eq.
  Proof. intros H1 H2. rewrite (tl_eql _ _ c H1). exact H2. Qed.

  Lemma tl_gt_trans a b c : cmp a b = Gt -> cmp b c = Gt -> cmp a c = Gt.
  Proof.
    intros H1 H2.
    assert (Hcb : cmp c b = Lt) by (rewrite tl_anti, H2; reflexivity).
    assert (Hba : cmp b a = Lt) by (rewrite tl_anti, H1; reflexivity).
    pose proof (tl_lt_trans _ _ _ Hcb Hba) as H.
    rewrite tl_anti, H. reflexivity.
  Qed.

  (* "not greater" is transitive *)
  Lemma tl_le_trans a b c : cmp a b <> Gt -> cmp b c <> Gt -> cmp a c <> Gt.
  Proof.
    intros H1 H2.
    destruct (cmp a b) eqn:Eab; [| |congruence].
    - rewrite (tl_eql _ _ c Eab). exact H2.
    - destruct (cmp b c) eqn:Ebc; [| |congruence].
      + rewrite <- (tl_eqr a _ _ Ebc). rewrite Eab. discriminate.
      + rewrite (tl_lt_trans _ _ _ Eab Ebc). discriminate.
  Qed.
End Consequences.

(* ---------------------------------------------------------------- *)
(* projections *)

Lemma laws_proj {A B} (cmp : A -> A -> comparison) (cmp' : B -> B -> comparison)
      (f : A -> B) (S : A -> Prop) (a : A) :
  S a ->
  (forall b c, S b -> S c -> cmp b c = cmp' (f b) (f c)) ->
  laws_at cmp' (f a) ->
  laws_in cmp S a.
Proof.
  intros Sa E L. destruct L as [r an el tr er].
  constructor.
  - rewrite E by assumption. exact r.
  - intros b Sb. rewrite !E by assumption. apply an. exact I.
  - intros b c Sb Sc. rewrite !E by assumption. apply el; exact I.
  - intros b c Sb Sc. rewrite !E by assumption. apply tr; exact I.
  - intros b c Sb Sc. rewrite !E by assumption. apply er; exact I.
Qed.

(* ---------------------------------------------------------------- *)
(* pairs: first component by a total comparison, then the second *)

Definition pair_cmp {K V} (c1 : K -> K -> comparison) (c2 : V -> V -> comparison)
           (p q : K * V) : comparison :=
  match c1 (fst p) (fst q) with
  | Eq => c2 (snd p) (snd q)
  | c => c
  end.

Lemma pair_laws {K V} (c1 : K -> K -> comparison) (c2 : V -> V -> comparison) k x :
  total_laws c1 -> laws_at c2 x -> laws_at (pair_cmp c1 c2) (k, x).
Proof.
  intros T1 L2. destruct L2 as [r an el tr er].
  constructor; unfold pair_cmp; simpl.
  - rewrite (tl_refl c1 T1). exact r.
  - intros [k' y] _. simpl. rewrite (tl_anti c1 T1 k k').
    destruct (c1 k k'); simpl; auto.
  - intros [k1 y1] [k2 y2] _ _. simpl.
    destruct (c1 k k1) eqn:E1; try (intros; discriminate). intro H.
    rewrite (tl_eql c1 T1 _ _ k2 E1).
    destruct (c1 k1 k2); auto.
  - intros [k1 y1] [k2 y2] _ _. simpl.
    destruct (c1 k k1) eqn:E1; try (intros; discriminate).
    + intro H1. rewrite (tl_eql c1 T1 _ _ k2 E1).
      destruct (c1 k1 k2); try (intros; discriminate); auto.
      intro H2. apply (tr y1 y2 I I H1 H2).
    + intros _. destruct (c1 k1 k2) eqn:E2; try (intros; discriminate).
      * intros _. rewrite <- (tl_eqr c1 T1 k _ _ E2), E1. reflexivity.
      * intros _. rewrite (tl_lt_trans c1 T1 _ _ _ E1 E2). reflexivity.
  - intros [k1 y1] [k2 y2] _ _. simpl.
    destruct (c1 k1 k2) eqn:E12; try (intros; discriminate). intro H.
    rewrite <- (tl_eqr c1 T1 k _ _ E12).
    destruct (c1 k k1); auto.
Qed.

Lemma pair_total {K V} (c1 : K -> K -> comparison) (c2 : V -> V -> comparison) :
  total_laws c1 -> total_laws c2 -> total_laws (pair_cmp c1 c2).
Proof. intros T1 T2 [k x]. apply pair_laws; auto. Qed.

(* ---------------------------------------------------------------- *)
(* lexicographic lists *)

Lemma lex_laws {A} (cmp : A -> A -> comparison) (l : list A) :
  Forall (laws_at cmp) l -> laws_at (lex cmp) l.
Proof.
  intro F. constructor.
  - induction F as [|x l Lx F IH]; simpl; auto.
    rewrite (l_refl _ _ _ Lx). exact IH.
  - intros r _. revert r. induction F as [|x l Lx F IH]; intros [|y r]; simpl; auto.
    rewrite (l_anti _ _ _ Lx y I). destruct (cmp x y); simpl; auto.
  - intros r s _ _. revert r s.
    induction F as [|x l Lx F IH]; intros [|y r] [|z s]; simpl; try (intros; discriminate); auto.
    destruct (cmp x y) eqn:E; try (intros; discriminate). intro H.
    rewrite (l_eql _ _ _ Lx y z I I E). destruct (cmp y z); auto.
  - intros r s _ _. revert r s.
    induction F as [|x l Lx F IH]; intros [|y r] [|z s]; simpl; try (intros; discriminate); auto.
    destruct (cmp x y) eqn:E1; try (intros; discriminate).
    + intro H1. rewrite (l_eql _ _ _ Lx y z I I E1).
      destruct (cmp y z); try (intros; discriminate); auto.
      apply IH; exact H1.
    + intros _. destruct (cmp y z) eqn:E2; try (intros; discriminate).
      * intros _. rewrite <- (l_eqr _ _ _ Lx y z I I E2), E1. reflexivity.
      * intros _. rewrite (l_trans _ _ _ Lx y z I I E1 E2). reflexivity.
  - intros r s _ _. revert r s.
    induction F as [|x l Lx F IH]; intros [|y r] [|z s]; simpl; try (intros; discriminate); auto.
    destruct (cmp y z) eqn:E; try (intros; discriminate). intro H.
    rewrite <- (l_eqr _ _ _ Lx y z I I E). destruct (cmp x y); auto.
Qed.

Lemma lex_total {A} (cmp : A -> A -> comparison) :
  total_laws cmp -> total_laws (lex cmp).
Proof. intros T l. apply lex_laws. apply Forall_forall. intros; apply T. Qed.

(* ---------------------------------------------------------------- *)
(* base comparisons *)

Lemma Zcompare_total : total_laws Z.compare.
Proof.
  intro a. constructor.
  - apply Z.compare_refl.
  - intros b _. apply Z.compare_antisym.
  - intros b c _ _ H. apply Z.compare_eq in H. subst. reflexivity.
  - intros b c _ _ H1 H2. change (a < b)%Z in H1. change (b < c)%Z in H2. change (a < c)%Z. lia.
  - intros b c _ _ H. apply Z.compare_eq in H. subst. reflexivity.
Qed.

Lemma Ncompare_total : total_laws N.compare.
Proof.
  intro a. constructor.
  - apply N.compare_refl.
  - intros b _. apply N.compare_antisym.
  - intros b c _ _ H. apply N.compare_eq in H. subst. reflexivity.
  - intros b c _ _ H1 H2. change (a < b)%N in H1. change (b < c)%N in H2. change (a < c)%N. lia.
  - intros b c _ _ H. apply N.compare_eq in H. subst. reflexivity.
Qed.

Lemma bool_compare_total : total_laws bool_compare.
Proof.
  intro a. constructor.
  - destruct a; reflexivity.
  - intros b _. destruct a, b; reflexivity.
  - intros b c _ _. destruct a, b, c; simpl; congruence.
  - intros b c _ _. destruct a, b, c; simpl; congruence.
  - intros b c _ _. destruct a, b, c; simpl; congruence.
Qed.

(* str_compare is the lexicographic order on the byte codes *)
Fixpoint codes (s : string) : list N :=
  match s with
  | EmptyString => []
  | String c t => N_of_ascii c :: codes t
  end.

Lemma str_compare_lex a b : str_compare a b = lex N.compare (codes a) (codes b).
Proof.
  revert b. induction a as [|x a IH]; intros [|y b]; simpl; auto.
  rewrite IH. reflexivity.
Qed.

Lemma str_compare_total : total_laws str_compare.
Proof.
  intro a.
  apply (laws_proj str_compare (lex N.compare) codes (fun _ => True) a I).
  - intros; apply str_compare_lex.
  - apply lex_total, Ncompare_total.
Qed.

Lemma str_compare_eq a b : str_compare a b = Eq -> a = b.
Proof.
  revert b. induction a as [|x a IH]; intros [|y b]; simpl; try (intros; discriminate); auto.
  destruct (N.compare (N_of_ascii x) (N_of_ascii y)) eqn:E; try (intros; discriminate).
  intro H. apply N.compare_eq in E.
  f_equal; [| apply IH; exact H].
  rewrite <- (ascii_N_embedding x), <- (ascii_N_embedding y), E. reflexivity.
Qed.

Lemma then_cmp_pair (c d : comparison) : then_cmp c d = match c with Eq => d | _ => c end.
Proof. destruct c; reflexivity. Qed.
