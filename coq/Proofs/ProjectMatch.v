(* ProjectMatch.v — the matcher instance of the projection model.
   projectElemMatch calls Process(ctx, {item: e}, q, "item", false)
   (project.go:329); Model/Project.v expresses it as the root-level call
   Match {item: e} (elem_query q).  Here: that is exactly Match.v's own model
   of the non-root call (process_nr eval_op q {item: e} "item", the one used by
   the query operator $elemMatch), for every query and element. *)
From Coq Require Import List ZArith String Ascii Bool.
From Lungo.Model Require Import Access Match.
From Lungo.Model Require Project.
Import ListNotations.
Open Scope string_scope.

Lemma is_operator_key_is_op k : Project.is_operator_key k = is_op k.
Proof.
  destruct k as [|c t]; [reflexivity|]. cbn [is_op].
  destruct c as [[] [] [] [] [] [] [] []]; reflexivity.
Qed.

Lemma and_then_true r : and_then r (Ok true) = r.
Proof. destruct r as [[|]| | | |]; reflexivity. Qed.

Lemma top_eval_field x k d : is_op k = false -> top_eval x k d = field_cond eval_op x d k.
Proof. intro H. destruct x; cbn [top_eval]; rewrite H; reflexivity. Qed.

Theorem elem_matches_process_nr item q :
  Project.elem_matches Match item q = process_nr eval_op q [("item", item)] "item".
Proof.
  unfold Project.elem_matches, Match, process_top, process_nr.
  induction q as [|[k x] t IH]; [reflexivity|].
  cbn [Project.elem_query map]. rewrite is_operator_key_is_op.
  change (Project.elem_query t) with (map (fun kv : string * value =>
           let '(k, v) := kv in
           if Project.is_operator_key k then ("item", VDoc [(k, v)]) else ("item." ++ k, v)) t) in IH.
  unfold pexpr_nr. destruct (is_op k) eqn:Ek.
  - rewrite top_eval_field by reflexivity.
    cbn [field_cond ops_loop]. rewrite Ek, and_then_true. f_equal. exact IH.
  - rewrite top_eval_field by reflexivity. f_equal. exact IH.
Qed.
