(* NoPanicArith.v — C20 for bsonkit.Add / Mul / Mod: the three loops of
   primitive.ParseDecimal128FromBigInt terminate within the fuel the model
   gives them (the binary length of the coefficient, resp. 40 for the final
   exponent clamp), for every coefficient and exponent. *)
From Coq Require Import List ZArith Lia Bool String.
From Lungo.Model Require Import Arith.
From Lungo.Proofs Require Import NoPanicBase.
Import ListNotations.
Open Scope Z_scope.

(* outcome of one loop: a result with a non-zero coefficient, or an error *)
Definition loop_ok (r : res (Z * Z)) : Prop :=
  match r with
  | Ok (b, _) => b <> 0
  | Err => True
  | _ => False
  end.

Lemma abs_quot10 b : Z.abs (Z.quot b 10) = Z.abs b / 10.
Proof.
  rewrite <- (Z.quot_abs b 10) by lia. change (Z.abs 10) with 10.
  apply Z.quot_div_nonneg; lia.
Qed.

Lemma rem10_zero_big b : b <> 0 -> Z.rem b 10 = 0 -> 10 <= Z.abs b.
Proof.
  intros Hb Hr. pose proof (Z.quot_rem' b 10) as E. rewrite Hr in E.
  assert (Hq : Z.quot b 10 <> 0) by (intro Q; rewrite Q in E; lia). lia.
Qed.

Lemma quot10_nonzero b : b <> 0 -> Z.rem b 10 = 0 -> Z.quot b 10 <> 0.
Proof.
  intros Hb Hr Q. pose proof (Z.quot_rem' b 10) as E. rewrite Hr, Q in E. lia.
Qed.

Lemma log2_quot10 b : 10 <= Z.abs b -> Z.log2 (Z.abs (Z.quot b 10)) < Z.log2 (Z.abs b).
Proof.
  intro Hb. rewrite abs_quot10.
  assert (H2 : Z.abs b / 10 <= Z.abs b / 2).
  { apply Z.div_le_compat_l; lia. }
  apply Z.le_lt_trans with (Z.log2 (Z.abs b / 2)); [apply Z.log2_le_mono; exact H2|].
  replace (Z.abs b / 2) with (Z.shiftr (Z.abs b) 1) by (rewrite Z.shiftr_div_pow2 by lia; reflexivity).
  rewrite Z.log2_shiftr by lia.
  assert (1 <= Z.log2 (Z.abs b)) by (apply Z.log2_le_pow2; lia). lia.
Qed.

Lemma shrink_ok fuel : forall bi e,
  bi <> 0 -> Z.log2 (Z.abs bi) < Z.of_nat fuel -> loop_ok (d128_shrink fuel bi e).
Proof.
  induction fuel as [|f IH]; intros bi e Hb Hl.
  - pose proof (Z.log2_nonneg (Z.abs bi)). lia.
  - cbn [d128_shrink]. destruct (Z.abs bi <=? d128_maxS) eqn:E1; [exact Hb|].
    destruct (Z.rem bi 10 =? 0) eqn:E2; [|exact I]. apply Z.eqb_eq in E2.
    destruct (d128_max_exp <? e + 1); [exact I|].
    apply IH; [apply quot10_nonzero; assumption|].
    pose proof (log2_quot10 bi (rem10_zero_big bi Hb E2)). lia.
Qed.

Lemma raise_ok fuel : forall bi e,
  bi <> 0 -> Z.log2 (Z.abs bi) < Z.of_nat fuel -> loop_ok (d128_raise fuel bi e).
Proof.
  induction fuel as [|f IH]; intros bi e Hb Hl.
  - pose proof (Z.log2_nonneg (Z.abs bi)). lia.
  - cbn [d128_raise]. destruct (d128_min_exp <=? e); [exact Hb|].
    destruct (Z.rem bi 10 =? 0) eqn:E2; [|exact I]. apply Z.eqb_eq in E2.
    apply IH; [apply quot10_nonzero; assumption|].
    pose proof (log2_quot10 bi (rem10_zero_big bi Hb E2)). lia.
Qed.

Lemma clamp_ok fuel : forall bi e,
  bi <> 0 -> d128_maxS < Z.abs bi * 10 ^ Z.of_nat fuel -> loop_ok (d128_clamp (S fuel) bi e).
Proof.
  induction fuel as [|f IH]; intros bi e Hb Hl.
  - cbn [d128_clamp]. destruct (e <=? d128_max_exp); [exact Hb|].
    change (10 ^ Z.of_nat 0) with 1 in Hl.
    replace (d128_maxS <? Z.abs (bi * 10)) with true; [exact I|].
    symmetry. apply Z.ltb_lt. rewrite Z.abs_mul. change (Z.abs 10) with 10. lia.
  - cbn [d128_clamp]. destruct (e <=? d128_max_exp); [exact Hb|].
    destruct (d128_maxS <? Z.abs (bi * 10)); [exact I|].
    apply IH; [lia|].
    rewrite Z.abs_mul. change (Z.abs 10) with 10.
    rewrite Nat2Z.inj_succ, Z.pow_succ_r in Hl by lia. lia.
Qed.

Lemma digits_fuel_enough b : Z.log2 (Z.abs b) < Z.of_nat (digits_fuel b).
Proof.
  unfold digits_fuel. rewrite Nat2Z.inj_succ, Z2Nat.id by apply Z.log2_nonneg. lia.
Qed.

Lemma shrink_zero fuel e : d128_shrink fuel 0 e = Ok (0, e).
Proof. destruct fuel; reflexivity. Qed.
Lemma raise_done fuel b e : d128_min_exp <= e -> d128_raise fuel b e = Ok (b, e).
Proof. intro H. apply Z.leb_le in H. destruct fuel; cbn [d128_raise]; rewrite H; reflexivity. Qed.
Lemma clamp_done fuel b e : e <= d128_max_exp -> d128_clamp fuel b e = Ok (b, e).
Proof. intro H. apply Z.leb_le in H. destruct fuel; cbn [d128_clamp]; rewrite H; reflexivity. Qed.

(* primitive.ParseDecimal128FromBigInt: a pair of words or `false` *)
Theorem d128_of_bigint_total bi e : total (d128_of_bigint bi e).
Proof.
  unfold d128_of_bigint. destruct (bi =? 0) eqn:E0.
  - apply Z.eqb_eq in E0. subst bi.
    rewrite shrink_zero. cbn [bind].
    rewrite raise_done by (unfold d128_min_exp, d128_max_exp; lia). cbn [bind].
    rewrite clamp_done by (unfold d128_min_exp, d128_max_exp; lia). exact I.
  - apply Z.eqb_neq in E0.
    pose proof (shrink_ok (digits_fuel bi) bi e E0 (digits_fuel_enough bi)) as H1.
    destruct (d128_shrink (digits_fuel bi) bi e) as [[b1 e1]| | | |]; cbn in H1; try tauto.
    cbn [bind].
    pose proof (raise_ok (digits_fuel b1) b1 e1 H1 (digits_fuel_enough b1)) as H2.
    destruct (d128_raise (digits_fuel b1) b1 e1) as [[b2 e2]| | | |]; cbn in H2; try tauto.
    cbn [bind].
    assert (H3 : loop_ok (d128_clamp 40 b2 e2)).
    { apply (clamp_ok 39); [exact H2|]. unfold d128_maxS.
      assert (1 <= Z.abs b2) by lia.
      assert (10 ^ 34 <= 10 ^ Z.of_nat 39) by (apply Z.pow_le_mono_r; lia).
      change (10 ^ 34) with 10000000000000000000000000000000000 in *. nia. }
    destruct (d128_clamp 40 b2 e2) as [[b3 e3]| | | |]; cbn in H3; try tauto.
    exact I.
Qed.

Lemma dec_to_d128_total d : total (dec_to_d128 d).
Proof.
  unfold dec_to_d128. pose proof (d128_of_bigint_total (fst d) (snd d)) as H.
  destruct (d128_of_bigint (fst d) (snd d)) as [[h l]| | | |]; cbn in *; tauto.
Qed.
