(* MatchRef.v — agreement of lungo's matcher (Model/Match.v) with the
   reference semantics (Spec/RefMatch.v) on the core domain, and the
   domain-boundary examples where they differ. *)
From Coq Require Import List ZArith Bool String Lia.
From Lungo.Model Require Import Match.
From Lungo.Spec Require Import RefMatch.
From Lungo.Proofs Require Import OrderLaws CompareOrder MatchLaws MatchRefPath.
Import ListNotations.
Open Scope string_scope.
Open Scope list_scope.

(* ---------------------------------------------------------------- *)
(* candidates: lungo's All against the reference lookup *)

Lemma All_eq d ps c m :
  All d ps c m =
  let '(v, nested) := get (VDoc d) (split_path ps) true c in
  if negb nested || negb m then (v, nested)
  else match v with
       | VArr a => (VArr (flat_map (fun item => match item with VArr x => x | _ => [item] end) a), nested)
       | _ => (v, nested)
       end.
Proof. reflexivity. Qed.

(* no fan-out: one candidate, the same on both sides, whatever the flags *)
Lemma All_no_fan d ps :
  good_path (split_path ps) = true -> fans_out (VDoc d) (split_path ps) = false ->
  exists x, (forall c m, All d ps c m = (x, false)) /\ rlookup (VDoc d) (split_path ps) = [x].
Proof.
  intros Hg Hf.
  destruct (no_fan_single (VDoc d) (split_path ps) true Hg Hf) as [x [G R]].
  destruct (no_fan_single (VDoc d) (split_path ps) false Hg Hf) as [x' [G' R']].
  assert (x' = x) by congruence. subst x'.
  exists x. split; [|exact R]. intros c m. rewrite All_eq.
  destruct c; [rewrite G | rewrite G']; reflexivity.
Qed.

Lemma existsb_expand_elems t x :
  existsb t ((match x with VArr arr => arr | _ => [] end) ++ [x]) = existsb t (expand x).
Proof.
  rewrite existsb_app.
  destruct x; simpl; rewrite ?orb_false_r; try reflexivity. apply orb_comm.
Qed.

Lemma candidates_no_fan d ps t :
  good_path (split_path ps) = true -> fans_out (VDoc d) (split_path ps) = false ->
  existsb t (candidates d ps) = some_expanded (VDoc d) (split_path ps) t.
Proof.
  intros Hg Hf. destruct (All_no_fan d ps Hg Hf) as [x [HA HR]].
  unfold candidates, unwind_candidates, some_expanded. rewrite HA, HR.
  simpl flat_map. rewrite app_nil_r. apply existsb_expand_elems.
Qed.

Lemma existsb_leaves_expand t l :
  existsb t (flat_map leaf_candidates l) = existsb t (flat_map expand l).
Proof.
  rewrite !existsb_flat_map. apply existsb_ext_in. intros x _. apply existsb_expand_elems.
Qed.

(* tests that can only hold on non-array, non-missing values *)
Definition scalar_test (t : value -> bool) : Prop :=
  t VMissing = false /\ forall a, t (VArr a) = false.

Lemma existsb_expand_filter t l :
  t VMissing = false ->
  existsb t (flat_map expand (filter nm l)) = existsb t (flat_map expand l).
Proof.
  intro Hm. induction l as [|x l IH]; [reflexivity|].
  simpl. destruct (nm x) eqn:E.
  - simpl. rewrite !existsb_app, IH. reflexivity.
  - rewrite existsb_app, IH. destruct x; try discriminate. simpl. rewrite Hm. reflexivity.
Qed.

Lemma existsb_merge_expand t l :
  (forall a, t (VArr a) = false) ->
  existsb t (flat_map (fun item => match item with VArr x => x | _ => [item] end) l)
  = existsb t (flat_map expand l).
Proof.
  intro Ha. induction l as [|x l IH]; [reflexivity|].
  simpl. rewrite !existsb_app, IH. f_equal.
  destruct x; try reflexivity. simpl. rewrite Ha. reflexivity.
Qed.

(* under fan-out lungo offers every value found, like the reference; the
   Missing candidates of the reference are the only difference *)
Lemma candidates_nomissing d ps t :
  d1 (VDoc d) = true -> d3 (VDoc d) = true -> good_path (split_path ps) = true ->
  t VMissing = false ->
  existsb t (candidates d ps) = some_expanded (VDoc d) (split_path ps) t.
Proof.
  intros H1 H3 Hg Hm.
  destruct (collected_leaves (VDoc d) (split_path ps) H1 H3 Hg) as [Pn Pe].
  unfold candidates, unwind_candidates, some_expanded. rewrite All_eq.
  destruct (get (VDoc d) (split_path ps) true true) as [val n].
  simpl fst in *. simpl snd in *. rewrite orb_true_r.
  rewrite <- (existsb_expand_filter t (rlookup _ _) Hm), <- Pe, (existsb_expand_filter t _ Hm).
  destruct n.
  - destruct (Pn eq_refl) as [l [-> _]]. simpl leaves. rewrite app_nil_r. apply existsb_leaves_expand.
  - simpl leaves. simpl flat_map. rewrite app_nil_r. apply existsb_expand_elems.
Qed.

(* the form used below: either no fan-out, or a scalar test *)
Lemma candidates_ref d ps t :
  d1 (VDoc d) = true -> d3 (VDoc d) = true -> good_path (split_path ps) = true ->
  fans_out (VDoc d) (split_path ps) = false \/ scalar_test t ->
  existsb t (candidates d ps) = some_expanded (VDoc d) (split_path ps) t.
Proof.
  intros H1 H3 Hg [Hf|[Ht _]]; [apply candidates_no_fan | apply candidates_nomissing]; assumption.
Qed.

(* ---------------------------------------------------------------- *)
(* unfolding the reference and the domain, operator by operator *)

Lemma ref_op_rel x op root p :
  is_rel_op op = true -> ref_op x op root p = some_expanded root p (fun c => rel op c x).
Proof. intro H. destruct x; simpl; rewrite H; reflexivity. Qed.

Lemma ref_op_ne x root p :
  ref_op x "$ne" root p = negb (some_expanded root p (fun c => req c x)).
Proof. destruct x; reflexivity. Qed.

Lemma ref_op_in x root p :
  ref_op x "$in" root p =
  match x with VArr vs => some_expanded root p (fun c => existsb (req c) vs) | _ => false end.
Proof. destruct x; reflexivity. Qed.

Lemma ref_op_nin x root p :
  ref_op x "$nin" root p =
  match x with VArr vs => negb (some_expanded root p (fun c => existsb (req c) vs)) | _ => false end.
Proof. destruct x; reflexivity. Qed.

Lemma ref_op_exists x root p :
  ref_op x "$exists" root p =
  Bool.eqb (truthy x) (some_unexpanded root p (fun c => negb (is_missing c))).
Proof. destruct x; reflexivity. Qed.

Lemma ref_op_type x root p :
  ref_op x "$type" root p =
  match type_spec x with Some spec => some_expanded root p (has_type spec) | None => false end.
Proof. destruct x; reflexivity. Qed.

Lemma ref_op_size x root p :
  ref_op x "$size" root p =
  match size_arg x with Ok n => some_unexpanded root p (has_len n) | _ => false end.
Proof. destruct x; reflexivity. Qed.

Lemma ref_op_mod x root p :
  ref_op x "$mod" root p =
  match mod_spec x with
  | Some (dv, rm) => some_expanded root p (fun c => ok_true (mod_test dv rm c))
  | None => false
  end.
Proof. destruct x; reflexivity. Qed.

Lemma ref_op_bits x op root p :
  is_bits_op op = true ->
  ref_op x op root p =
  match parse_bit_mask x with
  | Ok positions => some_expanded root p (fun c => ok_true (bits_test op positions c))
  | _ => false
  end.
Proof.
  intro H. unfold is_bits_op, bits_ops in H. simpl in H.
  repeat (apply orb_prop in H; destruct H as [H|H]); try discriminate;
    apply String.eqb_eq in H; subst; destruct x; reflexivity.
Qed.

Lemma ref_op_not x root p :
  ref_op x "$not" root p =
  match x with
  | VDoc exps => negb (forallb (fun e => ref_op (snd e) (fst e) root p) exps)
  | _ => false
  end.
Proof.
  destruct x; try reflexivity. simpl. f_equal.
  induction d as [|[k y] t IH]; [reflexivity|]. simpl. rewrite IH. reflexivity.
Qed.

Lemma core_op_rel x op root p :
  is_rel_op op = true -> core_op strict x op root p = negb (fans_out root p) || plain_scalar x.
Proof. intro H. destruct x; simpl; rewrite H; reflexivity. Qed.

Lemma core_op_ne x root p :
  core_op strict x "$ne" root p = negb (fans_out root p) || plain_scalar x.
Proof. destruct x; reflexivity. Qed.

Lemma core_op_in x root p :
  core_op strict x "$in" root p =
  match x with VArr vs => negb (fans_out root p) || forallb plain_scalar vs | _ => false end.
Proof. destruct x; reflexivity. Qed.

Lemma core_op_nin x root p :
  core_op strict x "$nin" root p =
  match x with VArr vs => negb (fans_out root p) || forallb plain_scalar vs | _ => false end.
Proof. destruct x; reflexivity. Qed.

Lemma core_op_exists x root p : core_op strict x "$exists" root p = true.
Proof. destruct x; reflexivity. Qed.

Lemma core_op_type x root p :
  core_op strict x "$type" root p = match type_spec x with Some _ => true | None => false end.
Proof. destruct x; reflexivity. Qed.

Lemma core_op_size x root p :
  core_op strict x "$size" root p = match size_arg x with Ok _ => true | _ => false end.
Proof. destruct x; reflexivity. Qed.

Lemma core_op_mod x root p :
  core_op strict x "$mod" root p = match mod_spec x with Some _ => true | None => false end.
Proof. destruct x; reflexivity. Qed.

Lemma core_op_bits x op root p :
  is_bits_op op = true ->
  core_op strict x op root p = match parse_bit_mask x with Ok _ => true | _ => false end.
Proof.
  intro H. unfold is_bits_op, bits_ops in H. simpl in H.
  repeat (apply orb_prop in H; destruct H as [H|H]); try discriminate;
    apply String.eqb_eq in H; subst; destruct x; reflexivity.
Qed.

Lemma ref_op_all x root p :
  ref_op x "$all" root p =
  match x with
  | VArr [] => false
  | VArr vs => some_unexpanded root p (fun a => forallb (fun v => existsb (fun c => req c v) (expand a)) vs)
  | _ => false
  end.
Proof. destruct x; reflexivity. Qed.

Lemma core_op_all x root p :
  core_op strict x "$all" root p =
  match x with
  | VArr vs => negb (fans_out root p)
  | _ => false
  end.
Proof. destruct x; reflexivity. Qed.

Lemma core_not_loop root p l :
  (fix go (exps : list (string * value)) : bool :=
     match exps with
     | [] => true
     | (k, y) :: t => is_op k && core_op strict y k root p && go t
     end) l = forallb (fun e => is_op (fst e) && core_op strict (snd e) (fst e) root p) l.
Proof. induction l as [|[k y] t IH]; [reflexivity|]. simpl. rewrite <- IH. reflexivity. Qed.

Lemma core_op_not x root p :
  core_op strict x "$not" root p =
  negb (fans_out root p) &&
  match x with
  | VDoc [] => false
  | VDoc exps => forallb (fun e => is_op (fst e) && core_op strict (snd e) (fst e) root p) exps
  | _ => false
  end.
Proof.
  destruct x; try reflexivity. destruct d as [|[k0 y0] d]; [reflexivity|].
  rewrite <- core_not_loop. reflexivity.
Qed.

Definition elem_cond_ref (e : value) (kv : string * value) : bool :=
  if is_op (fst kv) then ref_op (snd kv) (fst kv) (elem_root e) elem_path
  else ref_field ref_op (snd kv) (elem_root e) (elem_path ++ split_path (fst kv)).

Definition elem_cond_core (e : value) (kv : string * value) : bool :=
  if is_op (fst kv) then core_op strict (snd kv) (fst kv) (elem_root e) elem_path
  else core_field (fan_of strict) (core_op strict) (snd kv) (elem_root e) (elem_path ++ split_path (fst kv)).

Lemma ref_op_elem x root p :
  ref_op x "$elemMatch" root p =
  match x with
  | VDoc q =>
      some_unexpanded root p
        (fun c => match c with
                  | VArr es => existsb (fun e => forallb (elem_cond_ref e) q) es
                  | _ => false
                  end)
  | _ => false
  end.
Proof.
  destruct x; try reflexivity. simpl. unfold some_unexpanded.
  apply existsb_ext_in. intros c _. destruct c; try reflexivity.
  apply existsb_ext_in. intros e _.
  induction d as [|[k y] t IH]; [reflexivity|]. cbn [forallb]. rewrite <- IH. reflexivity.
Qed.

Lemma forallb_ext_in {A} (f g : A -> bool) l :
  (forall a, In a l -> f a = g a) -> forallb f l = forallb g l.
Proof.
  induction l as [|a l IH]; intro H; [reflexivity|]. simpl.
  rewrite (H a) by (left; reflexivity). rewrite IH; [reflexivity|]. intros b Hb. apply H. right. exact Hb.
Qed.

Lemma core_elem_loop e l :
  (fix go (q : list (string * value)) : bool :=
     match q with
     | [] => true
     | (k, y) :: t =>
         (if is_op k then core_op strict y k (elem_root e) elem_path
          else core_field (fan_of strict) (core_op strict) y (elem_root e) (elem_path ++ split_path k)) && go t
     end) l = forallb (elem_cond_core e) l.
Proof. induction l as [|[k y] t IH]; [reflexivity|]. cbn [forallb]. rewrite <- IH. reflexivity. Qed.

Lemma core_op_elem x root p :
  core_op strict x "$elemMatch" root p =
  negb (fans_out root p) &&
  match x with
  | VDoc [] => false
  | VDoc q =>
      forallb (fun c => match c with
                        | VArr es => forallb (fun e => forallb (elem_cond_core e) q) es
                        | _ => true
                        end) (rlookup root p)
  | _ => false
  end.
Proof.
  destruct x; try reflexivity. destruct d as [|kv0 d]; [reflexivity|].
  transitivity (negb (fans_out root p) &&
                forallb (fun c => match c with
                                  | VArr es =>
                                      forallb (fun e =>
                                        (fix go (q : list (string * value)) : bool :=
                                           match q with
                                           | [] => true
                                           | (k, y) :: t =>
                                               (if is_op k then core_op strict y k (elem_root e) elem_path
                                                else core_field (fan_of strict) (core_op strict) y (elem_root e)
                                                       (elem_path ++ split_path k)) && go t
                                           end) (kv0 :: d)) es
                                  | _ => true
                                  end) (rlookup root p)); [reflexivity|].
  f_equal. apply forallb_ext_in. intros c _. destruct c; try reflexivity.
  apply forallb_ext_in. intros e _. exact (core_elem_loop e (kv0 :: d)).
Qed.

(* the operators of the covered domain *)
Definition covered_ops : list string :=
  rel_ops ++ ["$ne"; "$in"; "$nin"; "$exists"; "$type"; "$size"; "$mod"; "$not"; "$all"; "$elemMatch"] ++ bits_ops.

Lemma core_op_covered x op root p :
  core_op strict x op root p = true -> In op covered_ops.
Proof.
  intro H.
  destruct (existsb (String.eqb op) covered_ops) eqn:E.
  - apply existsb_exists in E. destruct E as [o [Hin Ho]]. apply String.eqb_eq in Ho. subst. exact Hin.
  - exfalso. unfold covered_ops, rel_ops, bits_ops in E. simpl in E.
    repeat match goal with
           | E0 : _ || _ = false |- _ => apply orb_false_elim in E0; destruct E0
           end.
    assert (Hrel : is_rel_op op = false).
    { unfold is_rel_op, rel_ops. simpl.
      repeat match goal with E0 : String.eqb op _ = false |- _ => rewrite E0 end. reflexivity. }
    assert (Hbits : is_bits_op op = false).
    { unfold is_bits_op, bits_ops. simpl.
      repeat match goal with E0 : String.eqb op _ = false |- _ => rewrite E0 end. reflexivity. }
    destruct x; simpl in H; rewrite ?Hrel, ?Hbits in H;
      repeat match goal with E0 : String.eqb op _ = false |- _ => rewrite E0 in H end;
      simpl in H; discriminate.
Qed.

(* ---------------------------------------------------------------- *)
(* leaf operators: lungo = reference *)

Lemma holds_rel op c x : In op cmp_ops -> holds op c x = rel op c x.
Proof.
  intro H. apply (cmp_op_cases (fun op => holds op c x = rel op c x) op H);
    unfold holds, cmp_holds, rel; simpl;
    destruct (class_eqb (class_of c) (class_of x)), (compare c x); reflexivity.
Qed.

Lemma rel_ops_cmp op : is_rel_op op = true -> In op cmp_ops.
Proof.
  unfold is_rel_op, rel_ops, cmp_ops. intro H. apply existsb_exists in H.
  destruct H as [o [Hin Ho]]. apply String.eqb_eq in Ho. subst. exact Hin.
Qed.

Lemma eval_comp d ps op x :
  In op cmp_ops ->
  eval_op x op d ps = Ok (existsb (fun c => holds op c x) (candidates d ps)).
Proof.
  intro Hop. apply (cmp_op_cases (fun op =>
    eval_op x op d ps = Ok (existsb (fun c => holds op c x) (candidates d ps))) op Hop);
    (rewrite eval_op_eq; cbn [lookup_expr assoc expr_table String.eqb Ascii.eqb Bool.eqb];
     unfold match_comp, candidates; apply unwind_ok; intro c; reflexivity).
Qed.

Lemma plain_scalar_class x a : plain_scalar x = true -> class_eqb (class_of (VArr a)) (class_of x) = false.
Proof. destruct x; try discriminate; reflexivity. Qed.

Lemma plain_scalar_class_missing x : plain_scalar x = true -> class_eqb (class_of VMissing) (class_of x) = false.
Proof. destruct x; try discriminate; reflexivity. Qed.

Lemma rel_scalar_test op x : plain_scalar x = true -> scalar_test (fun c => rel op c x).
Proof.
  intro H. split.
  - unfold rel. rewrite (plain_scalar_class_missing x H). reflexivity.
  - intro a. unfold rel. rewrite (plain_scalar_class x a H). reflexivity.
Qed.

Lemma req_compare c v : req c v = is_eq (compare c v).
Proof.
  unfold req, rel. simpl. destruct (compare c v) eqn:E; simpl; rewrite ?andb_false_r; try reflexivity.
  rewrite (compare_eq_class c v E). reflexivity.
Qed.

Section Leaf.
  Variable d : doc.
  Variable ps : string.
  Local Notation root := (VDoc d).
  Local Notation p := (split_path ps).
  Hypothesis H1 : d1 root = true.
  Hypothesis H3 : d3 root = true.
  Hypothesis Hg : good_path p = true.

  Lemma fan_or_scalar (b : bool) t :
    negb (fans_out root p) || b = true -> (b = true -> scalar_test t) ->
    fans_out root p = false \/ scalar_test t.
  Proof.
    intros H Ht. destruct (fans_out root p); [right; apply Ht; exact H | left; reflexivity].
  Qed.

  Lemma leaf_rel x op :
    is_rel_op op = true -> core_op strict x op root p = true ->
    eval_op x op d ps = Ok (ref_op x op root p).
  Proof.
    intros Hop Hc. rewrite (core_op_rel x op root p Hop) in Hc.
    rewrite (ref_op_rel x op root p Hop), (eval_comp d ps op x (rel_ops_cmp op Hop)).
    f_equal. rewrite <- (candidates_ref d ps (fun c => rel op c x) H1 H3 Hg).
    - apply existsb_ext_in. intros c _. apply holds_rel. apply rel_ops_cmp. exact Hop.
    - apply (fan_or_scalar (plain_scalar x)); [exact Hc|]. apply rel_scalar_test.
  Qed.

  Lemma leaf_ne x :
    core_op strict x "$ne" root p = true ->
    eval_op x "$ne" d ps = Ok (ref_op x "$ne" root p).
  Proof.
    intro Hc. rewrite core_op_ne in Hc. rewrite ref_op_ne.
    rewrite eval_op_eq. cbn [lookup_expr assoc expr_table String.eqb Ascii.eqb Bool.eqb].
    assert (E : match_comp d "$eq" ps x = eval_op x "$eq" d ps) by (rewrite eval_op_eq; reflexivity).
    rewrite E, (eval_comp d ps "$eq" x) by (simpl; auto). simpl negate. f_equal. f_equal.
    unfold req. rewrite <- (candidates_ref d ps (fun c => rel "$eq" c x) H1 H3 Hg).
    - apply existsb_ext_in. intros c _. apply holds_rel. simpl. auto.
    - apply (fan_or_scalar (plain_scalar x)); [exact Hc|]. apply rel_scalar_test.
  Qed.

  Lemma in_scalar_test vs :
    forallb plain_scalar vs = true -> scalar_test (fun c => existsb (req c) vs).
  Proof.
    intro H. split.
    - induction vs as [|v vs IH]; [reflexivity|]. simpl in *. apply andb_prop in H. destruct H as [Hv Hvs].
      rewrite (IH Hvs). unfold req, rel. rewrite (plain_scalar_class_missing v Hv). reflexivity.
    - intro a. induction vs as [|v vs IH]; [reflexivity|]. simpl in *. apply andb_prop in H. destruct H as [Hv Hvs].
      rewrite (IH Hvs). unfold req, rel. rewrite (plain_scalar_class v a Hv). reflexivity.
  Qed.

  Lemma in_agrees vs :
    negb (fans_out root p) || forallb plain_scalar vs = true ->
    match_in d ps (VArr vs) = Ok (some_expanded root p (fun c => existsb (req c) vs)).
  Proof.
    intro Hc. unfold match_in.
    rewrite (unwind_ok (fun c => existsb (fun item => is_eq (compare c item)) vs)) by (intro c; reflexivity).
    fold (candidates d ps). f_equal.
    rewrite <- (candidates_ref d ps (fun c => existsb (req c) vs) H1 H3 Hg).
    - apply existsb_ext_in. intros c _. apply existsb_ext_in. intros v _. symmetry. apply req_compare.
    - apply (fan_or_scalar (forallb plain_scalar vs)); [exact Hc|]. apply in_scalar_test.
  Qed.

  Lemma leaf_in x :
    core_op strict x "$in" root p = true ->
    eval_op x "$in" d ps = Ok (ref_op x "$in" root p).
  Proof.
    intro Hc. rewrite core_op_in in Hc. rewrite ref_op_in.
    rewrite eval_op_eq. cbn [lookup_expr assoc expr_table String.eqb Ascii.eqb Bool.eqb].
    destruct x; try discriminate. apply in_agrees. exact Hc.
  Qed.

  Lemma leaf_nin x :
    core_op strict x "$nin" root p = true ->
    eval_op x "$nin" d ps = Ok (ref_op x "$nin" root p).
  Proof.
    intro Hc. rewrite core_op_nin in Hc. rewrite ref_op_nin.
    rewrite eval_op_eq. cbn [lookup_expr assoc expr_table String.eqb Ascii.eqb Bool.eqb].
    destruct x; try discriminate. rewrite (in_agrees a Hc). reflexivity.
  Qed.
End Leaf.

Lemma existsb_filter_nm l :
  existsb (fun c => negb (is_missing c)) l = match filter nm l with [] => false | _ => true end.
Proof.
  induction l as [|x l IH]; [reflexivity|]. simpl. unfold nm at 1.
  destruct (negb (is_missing x)); [reflexivity|exact IH].
Qed.

Lemma merged_nonempty l :
  existsb (fun c => match c with VArr [] => true | _ => false end) l = false ->
  (len (flat_map (fun item => match item with VArr x => x | _ => [item] end) l) =? 0)%Z
  = match l with [] => true | _ => false end.
Proof.
  destruct l as [|x l]; [reflexivity|]. simpl. intro H. apply orb_false_elim in H. destruct H as [Hx _].
  unfold len. rewrite app_length.
  assert (0 < List.length (match x with VArr x0 => x0 | _ => [x] end))%nat.
  { destruct x; simpl; try lia. destruct a; [discriminate|simpl; lia]. }
  apply Z.eqb_neq. lia.
Qed.

Lemma no_empty_filter r :
  existsb (fun c => match c with VArr [] => true | _ => false end) r = false ->
  existsb (fun c => match c with VArr [] => true | _ => false end) (filter nm r) = false.
Proof.
  induction r as [|y r IH]; [reflexivity|]. simpl. intro H.
  apply orb_false_elim in H. destruct H as [Hy Hr].
  destruct (nm y); [simpl; rewrite Hy; apply IH; exact Hr | apply IH; exact Hr].
Qed.

Lemma mod_test_ok dv rm c : mod_test dv rm c = Ok (ok_true (mod_test dv rm c)).
Proof. unfold mod_test. destruct (number_to_int64 c); [|reflexivity]. simpl. destruct (Z.rem z dv =? rm)%Z; reflexivity. Qed.

Lemma bits_test_ok op positions c :
  is_bits_op op = true -> bits_test op positions c = Ok (ok_true (bits_test op positions c)).
Proof.
  intro H. unfold is_bits_op, bits_ops in H. simpl in H.
  repeat (apply orb_prop in H; destruct H as [H|H]); try discriminate;
    apply String.eqb_eq in H; subst; unfold bits_test; destruct (bit_accessor c); try reflexivity; simpl;
    match goal with |- Ok ?b = _ => destruct b; reflexivity end.
Qed.

Section Leaf2.
  Variable d : doc.
  Variable ps : string.
  Local Notation root := (VDoc d).
  Local Notation p := (split_path ps).
  Hypothesis H1 : d1 root = true.
  Hypothesis H3 : d3 root = true.
  Hypothesis Hg : good_path p = true.

  (* what lungo collected at the path, against the reference candidates *)
  Lemma collected_all :
    exists val n,
      All d ps true false = (val, n) /\
      (n = true -> exists l, val = VArr l /\ Forall (fun x => nm x = true) l) /\
      filter nm (leaves val n) = filter nm (rlookup root p).
  Proof.
    destruct (collected_leaves root p H1 H3 Hg) as [Pn Pe].
    rewrite All_eq. destruct (get root p true true) as [val n].
    simpl fst in *. simpl snd in *. rewrite orb_true_r.
    exists val, n. auto.
  Qed.

  Lemma filter_nm_all l : Forall (fun x => nm x = true) l -> filter nm l = l.
  Proof. intro Fl. induction Fl as [|y l Hy _ IH]; [reflexivity|]. simpl. rewrite Hy, IH. reflexivity. Qed.

  Lemma leaf_exists x :
    core_op strict x "$exists" root p = true ->
    eval_op x "$exists" d ps = Ok (ref_op x "$exists" root p).
  Proof.
    intros _. rewrite ref_op_exists.
    rewrite eval_op_eq. cbn [lookup_expr assoc expr_table String.eqb Ascii.eqb Bool.eqb].
    unfold match_exists, some_unexpanded. rewrite existsb_filter_nm.
    destruct collected_all as [val [n [HA [Pn Pe]]]]. rewrite HA, <- Pe.
    destruct n.
    - destruct (Pn eq_refl) as [l [-> Fl]]. simpl leaves. rewrite (filter_nm_all l Fl).
      destruct l; reflexivity.
    - simpl leaves. simpl filter. unfold nm. destruct (negb (is_missing val)); reflexivity.
  Qed.

  Lemma existsb_has_len_filter n l : existsb (has_len n) (filter nm l) = existsb (has_len n) l.
  Proof.
    induction l as [|y l IH]; [reflexivity|]. simpl. destruct (nm y) eqn:E; simpl; rewrite IH; [reflexivity|].
    destruct y; try discriminate E. reflexivity.
  Qed.

  Lemma leaf_size x :
    core_op strict x "$size" root p = true ->
    eval_op x "$size" d ps = Ok (ref_op x "$size" root p).
  Proof.
    intro Hc. rewrite core_op_size in Hc. rewrite ref_op_size.
    rewrite eval_op_eq. cbn [lookup_expr assoc expr_table String.eqb Ascii.eqb Bool.eqb].
    unfold match_size. destruct (size_arg x) as [n| | | |]; try discriminate.
    unfold some_unexpanded. rewrite <- (existsb_has_len_filter n (rlookup root p)).
    destruct collected_all as [val [m [HA [Pn Pe]]]]. rewrite HA, <- Pe.
    destruct m.
    - destruct (Pn eq_refl) as [l [-> Fl]]. simpl leaves. rewrite (filter_nm_all l Fl). reflexivity.
    - simpl leaves. rewrite existsb_has_len_filter. simpl. rewrite orb_false_r. reflexivity.
  Qed.

  Lemma mod_scalar_test dv rm : scalar_test (fun c => ok_true (mod_test dv rm c)).
  Proof. split; [reflexivity|]. intro a. reflexivity. Qed.

  Lemma leaf_mod x :
    core_op strict x "$mod" root p = true ->
    eval_op x "$mod" d ps = Ok (ref_op x "$mod" root p).
  Proof.
    intro Hc. rewrite core_op_mod in Hc. rewrite ref_op_mod.
    rewrite eval_op_eq. cbn [lookup_expr assoc expr_table String.eqb Ascii.eqb Bool.eqb].
    unfold mod_spec in *. unfold match_mod.
    destruct x as [| | ? | ? | ? | ? ? | ? | ? | arr | ? ? | ? | ? | ? | ? ? | ? ?]; try discriminate.
    destruct arr as [|a [|b [|c0 rest]]]; try discriminate.
    destruct (mod_operand a) as [dv| | | |]; try discriminate.
    destruct (mod_operand b) as [rm| | | |]; try discriminate.
    destruct (dv =? 0)%Z; [discriminate|].
    rewrite (unwind_ok (fun c => ok_true (mod_test dv rm c))) by (intro c; apply mod_test_ok).
    fold (candidates d ps). f_equal.
    apply (candidates_ref d ps _ H1 H3 Hg). right. apply mod_scalar_test.
  Qed.

  Lemma bits_scalar_test op positions : scalar_test (fun c => ok_true (bits_test op positions c)).
  Proof. split; [reflexivity|]. intro a. reflexivity. Qed.

  Lemma leaf_bits x op :
    is_bits_op op = true -> core_op strict x op root p = true ->
    eval_op x op d ps = Ok (ref_op x op root p).
  Proof.
    intros Hop Hc. rewrite (core_op_bits x op root p Hop) in Hc.
    rewrite (ref_op_bits x op root p Hop).
    assert (E : eval_op x op d ps = match_bits d op ps x).
    { rewrite eval_op_eq. unfold is_bits_op, bits_ops in Hop. simpl in Hop.
      repeat (apply orb_prop in Hop; destruct Hop as [Hop|Hop]); try discriminate;
        apply String.eqb_eq in Hop; subst; reflexivity. }
    rewrite E. unfold match_bits.
    destruct (parse_bit_mask x) as [positions| | | |]; try discriminate.
    rewrite (unwind_ok (fun c => ok_true (bits_test op positions c))) by (intro c; apply bits_test_ok; exact Hop).
    fold (candidates d ps). f_equal.
    apply (candidates_ref d ps _ H1 H3 Hg). right. apply bits_scalar_test.
  Qed.
End Leaf2.

Lemma match_type_spec d ps x spec :
  type_spec x = Some spec ->
  match_type d ps x = unwind d ps false (type_test (fst spec) (snd spec)).
Proof.
  unfold type_spec, match_type. intro H.
  destruct x as [| | ? | ? | ? | ? ? | ? | ? | arr | ? ? | ? | ? | ? | ? ? | ? ?];
    try (destruct (mapM resolve_type _) as [rs| | | |]; try discriminate; injection H as <-; reflexivity).
  destruct arr as [|a0 arr]; [discriminate|].
  destruct (mapM resolve_type (a0 :: arr)) as [rs| | | |]; try discriminate. injection H as <-. reflexivity.
Qed.

Section Leaf3.
  Variable d : doc.
  Variable ps : string.
  Local Notation root := (VDoc d).
  Local Notation p := (split_path ps).
  Hypothesis H1 : d1 root = true.
  Hypothesis H3 : d3 root = true.
  Hypothesis Hg : good_path p = true.

  Lemma leaf_type x :
    core_op strict x "$type" root p = true ->
    eval_op x "$type" d ps = Ok (ref_op x "$type" root p).
  Proof.
    intro Hc. rewrite core_op_type in Hc. rewrite ref_op_type.
    rewrite eval_op_eq. cbn [lookup_expr assoc expr_table String.eqb Ascii.eqb Bool.eqb].
    destruct (type_spec x) as [spec|] eqn:Hs; [|discriminate].
    rewrite (match_type_spec d ps x spec Hs).
    rewrite (unwind_ok (has_type spec))
      by (intro c; unfold type_test, has_type; destruct (is_missing c); reflexivity).
    fold (candidates d ps). f_equal.
    apply (candidates_nomissing d ps (has_type spec) H1 H3 Hg). reflexivity.
  Qed.
End Leaf3.

(* ---------------------------------------------------------------- *)
(* $all (no fan-out): every operand equals the field or one of its elements *)

Definition not_array (v : value) : bool := match v with VArr _ => false | _ => true end.

Lemma is_eq_sym a b : is_eq (compare a b) = is_eq (compare b a).
Proof. rewrite (compare_antisym b a). destruct (compare b a); reflexivity. Qed.

Lemma forallb_pointwise {A} (f g : A -> bool) l : (forall a, f a = g a) -> forallb f l = forallb g l.
Proof. intro H. induction l as [|a l IH]; [reflexivity|]. simpl. rewrite H, IH. reflexivity. Qed.

(* the callback of matchAll on one candidate (vs non-empty) *)
Definition all_holds (vs : list value) (field : value) : bool :=
  (match field with
   | VArr arr =>
       forallb (fun value => is_eq (compare value field)
                             || existsb (fun element => is_eq (compare value element)) arr) vs
   | _ => false
   end) || forallb (fun item => is_eq (compare field item)) vs.

Definition all_ref (vs : list value) (a : value) : bool :=
  forallb (fun v => existsb (fun c => req c v) (expand a)) vs.

Lemma all_holds_scalar vs e : not_array e = true -> all_holds vs e = true -> all_ref vs e = true.
Proof.
  intros Hn H. unfold all_holds in H. unfold all_ref.
  assert (Hg : forallb (fun item => is_eq (compare e item)) vs = true).
  { destruct e; try discriminate Hn; simpl in H; exact H. }
  apply forallb_forall. intros v Hv. rewrite forallb_forall in Hg.
  assert (Hx : expand e = [e]) by (destruct e; try reflexivity; discriminate).
  rewrite Hx. simpl. rewrite req_compare, (Hg v Hv). reflexivity.
Qed.

Lemma all_equiv vs y :
  (forall arr, y = VArr arr -> Forall (fun e => not_array e = true) arr) ->
  existsb (all_holds vs) ((match y with VArr arr => arr | _ => [] end) ++ [y]) = all_ref vs y.
Proof.
  intro Hy.
  destruct y as [| | ? | ? | ? | ? ? | ? | ? | arr | ? ? | ? | ? | ? | ? ? | ? ?];
    try (simpl; rewrite orb_false_r; unfold all_ref; apply forallb_pointwise; intro v; simpl;
         rewrite orb_false_r; symmetry; apply req_compare).
  specialize (Hy arr eq_refl).
  rewrite existsb_app. cbn [existsb]. rewrite orb_false_r.
  (* on the array itself the containment test is the reference *)
  assert (Hself : all_holds vs (VArr arr) = all_ref vs (VArr arr)).
  { unfold all_holds, all_ref.
    assert (E : forallb (fun value => is_eq (compare value (VArr arr))
                                      || existsb (fun element => is_eq (compare value element)) arr) vs
                = forallb (fun v => existsb (fun c => req c v) (expand (VArr arr))) vs).
    { apply forallb_pointwise. intro v. cbn [expand existsb]. rewrite req_compare, (is_eq_sym v (VArr arr)).
      f_equal. apply existsb_ext_in. intros e _. rewrite req_compare. apply is_eq_sym. }
    rewrite E.
    destruct (forallb (fun v => existsb (fun c => req c v) (expand (VArr arr))) vs) eqn:Hr; [reflexivity|].
    cbn [orb].
    (* every operand equal to the array implies the reference *)
    apply not_true_is_false. intro Hall. apply not_true_iff_false in Hr. apply Hr.
    apply forallb_forall. intros v Hv. rewrite forallb_forall in Hall.
    cbn [expand existsb]. rewrite req_compare, (Hall v Hv). reflexivity. }
  rewrite Hself.
  destruct (all_ref vs (VArr arr)) eqn:Hr; [apply orb_true_r|]. rewrite orb_false_r.
  (* an element (not an array, by D1) satisfying the callback would satisfy the reference *)
  apply not_true_is_false. intro Hex. apply existsb_exists in Hex. destruct Hex as [e [Hin He]].
  rewrite Forall_forall in Hy.
  pose proof (all_holds_scalar vs e (Hy e Hin) He) as Hre.
  apply not_true_iff_false in Hr. apply Hr.
  unfold all_ref in *. apply forallb_forall. intros v Hv. rewrite forallb_forall in Hre.
  specialize (Hre v Hv).
  assert (Hx : expand e = [e]) by (specialize (Hy e Hin); destruct e; try reflexivity; discriminate).
  rewrite Hx in Hre. simpl in Hre. rewrite orb_false_r in Hre.
  cbn [expand existsb]. apply orb_true_iff. right. apply existsb_exists. exists e. split; assumption.
Qed.

Lemma d1_arr_elems arr : d1 (VArr arr) = true -> Forall (fun e => not_array e = true) arr.
Proof.
  intro H. apply d1_arr in H. apply Forall_forall. intros e Hin.
  rewrite Forall_forall in H. destruct (H e Hin) as [Hn _].
  destruct e; try reflexivity. exfalso. eapply Hn. reflexivity.
Qed.

Lemma leaf_all d ps x :
  d1 (VDoc d) = true -> good_path (split_path ps) = true ->
  core_op strict x "$all" (VDoc d) (split_path ps) = true ->
  eval_op x "$all" d ps = Ok (ref_op x "$all" (VDoc d) (split_path ps)).
Proof.
  intros H1 Hg Hc. rewrite core_op_all in Hc. rewrite ref_op_all.
  rewrite eval_op_eq. cbn [lookup_expr assoc expr_table String.eqb Ascii.eqb Bool.eqb].
  destruct x as [| | ? | ? | ? | ? ? | ? | ? | vs | ? ? | ? | ? | ? | ? ? | ? ?]; try discriminate.
  apply negb_true_iff in Hc.
  destruct (All_no_fan d ps Hg Hc) as [y [HA HR]].
  unfold match_all.
  destruct vs as [|v0 vs].
  - rewrite (unwind_ok (fun _ => false)) by (intro c; reflexivity).
    f_equal. induction (unwind_candidates d ps true); [reflexivity|assumption].
  - rewrite (unwind_ok (all_holds (v0 :: vs)))
      by (intro c; unfold all_test, all_holds; destruct c; reflexivity).
    unfold unwind_candidates, leaf_candidates, some_unexpanded. rewrite HA, HR.
    f_equal.
    transitivity (all_ref (v0 :: vs) y); [|unfold all_ref; cbn [existsb]; rewrite orb_false_r; reflexivity].
    apply all_equiv.
    intros arr ->. apply d1_arr_elems.
    assert (G : get (VDoc d) (split_path ps) true false = (VArr arr, false)).
    { specialize (HA false false). rewrite All_eq in HA.
      destruct (get (VDoc d) (split_path ps) true false) as [v n].
      destruct n; simpl in HA; [destruct v; discriminate|]. exact HA. }
    exact (get_single_d1 _ _ _ _ H1 G).
Qed.

(* ---------------------------------------------------------------- *)
(* all expression operators, by induction on the argument ($not, $elemMatch) *)

Lemma all_ops_forallb rop exps root p :
  all_ops rop exps root p = forallb (fun e => is_op (fst e) && rop (snd e) (fst e) root p) exps.
Proof. unfold all_ops. induction exps as [|[k y] t IH]; [reflexivity|]. simpl. rewrite <- IH. reflexivity. Qed.

Lemma core_ops_forallb cop exps root p :
  core_ops cop exps root p = forallb (fun e => is_op (fst e) && cop (snd e) (fst e) root p) exps.
Proof. unfold core_ops. induction exps as [|[k y] t IH]; [reflexivity|]. simpl. rewrite <- IH. reflexivity. Qed.

Definition op_agrees (y : value) : Prop :=
  forall d ps op,
    d1 (VDoc d) = true -> d3 (VDoc d) = true -> good_path (split_path ps) = true ->
    core_op strict y op (VDoc d) (split_path ps) = true ->
    eval_op y op d ps = Ok (ref_op y op (VDoc d) (split_path ps)).

Definition field_agrees (y : value) : Prop :=
  forall d ps,
    d1 (VDoc d) = true -> d3 (VDoc d) = true ->
    core_field (fan_of strict) (core_op strict) y (VDoc d) (split_path ps) = true ->
    field_cond eval_op y d ps = Ok (ref_field ref_op y (VDoc d) (split_path ps)).

Lemma ops_loop_ref d ps exps :
  d1 (VDoc d) = true -> d3 (VDoc d) = true -> good_path (split_path ps) = true ->
  Forall (fun kv => op_agrees (snd kv)) exps ->
  forallb (fun e => is_op (fst e) && core_op strict (snd e) (fst e) (VDoc d) (split_path ps)) exps = true ->
  ops_loop eval_op exps d ps
  = Ok (forallb (fun e => is_op (fst e) && ref_op (snd e) (fst e) (VDoc d) (split_path ps)) exps).
Proof.
  intros H1 H3 Hg. induction exps as [|[k y] t IH]; intros HF Hc; [reflexivity|].
  inversion HF as [|? ? Hy Ht]; subst. simpl in Hc.
  apply andb_prop in Hc. destruct Hc as [Hk Hct]. apply andb_prop in Hk. destruct Hk as [Hop Hcy].
  rewrite ops_loop_cons. simpl fst in *. simpl snd in *. rewrite Hop.
  rewrite (Hy d ps k H1 H3 Hg Hcy), (IH Ht Hct). simpl forallb. rewrite Hop. simpl.
  destruct (ref_op y k (VDoc d) (split_path ps)); reflexivity.
Qed.

Lemma forallb_is_op_keys (f : string * value -> bool) exps :
  forallb (fun e => is_op (fst e) && f e) exps = true -> forallb (fun e => is_op (fst e)) exps = true.
Proof.
  induction exps as [|e t IH]; [reflexivity|]. simpl. intro H.
  apply andb_prop in H. destruct H as [He Ht]. apply andb_prop in He. destruct He as [He _].
  rewrite He, (IH Ht). reflexivity.
Qed.

Lemma forallb_drop_is_op (g : string * value -> bool) exps :
  forallb (fun e => is_op (fst e)) exps = true ->
  forallb (fun e => is_op (fst e) && g e) exps = forallb g exps.
Proof.
  induction exps as [|e t IH]; [reflexivity|]. simpl. intro H.
  apply andb_prop in H. destruct H as [He Ht]. rewrite He, (IH Ht). reflexivity.
Qed.

(* field conditions, given agreement for the operator arguments inside *)
Lemma eval_default d ps x :
  eval_op x "" d ps = Ok (existsb (fun c => holds "$eq" c x) (candidates d ps)).
Proof.
  rewrite eval_op_eq. cbn [lookup_expr assoc expr_table String.eqb Ascii.eqb Bool.eqb].
  unfold match_comp, candidates. apply unwind_ok. intro c. reflexivity.
Qed.

Lemma literal_ref d ps x :
  d1 (VDoc d) = true -> d3 (VDoc d) = true -> good_path (split_path ps) = true ->
  negb (fans_out (VDoc d) (split_path ps)) || plain_scalar x = true ->
  eval_op x "" d ps = Ok (some_expanded (VDoc d) (split_path ps) (fun c => req c x)).
Proof.
  intros H1 H3 Hg Hc. rewrite eval_default. f_equal. unfold req.
  rewrite <- (candidates_ref d ps (fun c => rel "$eq" c x) H1 H3 Hg).
  - apply existsb_ext_in. intros c _. apply holds_rel. simpl. auto.
  - apply (fan_or_scalar d ps (plain_scalar x)); [exact Hc|]. apply rel_scalar_test.
Qed.

Lemma field_of_ops x : sub op_agrees x -> field_agrees x.
Proof.
  intros Hsub d ps H1 H3 Hc. unfold core_field in Hc.
  change (fan_of strict (VDoc d) (split_path ps)) with (fans_out (VDoc d) (split_path ps)) in Hc.
  apply andb_prop in Hc. destruct Hc as [Hg Hc].
  assert (Hlit : forall y, negb (fans_out (VDoc d) (split_path ps)) || plain_scalar y = true ->
                 eval_op y "" d ps = Ok (some_expanded (VDoc d) (split_path ps) (fun c => req c y)))
    by (intro y; apply literal_ref; assumption).
  unfold field_cond, ref_field.
  destruct x as [| | ? | ? | ? | ? ? | ? | exps | ? | ? ? | ? | ? | ? | ? ? | ? ?];
    try (apply Hlit; exact Hc).
  destruct exps as [|[k0 y0] rest].
  - apply Hlit. exact Hc.
  - destruct (is_op k0) eqn:Hk.
    + rewrite core_ops_forallb in Hc. rewrite all_ops_forallb.
      apply ops_loop_ref; assumption.
    + apply Hlit. rewrite Hc. reflexivity.
Qed.

(* $elemMatch *)
Lemma first_ok_ok_in (f : value -> bool) op l b :
  (forall c, In c l -> op c = Ok (f c)) -> first_ok op l (Ok b) = Ok (existsb f l || b).
Proof.
  induction l as [|x l IH]; intro H; simpl; [reflexivity|].
  rewrite (H x) by (left; reflexivity). rewrite IH by (intros c Hc; apply H; right; exact Hc).
  destruct (f x); reflexivity.
Qed.

Lemma split_item k : split_path ("item" ++ "." ++ k) = elem_path ++ split_path k.
Proof. reflexivity. Qed.

(* presenting the element as the field `item` does not change what a path reaches *)
Lemma elem_root_lookup e p : rlookup (elem_root e) (elem_path ++ p) = rlookup e p.
Proof. unfold elem_root, elem_path. simpl app. rewrite rlookup_doc. reflexivity. Qed.

Lemma elem_root_fans_out e p : fans_out (elem_root e) (elem_path ++ p) = fans_out e p.
Proof. unfold elem_root, elem_path. simpl app. rewrite fans_out_doc. reflexivity. Qed.

Lemma elem_process q e :
  Forall (fun kv => op_agrees (snd kv) /\ field_agrees (snd kv)) q ->
  d1 e = true -> d3 e = true ->
  forallb (elem_cond_core e) q = true ->
  process_nr eval_op q [("item", e)] "item" = Ok (forallb (elem_cond_ref e) q).
Proof.
  intros HF H1 H3.
  assert (H1' : d1 (VDoc [("item", e)]) = true) by (simpl; rewrite H1; reflexivity).
  assert (H3' : d3 (VDoc [("item", e)]) = true) by (simpl; rewrite H3; reflexivity).
  induction q as [|[k y] t IH]; intro Hc; [reflexivity|].
  inversion HF as [|? ? [Hop Hfield] Ht]; subst. simpl snd in Hop, Hfield.
  cbn [forallb] in Hc. apply andb_prop in Hc. destruct Hc as [Hcy Hct].
  change (process_nr eval_op ((k, y) :: t) [("item", e)] "item")
    with (and_then (pexpr_nr eval_op y k [("item", e)] "item") (process_nr eval_op t [("item", e)] "item")).
  rewrite (IH Ht Hct). cbn [forallb].
  unfold elem_cond_core in Hcy. simpl fst in Hcy. simpl snd in Hcy.
  change (elem_cond_ref e (k, y)) with (if is_op k then ref_op y k (elem_root e) elem_path else ref_field ref_op y (elem_root e) (elem_path ++ split_path k)).
  unfold pexpr_nr. destruct (is_op k).
  - rewrite (Hop [("item", e)] "item" k H1' H3' eq_refl Hcy).
    change (split_path "item") with elem_path. unfold elem_root.
    destruct (ref_op y k (VDoc [("item", e)]) elem_path); reflexivity.
  - change (join_prefix "item" k) with ("item" ++ "." ++ k)%string.
    rewrite <- split_item in Hcy. rewrite (Hfield [("item", e)] ("item" ++ "." ++ k)%string H1' H3' Hcy).
    rewrite split_item. unfold elem_root.
    destruct (ref_field ref_op y (VDoc [("item", e)]) (elem_path ++ split_path k)); reflexivity.
Qed.

Lemma d3_arr_elems arr e : d3 (VArr arr) = true -> In e arr -> d3 e = true.
Proof. intros H Hin. apply d3_arr in H. rewrite Forall_forall in H. destruct (H e Hin) as [_ He]. exact He. Qed.

Lemma d1_arr_elem arr e : d1 (VArr arr) = true -> In e arr -> d1 e = true.
Proof. intros H Hin. apply d1_arr in H. rewrite Forall_forall in H. destruct (H e Hin) as [_ He]. exact He. Qed.

Lemma leaf_elem d ps q :
  d1 (VDoc d) = true -> d3 (VDoc d) = true -> good_path (split_path ps) = true ->
  Forall (fun kv => op_agrees (snd kv) /\ field_agrees (snd kv)) q ->
  core_op strict (VDoc q) "$elemMatch" (VDoc d) (split_path ps) = true ->
  eval_op (VDoc q) "$elemMatch" d ps = Ok (ref_op (VDoc q) "$elemMatch" (VDoc d) (split_path ps)).
Proof.
  intros H1 H3 Hg HF Hc. rewrite core_op_elem in Hc. rewrite ref_op_elem.
  apply andb_prop in Hc. destruct Hc as [Hf Hc]. apply negb_true_iff in Hf.
  rewrite eval_op_eq. cbn [lookup_expr assoc expr_table String.eqb Ascii.eqb Bool.eqb].
  destruct q as [|kv0 q]; [discriminate|].
  unfold elem_body.
  destruct (All_no_fan d ps Hg Hf) as [y [HA HR]].
  rewrite HA. unfold some_unexpanded. rewrite HR in *. simpl fst. cbn [existsb forallb] in *.
  rewrite orb_false_r. rewrite andb_true_r in Hc.
  destruct y as [| | ? | ? | ? | ? ? | ? | ? | es | ? ? | ? | ? | ? | ? ? | ? ?]; try reflexivity.
  assert (G : get (VDoc d) (split_path ps) true true = (VArr es, false)).
  { specialize (HA true true). rewrite All_eq in HA.
    destruct (get (VDoc d) (split_path ps) true true) as [v n].
    destruct n; simpl in HA; [destruct v; discriminate|]. exact HA. }
  pose proof (get_single_d1 _ _ _ _ H1 G) as D1y.
  pose proof (get_single_d3 _ _ _ _ H3 G) as D3y.
  rewrite (first_ok_ok_in (fun e => forallb (elem_cond_ref e) (kv0 :: q))).
  - rewrite orb_false_r. reflexivity.
  - intros e Hin. apply elem_process.
    + exact HF.
    + exact (d1_arr_elem es e D1y Hin).
    + exact (d3_arr_elems es e D3y Hin).
    + rewrite forallb_forall in Hc. apply Hc. exact Hin.
Qed.

Theorem op_field_ref : forall x, op_agrees x /\ field_agrees x.
Proof.
  induction x as [x IHx] using value_ind'.
  assert (Hop : op_agrees x).
  { intros d ps op H1 H3 Hg Hc.
    pose proof (core_op_covered x op (VDoc d) (split_path ps) Hc) as Hin.
    unfold covered_ops, rel_ops, bits_ops in Hin. simpl in Hin.
    destruct Hin as [E|[E|[E|[E|[E|[E|[E|[E|[E|[E|[E|[E|[E|[E|[E|[E|[E|[E|[E|[]]]]]]]]]]]]]]]]]]]]; subst op.
    - apply leaf_rel; auto.
    - apply leaf_rel; auto.
    - apply leaf_rel; auto.
    - apply leaf_rel; auto.
    - apply leaf_rel; auto.
    - apply leaf_ne; auto.
    - apply leaf_in; auto.
    - apply leaf_nin; auto.
    - apply leaf_exists; auto.
    - apply leaf_type; auto.
    - apply leaf_size; auto.
    - apply leaf_mod; auto.
    - (* $not *)
      rewrite core_op_not in Hc. apply andb_prop in Hc. destruct Hc as [_ Hc].
      rewrite ref_op_not.
      rewrite eval_op_eq. cbn [lookup_expr assoc expr_table String.eqb Ascii.eqb Bool.eqb].
      destruct x as [| | ? | ? | ? | ? ? | ? | exps | ? | ? ? | ? | ? | ? | ? ? | ? ?]; try discriminate.
      destruct exps as [|e0 exps]; [discriminate|].
      simpl in IHx.
      assert (IHops : Forall (fun kv => op_agrees (snd kv)) (e0 :: exps)).
      { eapply Forall_impl; [|exact IHx]. intros kv [Ho _]. exact Ho. }
      pose proof (forallb_is_op_keys _ _ Hc) as Hkeys.
      unfold not_body.
      rewrite (not_loop_negates d ps (e0 :: exps) Hkeys).
      rewrite (ops_loop_ref d ps (e0 :: exps) H1 H3 Hg IHops Hc).
      rewrite (forallb_drop_is_op _ _ Hkeys). reflexivity.
    - apply leaf_all; auto.
    - (* $elemMatch *)
      destruct x as [| | ? | ? | ? | ? ? | ? | q | ? | ? ? | ? | ? | ? | ? ? | ? ?];
        try (rewrite core_op_elem in Hc; apply andb_prop in Hc; destruct Hc as [_ Hc]; discriminate).
      simpl in IHx. apply leaf_elem; assumption.
    - apply leaf_bits; auto.
    - apply leaf_bits; auto.
    - apply leaf_bits; auto.
    - apply leaf_bits; auto. }
  split; [exact Hop|].
  apply field_of_ops.
  destruct x; simpl; try exact I; simpl in IHx.
  - eapply Forall_impl; [|exact IHx]. intros kv [Ho _]. exact Ho.
  - eapply Forall_impl; [|exact IHx]. intros v [Ho _]. exact Ho.
Qed.

Theorem op_ref x : op_agrees x.
Proof. apply op_field_ref. Qed.

Theorem field_ref d ps x :
  d1 (VDoc d) = true -> d3 (VDoc d) = true ->
  core_field (fan_of strict) (core_op strict) x (VDoc d) (split_path ps) = true ->
  field_cond eval_op x d ps = Ok (ref_field ref_op x (VDoc d) (split_path ps)).
Proof. intros H1 H3 Hc. apply (proj2 (op_field_ref x)); assumption. Qed.


(* ---------------------------------------------------------------- *)
(* top level: $and / $or / $nor, implicit and *)

Section Top.
  Variable d : doc.
  Local Notation root := (VDoc d).
  Hypothesis H1 : d1 root = true.
  Hypothesis H3 : d3 root = true.

  Definition top_agrees (x : value) : Prop :=
    (forall k, core_top strict x k root = true -> top_eval x k d = Ok (ref_top x k root)) /\
    match x with
    | VDoc q => core_filter strict root q = true -> Match d q = Ok (holds_at root q)
    | _ => True
    end.

  (* the per-item functions of core_top / ref_top are core_filter / holds_at *)
  Definition sub_core (item : value) : bool :=
    match item with VDoc q => core_filter strict root q | _ => false end.
  Definition sub_ref (item : value) : bool :=
    match item with VDoc q => holds_at root q | _ => false end.

  Lemma core_top_op x k :
    is_op k = true ->
    core_top strict x k root =
    match x with
    | VArr [] => false
    | VArr items =>
        (String.eqb k "$and" || String.eqb k "$or" || String.eqb k "$nor") && forallb sub_core items
    | _ => false
    end.
  Proof.
    intro Hk. destruct x; simpl; rewrite Hk; reflexivity.
  Qed.

  Lemma ref_top_and items : ref_top (VArr items) "$and" root = forallb sub_ref items.
  Proof.
    reflexivity.
  Qed.

  Lemma ref_top_or items : ref_top (VArr items) "$or" root = existsb sub_ref items.
  Proof.
    reflexivity.
  Qed.

  Lemma ref_top_nor items : ref_top (VArr items) "$nor" root = negb (existsb sub_ref items).
  Proof.
    reflexivity.
  Qed.

  Lemma items_agree items :
    Forall top_agrees items -> forallb sub_core items = true ->
    and_all d items = Ok (forallb sub_ref items) /\ or_any d items = Ok (existsb sub_ref items).
  Proof.
    induction items as [|i l IH]; intros HF Hc; [split; reflexivity|].
    inversion HF as [|? ? Hi Hl]; subst. simpl in Hc. apply andb_prop in Hc. destruct Hc as [Hci Hcl].
    destruct (IH Hl Hcl) as [IHa IHo].
    destruct i as [| | ? | ? | ? | ? ? | ? | q | ? | ? ? | ? | ? | ? | ? ? | ? ?]; try discriminate.
    destruct Hi as [_ Hq]. specialize (Hq Hci).
    split.
    - change (and_all d (VDoc q :: l)) with (and_then (Match d q) (and_all d l)).
      rewrite Hq, IHa. simpl. destruct (holds_at root q); reflexivity.
    - change (or_any d (VDoc q :: l)) with (or_else (Match d q) (or_any d l)).
      rewrite Hq, IHo. simpl. destruct (holds_at root q); reflexivity.
  Qed.

  Lemma filter_agrees q :
    Forall (fun kv => top_agrees (snd kv)) q -> core_filter strict root q = true ->
    Match d q = Ok (holds_at root q).
  Proof.
    induction q as [|[k y] t IH]; intros HF Hc; [reflexivity|].
    inversion HF as [|? ? Hy Ht]; subst.
    change (core_filter strict root ((k, y) :: t)) with (core_top strict y k root && core_filter strict root t) in Hc.
    apply andb_prop in Hc. destruct Hc as [Hcy Hct].
    rewrite Match_cons. destruct Hy as [Hy _]. simpl snd in Hy. rewrite (Hy k Hcy), (IH Ht Hct).
    change (holds_at root ((k, y) :: t)) with (ref_top y k root && holds_at root t).
    destruct (ref_top y k root); reflexivity.
  Qed.

  Theorem top_ref : forall x, top_agrees x.
  Proof.
    induction x as [x IHx] using value_ind'. split.
    - intros k Hc. destruct (is_op k) eqn:Hk.
      + rewrite (core_top_op x k Hk) in Hc.
        destruct x as [| | ? | ? | ? | ? ? | ? | ? | items | ? ? | ? | ? | ? | ? ? | ? ?]; try discriminate.
        destruct items as [|i0 items]; [discriminate|].
        apply andb_prop in Hc. destruct Hc as [Hkk Hci].
        simpl in IHx. destruct (items_agree (i0 :: items) IHx Hci) as [Ha Ho].
        apply orb_prop in Hkk. destruct Hkk as [Hkk|Hkk]; [apply orb_prop in Hkk; destruct Hkk as [Hkk|Hkk]|];
          apply String.eqb_eq in Hkk; subst k.
        * rewrite top_and, ref_top_and. exact Ha.
        * rewrite top_or, ref_top_or. exact Ho.
        * rewrite top_nor_or, top_or, ref_top_nor, Ho. reflexivity.
      + rewrite top_eval_field by exact Hk.
        assert (Hc' : core_field (fan_of strict) (core_op strict) x root (split_path k) = true).
        { destruct x; simpl in Hc; rewrite Hk in Hc; exact Hc. }
        assert (Hr : ref_top x k root = ref_field ref_op x root (split_path k)).
        { destruct x; simpl; rewrite Hk; reflexivity. }
        rewrite Hr. apply (field_ref d k x H1 H3 Hc').
    - destruct x; try exact I. simpl in IHx. apply filter_agrees. exact IHx.
  Qed.
End Top.

(* ---------------------------------------------------------------- *)
(* the agreement theorem on the covered part of the core domain *)

(* Every operator of the core domain: $and, $or, $nor, implicit and, literal
   equality, $eq, $gt, $gte, $lt, $lte, $ne, $in, $nin, $exists, $type, $size,
   $mod, $bitsAllSet, $bitsAllClear, $bitsAnySet, $bitsAnyClear, $not, $all,
   $elemMatch.  $jsonSchema has no reference semantics here and is outside
   `core`. *)
Theorem match_ref d f :
  core d f -> Match d f = Ok (RefMatch.holds d f).
Proof.
  unfold core, coreb, coreb_gen. intro H.
  apply andb_prop in H. destruct H as [H Hf]. apply andb_prop in H. destruct H as [H1 H3].
  destruct (top_ref d H1 H3 (VDoc f)) as [_ Hq]. exact (Hq Hf).
Qed.

(* the name under which the theorem was first proved for a subset of the operators *)
Theorem match_ref_partial d f :
  core_covered d f -> Match d f = Ok (RefMatch.holds d f).
Proof. exact (match_ref d f). Qed.

(* ---------------------------------------------------------------- *)
(* where lungo's matcher and the reference semantics differ: concrete inputs,
   each also run against the real mongokit.Match.  `lungo` is what lungo
   answers; the reference answers the opposite. *)

(* (a) OUTSIDE the property's domain D1-D4: why the domain ends where it does *)
Definition differs (d f : doc) (lungo : bool) : Prop :=
  Match d f = Ok lungo /\ RefMatch.holds d f = negb lungo /\ domainb d f = false.

(* outside D2: null against a fan-out path — MongoDB matches (the second
   element has no b), lungo drops missing entries while collecting *)
Example null_fanout_refuted :
  differs [("a", VArr [VDoc [("b", VInt32 1)]; VDoc [("c", VInt32 2)]])] [("a.b", VNull)] false.
Proof. vm_compute. repeat split. Qed.

(* outside D3: a field named "0" inside an array element — MongoDB follows the
   field name too, lungo takes the index branch only *)
Example numeric_field_refuted :
  differs [("a", VArr [VDoc [("0", VInt32 5)]])] [("a.0", VInt32 5)] false.
Proof. vm_compute. repeat split. Qed.

(* outside D1: an array directly inside an array — MongoDB does not traverse
   it, lungo's collecting get does *)
Example nested_array_refuted :
  differs [("a", VArr [VArr [VDoc [("b", VInt32 1)]]])] [("a.b", VInt32 1)] true.
Proof. vm_compute. repeat split. Qed.

(* a boundary of D2/D3: a numeric segment that indexes into an array holding
   documents.  D3 says that inside the domain a numeric segment addresses an
   array position only; the reference lookup also reads "0" as a field name of
   every element document, which yields a Missing candidate and makes
   {$ne: null} false.  That second reading is semantics the property does not
   state (whether MongoDB does it could not be determined offline); lungo's
   answer is the one D3 describes.  Such a path therefore counts as fan-out
   for D2 and the null operand puts the pair outside the domain: a
   disagreement between this project's reference and lungo outside what the
   property fixes, not a defect of lungo. *)
Example index_null_refuted :
  differs [("a", VArr [VDoc [("b", VInt32 2)]])] [("a.0.b", VDoc [("$ne", VNull)])] true.
Proof. vm_compute. repeat split. Qed.

(* (c) repaired in lungo (known_findings.json, status fixed): the inputs that
   used to differ are now inside `core`, where match_ref applies *)
Definition repaired (d f : doc) (answer : bool) : Prop :=
  core d f /\ Match d f = Ok answer /\ RefMatch.holds d f = answer.

(* C10:type-array-under-fanout: under fan-out every value found is matched like
   a directly addressed field, so $type "array" sees the arrays found *)
Example type_array_fanout_repaired :
  repaired [("a", VArr [VDoc [("b", VArr [VInt32 1])]])] [("a.b", VDoc [("$type", VString "array")])] true.
Proof. vm_compute. repeat split. Qed.

(* C10:exists-under-fanout-empty-array *)
Example exists_fanout_empty_repaired :
  repaired [("a", VArr [VDoc [("b", VArr [])]])] [("a.b", VDoc [("$exists", VBool true)])] true.
Proof. vm_compute. repeat split. Qed.

(* C10:size-under-fanout, both directions *)
Example size_fanout_repaired :
  repaired [("a", VArr [VDoc [("b", VArr [VDoc [("c", VArr [VInt32 1; VInt32 2])]])]])]
           [("a.b.c", VDoc [("$size", VInt32 2)])] true.
Proof. vm_compute. repeat split. Qed.

Example size_fanout_phantom_repaired :
  repaired [("a", VArr [VDoc [("b", VArr [])]])] [("a.b.c", VDoc [("$size", VInt32 0)])] false.
Proof. vm_compute. repeat split. Qed.

(* outside D2, but repaired by the same change: an array operand under fan-out
   is now compared with every array found *)
Example array_operand_fanout_repaired :
  Match [("a", VArr [VDoc [("b", VArr [VInt32 1; VInt32 2])]; VDoc [("b", VArr [VInt32 3])]])]
        [("a.b", VArr [VInt32 3])] = Ok true /\
  RefMatch.holds [("a", VArr [VDoc [("b", VArr [VInt32 1; VInt32 2])]; VDoc [("b", VArr [VInt32 3])]])]
        [("a.b", VArr [VInt32 3])] = true.
Proof. vm_compute. repeat split. Qed.

Example type_null_missing_repaired :
  core [("b", VInt32 1)] [("a", VDoc [("$type", VString "null")])] /\
  Match [("b", VInt32 1)] [("a", VDoc [("$type", VString "null")])] = Ok false /\
  Match [("a", VNull)] [("a", VDoc [("$type", VString "null")])] = Ok true.
Proof. vm_compute. repeat split. Qed.

Example all_mixed_repaired :
  core [("a", VArr [VInt32 1; VInt32 2])]
       [("a", VDoc [("$all", VArr [VInt32 1; VArr [VInt32 1; VInt32 2]])])] /\
  Match [("a", VArr [VInt32 1; VInt32 2])]
        [("a", VDoc [("$all", VArr [VInt32 1; VArr [VInt32 1; VInt32 2]])])] = Ok true /\
  Match [("a", VArr [VInt32 1; VInt32 2])]
        [("a", VDoc [("$all", VArr [VInt32 1; VInt32 3])])] = Ok false.
Proof. vm_compute. repeat split. Qed.

(* the classification is exhaustive and `core` is its first class *)
Lemma domain_class_core d f : domain_class d f = DCore <-> core d f.
Proof. unfold domain_class, core. destruct (coreb d f); split; try reflexivity; discriminate. Qed.

Lemma domain_class_outside d f : domain_class d f = DOutside -> domainb d f = false.
Proof. unfold domain_class, domainb. destruct (coreb d f); [discriminate|reflexivity]. Qed.

(* non-vacuity of match_ref: covered pairs with fan-out, both answers *)
Example match_ref_example :
  core_covered [("a", VArr [VDoc [("b", VInt32 1)]; VDoc [("b", VArr [VInt32 5; VInt32 7])]; VDoc [("c", VNull)]]); ("n", VInt32 7)]
               [("$or", VArr [VDoc [("a.b", VDoc [("$gt", VInt32 6)])]; VDoc [("x", VNull)]]);
                ("n", VDoc [("$not", VDoc [("$mod", VArr [VInt32 2; VInt32 0])]); ("$type", VString "number")])]
  /\ Match [("a", VArr [VDoc [("b", VInt32 1)]; VDoc [("b", VArr [VInt32 5; VInt32 7])]; VDoc [("c", VNull)]]); ("n", VInt32 7)]
           [("$or", VArr [VDoc [("a.b", VDoc [("$gt", VInt32 6)])]; VDoc [("x", VNull)]]);
            ("n", VDoc [("$not", VDoc [("$mod", VArr [VInt32 2; VInt32 0])]); ("$type", VString "number")])]
     = Ok true
  /\ core_covered [("a", VArr [VDoc [("b", VInt32 1)]])] [("a.b", VDoc [("$in", VArr [VInt32 2; VString "x"])])]
  /\ Match [("a", VArr [VDoc [("b", VInt32 1)]])] [("a.b", VDoc [("$in", VArr [VInt32 2; VString "x"])])] = Ok false.
Proof. vm_compute. repeat split. Qed.
