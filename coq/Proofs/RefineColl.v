(* RefineColl.v — collection-level simulation for C01: under the collection
   invariant (index coherence + uniqueness, CollInv.v), every operation of
   Model/Collection.v (which probes the index ENTRIES) and the corresponding
   operation of Spec/SpecDb.v (which scans the DOCUMENTS) agree: both fail
   with the same error kind, or both succeed with related results and the
   abstraction of the new collection is the spec's new collection. *)
From Coq Require Import List ZArith Lia Bool.
From Lungo.Model Require Import Driver RunSpec.
From Lungo.Spec Require Import SpecDb.
From Lungo.Proofs Require Import OrderLaws CompareOrder EntryLemmas IndexInv CollLists CollInv
  CollDup RefineLists.
Import ListNotations.
Open Scope Z_scope.

(* the definition an index stands for *)
Definition defof (ni : string * index) : sdef :=
  mkDef (fst ni) (ix_config (snd ni)) (ix_cols (snd ni)).

Lemma abs_coll_eq c : abs_coll c = mkSColl (map snd (c_docs c)) (map defof (c_indexes c)).
Proof. reflexivity. Qed.

Lemma defs_same_shape l l' : same_shape l l' -> map defof l = map defof l'.
Proof.
  intro H. induction H as [|a b l l' [Hn [Hc Hl]] _ IH]; simpl; auto.
  rewrite IH. f_equal. unfold defof. rewrite Hn, Hc, Hl. reflexivity.
Qed.

Lemma defof_same_def n a b : same_def a b -> defof (n, a) = defof (n, b).
Proof. intros [Hc Hl]. unfold defof. simpl. rewrite Hc, Hl. reflexivity. Qed.

(* relation between results *)
Definition res_rel (r : cresult) (sr : sresult) : Prop :=
  map snd (r_matched r) = sr_matched sr /\
  map snd (r_modified r) = sr_modified sr /\
  option_map snd (r_upserted r) = sr_upserted sr.

(* relation between outcomes: same error kind, or related successes *)
Definition out_rel {A B} (RR : A -> B -> Prop) (o : coll * (A + ekind)) (so : (scoll * B) + ekind)
  : Prop :=
  match o, so with
  | (c', inl r), inl (sc', sr) => abs_coll c' = sc' /\ RR r sr
  | (_, inr e), inr e' => e = e'
  | _, _ => False
  end.

Section RefineColl.
  Set Default Proof Using "Type".
  Variable matchf : doc -> doc -> res bool.
  Variable applyf : doc -> doc -> doc -> bool -> list doc -> Z -> res (doc * list (string * value)).
  Variable extractf : doc -> res doc.

  Local Notation covered := (Collection.covered matchf).
  Local Notation index_add := (Collection.index_add matchf).
  Local Notation index_remove := (Collection.index_remove matchf).
  Local Notation add_all := (Collection.add_all matchf).
  Local Notation swap_all := (Collection.swap_all matchf).
  Local Notation remove_docs := (Collection.remove_docs matchf).
  Local Notation add_docs := (Collection.add_docs matchf).
  Local Notation build := (Collection.build matchf).
  Local Notation find_list := (Collection.find_list matchf).
  Local Notation apply_list := (Collection.apply_list applyf).
  Local Notation coll_insert := (Collection.coll_insert matchf).
  Local Notation coll_replace := (Collection.coll_replace matchf).
  Local Notation coll_update := (Collection.coll_update matchf applyf).
  Local Notation coll_upsert := (Collection.coll_upsert matchf applyf extractf).
  Local Notation coll_delete := (Collection.coll_delete matchf).
  Local Notation coll_create_index := (Collection.coll_create_index matchf).
  Local Notation ix_ok := (IndexInv.ix_ok matchf).
  Local Notation ix_good := (IndexInv.ix_good matchf).
  Local Notation ixs_good := (IndexInv.ixs_good matchf).
  Local Notation covers_ok := (IndexInv.covers_ok matchf).
  Local Notation dup_in := (IndexInv.dup_in matchf).
  Local Notation coll_inv := (CollInv.coll_inv matchf).
  Local Notation def_covers := (SpecDb.def_covers matchf).
  Local Notation def_admits := (SpecDb.def_admits matchf).
  Local Notation admits := (SpecDb.admits matchf).
  Local Notation removable := (SpecDb.removable matchf).
  Local Notation removable_all := (SpecDb.removable_all matchf).
  Local Notation admit_all := (SpecDb.admit_all matchf).
  Local Notation buildable := (SpecDb.buildable matchf).

  (* ---------------------------------------------------------------- *)
  (* one index: probing the entries = scanning the documents *)

  Lemma def_covers_covered ni d : def_covers (defof ni) d = covered (snd ni) d.
  Proof. reflexivity. Qed.

  Lemma shares_key_iff ni d e : shares_key (defof ni) d e = true <-> shares (snd ni) d e.
  Proof.
    unfold shares_key, shares. cbn [defof d_cols]. rewrite existsb_exists. split.
    - intros [t1 [H1 H]]. apply existsb_exists in H. destruct H as [t2 [H2 H]]. eauto.
    - intros [t1 [t2 [H1 [H2 H]]]]. exists t1. split; auto. apply existsb_exists. eauto.
  Qed.

  (* the duplicate test of def_admits *)
  Definition dup_scan (ni : string * index) (others : list doc) (d : doc) : bool :=
    cf_unique (ix_config (snd ni)) &&
    existsb (fun e => match def_covers (defof ni) e with
                      | Ok true => shares_key (defof ni) d e
                      | _ => false
                      end) others.

  Lemma dup_scan_iff P ni l d :
    (forall x, P x <-> In x l) -> covered (snd ni) d = Ok true ->
    (dup_scan ni (map snd l) d = true <-> dup_in P (snd ni) d).
  Proof.
    intros HP Hc. unfold dup_scan, IndexInv.dup_in. rewrite andb_true_iff, existsb_exists. split.
    - intros [Hu [e [Hin H]]]. split; auto. split; auto.
      apply in_map_iff in Hin. destruct Hin as [[id2 d2] [He Hin]]. simpl in He. subst e.
      rewrite def_covers_covered in H.
      destruct (covered (snd ni) d2) as [[|]| | | |] eqn:E; try discriminate.
      exists id2, d2. split; [apply HP; exact Hin|]. split; auto. apply shares_key_iff. exact H.
    - intros [Hu [_ [id2 [d2 [Hp [Hc2 Hs]]]]]]. split; auto. exists d2. split.
      + apply in_map_iff. exists (id2, d2). split; auto. apply HP. exact Hp.
      + rewrite def_covers_covered, Hc2. apply shares_key_iff. exact Hs.
  Qed.

  Lemma def_admits_eq ni others d :
    def_admits (defof ni) others d =
    match covered (snd ni) d with
    | Ok false => None
    | Ok true => if dup_scan ni others d then Some EDup else None
    | r => Some (ekind_of_res r)
    end.
  Proof. reflexivity. Qed.

  Lemma index_add_admits P ix n id d l :
    ix_ok P ix -> fresh_id P id -> (forall x, P x <-> In x l) ->
    match index_add ix (id, d) with
    | inr e => def_admits (defof (n, ix)) (map snd l) d = Some e
    | inl (false, _) => def_admits (defof (n, ix)) (map snd l) d = Some EDup
    | inl (true, _) => def_admits (defof (n, ix)) (map snd l) d = None
    end.
  Proof.
    intros Hok Hf HP. rewrite def_admits_eq. cbn [snd].
    destruct (covered ix d) as [[|]| | | |] eqn:Hc.
    - pose proof (dup_scan_iff P (n, ix) l d HP Hc) as Hd. cbn [snd] in Hd.
      pose proof (index_add_dup_iff matchf P ix id d Hok Hf) as Hi.
      destruct (index_add ix (id, d)) as [[[|] ix']|e] eqn:Ha.
      + destruct (dup_scan (n, ix) (map snd l) d); auto.
        exfalso. destruct (proj2 Hi (proj1 Hd eq_refl)) as [ix2 H2]. discriminate.
      + rewrite (proj2 Hd); auto. apply Hi. eauto.
      + exfalso. rewrite (index_add_covered matchf ix id d Hc) in Ha. discriminate.
    - rewrite (index_add_uncovered matchf ix id d Hc). reflexivity.
    - unfold Collection.index_add. cbn [snd]. rewrite Hc. reflexivity.
    - unfold Collection.index_add. cbn [snd]. rewrite Hc. reflexivity.
    - unfold Collection.index_add. cbn [snd]. rewrite Hc. reflexivity.
    - unfold Collection.index_add. cbn [snd]. rewrite Hc. reflexivity.
  Qed.

  (* ---------------------------------------------------------------- *)
  (* the loops over the index map *)

  Lemma add_all_admits P ixs id d l :
    Forall (fun ni => ix_ok P (snd ni)) ixs -> fresh_id P id -> (forall x, P x <-> In x l) ->
    snd (add_all ixs (id, d)) = admits (map defof ixs) (map snd l) d.
  Proof.
    intros G Hf HP. induction ixs as [|[n ix] t IH]; [reflexivity|].
    inversion G as [|? ? G1 G2]; subst. cbn [snd] in G1.
    rewrite add_all_cons. cbn [map SpecDb.admits].
    pose proof (index_add_admits P ix n id d l G1 Hf HP) as Ha.
    destruct (index_add ix (id, d)) as [[[|] ix']|e].
    - rewrite Ha. rewrite <- (IH G2). destruct (add_all t (id, d)) as [t' e']. reflexivity.
    - rewrite Ha. reflexivity.
    - rewrite Ha. reflexivity.
  Qed.

  Lemma removable_none P ixs id d :
    Forall (fun ni => ix_ok P (snd ni)) ixs -> P (id, d) -> removable (map defof ixs) d = None.
  Proof.
    intros G Hp. induction ixs as [|[n ix] t IH]; [reflexivity|].
    inversion G as [|? ? G1 G2]; subst. cbn [snd] in G1. cbn [map SpecDb.removable].
    rewrite def_covers_covered. cbn [snd].
    destruct G1 as [_ [Hc _]]. destruct (Hc (id, d) Hp) as [b Hb]. cbn [snd] in Hb.
    rewrite Hb. apply IH. exact G2.
  Qed.

  Lemma removable_all_none P ixs f (matched : list sdoc) :
    Forall (fun ni => ix_ok P (snd ni)) ixs -> (forall sd, In sd matched -> P sd) ->
    removable_all (map defof ixs) (map (retag f) matched) = None.
  Proof.
    intros G Hp. induction matched as [|[id d] t IH]; [reflexivity|].
    cbn [map retag SpecDb.removable_all fst snd].
    rewrite (removable_none P ixs id d G (Hp _ (or_introl eq_refl))).
    apply IH. intros sd Hsd. apply Hp. right. exact Hsd.
  Qed.

  Lemma swap_all_admits P ixs old id d l' :
    Forall (fun ni => ix_ok P (snd ni)) ixs -> P old -> ids_unique P -> fresh_id P id ->
    (forall x, (P x /\ x <> old) <-> In x l') ->
    snd (swap_all ixs old (id, d)) = admits (map defof ixs) (map snd l') d.
  Proof.
    destruct old as [oid od]. intros G Hp Hids Hf HP.
    assert (F1 : fresh_id (fun x => P x /\ x <> (oid, od)) id)
      by (apply (fresh_id_sub P); auto; intros x [Hx _]; exact Hx).
    induction ixs as [|[n ix] t IH]; [reflexivity|].
    inversion G as [|? ? G1 G2]; subst. cbn [snd] in G1.
    rewrite swap_all_cons. cbn [map SpecDb.admits].
    destruct (index_remove_good matchf P ix oid od G1 Hp Hids) as [ix1 [H1 [Hs1 Hok1]]].
    rewrite H1.
    pose proof (index_add_admits _ ix1 n id d l' Hok1 F1 HP) as Ha.
    rewrite <- (defof_same_def n ix ix1 Hs1) in Ha.
    destruct (index_add ix1 (id, d)) as [[[|] ix']|e].
    - rewrite Ha. rewrite <- (IH G2). destruct (swap_all t (oid, od) (id, d)) as [t' e']. reflexivity.
    - rewrite Ha. reflexivity.
    - rewrite Ha. reflexivity.
  Qed.

  Lemma admit_all_tags defs others (a b : list (Z * doc)) :
    map snd a = map snd b -> admit_all defs others a = admit_all defs others b.
  Proof.
    revert others b. induction a as [|[i d] t IH]; intros others b H; destruct b as [|[j e] b'];
      try discriminate; [reflexivity|].
    simpl in H. injection H as H1 H2. subst e. cbn [SpecDb.admit_all].
    destruct (admits defs others d); auto.
  Qed.

  Lemma add_docs_admit_all P ixs (newl : list sdoc) l :
    ixs_good P ixs -> (forall x, P x <-> In x l) ->
    (forall sd, In sd newl -> fresh_id P (fst sd)) -> NoDup (map fst newl) ->
    snd (add_docs ixs newl) = admit_all (map defof ixs) (map snd l) newl.
  Proof.
    revert P ixs l. induction newl as [|[id d] t IH]; intros P ixs l G HP F Hnd; [reflexivity|].
    rewrite add_docs_cons. cbn [SpecDb.admit_all].
    simpl in Hnd. inversion Hnd as [|? ? Hn1 Hn2]; subst.
    pose proof (F _ (or_introl eq_refl)) as F0. cbn [fst] in F0.
    rewrite <- (add_all_admits P ixs id d l (ixs_good_ok matchf _ _ G) F0 HP).
    destruct (add_all ixs (id, d)) as [ixs1 [e|]] eqn:Ha; cbn [snd]; [reflexivity|].
    destruct (add_all_good matchf P ixs id d ixs1 Ha G F0) as [G1 S1].
    rewrite (defs_same_shape _ _ S1).
    replace (map snd l ++ [d])%list with (map snd (l ++ [(id, d)])%list)
      by (rewrite map_app; reflexivity).
    apply (IH (fun x => P x \/ x = (id, d))); auto.
    - intro x. rewrite in_app_iff, HP. simpl. split; [intros [H|H]; auto | intros [H|[H|[]]]; auto].
    - intros sd Hsd. apply fresh_id_add; [apply F; right; auto|].
      intro Heq. apply Hn1. rewrite <- Heq. apply in_map. exact Hsd.
  Qed.

  Lemma build_buildable P ix n (rest : list sdoc) l :
    ix_good P ix -> (forall x, P x <-> In x l) ->
    (forall sd, In sd rest -> fresh_id P (fst sd)) -> NoDup (map fst rest) ->
    snd (build ix rest) = buildable (defof (n, ix)) (map snd l) (map snd rest).
  Proof.
    revert P ix l. induction rest as [|[id d] t IH]; intros P ix l G HP F Hnd; [reflexivity|].
    rewrite build_cons. cbn [map snd SpecDb.buildable].
    simpl in Hnd. inversion Hnd as [|? ? Hn1 Hn2]; subst.
    pose proof (F _ (or_introl eq_refl)) as F0. cbn [fst] in F0.
    pose proof G as [Hok _].
    pose proof (index_add_admits P ix n id d l Hok F0 HP) as Ha.
    destruct (index_add ix (id, d)) as [[[|] ix1]|e] eqn:Hadd.
    - rewrite Ha.
      destruct (index_add_good matchf P ix id d ix1 Hadd G F0) as [G1 S1].
      rewrite (defof_same_def n ix ix1 S1).
      replace (map snd l ++ [d])%list with (map snd (l ++ [(id, d)])%list)
        by (rewrite map_app; reflexivity).
      apply (IH (fun x => P x \/ x = (id, d))); auto.
      + intro x. rewrite in_app_iff, HP. simpl. split; [intros [H|H]; auto | intros [H|[H|[]]]; auto].
      + intros sd Hsd. apply fresh_id_add; [apply F; right; auto|].
        intro Heq. apply Hn1. rewrite <- Heq. apply in_map. exact Hsd.
    - rewrite Ha. reflexivity.
    - rewrite Ha. reflexivity.
  Qed.

  (* ---------------------------------------------------------------- *)
  (* Insert / Upsert *)

  Definition s_append (sc : scoll) (prepared : res doc) (smk : doc -> sresult)
    : (scoll * sresult) + ekind :=
    match prepared with
    | Ok d' =>
        match admits (sc_defs sc) (sc_docs sc) d' with
        | Some e => inr e
        | None => inl (mkSColl (sc_docs sc ++ [d']) (sc_defs sc), smk d')
        end
    | r => inr (ekind_of_res r)
    end.

  Lemma s_insert_eq sc d oid :
    s_insert matchf sc d oid = s_append sc (ensure_id d oid) (fun d' => mkSR [] [d'] None).
  Proof. unfold s_insert, s_append. destruct (ensure_id d oid); reflexivity. Qed.

  Lemma s_upsert_eq now sc q repl update afs oid :
    s_upsert matchf applyf extractf now sc q repl update afs oid =
    s_append sc (upsert_prepared applyf extractf q repl update afs oid now)
             (fun d' => mkSR [] [] (Some d')).
  Proof.
    unfold s_upsert, s_append, upsert_prepared.
    destruct (bind (upsert_doc applyf extractf q repl update afs now) (fun d2 => ensure_id d2 oid));
      reflexivity.
  Qed.

  Lemma sim_append c fresh prepared mk smk :
    coll_inv c -> ids_lt c fresh ->
    (forall d', res_rel (mk (fresh, d')) (smk d')) ->
    out_rel res_rel (append_op matchf c fresh prepared mk) (s_append (abs_coll c) prepared smk).
  Proof.
    intros Hinv Hlt Hmk. unfold append_op, s_append, failr, fail.
    destruct prepared as [d'| | | |]; try reflexivity.
    rewrite abs_coll_eq. cbn [sc_docs sc_defs].
    rewrite <- (add_all_admits (docs_of c) (c_indexes c) fresh d' (c_docs c)
                  (coll_inv_ok matchf c Hinv) (ids_lt_fresh c fresh Hlt) (fun x => iff_refl _)).
    destruct (add_all (c_indexes c) (fresh, d')) as [ixs [e|]] eqn:Ha; cbn [snd]; [reflexivity|].
    rewrite (proj2 (set_has_false (c_docs c) fresh) (ids_lt_notin c fresh Hlt)).
    split; [|apply Hmk].
    rewrite abs_coll_eq. cbn [c_docs c_indexes]. rewrite map_app.
    rewrite (defs_same_shape _ _ (add_all_shape matchf _ _ _ _ _ Ha)). reflexivity.
  Qed.

  Theorem sim_insert c fresh d oid :
    coll_inv c -> ids_lt c fresh ->
    out_rel res_rel (coll_insert c fresh d oid) (s_insert matchf (abs_coll c) d oid).
  Proof.
    intros Hinv Hlt. rewrite (coll_insert_eq matchf), s_insert_eq.
    apply sim_append; auto. intro d'. repeat split.
  Qed.

  Theorem sim_upsert c fresh q repl update afs oid now :
    coll_inv c -> ids_lt c fresh ->
    out_rel res_rel (coll_upsert c fresh q repl update afs oid now)
            (s_upsert matchf applyf extractf now (abs_coll c) q repl update afs oid).
  Proof.
    intros Hinv Hlt. rewrite (coll_upsert_eq matchf applyf extractf), s_upsert_eq.
    apply sim_append; auto. intro d'. repeat split.
  Qed.

  (* ---------------------------------------------------------------- *)
  (* Delete *)

  Lemma retag_positions (l matched : list sdoc) :
    map fst (map (retag (posf l)) matched) = map (fun m => posf l (fst m)) matched.
  Proof. rewrite map_map. reflexivity. Qed.

  Theorem sim_delete c q sort skip limit :
    coll_inv c ->
    out_rel res_rel (coll_delete c q sort skip limit) (s_delete matchf (abs_coll c) q sort skip limit).
  Proof.
    intro Hinv. pose proof Hinv as [Hnd _].
    unfold s_delete. rewrite abs_coll_eq. cbn [sc_docs sc_defs].
    rewrite (s_find_find_list matchf (c_docs c) q sort skip limit Hnd).
    destruct (find_list (c_docs c) q sort skip limit) as [matched| | | |] eqn:Hf;
      try (unfold Collection.coll_delete; rewrite Hf; reflexivity).
    cbn [rmap bind].
    pose proof (find_list_in matchf _ _ _ _ _ _ Hf) as Hincl.
    destruct (find_list_nodup matchf _ _ _ _ _ _ Hf Hnd) as [_ Hndm].
    rewrite (removable_all_none (docs_of c) (c_indexes c) (posf (c_docs c)) matched
               (coll_inv_ok matchf c Hinv) Hincl).
    destruct (remove_docs_good matchf (docs_of c) (c_indexes c) matched
                (coll_inv_good matchf c Hinv) (coll_inv_ids_unique matchf c Hinv) Hincl Hndm)
      as [ixs1 [Hr1 [_ S1]]].
    unfold Collection.coll_delete. rewrite Hf, Hr1. rewrite fold_set_remove.
    fold (minus_matched (c_docs c) matched).
    split.
    - rewrite abs_coll_eq. cbn [c_docs c_indexes].
      rewrite retag_positions, (without_minus (c_docs c) matched Hnd Hincl).
      rewrite (defs_same_shape _ _ S1). reflexivity.
    - repeat split. cbn [r_matched sr_matched]. symmetry. apply retag_snd.
  Qed.

  (* ---------------------------------------------------------------- *)
  (* Replace *)

  Definition s_replace_with (sc : scoll) (i : Z) (old : doc) (prepared : res doc)
    : (scoll * sresult) + ekind :=
    match prepared with
    | Ok repl' =>
        match removable (sc_defs sc) old with
        | Some e => inr e
        | None =>
            match admits (sc_defs sc) (without (sc_docs sc) [i]) repl' with
            | Some e => inr e
            | None =>
                inl (mkSColl (replace_at (sc_docs sc) i repl') (sc_defs sc),
                     mkSR [old] (if value_eqb (VDoc old) (VDoc repl') then [] else [repl']) None)
            end
        end
    | r => inr (ekind_of_res r)
    end.

  Lemma s_replace_eq sc q repl sort :
    s_replace matchf sc q repl sort =
    match s_find matchf (sc_docs sc) q sort 0 1 with
    | Ok [] => inl (sc, sr_empty)
    | Ok ((i, old) :: _) => s_replace_with sc i old (replace_prepared old repl)
    | r => inr (ekind_of_res r)
    end.
  Proof. reflexivity. Qed.

  Lemma minus_one_in c old x :
    coll_inv c -> In old (c_docs c) ->
    ((docs_of c x /\ x <> old) <-> In x (minus_matched (c_docs c) [old])).
  Proof.
    intros Hinv Ho.
    rewrite (minus_matched_in matchf c [old] x Hinv)
      by (intros y [<-|[]]; exact Ho).
    unfold docs_of. simpl. split.
    - intros [H1 H2]. split; [exact H1|]. intros [E|[]]. apply H2. symmetry. exact E.
    - intros [H1 H2]. split; [exact H1|]. intro E. apply H2. left. symmetry. exact E.
  Qed.

  Theorem sim_replace c fresh q repl sort :
    coll_inv c -> ids_lt c fresh ->
    out_rel res_rel (coll_replace c fresh q repl sort) (s_replace matchf (abs_coll c) q repl sort).
  Proof.
    intros Hinv Hlt. pose proof Hinv as [Hnd _].
    rewrite (coll_replace_eq matchf), s_replace_eq. rewrite abs_coll_eq. cbn [sc_docs].
    rewrite (s_find_find_list matchf (c_docs c) q sort 0 1 Hnd).
    destruct (find_list (c_docs c) q sort 0 1) as [[|old rest]| | | |] eqn:Hf; try reflexivity.
    - cbn [rmap bind map]. split; [reflexivity|]. repeat split.
    - pose proof (find_list_one_shape matchf _ _ _ _ _ Hf) as ->.
      assert (Ho : In old (c_docs c)) by (apply (find_list_in matchf _ _ _ _ _ _ Hf); left; auto).
      destruct old as [oid od].
      cbn [rmap bind map retag fst snd].
      unfold replace_with, s_replace_with, failr, fail.
      destruct (replace_prepared od repl) as [repl'| | | |]; try reflexivity.
      cbn [sc_docs sc_defs fst snd]. cbv zeta.
      rewrite (removable_none (docs_of c) (c_indexes c) oid od (coll_inv_ok matchf c Hinv) Ho).
      pose proof (without_minus (c_docs c) [(oid, od)] Hnd) as Hw. cbn [map fst] in Hw.
      rewrite Hw by (intros y [<-|[]]; exact Ho).
      rewrite <- (swap_all_admits (docs_of c) (c_indexes c) (oid, od) fresh repl'
                    (minus_matched (c_docs c) [(oid, od)])
                    (coll_inv_ok matchf c Hinv) Ho (coll_inv_ids_unique matchf c Hinv)
                    (ids_lt_fresh c fresh Hlt)
                    (fun x => minus_one_in c (oid, od) x Hinv Ho)).
      destruct (swap_all (c_indexes c) (oid, od) (fresh, repl')) as [ixs [e|]] eqn:Hs; cbn [snd];
        [reflexivity|].
      rewrite (proj2 (set_has_false (c_docs c) fresh) (ids_lt_notin c fresh Hlt)).
      destruct (swap_all_good matchf (docs_of c) _ (oid, od) fresh repl' ixs Hs
                  (coll_inv_good matchf c Hinv) Ho (coll_inv_ids_unique matchf c Hinv)
                  (ids_lt_fresh c fresh Hlt)) as [_ S].
      split.
      + rewrite abs_coll_eq. cbn [c_docs c_indexes].
        rewrite (replace_at_posf (c_docs c) oid fresh repl' Hnd)
          by (apply (in_map fst) in Ho; exact Ho).
        rewrite (defs_same_shape _ _ S). reflexivity.
      + repeat split. cbn [r_modified sr_modified snd].
        destruct (value_eqb (VDoc od) (VDoc repl')); reflexivity.
  Qed.

  (* ---------------------------------------------------------------- *)
  (* Update *)

  Definition s_update_with (sc : scoll) (matched : list (Z * doc)) (applied : res (list (Z * doc)))
    : (scoll * sresult) + ekind :=
    match applied with
    | Ok newl =>
        if negb (s_ids_unchanged matched newl) then inr EErr
        else
          match removable_all (sc_defs sc) matched with
          | Some e => inr e
          | None =>
              match admit_all (sc_defs sc) (without (sc_docs sc) (map fst matched)) newl with
              | Some e => inr e
              | None =>
                  inl (mkSColl (replace_all_at (sc_docs sc) newl) (sc_defs sc),
                       mkSR (map snd matched) (s_modified matched newl) None)
              end
          end
    | r => inr (ekind_of_res r)
    end.

  Lemma s_update_eq now sc q u sort skip limit afs :
    s_update matchf applyf now sc q u sort skip limit afs =
    match s_find matchf (sc_docs sc) q sort skip limit with
    | Ok [] => inl (sc, sr_empty)
    | Ok (x :: t) => s_update_with sc (x :: t) (s_apply_all applyf now (x :: t) q u afs)
    | r => inr (ekind_of_res r)
    end.
  Proof.
    unfold s_update, s_update_with.
    destruct (s_find matchf (sc_docs sc) q sort skip limit) as [[|x t]| | | |]; try reflexivity.
    destruct (s_apply_all applyf now (x :: t) q u afs); reflexivity.
  Qed.

  Theorem sim_update c fresh q u sort skip limit afs now :
    coll_inv c -> ids_lt c fresh ->
    out_rel res_rel (coll_update c fresh q u sort skip limit afs now)
            (s_update matchf applyf now (abs_coll c) q u sort skip limit afs).
  Proof.
    intros Hinv Hlt. pose proof Hinv as [Hnd _].
    rewrite (coll_update_eq matchf applyf), s_update_eq, abs_coll_eq. cbn [sc_docs].
    rewrite (s_find_find_list matchf (c_docs c) q sort skip limit Hnd).
    destruct (find_list (c_docs c) q sort skip limit) as [[|m rest]| | | |] eqn:Hf; try reflexivity.
    - split; [reflexivity|]. repeat split.
    - set (matched := m :: rest) in *.
      change (out_rel res_rel
                (update_with matchf c matched (apply_list matched fresh q u afs now))
                (s_update_with (mkSColl (map snd (c_docs c)) (map defof (c_indexes c)))
                   (map (retag (posf (c_docs c))) matched)
                   (s_apply_all applyf now (map (retag (posf (c_docs c))) matched) q u afs))).
      unfold s_update_with. cbn [sc_docs sc_defs].
      rewrite (apply_list_zip applyf (posf (c_docs c)) matched fresh q u afs now).
      unfold update_with, failr, fail.
      destruct (apply_list matched fresh q u afs now) as [[newl chs]| | | |] eqn:Hap;
        try reflexivity.
      cbn [rmap bind fst].
      rewrite ids_unchanged_zip.
      destruct (ids_unchanged matched newl) eqn:Hi; cbn [negb]; [|reflexivity].
      destruct (update_setup matchf applyf c fresh q u sort skip limit afs now matched newl chs
                  Hinv Hlt Hf Hap) as [ixs1 [Hr1 [G1 [S1 [Hfr [Hndn R]]]]]].
      rewrite Hr1.
      pose proof (find_list_in matchf _ _ _ _ _ _ Hf) as Hincl.
      destruct (find_list_nodup matchf _ _ _ _ _ _ Hf Hnd) as [Hndm _].
      rewrite (removable_all_none (docs_of c) (c_indexes c) (posf (c_docs c)) matched
                 (coll_inv_ok matchf c Hinv) Hincl).
      destruct (apply_list_lengths applyf _ _ _ _ _ _ _ _ Hap) as [Hl1 Hl2].
      rewrite retag_positions, (without_minus (c_docs c) matched Hnd Hincl).
      rewrite (admit_all_tags _ _ (zip_pos (posf (c_docs c)) matched newl) newl)
        by (apply zip_pos_snd; congruence).
      rewrite (defs_same_shape _ _ S1).
      rewrite <- (add_docs_admit_all (fun x => docs_of c x /\ ~ In x matched) ixs1 newl
                    (minus_matched (c_docs c) matched) G1
                    (fun x => iff_sym (minus_matched_in matchf c matched x Hinv Hincl)) Hfr Hndn).
      destruct (add_docs ixs1 newl) as [ixs' [e|]] eqn:Ha; cbn [snd]; [reflexivity|].
      destruct (add_docs_good matchf _ ixs1 newl ixs' Ha G1 Hfr Hndn) as [_ S2].
      pose proof (modified_zip (posf (c_docs c)) matched newl chs) as Hmod.
      destruct (modified_only matched newl chs) as [md cs]. cbn [fst] in Hmod.
      pose proof (apply_list_ids applyf _ _ _ _ _ _ _ _ Hap) as Hids.
      destruct (update_facts matchf c fresh matched newl Hinv Hlt Hincl Hndm Hids)
        as [Hlen [Hfd [_ _]]].
      split.
      + rewrite abs_coll_eq. cbn [c_docs c_indexes].
        rewrite (replace_docs_all_at (c_docs c) matched newl Hnd) ; auto.
        * rewrite <- (defs_same_shape _ _ S2). reflexivity.
        * apply incl_map. exact Hincl.
      + split; [|split]; cbn [r_matched r_modified r_upserted sr_matched sr_modified sr_upserted].
        * symmetry. apply retag_snd.
        * symmetry. apply Hmod. congruence.
        * reflexivity.
  Qed.

  (* ---------------------------------------------------------------- *)
  (* CreateIndex / DropIndex *)

  Lemma existsb_map {A B} (g : A -> B) (p : B -> bool) l :
    existsb p (map g l) = existsb (fun x => p (g x)) l.
  Proof. induction l as [|x t IH]; simpl; auto. rewrite IH. reflexivity. Qed.

  Lemma filter_name_find ixs n :
    match find_index ixs n with
    | Some ix => exists rest,
        filter (fun df => String.eqb (d_name df) n) (map defof ixs) = defof (n, ix) :: rest
    | None => filter (fun df => String.eqb (d_name df) n) (map defof ixs) = []
    end.
  Proof.
    induction ixs as [|[m jx] t IH]; [reflexivity|].
    cbn [find_index map filter defof d_name fst snd].
    destruct (String.eqb m n) eqn:E.
    - apply String.eqb_eq in E. subst m. eexists. reflexivity.
    - exact IH.
  Qed.

  Lemma existsb_name_find ixs n :
    existsb (fun df => String.eqb (d_name df) n) (map defof ixs) =
    match find_index ixs n with Some _ => true | None => false end.
  Proof.
    induction ixs as [|[m jx] t IH]; [reflexivity|].
    cbn [find_index map existsb defof d_name fst snd].
    destruct (String.eqb m n); auto.
  Qed.

  Theorem sim_create_index c name cf :
    coll_inv c ->
    out_rel (@eq string) (coll_create_index c name cf) (s_create_index matchf (abs_coll c) name cf).
  Proof.
    intro Hinv. pose proof Hinv as [Hnd _].
    rewrite (coll_create_index_eq matchf). unfold s_create_index.
    change (match name with EmptyString => config_name cf | String _ _ => Ok name end)
      with (index_name name cf).
    destruct (index_name name cf) as [n| | | |]; try reflexivity.
    rewrite abs_coll_eq. cbn [sc_docs sc_defs].
    unfold create_named, fail, failr.
    pose proof (filter_name_find (c_indexes c) n) as Hfn.
    destruct (find_index (c_indexes c) n) as [ix|] eqn:Hf.
    - destruct Hfn as [rest ->]. cbn [defof d_config snd].
      destruct (config_equal cf (ix_config ix)); [|reflexivity].
      split; reflexivity.
    - rewrite Hfn. rewrite existsb_map. cbn [defof d_config].
      change (existsb _ (c_indexes c)) with (key_clash c cf).
      destruct (key_clash c cf); [reflexivity|].
      destruct (new_index cf) as [ix0| | | |] eqn:Hn; try reflexivity.
      destruct (new_index_inv cf ix0 Hn) as [Hw [He Hcf]].
      pose proof (build_buildable (fun _ => False) ix0 n (c_docs c) []
                    (ix_good_empty matchf ix0 Hw He)
                    (fun x => conj (fun (H : False) => match H with end) (fun H : In x [] => H))
                    (fun sd _ d (H : False) => H) Hnd) as Hb.
      unfold defof in Hb. cbn [fst snd map] in Hb. rewrite Hcf in Hb. rewrite <- Hb.
      destruct (build ix0 (c_docs c)) as [ix' [e|]] eqn:Hbd; cbn [snd]; [reflexivity|].
      split; [|reflexivity].
      destruct (build_good matchf (fun _ => False) ix0 (c_docs c) ix' Hbd
                  (ix_good_empty matchf ix0 Hw He) (fun sd _ d (H : False) => H) Hnd)
        as [_ [Hc1 Hc2]].
      rewrite abs_coll_eq. cbn [c_docs c_indexes].
      rewrite (set_index_none _ _ _ Hf), map_app. cbn [map defof fst snd].
      unfold defof. cbn [fst snd]. rewrite <- Hc1, <- Hc2, Hcf. reflexivity.
  Qed.

  Theorem sim_drop_index c name :
    match coll_drop_index c name, s_drop_index (abs_coll c) name with
    | (c', inl _), inl sc' => abs_coll c' = sc'
    | (_, inr e), inr e' => e = e'
    | _, _ => False
    end.
  Proof.
    unfold coll_drop_index, s_drop_index, fail. rewrite abs_coll_eq. cbn [sc_docs sc_defs].
    destruct name as [|a s].
    - rewrite abs_coll_eq. cbn [c_docs c_indexes]. rewrite filter_map_comm. reflexivity.
    - destruct (String.eqb (String a s) "_id_"); [reflexivity|].
      rewrite existsb_name_find.
      destruct (find_index (c_indexes c) (String a s)); [|reflexivity].
      rewrite abs_coll_eq. cbn [c_docs c_indexes]. rewrite filter_map_comm. reflexivity.
  Qed.

  (* ---------------------------------------------------------------- *)
  (* NewCollection *)

  Lemma abs_new_collection : abs_coll (new_collection true) = new_scoll.
  Proof. reflexivity. Qed.

  (* ---------------------------------------------------------------- *)
  (* an operation of the reference that reports no change changes nothing *)

  Lemma scoll_eta sc : mkSColl (sc_docs sc) (sc_defs sc) = sc.
  Proof. destruct sc; reflexivity. Qed.

  Lemma s_find_in docs q sort skip limit r :
    s_find matchf docs q sort skip limit = Ok r -> incl r (number docs 0).
  Proof. unfold s_find. apply (find_list_in matchf). Qed.

  Lemma s_update_unchanged now sc q u sort skip limit afs sc' sr :
    s_update matchf applyf now sc q u sort skip limit afs = inl (sc', sr) ->
    sr_modified sr = [] -> sc' = sc.
  Proof.
    rewrite s_update_eq.
    destruct (s_find matchf (sc_docs sc) q sort skip limit) as [[|x t]| | | |] eqn:Hf; try discriminate.
    - intro H. inversion H. reflexivity.
    - unfold s_update_with.
      destruct (s_apply_all applyf now (x :: t) q u afs) as [newl| | | |] eqn:Ha; try discriminate.
      destruct (negb (s_ids_unchanged (x :: t) newl)); try discriminate.
      destruct (removable_all (sc_defs sc) (x :: t)); try discriminate.
      destruct (admit_all (sc_defs sc) (without (sc_docs sc) (map fst (x :: t))) newl);
        try discriminate.
      intro H. inversion H; subst. cbn [sr_modified]. intro Hm.
      pose proof (s_modified_nil (x :: t) newl (s_apply_all_tags applyf _ _ _ _ _ _ Ha) Hm) as ->.
      rewrite (replace_all_at_same (sc_docs sc) (x :: t) (s_find_in _ _ _ _ _ _ Hf)).
      apply scoll_eta.
  Qed.

  Lemma s_replace_unchanged sc q repl sort sc' sr :
    s_replace matchf sc q repl sort = inl (sc', sr) -> sr_modified sr = [] -> sc' = sc.
  Proof.
    rewrite s_replace_eq.
    destruct (s_find matchf (sc_docs sc) q sort 0 1) as [[|[i old] t]| | | |] eqn:Hf; try discriminate.
    - intro H. inversion H. reflexivity.
    - unfold s_replace_with.
      destruct (replace_prepared old repl) as [repl'| | | |]; try discriminate.
      destruct (removable (sc_defs sc) old); try discriminate.
      destruct (admits (sc_defs sc) (without (sc_docs sc) [i]) repl'); try discriminate.
      intro H.
      assert (E1 : sc' = mkSColl (replace_at (sc_docs sc) i repl') (sc_defs sc)) by congruence.
      assert (E2 : sr = mkSR [old] (if value_eqb (VDoc old) (VDoc repl') then [] else [repl']) None)
        by congruence.
      subst sc' sr. clear H. cbn [sr_modified].
      destruct (value_eqb (VDoc old) (VDoc repl')) eqn:E; [|intro Hx; discriminate Hx]. intros _.
      apply value_eqb_eq in E. inversion E; subst repl'.
      pose proof (number_in_replace_at (sc_docs sc) 0 i old
                    (s_find_in _ _ _ _ _ _ Hf _ (or_introl eq_refl))) as Hr.
      rewrite Z.sub_0_r in Hr. rewrite Hr. apply scoll_eta.
  Qed.

  Lemma s_delete_shape sc q sort skip limit sc' sr :
    s_delete matchf sc q sort skip limit = inl (sc', sr) ->
    sr_modified sr = [] /\ sr_upserted sr = None /\ (sr_matched sr = [] -> sc' = sc).
  Proof.
    unfold s_delete.
    destruct (s_find matchf (sc_docs sc) q sort skip limit) as [matched| | | |]; try discriminate.
    destruct (removable_all (sc_defs sc) matched); try discriminate.
    intro H. inversion H; subst. cbn [sr_modified sr_upserted sr_matched].
    split; [reflexivity|]. split; [reflexivity|]. intro Hm.
    destruct matched as [|m ms]; [|simpl in Hm; discriminate]. cbn [map]. rewrite without_nil. apply scoll_eta.
  Qed.

End RefineColl.
