(* CommitProofs.v — soundness of the checker `commit_ok` for the statement
   order of Engine.Commit (Model/Commit.v), for ALL statement lists, engine
   states and inputs; the store-failure theorem. *)
From Coq Require Import List Arith Lia Bool.
From Lungo.Model Require Import Base Commit.
Import ListNotations.
Open Scope list_scope.

Definition set_locked (e : eng) (b : bool) : eng :=
  mkeng (alive e) (etxn e) (token e) (committed e) b (elog e).
Definition set_txn (e : eng) (t : option nat) : eng :=
  mkeng (alive e) t (token e) (committed e) (locked e) (elog e).

(* nothing visible happened: the call was refused at the entry checks *)
Definition unchanged (e0 e' : eng) : Prop :=
  alive e' = alive e0 /\ etxn e' = etxn e0 /\ token e' = token e0 /\
  committed e' = committed e0 /\ elog e' = elog e0 /\ locked e' = false.

(* Store was called exactly once, BEFORE any publication (it saw the old
   committed catalog), and the catalog was published iff Store returned nil *)
Definition store_outcome (e0 : eng) (i : cin) (r : cres) (e' : eng) : Prop :=
  if c_store_ok i then
    r = RNil /\ committed e' = c_cat i /\
    exists bc, (bc = [] \/ bc = [EvBroadcast]) /\
      elog e' = elog e0 ++ [EvStore (c_cat i) (committed e0); EvPublish (c_cat i)] ++ bc ++ [EvRelease]
  else
    r = RStoreErr /\ committed e' = committed e0 /\
    elog e' = elog e0 ++ [EvStore (c_cat i) (committed e0); EvRelease].

Definition post (e0 : eng) (i : cin) (r : cres) (e' : eng) : Prop :=
  if alive e0 then
    match etxn e0 with
    | Some t =>
        if Nat.eqb t (c_txn i) then
          (* past the checks: on EVERY path the transaction is unset, the
             token released, the mutex unlocked *)
          alive e' = true /\ etxn e' = None /\ token e' = false /\ locked e' = false /\
          ((c_dirty i = false /\ r = RNil /\ committed e' = committed e0 /\ elog e' = elog e0 ++ [EvRelease])
           \/ store_outcome e0 i r e')
        else r = RMismatch /\ unchanged e0 e'
    | None => (r = RNoTxn \/ r = RMismatch) /\ unchanged e0 e'
    end
  else r = RClosed /\ unchanged e0 e'.

Section Phases.
Variable e0 : eng.
Variable i : cin.

Definition stored_eng : eng :=
  mkeng (alive e0) None (token e0) (committed e0) true (elog e0 ++ [EvStore (c_cat i) (committed e0)]).
Definition published_eng : eng :=
  mkeng (alive e0) None (token e0) (c_cat i) true
        ((elog e0 ++ [EvStore (c_cat i) (committed e0)]) ++ [EvPublish (c_cat i)]).

(* the concrete interpreter state in each phase *)
Definition st (k : cphase) : eng :=
  match k with
  | K0 => e0
  | K1 | K2 | K3 | K3n | K4 | K5r => set_locked e0 true
  | K5u | K6 | K7 => set_txn (set_locked e0 true) None
  | K9 | K10 => stored_eng
  | K11 => published_eng
  | K12 | KEnd => add_log published_eng EvBroadcast
  end.

Definition dsk (k : cphase) : list cdefer :=
  match k with
  | K0 | K1 => []
  | K2 | K3 | K3n | K4 | K5u => [DUnlock]
  | _ => [DRelease; DUnlock]
  end.

Definition erk (k : cphase) : bool :=
  match k with K9 => negb (c_store_ok i) | _ => false end.

Definition checked : Prop := alive e0 = true /\ etxn e0 = Some (c_txn i).

(* what is known when the interpreter is in phase k *)
Definition pathc (k : cphase) : Prop :=
  match k with
  | K0 => locked e0 = false
  | K1 | K2 => True
  | K3 => alive e0 = true
  | K3n => alive e0 = true /\ etxn e0 <> None
  | K4 | K5r | K5u | K6 | K9 => checked
  | K7 => checked /\ c_dirty i = true
  | K10 | K11 | K12 => checked /\ c_store_ok i = true
  | KEnd => False
  end.

Definition accepting (k : cphase) : bool :=
  match k with K11 | K12 | KEnd => true | _ => false end.

Lemma post_checked : forall r e', checked ->
  alive e' = true /\ etxn e' = None /\ token e' = false /\ locked e' = false /\
  ((c_dirty i = false /\ r = RNil /\ committed e' = committed e0 /\ elog e' = elog e0 ++ [EvRelease])
   \/ store_outcome e0 i r e') ->
  post e0 i r e'.
Proof.
  intros r e' [A T] H. unfold post. rewrite A, T, Nat.eqb_refl. exact H.
Qed.

Lemma crun_phase : forall l k kf, cwalk l k = Some kf -> accepting kf = true -> pathc k ->
  post e0 i (fst (crun l i (st k) (dsk k) (erk k))) (snd (crun l i (st k) (dsk k) (erk k))).
Proof.
  induction l as [| s r IH]; intros k kf W A PC.
  - simpl in W. inversion W; subst kf.
    destruct k; simpl in A; try discriminate; simpl in PC.
    + (* K11 *) destruct PC as [C OK]. apply post_checked; auto. simpl.
      destruct C as [C1 C2]. repeat split; auto. right. unfold store_outcome. rewrite OK. simpl.
      repeat split; auto. exists []. split; auto. rewrite <- !app_assoc. reflexivity.
    + (* K12 *) destruct PC as [C OK]. apply post_checked; auto. simpl.
      destruct C as [C1 C2]. repeat split; auto. right. unfold store_outcome. rewrite OK. simpl.
      repeat split; auto. exists [EvBroadcast]. split; auto. rewrite <- !app_assoc. reflexivity.
    + contradiction.
  - simpl in W. destruct (cnext k s) as [k' |] eqn:N; [| discriminate].
    specialize (IH k' kf W A).
    destruct k; destruct s; simpl in N; try discriminate; inversion N; subst k'; clear N;
      simpl in PC; simpl crun.
    + (* K0 CLock *) rewrite PC. apply IH. simpl. auto.
    + (* K1 CDeferUnlock *) apply IH. simpl. auto.
    + (* K2 CCheckAlive *)
      destruct (alive e0) eqn:AL.
      * apply IH. simpl. auto.
      * simpl. unfold post. rewrite AL. unfold unchanged. simpl. auto 10.
    + (* K3 CCheckTxnNil *)
      destruct (etxn e0) as [t |] eqn:T.
      * apply IH. simpl. split; auto. congruence.
      * simpl. unfold post. rewrite PC, T. unfold unchanged. simpl. auto 10.
    + (* K3 CCheckTxnMatch *)
      destruct (etxn e0) as [t |] eqn:T.
      * destruct (Nat.eqb t (c_txn i)) eqn:E.
        -- apply IH. simpl. apply Nat.eqb_eq in E. subst t. split; auto.
        -- simpl. unfold post. rewrite PC, T, E. unfold unchanged. simpl. auto 10.
      * simpl. unfold post. rewrite PC, T. unfold unchanged. simpl. auto 10.
    + (* K3n CCheckTxnMatch *)
      destruct PC as [AL NN]. destruct (etxn e0) as [t |] eqn:T; [| congruence].
      destruct (Nat.eqb t (c_txn i)) eqn:E.
      * apply IH. simpl. apply Nat.eqb_eq in E. subst t. split; auto.
      * simpl. unfold post. rewrite AL, T, E. unfold unchanged. simpl. auto 10.
    + (* K4 CDeferRelease *) apply IH. exact PC.
    + (* K4 CUnsetTxn *) apply IH. exact PC.
    + (* K5r CUnsetTxn *) apply IH. exact PC.
    + (* K5u CDeferRelease *) apply IH. exact PC.
    + (* K6 CCheckDirty *)
      destruct (c_dirty i) eqn:D.
      * apply IH. simpl. auto.
      * apply post_checked; auto. simpl. destruct PC as [C1 C2]. repeat split; auto.
    + (* K6 CClean *) apply IH. exact PC.
    + (* K6 CStore *) apply IH. exact PC.
    + (* K7 CClean *) apply IH. exact PC.
    + (* K7 CStore *) apply IH. destruct PC. auto.
    + (* K9 CReturnOnStoreErr *)
      destruct (c_store_ok i) eqn:OK; simpl.
      * assert (X : erk K10 = false) by reflexivity. rewrite <- X. apply IH. simpl. auto.
      * apply post_checked; auto. simpl. destruct PC as [C1 C2]. repeat split; auto.
        right. unfold store_outcome. rewrite OK. repeat split; auto.
        rewrite <- app_assoc. reflexivity.
    + (* K10 CPublish *) apply IH. exact PC.
    + (* K11 CBroadcast *) apply IH. exact PC.
    + (* K11 CReturnNil *)
      destruct PC as [C OK]. apply post_checked; auto. simpl.
      destruct C as [C1 C2]. repeat split; auto. right. unfold store_outcome. rewrite OK. simpl.
      repeat split; auto. exists []. split; auto. rewrite <- !app_assoc. reflexivity.
    + (* K12 CReturnNil *)
      destruct PC as [C OK]. apply post_checked; auto. simpl.
      destruct C as [C1 C2]. repeat split; auto. right. unfold store_outcome. rewrite OK. simpl.
      repeat split; auto. exists [EvBroadcast]. split; auto. rewrite <- !app_assoc. reflexivity.
Qed.

End Phases.

Theorem commit_ok_sound : forall l, commit_ok l = true ->
  forall e0 i, locked e0 = false ->
  post e0 i (fst (commit l i e0)) (snd (commit l i e0)).
Proof.
  intros l H e0 i L. unfold commit_ok in H.
  destruct (cwalk l K0) as [kf |] eqn:W; [| discriminate].
  apply (crun_phase e0 i l K0 kf W).
  - destruct kf; try discriminate; reflexivity.
  - exact L.
Qed.

(* past the checks with a dirty transaction: the shape of the outcome *)
Lemma commit_checked : forall l, commit_ok l = true -> forall e0 i,
  locked e0 = false -> alive e0 = true -> etxn e0 = Some (c_txn i) -> c_dirty i = true ->
  let r := fst (commit l i e0) in
  let e' := snd (commit l i e0) in
  alive e' = true /\ etxn e' = None /\ token e' = false /\ locked e' = false /\
  store_outcome e0 i r e'.
Proof.
  intros l H e0 i L A T D r e'.
  pose proof (commit_ok_sound l H e0 i L) as PST. fold r e' in PST.
  unfold post in PST. rewrite A, T, Nat.eqb_refl in PST.
  destruct PST as [P1 [P2 [P3 [P4 [[X _] | O]]]]]; [congruence | auto].
Qed.

(* store before publish; publish only when Store returned nil *)
Theorem commit_store_before_publish : forall l, commit_ok l = true -> forall e0 i,
  locked e0 = false -> alive e0 = true -> etxn e0 = Some (c_txn i) -> c_dirty i = true ->
  let e' := snd (commit l i e0) in
  exists tail, elog e' = elog e0 ++ EvStore (c_cat i) (committed e0) :: tail /\
    (In (EvPublish (c_cat i)) tail <-> c_store_ok i = true) /\
    (committed e' = if c_store_ok i then c_cat i else committed e0).
Proof.
  intros l H e0 i L A T D e'.
  destruct (commit_checked l H e0 i L A T D) as [_ [_ [_ [_ O]]]]. fold e' in O.
  unfold store_outcome in O. destruct (c_store_ok i).
  - destruct O as [_ [C [bc [Hb E]]]]. eexists. split; [exact E |]. split; [| exact C].
    split; auto. intros _. simpl. auto.
  - destruct O as [_ [C E]]. eexists. split; [exact E |]. split; [| exact C].
    split; [| discriminate]. simpl. intros [X | []]. discriminate.
Qed.

(* a failing Store: error reported, visible catalog unchanged, transaction
   cleared, token free, and the next transaction begins and commits *)
Theorem commit_store_failure : forall l, commit_ok l = true -> forall e0 i,
  locked e0 = false -> alive e0 = true -> etxn e0 = Some (c_txn i) ->
  c_dirty i = true -> c_store_ok i = false ->
  let r := fst (commit l i e0) in
  let e' := snd (commit l i e0) in
  r = RStoreErr /\ committed e' = committed e0 /\ etxn e' = None /\ token e' = false /\
  locked e' = false /\
  forall i2, c_dirty i2 = true -> c_store_ok i2 = true ->
    exists e1, begin_txn e' (c_txn i2) = Some e1 /\
      fst (commit l i2 e1) = RNil /\ committed (snd (commit l i2 e1)) = c_cat i2 /\
      token (snd (commit l i2 e1)) = false.
Proof.
  intros l H e0 i L A T D F r e'.
  destruct (commit_checked l H e0 i L A T D) as [A' [T' [K' [L' O]]]]. fold r e' in A', T', K', L', O.
  unfold store_outcome in O. rewrite F in O. destruct O as [R [C _]].
  repeat split; auto.
  intros i2 D2 OK2. unfold begin_txn. rewrite A', K', T'. simpl. eexists. split; [reflexivity |].
  match goal with |- context [commit l i2 ?e] => set (e1 := e) end.
  destruct (commit_checked l H e1 i2) as [_ [_ [K2 [_ O2]]]]; auto.
  unfold store_outcome in O2. rewrite OK2 in O2. destruct O2 as [R2 [C2 _]]. auto.
Qed.
