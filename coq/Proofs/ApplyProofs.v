(* ApplyProofs.v — theorems about mongokit.Apply (Model/Apply.v): whole-update
   atomicity, idempotence of $set / $unset / $min / $max / $addToSet / $pull /
   $pullAll, and "no change => not counted as modified".  All statements hold
   for every query matcher (the section parameter of the model). *)
From Coq Require Import List ZArith Lia Bool String.
From Lungo.Model Require Import Apply.
From Lungo.Proofs Require Import OrderLaws CompareOrder AccessAlgebra.
Import ListNotations.
Open Scope Z_scope.
Open Scope list_scope.

(* ------------------------------------------------------------------ *)
(* plain paths: no '$' anywhere, so resolve is the identity *)

Definition plain (ps : string) : Prop := split_dollar ps = None.

Lemma resolve_plain m fs fuel f ps s : plain ps -> resolve m fs fuel f ps s = f s ps.
Proof. intro H. destruct fuel; cbn [resolve]; rewrite H; reflexivity. Qed.

(* the operator applied to each pair in turn *)
Fixpoint run (op : opfun) (pairs : doc) (s : st) : res st :=
  match pairs with
  | [] => Ok s
  | (k, v) :: t => let* s' := op s k v in run op t s'
  end.

Definition plain_pairs (pairs : doc) : Prop := Forall (fun kv => plain (fst kv)) pairs.

Lemma apply_pairs_plain m fs op pairs : forall s,
  plain_pairs pairs -> apply_pairs m fs op pairs s = run op pairs s.
Proof.
  induction pairs as [|[k v] t IH]; intros s H; [reflexivity|].
  inversion H; subst. cbn [apply_pairs run]. rewrite resolve_plain by assumption.
  destruct (op s k v); cbn [bind]; try reflexivity. apply IH. assumption.
Qed.

(* the static conflict check decides acceptance before any document is looked at *)
Lemma apply_with_conflict m d q u up fs now p :
  conflicting_path u = Some p -> apply_with m d q u up fs now = Err.
Proof. intro H. unfold apply_with. destruct u; [reflexivity|]. rewrite H. reflexivity. Qed.

Lemma apply_with_accept m d q u up fs now :
  u <> [] -> conflicting_path u = None ->
  apply_with m d q u up fs now =
  let* s := apply_ops m up now fs u (d, []) in Ok (fst s, sort_changes (snd s)).
Proof.
  intros Hu H. unfold apply_with. destruct u; [congruence|]. rewrite H.
  destruct (apply_ops m up now fs (p :: u) (d, [])) as [[d' ch]| | | |]; reflexivity.
Qed.

Lemma apply_with_ok_no_conflict m d q u up fs now r :
  apply_with m d q u up fs now = Ok r -> conflicting_path u = None.
Proof.
  intro H. destruct (conflicting_path u) eqn:E; [|reflexivity].
  rewrite (apply_with_conflict _ _ _ _ _ _ _ _ E) in H. discriminate.
Qed.

(* an update made of one operator *)
Lemma apply_one_operator m d q k g op pairs up fs now :
  starts_dollar k = true -> assoc k (update_ops m up now) = Some (g, op) ->
  conflicting_path [(k, VDoc pairs)] = None ->
  apply_with m d q [(k, VDoc pairs)] up fs now =
  let* s := apply_pairs m fs op pairs (d, []) in Ok (fst s, sort_changes (snd s)).
Proof.
  intros Hk Ha NC. rewrite apply_with_accept by (try discriminate; exact NC). cbn [apply_ops]. rewrite Hk, Ha.
  destruct (apply_pairs m fs op pairs (d, [])) as [[d' ch]| | | |]; reflexivity.
Qed.

(* ------------------------------------------------------------------ *)
(* whole-update atomicity: the operators run in sequence on the threaded
   state, and the first failure is the result of the whole update — there is
   no document in an error result *)

Lemma apply_ops_app m up now fs u1 : forall u2 s,
  apply_ops m up now fs (u1 ++ u2) s =
  let* s1 := apply_ops m up now fs u1 s in apply_ops m up now fs u2 s1.
Proof.
  induction u1 as [|[k v] t IH]; intros u2 s; [reflexivity|].
  cbn [app apply_ops]. destruct (starts_dollar k); [|reflexivity].
  destruct (assoc k (update_ops m up now)) as [[g op]|]; [|reflexivity].
  destruct v; try reflexivity.
  destruct (apply_pairs m fs op d s); cbn [bind]; try reflexivity. apply IH.
Qed.

Lemma apply_pairs_app m fs op p1 : forall p2 s,
  apply_pairs m fs op (p1 ++ p2) s =
  let* s1 := apply_pairs m fs op p1 s in apply_pairs m fs op p2 s1.
Proof.
  induction p1 as [|[k v] t IH]; intros p2 s; [reflexivity|].
  cbn [app apply_pairs].
  destruct (resolve m fs (S (count_dollar k)) (fun s0 p => op s0 p v) k s); cbn [bind]; try reflexivity. apply IH.
Qed.

(* success of the whole = success of every operator, in order *)
Theorem apply_all_or_error m d q u1 kv u2 up fs now :
  conflicting_path (u1 ++ kv :: u2) = None ->
  forall r, apply_with m d q (u1 ++ kv :: u2) up fs now = r ->
  match apply_ops m up now fs u1 (d, []) with
  | Ok s1 =>
      match apply_ops m up now fs [kv] s1 with
      | Ok s2 =>
          match apply_ops m up now fs u2 s2 with
          | Ok (d', ch) => r = Ok (d', sort_changes ch)
          | Err => r = Err | Panic => r = Panic | OutOfFuel => r = OutOfFuel | Unmodelled => r = Unmodelled
          end
      | Err => r = Err | Panic => r = Panic | OutOfFuel => r = OutOfFuel | Unmodelled => r = Unmodelled
      end
  | Err => r = Err | Panic => r = Panic | OutOfFuel => r = OutOfFuel | Unmodelled => r = Unmodelled
  end.
Proof.
  intros NC r <-. rewrite apply_with_accept by (try exact NC; destruct u1; discriminate).
  rewrite apply_ops_app. destruct (apply_ops m up now fs u1 (d, [])) as [s1| | | |]; cbn [bind]; try reflexivity.
  change (kv :: u2) with ([kv] ++ u2). rewrite apply_ops_app.
  destruct (apply_ops m up now fs [kv] s1) as [s2| | | |]; cbn [bind]; try reflexivity.
  destruct (apply_ops m up now fs u2 s2) as [[d' ch]| | | |]; reflexivity.
Qed.

(* in particular: an operator that fails anywhere rejects the whole update *)
Corollary apply_rejects_as_a_whole m d q u1 kv u2 up fs now s1 :
  apply_ops m up now fs u1 (d, []) = Ok s1 ->
  apply_ops m up now fs [kv] s1 = Err ->
  apply_with m d q (u1 ++ kv :: u2) up fs now = Err.
Proof.
  intros H1 H2. destruct (conflicting_path (u1 ++ kv :: u2)) eqn:NC; [eapply apply_with_conflict; exact NC|].
  pose proof (apply_all_or_error m d q u1 kv u2 up fs now NC _ eq_refl) as H.
  rewrite H1, H2 in H. exact H.
Qed.

(* ------------------------------------------------------------------ *)
(* Changes.Record *)

Lemma seg_prefix_is_prefix p : forall q, seg_prefix p q = true -> is_prefix p q.
Proof.
  induction p as [|s p' IH]; intros [|t q'] H; cbn in *; try exact I; try discriminate.
  apply andb_true_iff in H. destruct H as [H1 H2]. apply String.eqb_eq in H1. auto.
Qed.

Lemma disjoint_no_conflict p q : disjoint p q -> paths_conflict p q = false.
Proof.
  intro D. destruct (disjoint_not_prefix _ _ D) as [A B]. unfold paths_conflict.
  destruct (seg_prefix p q) eqn:E1; [exfalso; apply A; apply seg_prefix_is_prefix; exact E1|].
  destruct (seg_prefix q p) eqn:E2; [exfalso; apply B; apply seg_prefix_is_prefix; exact E2|].
  reflexivity.
Qed.

Lemma record_ok ch ps v :
  (forall kv, In kv ch -> disjoint (split_path (fst kv)) (split_path ps)) ->
  record ch ps v = Ok (ch ++ [(ps, v)])%list.
Proof.
  intro H. unfold record.
  destruct (existsb (fun kv => paths_conflict (split_path (fst kv)) (split_path ps)) ch) eqn:E; [|reflexivity].
  apply existsb_exists in E. destruct E as (kv & Hin & Hc).
  rewrite (disjoint_no_conflict _ _ (H kv Hin)) in Hc. discriminate.
Qed.

Lemma record_nil ps v : record [] ps v = Ok [(ps, v)].
Proof. reflexivity. Qed.

Lemma record_keys ch ps v ch' : record ch ps v = Ok ch' -> ch' = (ch ++ [(ps, v)])%list.
Proof. unfold record. destruct (existsb _ ch); [discriminate|]. congruence. Qed.

(* ------------------------------------------------------------------ *)
(* operators of the form "read the value at the path, then keep the document
   or write one value there" *)

Inductive decision : Type := Keep | Write (w : value).

Definition decided_op (decide : value -> value -> res decision) : opfun := fun s ps v =>
  let* dec := decide (Get (fst s) ps) v in
  match dec with
  | Keep => Ok s
  | Write w => put_record s ps w
  end.

Lemma put_record_ok d ch ps w d1 ch1 :
  put_record (d, ch) ps w = Ok (d1, ch1) ->
  exists old, Put d ps w false = Ok (old, d1) /\ record ch ps w = Ok ch1.
Proof.
  unfold put_record. cbn [fst snd]. destruct (Put d ps w false) as [[old d']| | | |]; cbn [bind]; try discriminate.
  destruct (record ch ps w) as [ch'| | | |]; cbn [bind]; try discriminate.
  intro H. injection H as <- <-. eauto.
Qed.

Section Decided.
Variable decide : value -> value -> res decision.

(* deciding again on the value that was written keeps it or writes it again *)
Hypothesis decide_idem : forall cur v w,
  decide cur v = Ok (Write w) -> is_missing w = false ->
  decide w v = Ok Keep \/ decide w v = Ok (Write w).

Let op := decided_op decide.

(* the invocation at (ps, v) has nothing left to do on document D *)
Definition settled (D : doc) (kv : string * value) : Prop :=
  decide (Get D (fst kv)) (snd kv) = Ok Keep \/
  exists w, decide (Get D (fst kv)) (snd kv) = Ok (Write w) /\ Get D (fst kv) = w /\ is_missing w = false.

Lemma op_settles d ch ps v d1 ch1 :
  canon_path (split_path ps) -> op (d, ch) ps v = Ok (d1, ch1) -> settled d1 (ps, v).
Proof.
  intros C H. unfold op, decided_op in H. cbn [fst] in H.
  destruct (decide (Get d ps) v) as [[|w]| | | |] eqn:E; cbn [bind] in H; try discriminate.
  - injection H as <- <-. left. exact E.
  - destruct (put_record_ok _ _ _ _ _ _ H) as (old & P & _).
    destruct (put_path_ok _ _ _ _ _ _ P) as [Hw _].
    pose proof (get_put_same _ _ _ _ _ _ C P) as G. change (Get d1 ps = w) in G.
    unfold settled. cbn [fst snd]. rewrite G.
    destruct (decide_idem _ _ _ E Hw) as [K|W]; [left; exact K | right; exists w; auto].
Qed.

(* a settled invocation leaves the document as it is *)
Lemma settled_step D ch ps v :
  settled D (ps, v) ->
  (forall kv, In kv ch -> disjoint (split_path (fst kv)) (split_path ps)) ->
  op (D, ch) ps v = Ok (D, ch) \/ exists w, op (D, ch) ps v = Ok (D, (ch ++ [(ps, w)])%list).
Proof.
  intros [K|(w & W & G & Hw)] Hch; unfold op, decided_op; cbn [fst snd] in *.
  - left. rewrite K. reflexivity.
  - right. exists w. rewrite W. cbn [bind]. unfold put_record. cbn [fst snd].
    assert (P : Put D ps w false = Ok (w, D)).
    { apply put_get_id; [exact G | apply is_missing_false; exact Hw]. }
    rewrite P. cbn [bind]. rewrite (record_ok _ _ _ Hch). reflexivity.
Qed.

(* single path *)
Theorem decided_idempotent_single d ps v d1 ch1 :
  canon_path (split_path ps) ->
  run op [(ps, v)] (d, []) = Ok (d1, ch1) ->
  exists ch2, run op [(ps, v)] (d1, []) = Ok (d1, ch2).
Proof.
  intros C H. cbn [run] in *. destruct (op (d, []) ps v) as [[d' ch']| | | |] eqn:E; cbn [bind] in H; try discriminate.
  injection H as <- <-.
  pose proof (op_settles _ _ _ _ _ _ C E) as S.
  destruct (settled_step d' [] ps v S) as [R|[w R]]; [intros ? []| |]; rewrite R; cbn [bind]; eauto.
Qed.

(* several paths: field paths (no array index segments), pairwise disjoint *)
Definition field_pairs (pairs : doc) : Prop := Forall (fun kv => field_path (split_path (fst kv))) pairs.

Fixpoint pairwise_disjoint (ps : list string) : Prop :=
  match ps with
  | [] => True
  | p :: t => Forall (fun q => disjoint (split_path p) (split_path q)) t /\ pairwise_disjoint t
  end.

Lemma run_frame pairs : forall d ch dn chn q,
  run op pairs (d, ch) = Ok (dn, chn) -> field_pairs pairs ->
  Forall (fun kv => disjoint (split_path (fst kv)) q) pairs ->
  get_path dn q = get_path d q.
Proof.
  induction pairs as [|[p v] t IH]; intros d ch dn chn q H F D.
  - cbn in H. injection H as <- <-. reflexivity.
  - cbn [run] in H. inversion F; subst. inversion D; subst. cbn [fst] in *.
    destruct (op (d, ch) p v) as [[d1 ch1]| | | |] eqn:E; cbn [bind] in H; try discriminate.
    rewrite (IH _ _ _ _ _ H) by assumption.
    unfold op, decided_op in E. cbn [fst] in E.
    destruct (decide (Get d p) v) as [[|w]| | | |]; cbn [bind] in E; try discriminate.
    + injection E as <- <-. reflexivity.
    + destruct (put_record_ok _ _ _ _ _ _ E) as (old & P & _).
      eapply get_put_frame_field; eauto.
Qed.

Lemma first_run_settles pairs : forall d ch dn chn,
  run op pairs (d, ch) = Ok (dn, chn) -> field_pairs pairs -> pairwise_disjoint (map fst pairs) ->
  Forall (settled dn) pairs.
Proof.
  induction pairs as [|[p v] t IH]; intros d ch dn chn H F PD; [constructor|].
  cbn [run] in H. inversion F as [|? ? Fp Ft]; subst. cbn [map fst pairwise_disjoint] in PD. destruct PD as [Dp PDt].
  destruct (op (d, ch) p v) as [[d1 ch1]| | | |] eqn:E; cbn [bind] in H; try discriminate.
  constructor; [|eapply IH; eauto].
  pose proof (op_settles _ _ _ _ _ _ (field_path_canon _ Fp) E) as S.
  assert (G : Get dn p = Get d1 p).
  { eapply run_frame; eauto. rewrite Forall_forall in *. intros kv Hin.
    apply disjoint_sym. apply Dp. apply in_map. exact Hin. }
  unfold settled in *. cbn [fst snd] in *. rewrite G. exact S.
Qed.

Lemma settled_run pairs : forall D ch,
  Forall (settled D) pairs -> pairwise_disjoint (map fst pairs) ->
  (forall kv, In kv ch -> Forall (fun p => disjoint (split_path (fst kv)) (split_path p)) (map fst pairs)) ->
  exists ch', run op pairs (D, ch) = Ok (D, ch').
Proof.
  induction pairs as [|[p v] t IH]; intros D ch S PD Hch; [eexists; reflexivity|].
  inversion S as [|? ? Sp St]; subst. cbn [map fst pairwise_disjoint] in PD. destruct PD as [Dp PDt].
  cbn [run].
  assert (Hp : forall kv, In kv ch -> disjoint (split_path (fst kv)) (split_path p)).
  { intros kv Hin. specialize (Hch kv Hin). inversion Hch; assumption. }
  destruct (settled_step D ch p v Sp Hp) as [R|[w R]]; rewrite R; cbn [bind].
  - apply IH; auto. intros kv Hin. specialize (Hch kv Hin). inversion Hch; assumption.
  - apply IH; auto. intros kv Hin. apply in_app_or in Hin. destruct Hin as [Hin|[<-|[]]].
    + specialize (Hch kv Hin). inversion Hch; assumption.
    + exact Dp.
Qed.

Theorem decided_idempotent_list pairs d dn chn :
  field_pairs pairs -> pairwise_disjoint (map fst pairs) ->
  run op pairs (d, []) = Ok (dn, chn) ->
  exists ch2, run op pairs (dn, []) = Ok (dn, ch2).
Proof.
  intros F PD H. apply settled_run; [eapply first_run_settles; eauto | exact PD | intros ? []].
Qed.

End Decided.

(* ------------------------------------------------------------------ *)
(* the six read-then-write operators are of that form *)

Definition decide_set (_ v : value) : res decision := Ok (Write v).

Definition decide_minmax (replace : comparison -> bool) (cur v : value) : res decision :=
  if is_missing cur then Ok (Write v)
  else if replace (compare cur v) then Ok (Write v) else Ok Keep.

Definition add_to_set_arg (v : value) : res (list value) :=
  match v with
  | VDoc vd => if has_key "$each" vd then add_to_set_values vd [] else Ok [v]
  | _ => Ok [v]
  end.

Definition decide_add_to_set (cur v : value) : res decision :=
  let* vals := add_to_set_arg v in
  let* arr := match cur with VMissing => Ok [] | VArr a => Ok a | _ => Err end in
  let '(arr', changed) := add_to_set arr vals false in
  if changed then Ok (Write (VArr arr')) else Ok Keep.

Definition decide_pull (m : doc -> doc -> res bool) (cur v : value) : res decision :=
  match cur with
  | VMissing => Ok Keep
  | VArr a =>
      let* kr := pull_filter m a v in
      if snd kr then Ok (Write (VArr (fst kr))) else Ok Keep
  | _ => Err
  end.

Definition decide_pull_all (cur v : value) : res decision :=
  match v with
  | VArr targets =>
      match cur with
      | VMissing => Ok Keep
      | VArr a =>
          let kept := filter (fun x => negb (mem_cmp x targets)) a in
          if negb (len kept =? len a) then Ok (Write (VArr kept)) else Ok Keep
      | _ => Err
      end
  | _ => Err
  end.

Lemma apply_set_decided s ps v : apply_set s ps v = decided_op decide_set s ps v.
Proof. reflexivity. Qed.

Lemma apply_minmax_decided r s ps v : apply_minmax r s ps v = decided_op (decide_minmax r) s ps v.
Proof.
  unfold apply_minmax, decided_op, decide_minmax.
  destruct (is_missing (Get (fst s) ps)); [reflexivity|].
  destruct (r (compare (Get (fst s) ps) v)); reflexivity.
Qed.

Lemma apply_add_to_set_decided s ps v : apply_add_to_set s ps v = decided_op decide_add_to_set s ps v.
Proof.
  unfold apply_add_to_set, decided_op, decide_add_to_set, add_to_set_arg.
  set (vals := match v with VDoc vd => if has_key "$each" vd then add_to_set_values vd [] else Ok [v] | _ => Ok [v] end).
  destruct vals as [vals| | | |]; cbn [bind]; try reflexivity.
  destruct (Get (fst s) ps); cbn [bind]; try reflexivity.
  - destruct (add_to_set [] vals false) as [arr' [|]]; reflexivity.
  - destruct (add_to_set a vals false) as [arr' [|]]; reflexivity.
Qed.

Lemma apply_pull_decided m s ps v : apply_pull m s ps v = decided_op (decide_pull m) s ps v.
Proof.
  unfold apply_pull, decided_op, decide_pull.
  destruct (Get (fst s) ps); cbn [bind]; try reflexivity.
  destruct (pull_filter m a v) as [[kept [|]]| | | |]; reflexivity.
Qed.

Lemma apply_pull_all_decided s ps v : apply_pull_all s ps v = decided_op decide_pull_all s ps v.
Proof.
  unfold apply_pull_all, decided_op, decide_pull_all.
  destruct v; try reflexivity.
  destruct (Get (fst s) ps); cbn [bind]; try reflexivity.
  unfold store_if_removed.
  destruct (negb (len (filter (fun x => negb (mem_cmp x a)) a0) =? len a0)); reflexivity.
Qed.

(* deciding again *)

Lemma decide_set_idem cur v w :
  decide_set cur v = Ok (Write w) -> is_missing w = false ->
  decide_set w v = Ok Keep \/ decide_set w v = Ok (Write w).
Proof. unfold decide_set. intros H _. right. exact H. Qed.

Lemma decide_minmax_idem r (Hr : r Eq = false) cur v w :
  decide_minmax r cur v = Ok (Write w) -> is_missing w = false ->
  decide_minmax r w v = Ok Keep \/ decide_minmax r w v = Ok (Write w).
Proof.
  unfold decide_minmax. intros H Hw.
  assert (w = v).
  { destruct (is_missing cur); [congruence|]. destruct (r (compare cur v)); congruence. }
  subst w. rewrite Hw, compare_refl, Hr. left. reflexivity.
Qed.

Lemma mem_cmp_app v a b : mem_cmp v (a ++ b) = mem_cmp v a || mem_cmp v b.
Proof. unfold mem_cmp. apply existsb_app. Qed.

Lemma mem_cmp_self v : mem_cmp v [v] = true.
Proof. unfold mem_cmp. cbn. rewrite compare_refl. reflexivity. Qed.

Lemma add_to_set_members vals : forall arr b arr' c,
  add_to_set arr vals b = (arr', c) ->
  (forall v, In v vals -> mem_cmp v arr' = true) /\ (forall v, mem_cmp v arr = true -> mem_cmp v arr' = true).
Proof.
  induction vals as [|x t IH]; intros arr b arr' c H.
  - cbn in H. injection H as <- <-. split; [intros ? [] | auto].
  - cbn [add_to_set] in H. destruct (mem_cmp x arr) eqn:E.
    + destruct (IH _ _ _ _ H) as [A B]. split; [|exact B].
      intros v [<-|Hin]; [apply B; exact E | apply A; exact Hin].
    + destruct (IH _ _ _ _ H) as [A B]. split.
      * intros v [<-|Hin]; [apply B; rewrite mem_cmp_app, mem_cmp_self; apply orb_true_r | apply A; exact Hin].
      * intros v Hv. apply B. rewrite mem_cmp_app, Hv. reflexivity.
Qed.

Lemma add_to_set_noop vals : forall arr b,
  (forall v, In v vals -> mem_cmp v arr = true) -> add_to_set arr vals b = (arr, b).
Proof.
  induction vals as [|x t IH]; intros arr b H; [reflexivity|].
  cbn [add_to_set]. rewrite (H x (or_introl eq_refl)). apply IH. intros v Hv. apply H. right. exact Hv.
Qed.

Lemma decide_add_to_set_idem cur v w :
  decide_add_to_set cur v = Ok (Write w) -> is_missing w = false ->
  decide_add_to_set w v = Ok Keep \/ decide_add_to_set w v = Ok (Write w).
Proof.
  unfold decide_add_to_set. intros H _.
  destruct (add_to_set_arg v) as [vals| | | |]; cbn [bind] in *; try discriminate.
  destruct (match cur with VMissing => Ok [] | VArr a => Ok a | _ => Err end) as [arr| | | |]; cbn [bind] in H; try discriminate.
  destruct (add_to_set arr vals false) as [arr' ch] eqn:E. destruct ch; [|discriminate].
  injection H as <-. cbn [bind].
  destruct (add_to_set_members _ _ _ _ _ E) as [A _].
  rewrite (add_to_set_noop _ _ false A). left. reflexivity.
Qed.

Lemma pull_filter_idem m cond a : forall kept removed,
  pull_filter m a cond = Ok (kept, removed) -> pull_filter m kept cond = Ok (kept, false).
Proof.
  induction a as [|x t IH]; intros kept removed H.
  - cbn in H. injection H as <- <-. reflexivity.
  - cbn [pull_filter] in H. destruct (pull_matches m x cond) as [b| | | |] eqn:M; cbn [bind] in H; try discriminate.
    destruct (pull_filter m t cond) as [[k r]| | | |] eqn:R; cbn [bind] in H; try discriminate.
    specialize (IH _ _ eq_refl). destruct b.
    + injection H as <- <-. exact IH.
    + injection H as <- <-. cbn [pull_filter]. rewrite M. cbn [bind]. rewrite IH. reflexivity.
Qed.

Lemma decide_pull_idem m cur v w :
  decide_pull m cur v = Ok (Write w) -> is_missing w = false ->
  decide_pull m w v = Ok Keep \/ decide_pull m w v = Ok (Write w).
Proof.
  unfold decide_pull. intros H _. destruct cur; try discriminate.
  destruct (pull_filter m a v) as [[kept removed]| | | |] eqn:E; cbn [bind fst snd] in H; try discriminate.
  destruct removed; [|discriminate]. injection H as <-.
  rewrite (pull_filter_idem _ _ _ _ _ E). left. reflexivity.
Qed.

Lemma filter_idem {A} (f : A -> bool) l : filter f (filter f l) = filter f l.
Proof.
  induction l as [|x t IH]; [reflexivity|]. cbn [filter]. destruct (f x) eqn:E; [|exact IH].
  cbn [filter]. rewrite E, IH. reflexivity.
Qed.

Lemma decide_pull_all_idem cur v w :
  decide_pull_all cur v = Ok (Write w) -> is_missing w = false ->
  decide_pull_all w v = Ok Keep \/ decide_pull_all w v = Ok (Write w).
Proof.
  unfold decide_pull_all. intros H _. destruct v; try discriminate. destruct cur; try discriminate.
  destruct (negb (len (filter (fun x => negb (mem_cmp x a)) a0) =? len a0)); [|discriminate].
  injection H as <-. rewrite filter_idem, Z.eqb_refl. left. reflexivity.
Qed.

(* ------------------------------------------------------------------ *)
(* $unset *)

Lemma split_path_nonempty ps : split_path ps <> [].
Proof.
  unfold split_path. generalize EmptyString. induction ps as [|c t IH]; intro acc; cbn [split_go]; [discriminate|].
  destruct (Ascii.eqb c "."%char); [discriminate | apply IH].
Qed.

Lemma unset_idempotent_single d ps v d1 ch1 :
  uniq_keys (VDoc d) ->
  run apply_unset [(ps, v)] (d, []) = Ok (d1, ch1) ->
  exists ch2, run apply_unset [(ps, v)] (d1, []) = Ok (d1, ch2).
Proof.
  intros U H. cbn [run] in *. unfold apply_unset in *. cbn [fst snd] in *.
  pose proof (split_path_nonempty ps) as Hp.
  destruct (Unset d ps) as [old d'] eqn:E.
  destruct (is_missing old) eqn:M.
  - cbn [bind] in H. injection H as <- <-. rewrite E, M. cbn [bind]. eauto.
  - rewrite record_nil in H. cbn [bind] in H. injection H as <- <-.
    pose proof (unset_unset_same _ _ _ _ U Hp E) as S. change (snd (Unset d' ps) = d') in S.
    destruct (Unset d' ps) as [old2 d2]. cbn [snd] in S. subst d2.
    destruct (is_missing old2); [cbn [bind]; eauto|]. rewrite record_nil. cbn [bind]. eauto.
Qed.

(* ------------------------------------------------------------------ *)
(* idempotence of mongokit.Apply *)

Inductive idem_operator (m : doc -> doc -> res bool) : string -> opfun -> Prop :=
| io_set : idem_operator m "$set" apply_set
| io_max : idem_operator m "$max" apply_max
| io_min : idem_operator m "$min" apply_min
| io_add_to_set : idem_operator m "$addToSet" apply_add_to_set
| io_pull : idem_operator m "$pull" (apply_pull m)
| io_pull_all : idem_operator m "$pullAll" apply_pull_all.

Lemma idem_operator_registered m up now k op :
  idem_operator m k op -> starts_dollar k = true /\ exists g, assoc k (update_ops m up now) = Some (g, op).
Proof. intro H. destruct H; (split; [reflexivity | eexists; reflexivity]). Qed.

Lemma run_ext op1 op2 pairs : (forall s ps v, op1 s ps v = op2 s ps v) -> forall s, run op1 pairs s = run op2 pairs s.
Proof.
  intro E. induction pairs as [|[k v] t IH]; intro s; [reflexivity|].
  cbn [run]. rewrite E. destruct (op2 s k v); cbn [bind]; try reflexivity. apply IH.
Qed.

(* each of the six is a decided operator with an idempotent decision *)
Lemma idem_operator_decided m k op :
  idem_operator m k op ->
  exists decide,
    (forall s ps v, op s ps v = decided_op decide s ps v) /\
    (forall cur v w, decide cur v = Ok (Write w) -> is_missing w = false ->
                     decide w v = Ok Keep \/ decide w v = Ok (Write w)).
Proof.
  intro H. destruct H.
  - exists decide_set. split; [exact apply_set_decided | exact decide_set_idem].
  - exists (decide_minmax is_lt). split; [exact (apply_minmax_decided is_lt) | exact (decide_minmax_idem is_lt eq_refl)].
  - exists (decide_minmax is_gt). split; [exact (apply_minmax_decided is_gt) | exact (decide_minmax_idem is_gt eq_refl)].
  - exists decide_add_to_set. split; [exact apply_add_to_set_decided | exact decide_add_to_set_idem].
  - exists (decide_pull m). split; [exact (apply_pull_decided m) | exact (decide_pull_idem m)].
  - exists decide_pull_all. split; [exact apply_pull_all_decided | exact decide_pull_all_idem].
Qed.

Lemma apply_with_one m d q k op pairs up fs now :
  starts_dollar k = true -> (exists g, assoc k (update_ops m up now) = Some (g, op)) -> plain_pairs pairs ->
  conflicting_path [(k, VDoc pairs)] = None ->
  apply_with m d q [(k, VDoc pairs)] up fs now =
  let* s := run op pairs (d, []) in Ok (fst s, sort_changes (snd s)).
Proof.
  intros Hk [g Ha] Hp NC. rewrite (apply_one_operator _ _ _ _ _ _ _ _ _ _ Hk Ha NC).
  rewrite apply_pairs_plain by assumption. reflexivity.
Qed.

Lemma apply_with_one_ok m d q k op pairs up fs now d1 ch1 :
  starts_dollar k = true -> (exists g, assoc k (update_ops m up now) = Some (g, op)) -> plain_pairs pairs ->
  apply_with m d q [(k, VDoc pairs)] up fs now = Ok (d1, ch1) ->
  exists ch, run op pairs (d, []) = Ok (d1, ch).
Proof.
  intros Hk Ha Hp H. pose proof (apply_with_ok_no_conflict _ _ _ _ _ _ _ _ H) as NC.
  rewrite (apply_with_one _ _ _ _ _ _ _ _ _ Hk Ha Hp NC) in H.
  destruct (run op pairs (d, [])) as [[d' ch]| | | |]; cbn [bind fst snd] in H; try discriminate.
  injection H as <- _. eauto.
Qed.

(* one of $set, $min, $max, $addToSet, $pull, $pullAll on one plain path *)
Theorem apply_idempotent_single m d q k op ps v up fs now d1 ch1 :
  idem_operator m k op -> plain ps -> canon_path (split_path ps) ->
  apply_with m d q [(k, VDoc [(ps, v)])] up fs now = Ok (d1, ch1) ->
  exists ch2, apply_with m d1 q [(k, VDoc [(ps, v)])] up fs now = Ok (d1, ch2).
Proof.
  intros I P C H. destruct (idem_operator_registered m up now _ _ I) as [Hk Ha].
  assert (PP : plain_pairs [(ps, v)]) by (constructor; [exact P | constructor]).
  destruct (apply_with_one_ok _ _ _ _ _ _ _ _ _ _ _ Hk Ha PP H) as [ch R].
  destruct (idem_operator_decided _ _ _ I) as (decide & E & Id).
  rewrite (run_ext _ _ _ E) in R.
  destruct (decided_idempotent_single decide Id _ _ _ _ _ C R) as [ch2 R2].
  rewrite <- (run_ext _ _ _ E) in R2.
  rewrite (apply_with_one _ _ _ _ _ _ _ _ _ Hk Ha PP (apply_with_ok_no_conflict _ _ _ _ _ _ _ _ H)), R2. cbn [bind fst snd]. eauto.
Qed.

(* ... on any number of pairwise disjoint plain field paths *)
Theorem apply_idempotent_list m d q k op pairs up fs now d1 ch1 :
  idem_operator m k op -> plain_pairs pairs -> field_pairs pairs -> pairwise_disjoint (map fst pairs) ->
  apply_with m d q [(k, VDoc pairs)] up fs now = Ok (d1, ch1) ->
  exists ch2, apply_with m d1 q [(k, VDoc pairs)] up fs now = Ok (d1, ch2).
Proof.
  intros I PP F PD H. destruct (idem_operator_registered m up now _ _ I) as [Hk Ha].
  destruct (apply_with_one_ok _ _ _ _ _ _ _ _ _ _ _ Hk Ha PP H) as [ch R].
  destruct (idem_operator_decided _ _ _ I) as (decide & E & Id).
  rewrite (run_ext _ _ _ E) in R.
  destruct (decided_idempotent_list decide Id _ _ _ _ F PD R) as [ch2 R2].
  rewrite <- (run_ext _ _ _ E) in R2.
  rewrite (apply_with_one _ _ _ _ _ _ _ _ _ Hk Ha PP (apply_with_ok_no_conflict _ _ _ _ _ _ _ _ H)), R2. cbn [bind fst snd]. eauto.
Qed.

(* $unset on one plain path (documents with unique keys) *)
Theorem apply_unset_idempotent_single m d q ps v up fs now d1 ch1 :
  plain ps -> uniq_keys (VDoc d) ->
  apply_with m d q [("$unset"%string, VDoc [(ps, v)])] up fs now = Ok (d1, ch1) ->
  exists ch2, apply_with m d1 q [("$unset"%string, VDoc [(ps, v)])] up fs now = Ok (d1, ch2).
Proof.
  intros P U H.
  assert (PP : plain_pairs [(ps, v)]) by (constructor; [exact P | constructor]).
  assert (Ha : exists g, assoc "$unset"%string (update_ops m up now) = Some (g, apply_unset)) by (eexists; reflexivity).
  assert (Hk : starts_dollar "$unset"%string = true) by reflexivity.
  destruct (apply_with_one_ok _ _ _ _ _ _ _ _ _ _ _ Hk Ha PP H) as [ch R].
  destruct (unset_idempotent_single _ _ _ _ _ U R) as [ch2 R2].
  rewrite (apply_with_one _ _ _ _ _ _ _ _ _ Hk Ha PP (apply_with_ok_no_conflict _ _ _ _ _ _ _ _ H)), R2. cbn [bind fst snd]. eauto.
Qed.

(* ------------------------------------------------------------------ *)
(* structural equality is docsEqual (identical BSON bytes): a result that is
   identical to the input is not counted as modified *)

Lemma value_eqb_refl : forall v, value_eqb v v = true.
Proof.
  apply value_ind'. intros v IH. destruct v; cbn [value_eqb sub] in *;
    rewrite ?Z.eqb_refl, ?String.eqb_refl; try reflexivity.
  - induction d as [|[k x] t IHt]; [reflexivity|]. inversion IH; subst. cbn [snd] in *.
    rewrite String.eqb_refl, H1. cbn [andb]. apply IHt. assumption.
  - induction a as [|x t IHt]; [reflexivity|]. inversion IH; subst.
    rewrite H1. cbn [andb]. apply IHt. assumption.
  - destruct b; reflexivity.
Qed.

(* mongokit/collection.go: a document is listed in Result.Modified iff
   !docsEqual(before, after) *)
Definition counted_modified (before after : doc) : bool := negb (value_eqb (VDoc before) (VDoc after)).

Theorem noop_reports_unchanged m d q u up fs now d' ch :
  apply_with m d q u up fs now = Ok (d', ch) -> d' = d -> counted_modified d d' = false.
Proof. intros _ ->. unfold counted_modified. rewrite value_eqb_refl. reflexivity. Qed.

(* ------------------------------------------------------------------ *)
(* the static conflict check: acceptance of an update does not depend on the
   document as far as path conflicts go *)

(* a conflicting update is rejected for EVERY document (and query, upsert
   flag, array filters, clock) *)
Theorem conflicting_update_rejected m u p :
  conflicting_path u = Some p ->
  forall d q up fs now, apply_with m d q u up fs now = Err.
Proof. intros H d q up fs now. eapply apply_with_conflict. exact H. Qed.

(* every named path pair of an accepted update is free of static conflicts *)
Fixpoint pairwise_free (names : list string) : Prop :=
  match names with
  | [] => True
  | n :: t => Forall (fun m => static_conflict (split_path n) (split_path m) = false) t /\ pairwise_free t
  end.

Lemma first_conflict_none names : first_conflict names = None -> pairwise_free names.
Proof.
  induction names as [|n t IH]; intro H; [exact I|]. cbn [first_conflict] in H.
  destruct (find (fun m => static_conflict (split_path n) (split_path m)) t) eqn:F; [discriminate|].
  split; [|apply IH; exact H]. apply Forall_forall. intros x Hx.
  destruct (static_conflict (split_path n) (split_path x)) eqn:E; [|reflexivity].
  pose proof (find_none _ _ F x Hx) as N. cbn in N. congruence.
Qed.

Theorem accepted_paths_conflict_free m d q u up fs now r :
  apply_with m d q u up fs now = Ok r -> pairwise_free (named_paths u).
Proof. intro H. apply first_conflict_none. exact (apply_with_ok_no_conflict _ _ _ _ _ _ _ _ H). Qed.

(* the two former counter-examples to idempotence (repaired by the static
   check): a.$[] next to a.1, and 1.0 next to 1 whose first invocation is a
   no-op — both are rejected now, whatever the document *)
Open Scope string_scope.

Definition u_positional_and_index : doc :=
  [("$max", VDoc [("a.$[]", VInt32 5); ("a.1", VInt32 2)])].

Definition u_conflict_after_noop : doc :=
  [("$max", VDoc [("1.0", VInt32 5); ("1", VArr [])])].

(* and the witness against the first draft of the check (a positional operator
   and a fixed segment followed by different fields) *)
Definition u_positional_and_index_below : doc :=
  [("$set", VDoc [("a.$[].x", VInt32 1); ("a.1.y", VInt32 2)])].

Theorem former_idempotence_witnesses_rejected m :
  conflicting_path u_positional_and_index = Some "a.1" /\
  conflicting_path u_conflict_after_noop = Some "1" /\
  conflicting_path u_positional_and_index_below = Some "a.1.y" /\
  forall d q up fs now,
    apply_with m d q u_positional_and_index up fs now = Err /\
    apply_with m d q u_conflict_after_noop up fs now = Err /\
    apply_with m d q u_positional_and_index_below up fs now = Err.
Proof.
  assert (A : conflicting_path u_positional_and_index = Some "a.1") by reflexivity.
  assert (B : conflicting_path u_conflict_after_noop = Some "1") by reflexivity.
  assert (C : conflicting_path u_positional_and_index_below = Some "a.1.y") by reflexivity.
  repeat split; auto; eapply apply_with_conflict; eassumption.
Qed.

(* conflict-free plain field paths are disjoint *)
Lemma static_conflict_free_disjoint p : forall q,
  static_conflict p q = false -> field_path p -> disjoint p q.
Proof.
  induction p as [|a p' IH]; intros q H F; [discriminate|].
  destruct q as [|b q']; [discriminate|]. inversion F as [|? ? Fa Fp]; subst.
  cbn [static_conflict disjoint] in *. destruct (String.eqb_spec a b) as [->|N].
  - left. split; [reflexivity | apply IH; assumption].
  - right. split; [exact N|]. intros i Hi. rewrite Fa in Hi. discriminate.
Qed.

Lemma named_paths_single k pairs :
  starts_dollar k = true -> k <> "$rename"%string -> named_paths [(k, VDoc pairs)] = map fst pairs.
Proof.
  intros Hk Nr. unfold named_paths. cbn [flat_map fst snd]. rewrite Hk, app_nil_r.
  assert (E : String.eqb k "$rename" = false) by (apply String.eqb_neq; exact Nr). rewrite E.
  induction pairs as [|[p v] t IH]; [reflexivity|]. cbn [flat_map map fst snd].
  destruct v; cbn [app]; rewrite IH; reflexivity.
Qed.

Lemma pairwise_free_disjoint names :
  pairwise_free names -> Forall (fun n => field_path (split_path n)) names -> pairwise_disjoint names.
Proof.
  induction names as [|n t IH]; intros H F; [exact I|]. destruct H as [H1 H2]. inversion F as [|? ? Fn Ft]; subst.
  cbn [pairwise_disjoint]. split; [|apply IH; assumption].
  rewrite Forall_forall in *. intros x Hx. apply static_conflict_free_disjoint; [apply H1; exact Hx | exact Fn].
Qed.

Lemma idem_operator_not_rename m k op : idem_operator m k op -> k <> "$rename"%string.
Proof. intro H. destruct H; discriminate. Qed.

(* idempotence on any number of plain field paths: that the paths are pairwise
   disjoint is no longer a hypothesis but a consequence of acceptance *)
Theorem apply_idempotent_accepted m d q k op pairs up fs now d1 ch1 :
  idem_operator m k op -> plain_pairs pairs -> field_pairs pairs ->
  apply_with m d q [(k, VDoc pairs)] up fs now = Ok (d1, ch1) ->
  exists ch2, apply_with m d1 q [(k, VDoc pairs)] up fs now = Ok (d1, ch2).
Proof.
  intros I PP F H. eapply apply_idempotent_list; eauto.
  destruct (idem_operator_registered m up now _ _ I) as [Hk _].
  pose proof (accepted_paths_conflict_free _ _ _ _ _ _ _ _ H) as PF.
  rewrite (named_paths_single _ _ Hk (idem_operator_not_rename _ _ _ I)) in PF.
  apply pairwise_free_disjoint; [exact PF|].
  unfold field_pairs in F. rewrite Forall_forall in *. intros n Hn. apply in_map_iff in Hn.
  destruct Hn as ([p v] & <- & Hin). exact (F _ Hin).
Qed.

(* (C, repaired by /repo 4eddedf) a positional operator is only recognised at
   the START of a path segment: SplitDynamicPath cuts the path exactly at a
   '.' separator (or at the very beginning), so the array it resolves against
   is named by a true segment-prefix of the path in the update *)
Lemma sapp_nil_r s : (s ++ "")%string = s.
Proof. induction s as [|c t IH]; [reflexivity|]. cbn. rewrite IH. reflexivity. Qed.

Lemma sapp_assoc a : forall b c, ((a ++ b) ++ c)%string = (a ++ (b ++ c))%string.
Proof. induction a as [|x t IH]; intros b c; [reflexivity|]. cbn. rewrite IH. reflexivity. Qed.

Lemma string_rev_app_spec s : forall acc, string_rev_app s acc = (string_rev_app s "" ++ acc)%string.
Proof.
  induction s as [|c t IH]; intro acc; [reflexivity|]. cbn [string_rev_app].
  rewrite (IH (String c acc)), (IH (String c ""%string)), sapp_assoc. reflexivity.
Qed.

Lemma split_dollar_go_spec s : forall acc start before rest,
  split_dollar_go s acc start = Some (before, rest) ->
  starts_dollar rest = true /\
  exists mid, before = (string_rev acc ++ mid)%string /\ s = (mid ++ rest)%string /\
              ((mid = ""%string /\ start = true) \/ exists m', mid = (m' ++ ".")%string).
Proof.
  induction s as [|c t IH]; intros acc start before rest H; [discriminate|].
  cbn [split_dollar_go] in H. destruct (start && Ascii.eqb c "$"%char) eqn:E.
  - injection H as <- <-. apply andb_true_iff in E. destruct E as [-> E]. apply Ascii.eqb_eq in E. subst c.
    split; [reflexivity|]. exists ""%string. split; [rewrite sapp_nil_r; reflexivity|]. split; [reflexivity|]. left. auto.
  - destruct (IH _ _ _ _ H) as (D & mid & Eb & Et & Hm). split; [exact D|].
    exists (String c mid). split; [|split].
    + rewrite Eb. unfold string_rev. cbn [string_rev_app].
      rewrite (string_rev_app_spec acc (String c ""%string)), sapp_assoc. reflexivity.
    + cbn. rewrite Et. reflexivity.
    + right. destruct Hm as [[-> Hs]|[m' ->]].
      * exists ""%string. apply Ascii.eqb_eq in Hs. subst c. reflexivity.
      * exists (String c m'). reflexivity.
Qed.

Lemma drop_last_cons x u : u <> ""%string -> drop_last (String x u) = String x (drop_last u).
Proof. destruct u; [congruence | reflexivity]. Qed.

Lemma drop_last_snoc m c : drop_last (m ++ String c "")%string = m.
Proof.
  induction m as [|x t IH]; [reflexivity|]. cbn [append].
  rewrite drop_last_cons by (destruct t; discriminate). rewrite IH. reflexivity.
Qed.

Theorem split_dollar_at_segment_start ps before rest :
  split_dollar ps = Some (before, rest) ->
  ps = (before ++ rest)%string /\ starts_dollar rest = true /\
  (before = ""%string \/ before = (drop_last before ++ ".")%string).
Proof.
  unfold split_dollar. intro H. destruct (split_dollar_go_spec _ _ _ _ _ H) as (D & mid & Eb & Et & Hm).
  cbn in Eb. subst before. split; [exact Et|]. split; [exact D|].
  destruct Hm as [[-> _]|[m' ->]]; [left; reflexivity | right].
  rewrite drop_last_snoc. reflexivity.
Qed.

(* the former witness: "ab$[].c" is a plain path now; the update creates the
   field it names and leaves "a" alone *)
Theorem dollar_inside_segment_is_plain m :
  plain "ab$[].c" /\
  apply_with m [("a", VArr [VDoc [("c", VInt32 1)]]); ("k", VInt32 0)] []
             [("$mul", VDoc [("ab$[].c", VInt32 2)])] false [] 0 =
  Ok ([("a", VArr [VDoc [("c", VInt32 1)]]); ("k", VInt32 0); ("ab$[]", VDoc [("c", VInt32 0)])],
      [("ab$[].c", VInt32 0)]).
Proof. split; reflexivity. Qed.

(* structural equality decides equality: docsEqual is exactly "same document" *)
Lemma value_eqb_eq : forall a b, value_eqb a b = true -> a = b.
Proof.
  apply (value_ind' (fun a => forall b, value_eqb a b = true -> a = b)).
  intros a IH b H. destruct a; destruct b; cbn [value_eqb] in H; try discriminate; try reflexivity.
  - apply Z.eqb_eq in H. congruence.
  - apply Z.eqb_eq in H. congruence.
  - apply Z.eqb_eq in H. congruence.
  - apply andb_true_iff in H. destruct H as [H1 H2]. apply Z.eqb_eq in H1, H2. congruence.
  - apply String.eqb_eq in H. congruence.
  - f_equal. cbn [sub] in IH. revert d0 H. induction d as [|[k x] t IHt]; intros [|[k' y] t'] H; try discriminate; [reflexivity|].
    inversion IH as [|? ? Hx Ht]; subst. cbn [snd] in Hx.
    apply andb_true_iff in H. destruct H as [H H3]. apply andb_true_iff in H. destruct H as [H1 H2].
    apply String.eqb_eq in H1. subst k'. rewrite (Hx _ H2). f_equal. apply IHt; assumption.
  - f_equal. cbn [sub] in IH. revert a0 H. induction a as [|x t IHt]; intros [|y t'] H; try discriminate; [reflexivity|].
    inversion IH as [|? ? Hx Ht]; subst.
    apply andb_true_iff in H. destruct H as [H1 H2]. rewrite (Hx _ H1). f_equal. apply IHt; assumption.
  - apply andb_true_iff in H. destruct H as [H1 H2]. apply Z.eqb_eq in H1. apply String.eqb_eq in H2. congruence.
  - apply String.eqb_eq in H. congruence.
  - apply Bool.eqb_prop in H. congruence.
  - apply Z.eqb_eq in H. congruence.
  - apply andb_true_iff in H. destruct H as [H1 H2]. apply Z.eqb_eq in H1, H2. congruence.
  - apply andb_true_iff in H. destruct H as [H1 H2]. apply String.eqb_eq in H1, H2. congruence.
Qed.

(* a document is counted as modified exactly when it is a different document *)
Theorem counted_modified_iff before after : counted_modified before after = true <-> before <> after.
Proof.
  unfold counted_modified. split.
  - intros H E. subst. rewrite value_eqb_refl in H. discriminate.
  - intro H. destruct (value_eqb (VDoc before) (VDoc after)) eqn:E; [|reflexivity].
    apply value_eqb_eq in E. congruence.
Qed.

(* a rejected arithmetic result (Missing: int64 overflow, Decimal128 not
   representable, non-number) rejects the operator invocation *)
Lemma arith_rejection_rejects_update f s ps v :
  f (if is_missing (Get (fst s) ps) then VInt32 0 else Get (fst s) ps) v = Ok VMissing ->
  apply_arith f s ps v = Err.
Proof. intro H. unfold apply_arith. rewrite H. reflexivity. Qed.

(* ------------------------------------------------------------------ *)
(* idempotence of updates that combine SEVERAL operators of the class
   $set / $min / $max / $addToSet / $pull / $pullAll *)

(* one operator invocation: decision function, path, argument *)
Definition inv : Type := (value -> value -> res decision) * string * value.
Definition inv_path (i : inv) : string := snd (fst i).

Fixpoint run_inv (l : list inv) (s : st) : res st :=
  match l with
  | [] => Ok s
  | (dc, p, v) :: t => let* s' := decided_op dc s p v in run_inv t s'
  end.

Definition idem_decide (dc : value -> value -> res decision) : Prop :=
  forall cur v w, dc cur v = Ok (Write w) -> is_missing w = false -> dc w v = Ok Keep \/ dc w v = Ok (Write w).

Definition settled_inv (D : doc) (i : inv) : Prop := settled (fst (fst i)) D (inv_path i, snd i).

Lemma run_inv_app a : forall b s, run_inv (a ++ b) s = let* s1 := run_inv a s in run_inv b s1.
Proof.
  induction a as [|[[dc p] v] t IH]; intros b s; [reflexivity|]. cbn [app run_inv].
  destruct (decided_op dc s p v); cbn [bind]; try reflexivity. apply IH.
Qed.

Lemma run_inv_frame l : forall d ch dn chn q,
  run_inv l (d, ch) = Ok (dn, chn) ->
  Forall (fun i => field_path (split_path (inv_path i))) l ->
  Forall (fun i => disjoint (split_path (inv_path i)) q) l ->
  get_path dn q = get_path d q.
Proof.
  induction l as [|[[dc p] v] t IH]; intros d ch dn chn q H F D.
  - cbn in H. injection H as <- <-. reflexivity.
  - cbn [run_inv] in H. inversion F; subst. inversion D; subst. unfold inv_path in *. cbn [fst snd] in *.
    destruct (decided_op dc (d, ch) p v) as [[d1 ch1]| | | |] eqn:E; cbn [bind] in H; try discriminate.
    rewrite (IH _ _ _ _ _ H) by assumption.
    unfold decided_op in E. cbn [fst] in E.
    destruct (dc (Get d p) v) as [[|w]| | | |]; cbn [bind] in E; try discriminate.
    + injection E as <- <-. reflexivity.
    + destruct (put_record_ok _ _ _ _ _ _ E) as (old & P & _). eapply get_put_frame_field; eauto.
Qed.

Lemma first_run_settles_inv l : forall d ch dn chn,
  run_inv l (d, ch) = Ok (dn, chn) ->
  Forall (fun i => idem_decide (fst (fst i))) l ->
  Forall (fun i => field_path (split_path (inv_path i))) l ->
  pairwise_disjoint (map inv_path l) ->
  Forall (settled_inv dn) l.
Proof.
  induction l as [|[[dc p] v] t IH]; intros d ch dn chn H I F PD; [constructor|].
  cbn [run_inv] in H. inversion I as [|? ? Idc It]; subst. inversion F as [|? ? Fp Ft]; subst.
  cbn [map pairwise_disjoint] in PD. destruct PD as [Dp PDt]. unfold inv_path in *. cbn [fst snd] in *.
  destruct (decided_op dc (d, ch) p v) as [[d1 ch1]| | | |] eqn:E; cbn [bind] in H; try discriminate.
  constructor; [|eapply IH; eauto].
  pose proof (op_settles dc Idc _ _ _ _ _ _ (field_path_canon _ Fp) E) as S.
  assert (G : Get dn p = Get d1 p).
  { eapply run_inv_frame; eauto. rewrite Forall_forall in *. intros i Hin.
    apply disjoint_sym. apply Dp. apply in_map_iff. exists i. split; [reflexivity | exact Hin]. }
  unfold settled_inv, settled, inv_path in *. cbn [fst snd] in *. rewrite G. exact S.
Qed.

Lemma settled_run_inv l : forall D ch,
  Forall (settled_inv D) l -> pairwise_disjoint (map inv_path l) ->
  (forall kv, In kv ch -> Forall (fun p => disjoint (split_path (fst kv)) (split_path p)) (map inv_path l)) ->
  exists ch', run_inv l (D, ch) = Ok (D, ch').
Proof.
  induction l as [|[[dc p] v] t IH]; intros D ch S PD Hch; [eexists; reflexivity|].
  inversion S as [|? ? Sp St]; subst. cbn [map pairwise_disjoint] in PD. destruct PD as [Dp PDt].
  unfold settled_inv, inv_path in Sp. cbn [fst snd] in *. cbn [run_inv].
  assert (Hp : forall kv, In kv ch -> disjoint (split_path (fst kv)) (split_path p)).
  { intros kv Hin. specialize (Hch kv Hin). inversion Hch; assumption. }
  destruct (settled_step dc D ch p v Sp Hp) as [R|[w R]]; rewrite R; cbn [bind].
  - apply IH; auto. intros kv Hin. specialize (Hch kv Hin). inversion Hch; assumption.
  - apply IH; auto. intros kv Hin. apply in_app_or in Hin. destruct Hin as [Hin|[<-|[]]].
    + specialize (Hch kv Hin). inversion Hch; assumption.
    + exact Dp.
Qed.

Theorem run_inv_idempotent l d dn chn :
  Forall (fun i => idem_decide (fst (fst i))) l ->
  Forall (fun i => field_path (split_path (inv_path i))) l ->
  pairwise_disjoint (map inv_path l) ->
  run_inv l (d, []) = Ok (dn, chn) ->
  exists ch2, run_inv l (dn, []) = Ok (dn, ch2).
Proof.
  intros I F PD H. apply settled_run_inv; [eapply first_run_settles_inv; eauto | exact PD | intros ? []].
Qed.

(* the decision function of each operator of the class *)
Definition decide_of (m : doc -> doc -> res bool) (k : string) : value -> value -> res decision :=
  if String.eqb k "$set" then decide_set
  else if String.eqb k "$max" then decide_minmax is_lt
  else if String.eqb k "$min" then decide_minmax is_gt
  else if String.eqb k "$addToSet" then decide_add_to_set
  else if String.eqb k "$pull" then decide_pull m
  else decide_pull_all.

Lemma decide_of_spec m k op :
  idem_operator m k op ->
  (forall s ps v, op s ps v = decided_op (decide_of m k) s ps v) /\ idem_decide (decide_of m k).
Proof.
  intro H. destruct H; unfold decide_of; cbn [String.eqb Ascii.eqb Bool.eqb]; split.
  - exact apply_set_decided. - exact decide_set_idem.
  - exact (apply_minmax_decided is_lt). - exact (decide_minmax_idem is_lt eq_refl).
  - exact (apply_minmax_decided is_gt). - exact (decide_minmax_idem is_gt eq_refl).
  - exact apply_add_to_set_decided. - exact decide_add_to_set_idem.
  - exact (apply_pull_decided m). - exact (decide_pull_idem m).
  - exact apply_pull_all_decided. - exact decide_pull_all_idem.
Qed.

(* an update all of whose operators belong to the class, on plain paths *)
Inductive idem_update (m : doc -> doc -> res bool) : doc -> Prop :=
| iu_nil : idem_update m []
| iu_cons k op pairs t :
    idem_operator m k op -> plain_pairs pairs -> idem_update m t -> idem_update m ((k, VDoc pairs) :: t).

Fixpoint flatten (m : doc -> doc -> res bool) (u : doc) : list inv :=
  match u with
  | [] => []
  | (k, VDoc pairs) :: t => map (fun pv => (decide_of m k, fst pv, snd pv)) pairs ++ flatten m t
  | _ :: t => flatten m t
  end.

Lemma run_as_inv dc pairs : forall s, run (decided_op dc) pairs s = run_inv (map (fun pv => (dc, fst pv, snd pv)) pairs) s.
Proof.
  induction pairs as [|[p v] t IH]; intro s; [reflexivity|]. cbn [run map run_inv fst snd].
  destruct (decided_op dc s p v); cbn [bind]; try reflexivity. apply IH.
Qed.

Lemma apply_ops_flatten m up now fs u : idem_update m u ->
  forall s, apply_ops m up now fs u s = run_inv (flatten m u) s.
Proof.
  induction 1 as [|k op pairs t I PP _ IH]; intro s; [reflexivity|].
  destruct (idem_operator_registered m up now _ _ I) as [Hk [g Ha]].
  destruct (decide_of_spec _ _ _ I) as [E _].
  cbn [apply_ops flatten]. rewrite Hk, Ha, apply_pairs_plain by exact PP.
  rewrite (run_ext _ _ _ E), run_as_inv, run_inv_app.
  destruct (run_inv (map (fun pv => (decide_of m k, fst pv, snd pv)) pairs) s); cbn [bind]; try reflexivity. apply IH.
Qed.

Lemma flatten_paths m u : idem_update m u -> map inv_path (flatten m u) = named_paths u.
Proof.
  induction 1 as [|k op pairs t I PP _ IH]; [reflexivity|].
  destruct (idem_operator_registered m Datatypes.false 0 _ _ I) as [Hk _].
  cbn [flatten]. rewrite map_app.
  change ((k, VDoc pairs) :: t) with ([(k, VDoc pairs)] ++ t)%list. unfold named_paths at 1. rewrite flat_map_app.
  fold (named_paths [(k, VDoc pairs)]). fold (named_paths t).
  rewrite (named_paths_single _ _ Hk (idem_operator_not_rename _ _ _ I)).
  f_equal; [|exact IH]. rewrite map_map. reflexivity.
Qed.

Lemma flatten_idem m u : idem_update m u -> Forall (fun i => idem_decide (fst (fst i))) (flatten m u).
Proof.
  induction 1 as [|k op pairs t I PP _ IH]; [constructor|]. cbn [flatten]. apply Forall_app. split; [|exact IH].
  apply Forall_forall. intros i Hi. apply in_map_iff in Hi. destruct Hi as (pv & <- & _). cbn [fst].
  exact (proj2 (decide_of_spec _ _ _ I)).
Qed.

(* ANY accepted update built from $set / $min / $max / $addToSet / $pull /
   $pullAll (several operators, any number of paths each) on plain field paths
   is idempotent *)
Theorem apply_idempotent_update m d q u up fs now d1 ch1 :
  idem_update m u ->
  Forall (fun p => field_path (split_path p)) (named_paths u) ->
  apply_with m d q u up fs now = Ok (d1, ch1) ->
  exists ch2, apply_with m d1 q u up fs now = Ok (d1, ch2).
Proof.
  intros IU F H.
  pose proof (apply_with_ok_no_conflict _ _ _ _ _ _ _ _ H) as NC.
  assert (Hu : u <> []) by (intro E; subst u; discriminate).
  rewrite apply_with_accept in H by assumption. rewrite apply_ops_flatten in H by exact IU.
  destruct (run_inv (flatten m u) (d, [])) as [[d' ch]| | | |] eqn:R; cbn [bind fst snd] in H; try discriminate.
  injection H as <- _.
  assert (PD : pairwise_disjoint (map inv_path (flatten m u))).
  { rewrite flatten_paths by exact IU. apply pairwise_free_disjoint; [apply first_conflict_none; exact NC | exact F]. }
  assert (FF : Forall (fun i => field_path (split_path (inv_path i))) (flatten m u)).
  { rewrite <- (flatten_paths m u IU) in F. rewrite Forall_map in F. exact F. }
  destruct (run_inv_idempotent _ _ _ _ (flatten_idem _ _ IU) FF PD R) as [ch2 R2].
  rewrite apply_with_accept by assumption. rewrite apply_ops_flatten by exact IU. rewrite R2. cbn [bind fst snd]. eauto.
Qed.
