(* ReplayExamples.v — non-vacuity of the replay theorems of C08 on concrete
   histories (evaluated with vm_compute on the provisional operator semantics
   of Model/MiniOps.v), and the refutation of "replay works across a trim that
   removed events younger than the starting point". *)
From Coq Require Import List ZArith String Lia.
From Lungo.Model Require Import Driver MiniOps.
From Lungo.Proofs Require Import OplogProofs CatInv HistoryInv ReplayTxn ReplayProofs.
Import ListNotations.
Open Scope Z_scope.

Definition ex_h : handle := ("db"%string, "c"%string).
Definition ex_h2 : handle := ("db"%string, "d"%string).

(* inserts, a trim, an update, a committed transaction (delete, replace,
   re-insert of a deleted _id), a collection drop, an aborted transaction, a
   rejected duplicate *)
Definition ex_calls : list call :=
  [CInsertOne 0 ex_h [("_id"%string, VInt32 1); ("a"%string, VInt32 5)];
   CInsertOne 0 ex_h [("_id"%string, VInt32 2); ("a"%string, VInt32 6)];
   CTrim 1;
   CInsertOne 0 ex_h2 [("_id"%string, VInt32 7)];
   CUpdate 0 ex_h false [("_id"%string, VInt32 2)] [("$set"%string, VDoc [("a"%string, VInt32 9)])] false [];
   CStart 3;
   CDelete 3 ex_h false [("_id"%string, VInt32 1)];
   CReplace 3 ex_h [("_id"%string, VInt32 2)] [("b"%string, VInt32 0)] false;
   CInsertOne 3 ex_h [("_id"%string, VInt32 1)];
   CCommit 3;
   CDropColl 0 ex_h2;
   CStart 4;
   CInsertOne 4 ex_h [("_id"%string, VInt32 8)];
   CAbort 4;
   CInsertOne 0 ex_h [("_id"%string, VInt32 2)]].

Definition ex_state (k : nat) : dstate :=
  state_at mini_match mini_apply mini_extract mini_project 0 ex_calls k.

Example ex_replies :
  snd (run mini_match mini_apply mini_extract mini_project 0 d_init ex_calls) =
  [RId (VInt32 1); RId (VInt32 2); RCount 1; RId (VInt32 7); RUpdate 1 1 0 VNull; ROk;
   RDelete 1; RUpdate 1 1 0 VNull; RId (VInt32 1); ROk; ROk; ROk; RId (VInt32 8); ROk; RErr EDup].
Proof. vm_compute. reflexivity. Qed.

(* between point 3 (after the trim) and the end there is no trim: the
   hypotheses of run_replay_no_trim hold; six events are replayed and the
   contents differ at both ends *)
Example ex_no_trim : no_trim (skipn 3 (firstn 15 ex_calls)).
Proof.
  intros c m Hin. vm_compute in Hin.
  repeat (destruct Hin as [<-|Hin]; [discriminate|]). destruct Hin.
Qed.

Example ex_replay_concrete :
  map ev_clock (events_after (cat_clock (ds_cat (ex_state 3))) (ds_cat (ex_state 15))) = [3; 4; 5; 6; 7; 8] /\
  contents (ds_cat (ex_state 3)) =
    [(ex_h, [[("_id"%string, VInt32 1); ("a"%string, VInt32 5)];
             [("_id"%string, VInt32 2); ("a"%string, VInt32 6)]])] /\
  contents (ds_cat (ex_state 15)) =
    [(ex_h, [[("_id"%string, VInt32 2); ("b"%string, VInt32 0)]; [("_id"%string, VInt32 1)]])] /\
  replay (events_after (cat_clock (ds_cat (ex_state 3))) (ds_cat (ex_state 15)))
         (contents (ds_cat (ex_state 3))) = contents (ds_cat (ex_state 15)).
Proof. repeat split; vm_compute; reflexivity. Qed.

(* a trim between the two points that removes only events not younger than
   point i: the hypothesis trims_ok of run_replay holds *)
Definition ex_calls2 : list call :=
  [CInsertOne 0 ex_h [("_id"%string, VInt32 1)];
   CInsertOne 0 ex_h [("_id"%string, VInt32 2)];
   CTrim 1;
   CDelete 0 ex_h false [("_id"%string, VInt32 1)]].

Example ex_trims_ok :
  let si := state_at mini_match mini_apply mini_extract mini_project 0 ex_calls2 1 in
  trims_ok mini_match mini_apply mini_extract mini_project 0 (cat_clock (ds_cat si)) si
           (skipn 1 (firstn 4 ex_calls2)) /\
  List.length (events (ds_cat (state_at mini_match mini_apply mini_extract mini_project 0 ex_calls2 2))) = 2%nat /\
  List.length (events (ds_cat (state_at mini_match mini_apply mini_extract mini_project 0 ex_calls2 3))) = 1%nat.
Proof.
  cbv zeta. split; [|split; vm_compute; reflexivity].
  change (skipn 1 (firstn 4 ex_calls2)) with
    [CInsertOne 0 ex_h [("_id"%string, VInt32 2)]; CTrim 1;
     CDelete 0 ex_h false [("_id"%string, VInt32 1)]].
  cbn [trims_ok]. repeat split.
  - intros e Hin Hn. exfalso. apply Hn. revert Hin. vm_compute. tauto.
  - intros e Hin Hn. vm_compute in Hin. destruct Hin as [<-|[<-|[]]].
    + vm_compute. discriminate.
    + exfalso. apply Hn. vm_compute. tauto.
  - intros e Hin Hn. exfalso. apply Hn. revert Hin. vm_compute. tauto.
Qed.

(* the hypothesis cannot be dropped: when a trim removes events younger than
   point i, replaying what is left does not reproduce the contents *)
Theorem replay_needs_untrimmed_events_refuted :
  exists matchf applyf extractf projectf now calls i j,
    (i <= j <= List.length calls)%nat /\
    let ci := ds_cat (state_at matchf applyf extractf projectf now calls i) in
    let cj := ds_cat (state_at matchf applyf extractf projectf now calls j) in
    ~ contents_eq (replay (events_after (cat_clock ci) cj) (contents ci)) (contents cj).
Proof.
  exists mini_match, mini_apply, mini_extract, mini_project, 0,
         [CInsertOne 0 ex_h [("_id"%string, VInt32 1)]; CTrim 0], 0%nat, 2%nat.
  split; [simpl; lia|]. cbv zeta. intro H. specialize (H ex_h). vm_compute in H. discriminate.
Qed.

Print Assumptions ex_replay_concrete.
Print Assumptions ex_trims_ok.
Print Assumptions replay_needs_untrimmed_events_refuted.
