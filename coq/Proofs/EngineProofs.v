(* EngineProofs.v — invariants of the engine / session / token protocol of
   Model/Engine.v, proved by induction over [reachable] for any number of
   threads, sessions and steps, any programs and any faults. *)
From Coq Require Import List Arith Lia Bool.
From Lungo.Model Require Import Base Engine.
Import ListNotations.
Local Open Scope list_scope.

(* ------------------------------------------------------------------ *)
(* Reachability.                                                       *)

Inductive reachable (c : config) : state -> Prop :=
| reach_init : forall n progs, reachable c (init_state n progs)
| reach_step : forall s l s', reachable c s -> step c s l = Some s' -> reachable c s'.

(* ------------------------------------------------------------------ *)
(* Lists.                                                              *)

Lemma nth_error_upd_same : forall A (l : list A) n x y,
  nth_error l n = Some y -> nth_error (upd l n x) n = Some x.
Proof. induction l; destruct n; simpl; intros; try discriminate; eauto. Qed.

Lemma nth_error_upd_other : forall A (l : list A) n m x,
  n <> m -> nth_error (upd l n x) m = nth_error l m.
Proof. induction l; destruct n, m; simpl; intros; try congruence; auto. Qed.

Lemma upd_length : forall A (l : list A) n x, List.length (upd l n x) = List.length l.
Proof. induction l; destruct n; simpl; intros; auto. Qed.

Lemma nth_error_upd : forall A (l : list A) n m x y,
  nth_error l n = Some y ->
  nth_error (upd l n x) m = if Nat.eqb n m then Some x else nth_error l m.
Proof.
  intros. destruct (Nat.eqb n m) eqn:E.
  - apply Nat.eqb_eq in E. subst. eapply nth_error_upd_same; eauto.
  - apply Nat.eqb_neq in E. apply nth_error_upd_other; auto.
Qed.

Definition b2n (b : bool) : nat := if b then 1 else 0.

Fixpoint count {A} (f : A -> bool) (l : list A) : nat :=
  match l with [] => 0 | x :: t => b2n (f x) + count f t end.

Lemma count_upd : forall A (f : A -> bool) (l : list A) n x y,
  nth_error l n = Some y -> count f (upd l n x) + b2n (f y) = count f l + b2n (f x).
Proof.
  induction l; destruct n; simpl; intros; try discriminate.
  - inversion H; subst. lia.
  - specialize (IHl _ x _ H). lia.
Qed.

Lemma count_zero : forall A (f : A -> bool) l,
  (forall n x, nth_error l n = Some x -> f x = false) -> count f l = 0.
Proof.
  induction l; simpl; intros; auto.
  rewrite (H 0 a eq_refl). simpl. apply IHl. intros. apply (H (S n)). auto.
Qed.

Lemma count_pos : forall A (f : A -> bool) l n x,
  nth_error l n = Some x -> f x = true -> 1 <= count f l.
Proof.
  induction l; destruct n; simpl; intros; try discriminate.
  - inversion H; subst. rewrite H0. simpl. lia.
  - specialize (IHl _ _ H H0). lia.
Qed.

Lemma count_le_one_unique : forall A (f : A -> bool) l n m x y,
  count f l <= 1 -> nth_error l n = Some x -> nth_error l m = Some y ->
  f x = true -> f y = true -> n = m.
Proof.
  induction l; destruct n, m; simpl; intros; try discriminate; auto.
  - inversion H0; subst. rewrite H2 in H. simpl in H.
    pose proof (count_pos _ f l _ _ H1 H3). lia.
  - inversion H1; subst. rewrite H3 in H. simpl in H.
    pose proof (count_pos _ f l _ _ H0 H2). lia.
  - f_equal. eapply IHl; eauto. lia.
Qed.

Lemma count_map : forall A B (g : A -> B) (f : B -> bool) l,
  count f (map g l) = count (fun a => f (g a)) l.
Proof. induction l; simpl; auto. Qed.

(* ------------------------------------------------------------------ *)
(* What a thread holds, as a function of its program counter.          *)

(* the continuation of the engine call a thread is in *)
Definition pc_cont (p : pc) : option cont :=
  match p with
  | PBeginPre _ k | PBegin0 _ _ _ k | PBeginSess _ k | PBeginUnl k | PBeginAcq k | PBeginWoke _ k
  | PBeginInst _ k | PRetE _ _ k | PCommit0 _ k | PCommitL _ k | PCommitStore _ k | PCommitPub _ k
  | PCommitBcast _ k | PCommitRel _ k | PAbort0 _ k | PAbortL _ k | PAbortRel k => Some k
  | _ => None
  end.

(* Engine.mutex is held *)
Definition holdsE (p : pc) : bool :=
  match p with
  | PBeginSess _ _ | PBeginUnl _ | PBeginInst _ _ | PRetE _ _ _
  | PCommitL _ _ | PCommitStore _ _ | PCommitPub _ _ | PCommitBcast _ _ | PCommitRel _ _
  | PAbortL _ _ | PAbortRel _ | PCloseK => true
  | _ => false
  end.

(* the engine method was called with this Session.mutex held *)
Definition cont_sess (k : cont) : option sid :=
  match k with
  | KSessStartAbort s _ | KSessCommit s _ | KSessAbort s _ | KSessEnd s => Some s
  | _ => None
  end.

Definition holdsS (p : pc) : option sid :=
  match p with
  | PSStartL s _ | PSStartFL s _ _ _ | PSCommitL s _ | PSAbortL s _ | PSEndL s | PSUnl s _ _ => Some s
  | _ => match pc_cont p with Some k => cont_sess k | None => None end
  end.

(* the token is in this thread's hands: acquired and not yet installed in
   e.txn, or e.txn already unset and the deferred Release still pending *)
Definition transit (p : pc) : bool :=
  match p with
  | PBeginWoke true _ | PCommitStore _ _ | PCommitPub _ _ | PCommitBcast _ _ | PCommitRel _ _ => true
  | _ => false
  end.

Definition smutex (g : globals) (s : sid) : option tid :=
  match nth_error (sessions g) s with Some x => s_mutex x | None => None end.

(* ------------------------------------------------------------------ *)
(* Case analysis of one thread step.                                   *)

Ltac brk H :=
  repeat match type of H with
  | context [match ?x with _ => _ end] =>
      let E := fresh "E" in destruct x eqn:E; try discriminate H
  | context [if ?b then _ else _] =>
      let E := fresh "E" in destruct b eqn:E; try discriminate H
  end.

Ltac unf H :=
  unfold tstep, tau, acquire, dispatch, goto, ereturn, sreturn, finish, begin_entry, new_txn,
         expire_iteration, efree in H.

(* H : tstep c t bgs g th a = Some (g', th'), th a record variable *)
Ltac step_cases H :=
  unf H; cbn [th_pc th_prog th_cur th_cancelled th_bg th_inv th_pub th_read th_results th_streams] in H;
  brk H; inversion H; subst; clear H.

Ltac simp :=
  cbn [th_pc th_prog th_cur th_cancelled th_bg th_inv th_pub th_read th_results th_streams
       th_set_pc th_set_prog th_set_cur th_set_cancelled th_set_inv th_set_pub th_set_read
       th_set_results th_set_streams
       emutex token_free etxn alive catalog version log stored store_fail store_panic sessions
       txns nstreams stream_locks streams_closed sem_panic now calls
       g_set_emutex g_set_token g_set_etxn g_set_alive g_set_stored g_set_store_fail
       g_set_store_panic g_set_sessions g_set_txns g_set_nstreams g_set_stream_locks
       g_set_streams_closed g_set_sem_panic g_set_now g_set_calls g_publish
       g_upd_session g_upd_txn release lockS unlockS
       fst snd holdsE holdsS pc_cont cont_sess transit].

Ltac simph :=
  cbn [th_pc th_prog th_cur th_cancelled th_bg th_inv th_pub th_read th_results th_streams
       th_set_pc th_set_prog th_set_cur th_set_cancelled th_set_inv th_set_pub th_set_read
       th_set_results th_set_streams
       emutex token_free etxn alive catalog version log stored store_fail store_panic sessions
       txns nstreams stream_locks streams_closed sem_panic now calls
       g_set_emutex g_set_token g_set_etxn g_set_alive g_set_stored g_set_store_fail
       g_set_store_panic g_set_sessions g_set_txns g_set_nstreams g_set_stream_locks
       g_set_streams_closed g_set_sem_panic g_set_now g_set_calls g_publish
       g_upd_session g_upd_txn release lockS unlockS
       fst snd holdsE holdsS pc_cont cont_sess transit] in *.

(* ------------------------------------------------------------------ *)
(* A. Engine.mutex: the owner recorded in the state is exactly the
   thread whose program counter lies in a critical section.            *)

Lemma tstep_emutex : forall c t bgs g th a g' th',
  tstep c t bgs g th a = Some (g', th') ->
  (holdsE (th_pc th) = true <-> emutex g = Some t) ->
  (holdsE (th_pc th') = true <-> emutex g' = Some t) /\
  (forall u, u <> t -> (emutex g' = Some u <-> emutex g = Some u)).
Proof.
  intros c t bgs g th a g' th' H I.
  destruct th as [p prog cur canc bg inv pub rd res str]. simpl in I.
  unfold efree in *.
  destruct a; [destruct p|destruct p|destruct p|destruct p]; step_cases H; simp;
    try (destruct (emutex g) eqn:EM; try discriminate);
    simp; split; intros; intuition (try congruence).
Qed.

Lemma step_inv : forall c s l s',
  step c s l = Some s' ->
  (exists t a th g' th', l = LThread t a /\ nth_error (st_threads s) t = Some th /\
     tstep c t (bg_stopped (st_threads s)) (st_g s) th a = Some (g', th') /\
     s' = {| st_g := g_set_now g' (S (now g')); st_threads := upd (st_threads s) t th' |}) \/
  (exists t th, l = LCancel t /\ nth_error (st_threads s) t = Some th /\
     s' = {| st_g := g_set_now (st_g s) (S (now (st_g s)));
             st_threads := upd (st_threads s) t (th_set_cancelled th true) |}) \/
  (l = LFailStore /\
     s' = {| st_g := g_set_now (g_set_store_fail (st_g s) true) (S (now (st_g s))); st_threads := st_threads s |}) \/
  (l = LPanicStore /\
     s' = {| st_g := g_set_now (g_set_store_panic (st_g s) true) (S (now (st_g s))); st_threads := st_threads s |}).
Proof.
  intros c s l s' H. unfold step in H. destruct l.
  - destruct (nth_error (st_threads s) t) eqn:E; try discriminate.
    destruct (tstep c t (bg_stopped (st_threads s)) (st_g s) t0 a) as [[g' th']|] eqn:T; try discriminate.
    inversion H; subst. left. repeat eexists; eauto.
  - destruct (nth_error (st_threads s) t) eqn:E; try discriminate.
    inversion H; subst. right; left. repeat eexists; eauto.
  - inversion H; subst. right; right; left. auto.
  - inversion H; subst. right; right; right. auto.
Qed.

(* invariants of the shape "every thread is related to the globals" *)
Definition all_threads (P : globals -> tid -> thread -> Prop) (s : state) : Prop :=
  forall t th, nth_error (st_threads s) t = Some th -> P (st_g s) t th.

Definition inv_emutex (g : globals) (t : tid) (th : thread) : Prop :=
  holdsE (th_pc th) = true <-> emutex g = Some t.

Lemma init_thread_nth : forall progs t th,
  nth_error (map (fun bp : bool * list op => init_thread (fst bp) (snd bp)) progs) t = Some th ->
  th_pc th = PIdle /\ th_cur th = None /\ th_inv th = 0 /\ th_read th = None /\ th_pub th = None /\
  th_cancelled th = false /\ th_results th = [] /\ th_streams th = 0 /\ th_inv th = 0.
Proof.
  intros. rewrite nth_error_map in H. destruct (nth_error progs t); simpl in H; inversion H; subst.
  simpl. repeat split; auto.
Qed.

Theorem emutex_owner : forall c s, reachable c s -> all_threads inv_emutex s.
Proof.
  induction 1.
  - intros t th H. apply init_thread_nth in H. destruct H as [H _]. unfold inv_emutex. rewrite H. simpl.
    split; intros; discriminate.
  - apply step_inv in H0. destruct H0 as [H0|[H0|[H0|H0]]].
    + destruct H0 as (t & a & th & g' & th' & -> & N & T & ->).
      pose proof (tstep_emutex _ _ _ _ _ _ _ _ T (IHreachable _ _ N)) as [A B].
      intros u thu NU. simpl in NU. unfold inv_emutex. simpl.
      rewrite (nth_error_upd _ _ _ _ _ _ N) in NU. destruct (Nat.eqb t u) eqn:E.
      * apply Nat.eqb_eq in E. subst. inversion NU; subst. exact A.
      * apply Nat.eqb_neq in E. rewrite (B u (not_eq_sym E)). apply IHreachable; auto.
    + destruct H0 as (t & th & -> & N & ->). intros u thu NU. simpl in NU. unfold inv_emutex. simpl.
      rewrite (nth_error_upd _ _ _ _ _ _ N) in NU. destruct (Nat.eqb t u) eqn:E.
      * apply Nat.eqb_eq in E. subst. inversion NU; subst. simpl. apply IHreachable; auto.
      * apply IHreachable; auto.
    + destruct H0 as [-> ->]. intros u thu NU. apply IHreachable; auto.
    + destruct H0 as [-> ->]. intros u thu NU. apply IHreachable; auto.
Qed.

(* generic preservation of a per-thread invariant *)
Record stable (P : globals -> tid -> thread -> Prop) : Prop := {
  st_now : forall g t th n, P g t th -> P (g_set_now g n) t th;
  st_fail : forall g t th b, P g t th -> P (g_set_store_fail g b) t th;
  st_panic : forall g t th b, P g t th -> P (g_set_store_panic g b) t th;
  st_cancel : forall g t th b, P g t th -> P g t (th_set_cancelled th b)
}.

Lemma all_threads_step : forall P c s l s',
  stable P -> step c s l = Some s' -> all_threads P s ->
  (forall t a th g' th', nth_error (st_threads s) t = Some th ->
     tstep c t (bg_stopped (st_threads s)) (st_g s) th a = Some (g', th') ->
     P g' t th' /\ (forall u thu, u <> t -> nth_error (st_threads s) u = Some thu -> P g' u thu)) ->
  all_threads P s'.
Proof.
  intros P c s l s' ST H I O. apply step_inv in H. destruct H as [H|[H|[H|H]]].
  - destruct H as (t & a & th & g' & th' & -> & N & T & ->).
    destruct (O _ _ _ _ _ N T) as [A B].
    intros u thu NU. simpl in *. rewrite (nth_error_upd _ _ _ _ _ _ N) in NU. destruct (Nat.eqb t u) eqn:E.
    + apply Nat.eqb_eq in E. subst. inversion NU; subst. apply ST. exact A.
    + apply Nat.eqb_neq in E. apply ST. apply B; auto.
  - destruct H as (t & th & -> & N & ->). intros u thu NU. simpl in *.
    rewrite (nth_error_upd _ _ _ _ _ _ N) in NU. destruct (Nat.eqb t u) eqn:E.
    + apply Nat.eqb_eq in E. subst. inversion NU; subst. apply ST. apply ST. apply I; auto.
    + apply ST. apply I; auto.
  - destruct H as [-> ->]. intros u thu NU. simpl in *. apply ST. apply ST. apply I; auto.
  - destruct H as [-> ->]. intros u thu NU. simpl in *. apply ST. apply ST. apply I; auto.
Qed.

(* ------------------------------------------------------------------ *)
(* B. Session.mutex ownership.                                         *)

Definition inv_smutex (g : globals) (t : tid) (th : thread) : Prop :=
  forall s, holdsS (th_pc th) = Some s <-> smutex g s = Some t.

Lemma smutex_upd : forall g i f s,
  smutex (g_upd_session g i f) s =
  if Nat.eqb i s then match nth_error (sessions g) i with Some x => s_mutex (f x) | None => None end
  else smutex g s.
Proof.
  intros. unfold smutex, g_upd_session. simpl.
  destruct (nth_error (sessions g) i) eqn:E.
  - rewrite (nth_error_upd _ _ _ _ _ _ E). destruct (Nat.eqb i s) eqn:Q; auto.
  - destruct (Nat.eqb i s) eqn:Q; auto. apply Nat.eqb_eq in Q. subst. rewrite E. auto.
Qed.

Lemma sess_free_smutex : forall g s, sess_free g s = true -> smutex g s = None /\ valid_sid g s = true.
Proof.
  unfold sess_free, smutex, valid_sid. intros. destruct (nth_error (sessions g) s); try discriminate.
  destruct (s_mutex s0); simpl in *; try discriminate. auto.
Qed.

Ltac eqb_cases :=
  repeat match goal with
  | |- context [Nat.eqb ?a ?b] =>
      let Q := fresh "Q" in destruct (Nat.eqb a b) eqn:Q;
      [apply Nat.eqb_eq in Q; try subst|apply Nat.eqb_neq in Q]
  end.

Lemma nth_upd_match : forall A (l : list A) i (f : A -> A) s,
  nth_error (match nth_error l i with Some x => upd l i (f x) | None => l end) s =
  if Nat.eqb i s then option_map f (nth_error l i) else nth_error l s.
Proof.
  intros. destruct (nth_error l i) eqn:E.
  - rewrite (nth_error_upd _ _ _ _ _ _ E). destruct (Nat.eqb i s); auto.
  - destruct (Nat.eqb i s) eqn:Q; auto. apply Nat.eqb_eq in Q. subst. auto.
Qed.

Lemma tstep_smutex : forall c t bgs g th a g' th',
  tstep c t bgs g th a = Some (g', th') ->
  inv_smutex g t th ->
  inv_smutex g' t th' /\
  (forall u s, u <> t -> (smutex g' s = Some u <-> smutex g s = Some u)).
Proof.
  intros c t bgs g th a g' th' H I. unfold inv_smutex in *.
  destruct th as [p prog cur canc bg inv pub rd res str]. simpl in I.
  destruct a; [destruct p|destruct p|destruct p|destruct p]; step_cases H; simp.
  all: unfold sess_free, smutex in *; simp.
  all: (split; [intro sx | intros ux sx NEQ]); rewrite ?nth_upd_match; eqb_cases; simp; specialize (I sx).
  all: try match goal with
       | I : context [nth_error (sessions ?g) ?s] |- _ => destruct (nth_error (sessions g) s) eqn:NZ; simpl in *
       end.
  all: try match goal with
       | |- context [nth_error (sessions ?g) ?s] => destruct (nth_error (sessions g) s) eqn:NZ2; simpl in *
       end.
  all: try solve [intuition (try congruence)].
  all: match goal with E : negb (is_some (s_mutex ?s)) = true |- _ =>
         destruct (s_mutex s); simpl in E; try discriminate E end; intuition congruence.
Qed.

Lemma stable_smutex : stable inv_smutex.
Proof. constructor; intros; exact H. Qed.

Lemma stable_emutex : stable inv_emutex.
Proof. constructor; intros; exact H. Qed.

Theorem smutex_owner : forall c s, reachable c s -> all_threads inv_smutex s.
Proof.
  induction 1.
  - intros t th H s. apply init_thread_nth in H. destruct H as [H _]. rewrite H. simpl.
    unfold smutex. simpl. split; intros; try discriminate.
    destruct (nth_error (repeat init_session n) s) eqn:E; try discriminate.
    apply nth_error_In in E. apply repeat_spec in E. subst. discriminate.
  - eapply all_threads_step; eauto using stable_smutex.
    intros t a th g' th' N T. destruct (tstep_smutex _ _ _ _ _ _ _ _ T (IHreachable _ _ N)) as [A B].
    split; auto. intros u thu NE NU s1. rewrite (B u s1 NE). apply IHreachable; auto.
Qed.

(* ------------------------------------------------------------------ *)
(* C. The token: exactly one of {the semaphore, e.txn, a thread in
   transit} has it; Release never finds the semaphore full.            *)

Definition thr_transit (th : thread) : bool := transit (th_pc th).

Definition inv_token (s : state) : Prop :=
  sem_panic (st_g s) = false /\
  b2n (is_some (etxn (st_g s))) + count thr_transit (st_threads s) + b2n (token_free (st_g s)) = 1.

Lemma tstep_token : forall c t bgs g th a g' th',
  tstep c t bgs g th a = Some (g', th') ->
  sem_panic g = false ->
  b2n (is_some (etxn g)) + b2n (thr_transit th) + b2n (token_free g) <= 1 ->
  sem_panic g' = false /\
  b2n (is_some (etxn g')) + b2n (thr_transit th') + b2n (token_free g') =
  b2n (is_some (etxn g)) + b2n (thr_transit th) + b2n (token_free g).
Proof.
  intros c t bgs g th a g' th' H SP LE. unfold thr_transit in *.
  destruct th as [p prog cur canc bg inv pub rd res str]. simpl in LE.
  destruct a; [destruct p|destruct p|destruct p|destruct p]; step_cases H; simp; simpl in *.
  all: repeat match goal with E : negb ?b = _ |- _ =>
         is_var b; destruct b; simpl in E; try discriminate E; clear E end; simpl in *.
  all: repeat match goal with E : etxn _ = _ |- _ => rewrite E in *; clear E end.
  all: try rewrite SP; simpl.
  all: try (destruct (token_free g) eqn:TF; simpl in * ).
  all: try (destruct (etxn g) eqn:ET; simpl in * ).
  all: try discriminate; split; auto; try lia; try (exfalso; lia).
Qed.

Theorem token_invariant : forall c s, reachable c s -> inv_token s.
Proof.
  induction 1.
  - unfold inv_token. simpl. split; auto.
    rewrite count_zero; auto. intros t th H. apply init_thread_nth in H. destruct H as [H _].
    unfold thr_transit. rewrite H. auto.
  - destruct IHreachable as [SP EQ]. apply step_inv in H0. destruct H0 as [H0|[H0|[H0|H0]]].
    + destruct H0 as (t & a & th & g' & th' & -> & N & T & ->).
      pose proof (count_pos _ thr_transit _ _ _ N) as CP.
      assert (LE : b2n (is_some (etxn (st_g s))) + b2n (thr_transit th) + b2n (token_free (st_g s)) <= 1).
      { destruct (thr_transit th) eqn:TT; simpl; [specialize (CP eq_refl)|]; lia. }
      destruct (tstep_token _ _ _ _ _ _ _ _ T SP LE) as [SP' EQ'].
      unfold inv_token. simpl. split; auto.
      pose proof (count_upd _ thr_transit _ _ th' _ N). lia.
    + destruct H0 as (t & th & -> & N & ->). unfold inv_token. simpl. split; auto.
      pose proof (count_upd _ thr_transit _ _ (th_set_cancelled th true) _ N).
      unfold thr_transit in *. simpl in *. lia.
    + destruct H0 as [-> ->]. unfold inv_token. simpl. auto.
    + destruct H0 as [-> ->]. unfold inv_token. simpl. auto.
Qed.

(* ------------------------------------------------------------------ *)
(* D. Write transactions: a transaction is open exactly while it is
   installed in e.txn; identifiers are never reused.                   *)

Definition txn_status (g : globals) (x : txid) : option tstatus :=
  option_map t_status (nth_error (txns g) x).

Definition txn_ok (g : globals) : Prop :=
  (forall x, etxn g = Some x -> txn_status g x = Some TOpen) /\
  (forall x, txn_status g x = Some TOpen -> etxn g = Some x).

Lemma nth_error_app_new : forall A (l : list A) a x,
  nth_error (l ++ [a]) x =
  if Nat.ltb x (List.length l) then nth_error l x else if Nat.eqb x (List.length l) then Some a else None.
Proof.
  induction l; simpl; intros.
  - destruct x; simpl; auto. destruct x; auto.
  - destruct x; simpl; auto. rewrite IHl. reflexivity.
Qed.

Lemma nth_error_ge_none : forall A (l : list A) x, List.length l <= x -> nth_error l x = None.
Proof. intros. apply nth_error_None. auto. Qed.

Lemma status_lt : forall (l : list txn) x s, option_map t_status (nth_error l x) = Some s -> x < List.length l.
Proof. intros. apply nth_error_Some. destruct (nth_error l x); simpl in *; congruence. Qed.
Lemma tstep_txn : forall c t bgs g th a g' th',
  tstep c t bgs g th a = Some (g', th') ->
  txn_ok g -> (transit (th_pc th) = true -> etxn g = None) ->
  txn_ok g'.
Proof.
  intros c t bgs g th a g' th' H [D1 D2] TR. unfold txn_ok, txn_status in *.
  destruct th as [p prog cur canc bg inv pub rd res str]. simpl in TR.
  destruct a; [destruct p|destruct p|destruct p|destruct p]; step_cases H; simp; simpl in TR.
  all: try solve [split; assumption].
  all: try (rewrite TR in * by reflexivity).
  all: unfold is_txn in *.
  all: repeat match goal with E : etxn _ = _ |- _ => rewrite E in * end.
  all: split; intros y; rewrite ?nth_upd_match, ?nth_error_app_new; eqb_cases;
    repeat match goal with |- context [Nat.ltb ?a ?b] => destruct (Nat.ltb_spec a b) end.
  all: simpl; intros HY; try congruence; try discriminate; eauto.
  all: try solve [destruct (nth_error (txns g) _); simpl in *; congruence].
  all: try solve [apply status_lt in HY; lia].
  all: try solve [apply D1 in HY; apply status_lt in HY; lia].
  all: try solve [exfalso; lia].
  all: try solve [apply D1 in HY; destruct (nth_error (txns g) y); simpl in *; congruence].
  all: try solve [apply D2; destruct (nth_error (txns g) y); simpl in *; congruence].
  all: try solve [assert (etxn g = Some y) by (apply D2; destruct (nth_error (txns g) y); simpl in *; congruence); congruence].
  all: try solve [apply D2 in HY; try rewrite HY in *; simpl in *; try discriminate; inversion HY; subst;
                  repeat match goal with E : Nat.eqb _ _ = true |- _ => apply Nat.eqb_eq in E end;
                  repeat match goal with E : negb (Nat.eqb _ _) = false |- _ => apply negb_false_iff in E; apply Nat.eqb_eq in E end;
                  congruence].
Qed.

Lemma transit_etxn_none : forall s t th,
  inv_token s -> nth_error (st_threads s) t = Some th -> transit (th_pc th) = true ->
  etxn (st_g s) = None /\ token_free (st_g s) = false.
Proof.
  intros s t th [_ EQ] N TR. pose proof (count_pos _ thr_transit _ _ _ N TR).
  destruct (etxn (st_g s)); destruct (token_free (st_g s)); simpl in *; split; auto; lia.
Qed.

Lemma txn_ok_frame : forall g g', etxn g' = etxn g -> txns g' = txns g -> txn_ok g -> txn_ok g'.
Proof. unfold txn_ok, txn_status. intros g g' E T. rewrite E, T. auto. Qed.

Theorem txn_invariant : forall c s, reachable c s -> txn_ok (st_g s).
Proof.
  induction 1.
  - unfold txn_ok, txn_status. simpl. split; intros; try discriminate. destruct x; discriminate.
  - pose proof (token_invariant _ _ H) as TI.
    apply step_inv in H0. destruct H0 as [H0|[H0|[H0|H0]]].
    + destruct H0 as (t & a & th & g' & th' & -> & N & T & ->). simpl.
      eapply txn_ok_frame with (g := g'); auto.
      eapply tstep_txn; eauto. intros TR. eapply transit_etxn_none; eauto.
    + destruct H0 as (t & th & -> & N & ->). simpl. eapply txn_ok_frame; eauto.
    + destruct H0 as [-> ->]. simpl. eapply txn_ok_frame; eauto.
    + destruct H0 as [-> ->]. simpl. eapply txn_ok_frame; eauto.
Qed.

(* at most one write transaction is open at any time *)
Theorem single_writer_txn : forall c s x y,
  reachable c s -> txn_status (st_g s) x = Some TOpen -> txn_status (st_g s) y = Some TOpen -> x = y.
Proof.
  intros c s x y R X Y. destruct (txn_invariant _ _ R) as [_ D2].
  apply D2 in X. apply D2 in Y. congruence.
Qed.

(* ------------------------------------------------------------------ *)
(* E/F. The writer's base is the committed catalog; the log is serial.  *)

Definition txn_base_ok (g : globals) (x : txid) : Prop :=
  exists tx, nth_error (txns g) x = Some tx /\ t_base_ver tx = version g /\ t_base_cat tx = catalog g.

(* newest first: every commit's base version is the number of earlier
   commits, and its result is the previous result followed by its operations *)
Fixpoint log_ok (l : list commit) (cat : list wop) (ver : nat) : Prop :=
  match l with
  | [] => cat = [] /\ ver = 0
  | e :: l' => c_result e = cat /\ ver = S (c_base e) /\
               exists prev, c_result e = prev ++ c_ops e /\ log_ok l' prev (c_base e)
  end.

Definition committing (p : pc) : option txid :=
  match p with PCommitStore x _ | PCommitPub x _ => Some x | _ => None end.

Definition inv_base_g (g : globals) : Prop :=
  (forall x, etxn g = Some x -> txn_base_ok g x) /\ log_ok (log g) (catalog g) (version g).

Definition inv_base (g : globals) (t : tid) (th : thread) : Prop :=
  forall x, committing (th_pc th) = Some x -> txn_base_ok g x.

Definition txns_base_mono (g g' : globals) : Prop :=
  forall x tx, nth_error (txns g) x = Some tx ->
  exists tx', nth_error (txns g') x = Some tx' /\ t_base_ver tx' = t_base_ver tx /\ t_base_cat tx' = t_base_cat tx.

Lemma nth_error_app_old : forall A (l : list A) a x y, nth_error l x = Some y -> nth_error (l ++ [a]) x = Some y.
Proof. intros. rewrite nth_error_app1; auto. apply nth_error_Some. congruence. Qed.

Lemma tstep_base_mono : forall c t bgs g th a g' th',
  tstep c t bgs g th a = Some (g', th') -> txns_base_mono g g'.
Proof.
  intros c t bgs g th a g' th' H. unfold txns_base_mono.
  destruct th as [p prog cur canc bg inv pub rd res str].
  destruct a; [destruct p|destruct p|destruct p|destruct p]; step_cases H; simp; intros y ty HY.
  all: try solve [eexists; split; [eassumption|split; reflexivity]].
  all: try solve [eexists; split; [apply nth_error_app_old; eassumption|split; reflexivity]].
  all: rewrite ?nth_upd_match; eqb_cases; try rewrite HY; simpl;
       try solve [eexists; split; [try eassumption; try reflexivity|split; reflexivity]].
  all: try solve [eexists; split; [apply nth_error_app_old; eassumption|split; reflexivity]].
Qed.

Lemma tstep_publish : forall c t bgs g th a g' th',
  tstep c t bgs g th a = Some (g', th') ->
  (version g' = version g /\ catalog g' = catalog g /\ log g' = log g) \/
  (exists x k, th_pc th = PCommitPub x k).
Proof.
  intros c t bgs g th a g' th' H.
  destruct th as [p prog cur canc bg inv pub rd res str].
  destruct a; [destruct p|destruct p|destruct p|destruct p]; step_cases H; simp;
    try solve [left; auto]; right; eauto.
Qed.

Lemma txn_base_ok_mono : forall g g' x,
  txns_base_mono g g' -> version g' = version g -> catalog g' = catalog g ->
  txn_base_ok g x -> txn_base_ok g' x.
Proof.
  intros g g' x M V C (tx & N & A & B). destruct (M _ _ N) as (tx' & N' & A' & B').
  exists tx'. rewrite V, C. repeat split; congruence.
Qed.

Lemma tstep_base : forall c t bgs g th a g' th',
  tstep c t bgs g th a = Some (g', th') ->
  inv_base_g g -> inv_base g t th -> (transit (th_pc th) = true -> etxn g = None) ->
  inv_base_g g' /\ inv_base g' t th'.
Proof.
  intros c t bgs g th a g' th' H [E1 LG] IB TR.
  pose proof (tstep_base_mono _ _ _ _ _ _ _ _ H) as M.
  pose proof (tstep_publish _ _ _ _ _ _ _ _ H) as P.
  unfold inv_base_g, inv_base in *.
  destruct th as [p prog cur canc bg inv pub rd res str]. simpl in TR, IB, P.
  destruct a; [destruct p|destruct p|destruct p|destruct p]; step_cases H; simp; simpl in TR.
  all: destruct P as [(PV & PC & PL)|(px & pk & PP)]; [simpl in PV, PC, PL; try (exfalso; lia)|try discriminate PP].
  all: try (split; [split|]).
  all: try rewrite PV; try rewrite PC; try rewrite PL; auto.
  all: try (intros y HY; eapply txn_base_ok_mono; eauto; fail).
  all: simpl; try (intros y HY; try discriminate HY).
  all: try solve [rewrite TR in HY by reflexivity; discriminate].
  all: try solve [inversion HY; subst; eexists; split;
                  [simpl; rewrite nth_error_app2, Nat.sub_diag by lia; simpl; reflexivity | simpl; auto]].
  all: try solve [inversion HY; subst; eapply txn_base_ok_mono; eauto; apply IB; reflexivity].
  all: try solve [inversion HY; subst;
     match goal with E : negb (Nat.eqb _ _) = false |- _ => apply negb_false_iff in E; apply Nat.eqb_eq in E; subst end;
     eapply txn_base_ok_mono; eauto].
  all: try solve [destruct (IB _ eq_refl) as (tx & N & A & B); unfold txn_cat, txn_base, txn_ops; rewrite N;
     split; [reflexivity|split; [congruence|exists (catalog g); split; [congruence|rewrite A; exact LG]]]].
  all: try solve [apply E1; congruence].
Qed.

Lemma committing_holdsE : forall p x, committing p = Some x -> holdsE p = true /\ transit p = true.
Proof. destruct p; simpl; intros; try discriminate; auto. Qed.

Theorem base_invariant : forall c s, reachable c s -> inv_base_g (st_g s) /\ all_threads inv_base s.
Proof.
  induction 1.
  - split.
    + split; simpl; intros; try discriminate; auto.
    + intros t th N x C. apply init_thread_nth in N. destruct N as [N _]. rewrite N in C. discriminate.
  - destruct IHreachable as [IG IT].
    pose proof (token_invariant _ _ H) as TI. pose proof (emutex_owner _ _ H) as EO.
    apply step_inv in H0. destruct H0 as [H0|[H0|[H0|H0]]].
    + destruct H0 as (t & a & th & g' & th' & -> & N & T & ->).
      assert (TR : transit (th_pc th) = true -> etxn (st_g s) = None) by (intros; eapply transit_etxn_none; eauto).
      destruct (tstep_base _ _ _ _ _ _ _ _ T IG (IT _ _ N) TR) as [IG' IT'].
      split; [exact IG'|].
      intros u thu NU. simpl in NU. rewrite (nth_error_upd _ _ _ _ _ _ N) in NU.
      destruct (Nat.eqb t u) eqn:Q.
      * apply Nat.eqb_eq in Q. subst. inversion NU; subst. exact IT'.
      * apply Nat.eqb_neq in Q. intros x C. simpl.
        destruct (tstep_publish _ _ _ _ _ _ _ _ T) as [(PV & PC & _)|(px & pk & PP)].
        -- assert (MM := tstep_base_mono _ _ _ _ _ _ _ _ T).
           apply (txn_base_ok_mono (st_g s)); [exact MM | exact PV | exact PC | exact (IT _ _ NU _ C)].
        -- exfalso. apply committing_holdsE in C. destruct C as [C _].
           apply (EO _ _ NU) in C. assert (HE : holdsE (th_pc th) = true) by (rewrite PP; reflexivity).
           apply (EO _ _ N) in HE. congruence.
    + destruct H0 as (t & th & -> & N & ->). split; [exact IG|].
      intros u thu NU. simpl in NU. rewrite (nth_error_upd _ _ _ _ _ _ N) in NU.
      destruct (Nat.eqb t u) eqn:Q.
      * apply Nat.eqb_eq in Q. subst. inversion NU; subst. exact (IT _ _ N).
      * exact (IT _ _ NU).
    + destruct H0 as [-> ->]. split; [exact IG|exact IT].
    + destruct H0 as [-> ->]. split; [exact IG|exact IT].
Qed.

(* while a transaction is installed in e.txn the committed catalog is the
   catalog it was created from *)
Theorem base_is_current_thm : forall c s x,
  reachable c s -> etxn (st_g s) = Some x -> txn_base_ok (st_g s) x.
Proof. intros c s x R. destruct (base_invariant _ _ R) as [[E1 _] _]. auto. Qed.

Theorem log_serial : forall c s, reachable c s -> log_ok (log (st_g s)) (catalog (st_g s)) (version (st_g s)).
Proof. intros c s R. destruct (base_invariant _ _ R) as [[_ L] _]. auto. Qed.

(* consequences of log_ok in the form of the property statement *)
Definition result_of (l : list commit) : list wop :=
  match l with [] => [] | e :: _ => c_result e end.

Lemma log_ok_head : forall l cat ver, log_ok l cat ver -> cat = result_of l /\ ver = List.length l.
Proof.
  induction l; simpl; intros cat ver H.
  - destruct H; subst; auto.
  - destruct H as (A & B & prev & C & D). destruct (IHl _ _ D) as [_ L]. split; [congruence|lia].
Qed.

Lemma log_ok_split : forall l cat ver l1 e l2,
  log_ok l cat ver -> l = l1 ++ e :: l2 ->
  c_base e = List.length l2 /\ c_result e = result_of l2 ++ c_ops e.
Proof.
  induction l; intros cat ver l1 e l2 H EQ.
  - destruct l1; discriminate.
  - simpl in H. destruct H as (A & B & prev & C & D). destruct l1; simpl in EQ; inversion EQ; subst.
    + destruct (log_ok_head _ _ _ D) as [P L]. split; congruence.
    + eapply IHl; eauto.
Qed.

Lemma log_ok_flat : forall l cat ver, log_ok l cat ver -> cat = flat_map c_ops (rev l).
Proof.
  induction l; simpl; intros cat ver H.
  - destruct H; auto.
  - destruct H as (A & B & prev & C & D). rewrite flat_map_app. simpl. rewrite app_nil_r.
    rewrite <- (IHl _ _ D). congruence.
Qed.

Lemma log_ok_base_lt : forall l cat ver e, log_ok l cat ver -> In e l -> c_base e < ver.
Proof.
  induction l; simpl; intros cat ver e H I; [contradiction|].
  destruct H as (A & B & prev & C & D). destruct I as [->|I]; [lia|].
  specialize (IHl _ _ _ D I). lia.
Qed.

(* ------------------------------------------------------------------ *)
(* G/H/R. Time stamps: commit points lie inside their calls, snapshots
   are commit prefixes that were current when they were taken.          *)

Fixpoint times_ok (l : list commit) (bound : nat) : Prop :=
  match l with
  | [] => True
  | e :: l' => c_time e < bound /\ times_ok l' (c_time e)
  end.

(* the catalog after the first v commits *)
Fixpoint cat_at (l : list commit) (v : nat) : list wop :=
  match l with
  | [] => []
  | e :: l' => if Nat.eqb (S (c_base e)) v then c_result e else cat_at l' v
  end.

Definition read_ok (g : globals) (lo : nat) (hi : nat) (r : option (nat * nat)) : Prop :=
  forall v tm, r = Some (v, tm) ->
    lo <= tm /\ tm < hi /\ v <= version g /\
    forall e, In e (log g) -> (c_base e < v <-> c_time e < tm).

Definition pub_ok (g : globals) (lo : nat) (hi : nat) (p : option txid) : Prop :=
  forall x, p = Some x -> exists e, In e (log g) /\ c_txn e = x /\ lo <= c_time e /\ c_time e < hi.

Definition call_ok (g : globals) (k : call) : Prop :=
  k_inv k <= k_ret k /\ k_ret k < now g /\
  pub_ok g (k_inv k) (k_ret k) (k_pub k) /\ read_ok g (k_inv k) (k_ret k) (k_read k).

Definition inv_time_g (g : globals) : Prop :=
  times_ok (log g) (now g) /\
  (forall k, In k (calls g) -> call_ok g k) /\
  (forall x tx, nth_error (txns g) x = Some tx ->
     t_base_ver tx <= version g /\ cat_at (log g) (t_base_ver tx) = t_base_cat tx).

Definition inv_time (g : globals) (t : tid) (th : thread) : Prop :=
  th_inv th <= now g /\
  pub_ok g (th_inv th) (now g) (th_pub th) /\ read_ok g (th_inv th) (now g) (th_read th) /\
  (th_pc th = PIdle -> th_pub th = None /\ th_read th = None).

