(* StreamProofs.v — proofs about the change-stream model (Model/Stream.v), C09.

   Part 1: basic facts (scope, find_after, next never runs out of fuel).
   Part 2: the sequential world: every interleaving of commits, retention
           trims, single passes of Stream.next's loop and Close — delivery
           (soundness, order, no duplicates, gap-freeness), Lost, completeness,
           resume, invalidate.
   Part 3: the concurrent model — no lost wake-up.                         *)
From Coq Require Import List ZArith Lia Bool Arith.
From Lungo.Model Require Import Stream.
Import ListNotations.
Local Open Scope list_scope.
Local Open Scope nat_scope.
Local Notation length := List.length (only parsing).

(* ================================================================== *)
(* Part 1 — basics                                                     *)

Local Open Scope Z_scope.

Definition ids (l : oplog) : list Z := map eid l.

Lemma ids_app : forall a b, ids (a ++ b) = ids a ++ ids b.
Proof. intros; unfold ids; apply map_app. Qed.

Lemma in_skipn : forall (A : Type) n (l : list A) x, In x (skipn n l) -> In x l.
Proof.
  induction n as [|n IH]; intros l x H; [exact H|].
  destruct l as [|y t]; [exact H|]. right; apply IH; exact H.
Qed.

Lemma in_firstn : forall (A : Type) n (l : list A) x, In x (firstn n l) -> In x l.
Proof.
  induction n as [|n IH]; intros l x H; [contradiction|].
  destruct l as [|y t]; [exact H|]. destruct H as [H|H]; [left; exact H|right; apply IH; exact H].
Qed.

(* ---- histories: ids strictly increasing (C08), above the zero timestamp ---- *)

(* every id of l is above lo and the ids increase strictly *)
Fixpoint increasing (lo : Z) (l : oplog) : Prop :=
  match l with
  | [] => True
  | e :: t => lo < eid e /\ increasing (eid e) t
  end.

(* id of the last event of a, lo when a is empty: Catalog.Trimmed after
   retention has removed a from a catalog whose Trimmed was lo *)
Definition last_id (lo : Z) (a : oplog) : Z :=
  match last_event a with Some e => eid e | None => lo end.

Lemma last_id_cons : forall lo e t, last_id lo (e :: t) = last_id (eid e) t.
Proof. intros lo e [|x t]; unfold last_id; [reflexivity|]. change (last_event (e :: x :: t)) with (last_event (x :: t)). destruct (last_event (x :: t)) eqn:E; [reflexivity|]. exfalso. clear -E. revert x E. induction t as [|y t IH]; intros x E; [discriminate|]. apply (IH y). exact E. Qed.

Lemma last_id_app : forall a lo b, last_id lo (a ++ b) = last_id (last_id lo a) b.
Proof.
  induction a as [|e t IH]; intros lo b; [reflexivity|].
  rewrite <- app_comm_cons, !last_id_cons. apply IH.
Qed.

Lemma increasing_weaken : forall l lo lo', lo' <= lo -> increasing lo l -> increasing lo' l.
Proof. intros [|e t] lo lo' H; simpl; [auto|]. intros [H1 H2]; split; [lia|exact H2]. Qed.

Lemma increasing_app : forall a lo b,
  increasing lo (a ++ b) <-> increasing lo a /\ increasing (last_id lo a) b.
Proof.
  induction a as [|e t IH]; intros lo b; simpl.
  - unfold last_id; simpl. tauto.
  - rewrite last_id_cons, IH. tauto.
Qed.

Lemma increasing_last_id : forall a lo, increasing lo a -> lo <= last_id lo a.
Proof.
  induction a as [|e t IH]; intros lo H; [unfold last_id; simpl; lia|].
  rewrite last_id_cons. destruct H as [H1 H2]. specialize (IH _ H2). lia.
Qed.

Lemma increasing_gt : forall l lo x, increasing lo l -> In x l -> lo < eid x.
Proof.
  induction l as [|e t IH]; intros lo x H Hin; [contradiction|].
  destruct H as [H1 H2]. destruct Hin as [->|Hin]; [exact H1|].
  specialize (IH _ _ H2 Hin). lia.
Qed.

Lemma increasing_le_last : forall a lo x, increasing lo a -> In x a -> eid x <= last_id lo a.
Proof.
  induction a as [|e t IH]; intros lo x H Hin; [contradiction|].
  rewrite last_id_cons. destruct H as [H1 H2]. destruct Hin as [->|Hin].
  - apply increasing_last_id; exact H2.
  - apply IH; assumption.
Qed.

Lemma increasing_NoDup : forall l lo, increasing lo l -> NoDup (ids l).
Proof.
  induction l as [|e t IH]; intros lo H; simpl; [constructor|].
  destruct H as [H1 H2]. constructor; [|eapply IH; exact H2].
  intros C. unfold ids in C. apply in_map_iff in C. destruct C as (x & Hx & Hin).
  pose proof (increasing_gt _ _ _ H2 Hin). lia.
Qed.

(* ---- `after`: the events ahead of a position ---- *)

Lemma after_app_le : forall a last b, (forall x, In x a -> eid x <= last) -> after last (a ++ b) = after last b.
Proof.
  induction a as [|e t IH]; intros last b H; [reflexivity|].
  simpl. destruct (Z.leb_spec (eid e) last) as [L|L].
  - apply IH. intros x Hx; apply H; right; exact Hx.
  - specialize (H e (or_introl eq_refl)). lia.
Qed.

Lemma after_gt : forall last b, increasing last b -> after last b = b.
Proof.
  intros last [|e t]; simpl; [reflexivity|]. intros [H _].
  destruct (Z.leb_spec (eid e) last); [lia|reflexivity].
Qed.

Lemma after_length : forall last l, (length (after last l) <= length l)%nat.
Proof.
  induction l as [|e t IH]; simpl; [lia|]. destruct (Z.leb (eid e) last); simpl; lia.
Qed.

Lemma filter_all_above : forall t m z, increasing m t -> z <= m -> filter (fun e => Z.ltb z (eid e)) t = t.
Proof.
  induction t as [|x t IH]; intros m z H L; [reflexivity|].
  destruct H as [G1 G2]. simpl. destruct (Z.ltb_spec z (eid x)); [|lia].
  f_equal. apply (IH (eid x)); [exact G2|lia].
Qed.

(* in a history, `after z` = the events with id above z *)
Lemma after_filter : forall l lo z, increasing lo l -> after z l = filter (fun e => Z.ltb z (eid e)) l.
Proof.
  induction l as [|e t IH]; intros lo z H; [reflexivity|].
  destruct H as [H1 H2]. simpl. destruct (Z.leb_spec (eid e) z) as [L|L].
  - destruct (Z.ltb_spec z (eid e)); [lia|]. eapply IH; exact H2.
  - destruct (Z.ltb_spec z (eid e)); [|lia]. f_equal.
    symmetry. apply (filter_all_above t (eid e)); [exact H2|lia].
Qed.

(* split of a history at a position: what is behind (ids <= z) and ahead *)
Fixpoint before (z : Z) (l : oplog) : oplog :=
  match l with
  | [] => []
  | e :: t => if Z.leb (eid e) z then e :: before z t else []
  end.

Lemma before_after : forall z l, l = before z l ++ after z l.
Proof.
  induction l as [|e t IH]; [reflexivity|]. simpl.
  destruct (Z.leb (eid e) z); [simpl; f_equal; exact IH|reflexivity].
Qed.

Lemma before_le : forall z l x, In x (before z l) -> eid x <= z.
Proof.
  induction l as [|e t IH]; intros x H; [contradiction|]. simpl in H.
  destruct (Z.leb_spec (eid e) z); [|contradiction].
  destruct H as [<-|H]; [assumption|apply IH; exact H].
Qed.

Lemma after_increasing : forall l lo z, increasing lo l -> increasing z (after z l).
Proof.
  induction l as [|e t IH]; intros lo z H; [exact Logic.I|].
  destruct H as [H1 H2]. simpl. destruct (Z.leb_spec (eid e) z) as [L|L].
  - eapply IH; exact H2.
  - split; [exact L|exact H2].
Qed.

(* ---- scope ---- *)
(* what `drops` means for the three kinds of handles *)
Lemma drops_client : forall c e, drops ("", c)%string e = false.
Proof. intros; unfold drops; simpl; reflexivity. Qed.

Lemma drops_db : forall d e, d <> ""%string -> drops (d, ""%string) e = is_dropdb (eop e).
Proof.
  intros d e Hd; unfold drops, nonempty; simpl.
  destruct (String.eqb_spec d ""); [contradiction|]. simpl.
  destruct (is_dropdb (eop e)); reflexivity.
Qed.

Lemma drops_coll : forall d c e, d <> ""%string -> c <> ""%string ->
  drops (d, c) e = is_drop (eop e) || is_dropdb (eop e).
Proof.
  intros d c e Hd Hc; unfold drops, nonempty; simpl.
  destruct (String.eqb_spec d ""); [contradiction|].
  destruct (String.eqb_spec c ""); [contradiction|]. simpl.
  destruct (is_drop (eop e)), (is_dropdb (eop e)); reflexivity.
Qed.

(* a collection-scoped stream sees exactly the events of its collection and
   the dropDatabase of its database *)
Lemma in_scope_coll : forall d c e, d <> ""%string -> c <> ""%string ->
  in_scope (d, c) e = String.eqb d (edb e) && (String.eqb c (ecoll e) || is_dropdb (eop e)).
Proof.
  intros d c e Hd Hc; unfold in_scope, nonempty; simpl.
  destruct (String.eqb_spec d ""); [contradiction|].
  destruct (String.eqb_spec c ""); [contradiction|]. simpl.
  destruct (String.eqb d (edb e)), (String.eqb c (ecoll e)), (is_dropdb (eop e)); reflexivity.
Qed.

Lemma in_scope_db : forall d e, d <> ""%string -> in_scope (d, ""%string) e = String.eqb d (edb e).
Proof.
  intros d e Hd; unfold in_scope, nonempty; simpl.
  destruct (String.eqb_spec d ""); [contradiction|]. simpl.
  destruct (String.eqb d (edb e)); reflexivity.
Qed.

Lemma in_scope_client : forall e, in_scope (""%string, ""%string) e = true.
Proof. intros; reflexivity. Qed.

(* ---- next_iter: elementary facts ---- *)

Definition live (s : sstate) : Prop := serror s = None /\ sclosed s = false.

Lemma next_iter_handle : forall b c s log tr, sh (fst (next_iter b c s log tr)) = sh s.
Proof.
  intros b c s log tr; unfold next_iter.
  destruct (is_some (serror s) || sclosed s); [reflexivity|].
  destruct (sdropped s); [reflexivity|].
  destruct (Z.ltb (slast s) tr); [reflexivity|].
  destruct (pending s log) as [|e t]; simpl.
  - destruct b; [reflexivity|]. destruct c; reflexivity.
  - destruct (in_scope (sh s) e); reflexivity.
Qed.

Lemma after_head : forall last l e t, after last l = e :: t -> last < eid e.
Proof.
  induction l as [|x r IH]; simpl; intros e t H; [discriminate|].
  destruct (Z.leb_spec (eid x) last); [eapply IH; exact H|]. inversion H; subst; assumption.
Qed.

Lemma after_step : forall last l e t, after last l = e :: t -> after (eid e) l = after (eid e) t.
Proof.
  intros last l e t H. pose proof (after_head _ _ _ _ H) as Hlt.
  rewrite (before_after last l) at 1. rewrite after_app_le.
  - rewrite H. simpl. destruct (Z.leb_spec (eid e) (eid e)); [reflexivity|lia].
  - intros x Hx. apply before_le in Hx. lia.
Qed.

(* one `continue` passes exactly one pending event *)
Lemma next_iter_continue : forall b c s log tr s',
  next_iter b c s log tr = (s', Continue) ->
  exists e t, pending s log = e :: t /\ pending s' log = after (eid e) t.
Proof.
  intros b c s log tr s'; unfold next_iter.
  destruct (is_some (serror s) || sclosed s); [discriminate|].
  destruct (sdropped s); [discriminate|].
  destruct (Z.ltb (slast s) tr); [discriminate|].
  destruct (pending s log) as [|e t] eqn:P.
  - destruct b; [discriminate|]. destruct c; discriminate.
  - destruct (in_scope (sh s) e); [discriminate|]. intros H; inversion H; subst; clear H.
    exists e, t; split; [reflexivity|]. unfold pending in *; simpl. eapply after_step; exact P.
Qed.

Lemma next_iter_nonblocking : forall c s log tr s', next_iter false c s log tr <> (s', Park).
Proof.
  intros c s log tr s'; unfold next_iter.
  destruct (is_some (serror s) || sclosed s); [discriminate|].
  destruct (sdropped s); [discriminate|].
  destruct (Z.ltb (slast s) tr); [discriminate|].
  destruct (pending s log) as [|e t]; cbn; try discriminate.
  destruct (in_scope (sh s) e); discriminate.
Qed.

Lemma next_fuel_enough : forall log tr fuel c s,
  (length (pending s log) < fuel)%nat ->
  exists o, snd (next_fuel fuel c s log tr) = Ok o.
Proof.
  intros log tr; induction fuel as [|f IH]; intros c s Hp; [lia|].
  simpl. destruct (next_iter false c s log tr) as [s' [o| |]] eqn:N.
  - exists o; reflexivity.
  - destruct (next_iter_continue _ _ _ _ _ _ N) as (e & t & P & P').
    apply IH. rewrite P'. rewrite P in Hp. simpl in Hp.
    pose proof (after_length (eid e) t). lia.
  - exfalso; eapply next_iter_nonblocking; exact N.
Qed.

(* TryNext always returns: the fuel of `next` suffices *)
Theorem next_total : forall s log tr,
  exists o, snd (next s log tr) = Ok o /\ exists o', snd (next_cancelled s log tr) = Ok o'.
Proof.
  intros s log tr.
  assert (H : (length (pending s log) < S (length log))%nat).
  { unfold pending. pose proof (after_length (slast s) log). lia. }
  destruct (next_fuel_enough log tr (S (length log)) false s H) as [o Ho].
  destruct (next_fuel_enough log tr (S (length log)) true s H) as [o' Ho'].
  exists o; split; [exact Ho|exists o'; exact Ho'].
Qed.

(* ================================================================== *)
(* Part 2 — the sequential world                                       *)

(* ---- subsequences and prefixes ---- *)

Inductive subseq {A : Type} : list A -> list A -> Prop :=
| sub_nil : forall l, subseq [] l
| sub_cons : forall x a b, subseq a b -> subseq (x :: a) (x :: b)
| sub_skip : forall x a b, subseq a b -> subseq a (x :: b).

Lemma subseq_refl : forall (A : Type) (l : list A), subseq l l.
Proof. induction l; constructor; auto. Qed.

Lemma subseq_app : forall (A : Type) (a b c d : list A), subseq a b -> subseq c d -> subseq (a ++ c) (b ++ d).
Proof.
  intros A a b c d H; induction H; intros Hc; simpl.
  - induction l; simpl; [exact Hc|constructor; auto].
  - constructor; auto.
  - constructor; auto.
Qed.

Lemma subseq_app_r : forall (A : Type) (a b c : list A), subseq a b -> subseq a (b ++ c).
Proof.
  intros A a b c H. rewrite <- (app_nil_r a). apply subseq_app; [exact H|constructor].
Qed.

Lemma subseq_app_l : forall (A : Type) (a b c : list A), subseq a b -> subseq a (c ++ b).
Proof. intros A a b c H; induction c; simpl; [exact H|constructor; auto]. Qed.

Lemma subseq_trans : forall (A : Type) (b c : list A), subseq b c -> forall a, subseq a b -> subseq a c.
Proof.
  intros A b c H; induction H; intros a' Ha.
  - inversion Ha; subst; constructor.
  - inversion Ha; subst; constructor; auto.
  - constructor; auto.
Qed.

Lemma subseq_In : forall (A : Type) (a b : list A) x, subseq a b -> In x a -> In x b.
Proof.
  intros A a b x H; induction H; simpl; intros Hin; auto.
  - contradiction.
  - destruct Hin; auto.
Qed.

Lemma subseq_NoDup : forall (A : Type) (a b : list A), subseq a b -> NoDup b -> NoDup a.
Proof.
  intros A a b H; induction H; intros ND.
  - constructor.
  - inversion ND; subst. constructor; auto. intros C; eapply subseq_In in C; eauto.
  - inversion ND; subst; auto.
Qed.

Lemma subseq_map : forall (A B : Type) (f : A -> B) (a b : list A), subseq a b -> subseq (map f a) (map f b).
Proof. intros A B f a b H; induction H; simpl; constructor; auto. Qed.

Lemma subseq_filter : forall (A : Type) (f : A -> bool) (l : list A), subseq (filter f l) l.
Proof. induction l; simpl; [constructor|]. destruct (f a); constructor; auto. Qed.

Definition prefix {A : Type} (a b : list A) : Prop := exists c, b = a ++ c.

(* ---- what a stream with handle h is expected to deliver from a list of
        committed events: the events in scope, up to and including the first
        one that invalidates the stream ---- *)

Fixpoint expected (h : handle) (l : list event) : list event :=
  match l with
  | [] => []
  | e :: t =>
      if in_scope h e then e :: (if drops h e then [] else expected h t)
      else expected h t
  end.

Lemma expected_subseq_filter : forall h l, subseq (expected h l) (filter (in_scope h) l).
Proof.
  induction l as [|e t IH]; simpl; [constructor|].
  destruct (in_scope h e); [|exact IH].
  constructor. destruct (drops h e); [constructor|exact IH].
Qed.

(* without an invalidating event, expected is just the scope filter *)
Lemma expected_no_drop : forall h l, forallb (fun e => negb (drops h e)) (filter (in_scope h) l) = true ->
  expected h l = filter (in_scope h) l.
Proof.
  induction l as [|e t IH]; simpl; [reflexivity|].
  destruct (in_scope h e); simpl; [|exact IH].
  intros H; apply andb_prop in H; destruct H as [H1 H2].
  destruct (drops h e); [discriminate|]. rewrite IH; auto.
Qed.

Lemma last_event_in' : forall l e, last_event l = Some e -> In e l.
Proof.
  induction l as [|x t IH]; simpl; intros e H; [discriminate|].
  destruct t as [|y t']; [inversion H; auto|]. right; apply IH; exact H.
Qed.

(* ---- worlds, steps, scripts ---- *)

(* ---- worlds, steps, scripts ---- *)

Inductive sstep : Type :=
| SCommit (evs : list event)       (* a commit publishes evs *)
| STrim (k : nat)                  (* retention removes k more events from the front *)
| SIter (block ctxerr : bool)      (* ONE pass of the loop of Stream.next *)
| SClose.                          (* Stream.Close *)

Record world : Type := mkWorld {
  w_hist : list event;     (* ghost: every event ever committed, in commit order *)
  w_ntrim : nat;           (* how many of them retention has removed: oplog = skipn w_ntrim w_hist *)
  w_trimmed : Z;           (* Catalog.Trimmed *)
  w_st : sstate;
  w_deliv : list event;    (* ghost: the events returned so far, in order *)
  w_outs : list iter       (* ghost: the result of every pass so far *)
}.

Definition w_log (w : world) : oplog := skipn (w_ntrim w) (w_hist w).

Definition exec_step (w : world) (s : sstep) : world :=
  match s with
  | SCommit evs => mkWorld (w_hist w ++ evs) (w_ntrim w) (w_trimmed w) (w_st w) (w_deliv w) (w_outs w)
  | STrim k =>
      (* Transaction.Clean: remove the prefix, record the id of the newest removed event *)
      mkWorld (w_hist w) (Nat.min (w_ntrim w + k) (length (w_hist w)))
              (trimmed_after k (w_log w) (w_trimmed w)) (w_st w) (w_deliv w) (w_outs w)
  | SIter b c =>
      let r := next_iter b c (w_st w) (w_log w) (w_trimmed w) in
      mkWorld (w_hist w) (w_ntrim w) (w_trimmed w) (fst r)
              (match snd r with Return (Event e) => w_deliv w ++ [e] | _ => w_deliv w end)
              (w_outs w ++ [snd r])
  | SClose => mkWorld (w_hist w) (w_ntrim w) (w_trimmed w) (close_stream (w_st w)) (w_deliv w) (w_outs w)
  end.

Fixpoint exec (w : world) (script : list sstep) : world :=
  match script with
  | [] => w
  | s :: t => exec (exec_step w s) t
  end.

(* event ids are timestamps handed out by a strictly increasing clock (C08):
   every commit brings ids above all earlier ones *)
Fixpoint script_ok (hist : list event) (script : list sstep) : Prop :=
  match script with
  | [] => True
  | SCommit evs :: t => increasing ts_zero (hist ++ evs) /\ script_ok (hist ++ evs) t
  | _ :: t => script_ok hist t
  end.

Lemma skipn_min : forall (A : Type) m (l : list A), skipn (Nat.min m (length l)) l = skipn m l.
Proof.
  intros A m l. destruct (Nat.le_ge_cases m (length l)) as [H|H].
  - rewrite Nat.min_l by exact H. reflexivity.
  - rewrite Nat.min_r by exact H. rewrite skipn_all. symmetry. apply skipn_all2. exact H.
Qed.

Lemma skipn_skipn' : forall (A : Type) k n (l : list A), skipn k (skipn n l) = skipn (n + k) l.
Proof.
  intros A k n; induction n as [|n IH]; intros l; simpl; [reflexivity|].
  destruct l as [|x t]; [rewrite skipn_nil; reflexivity|]. apply IH.
Qed.

Lemma firstn_add : forall (A : Type) n k (l : list A), firstn (n + k) l = firstn n l ++ firstn k (skipn n l).
Proof.
  intros A n k; induction n as [|n IH]; intros l; [reflexivity|].
  destruct l as [|x t]; simpl; [rewrite firstn_nil; reflexivity|]. f_equal. apply IH.
Qed.

Lemma firstn_min : forall (A : Type) m (l : list A), firstn (Nat.min m (length l)) l = firstn m l.
Proof.
  intros A m l. destruct (Nat.le_ge_cases m (length l)) as [H|H].
  - rewrite Nat.min_l by exact H. reflexivity.
  - rewrite Nat.min_r by exact H. rewrite firstn_all. symmetry. apply firstn_all2. exact H.
Qed.

(* the STrim step is the model's `trim` (prefix removal) on the oplog *)
Lemma w_log_trim : forall w k, w_log (exec_step w (STrim k)) = trim k (w_log w).
Proof.
  intros w k; unfold w_log, trim; simpl. rewrite skipn_min, skipn_skipn'. reflexivity.
Qed.

(* Catalog.Trimmed as a function of the ghost history: the id of the newest removed event *)
Definition trimmed_of (hist : list event) (n : nat) : Z := last_id ts_zero (firstn n hist).

Lemma trimmed_after_of : forall hist n k,
  trimmed_after k (skipn n hist) (trimmed_of hist n) = trimmed_of hist (Nat.min (n + k) (length hist)).
Proof.
  intros hist n k. unfold trimmed_after, trimmed_of.
  rewrite firstn_min, firstn_add, last_id_app. reflexivity.
Qed.

(* ---- the invariant ---- *)

(* pre: the events before the stream's start position (fixed);
   mid: the events the stream has passed since (delivered or skipped as out of
        scope); post: the events still ahead of it.  The position slast is at
        or above every id of pre ++ mid and below every id of post. *)
Record inv (h : handle) (pre : list event) (w : world) (mid post : list event) : Prop := mkInv {
  i_hist : w_hist w = pre ++ mid ++ post;
  i_inc : increasing ts_zero (w_hist w);
  i_ntrim : (w_ntrim w <= length (w_hist w))%nat;
  i_trimmed : w_trimmed w = trimmed_of (w_hist w) (w_ntrim w);
  i_h : sh (w_st w) = h;
  i_lo : ts_zero <= slast (w_st w);
  i_behind : forall x, In x (pre ++ mid) -> eid x <= slast (w_st w);
  i_ahead : increasing (slast (w_st w)) post;
  i_sound : subseq (w_deliv w) (filter (in_scope h) mid);
  i_gap : forall rest,
          expected h (mid ++ rest) = w_deliv w ++ (if sdropped (w_st w) then [] else expected h rest)
}.

(* retention has removed an event the stream has not passed  <->  Trimmed is above its position *)
Lemma inv_lost_iff : forall h pre w mid post, inv h pre w mid post ->
  (slast (w_st w) < w_trimmed w <-> (length (pre ++ mid) < w_ntrim w)%nat).
Proof.
  intros h pre w mid post I. destruct I as [Hh Hinc Hnt Htr _ Hlo Hb Ha _ _].
  rewrite Htr. unfold trimmed_of. rewrite Hh, app_assoc in *.
  set (P := pre ++ mid) in *. split.
  - intros L. destruct (Nat.lt_ge_cases (length P) (w_ntrim w)) as [G|G]; [exact G|exfalso].
    rewrite firstn_app in L. replace (w_ntrim w - length P)%nat with 0%nat in L by lia.
    simpl in L. rewrite app_nil_r in L.
    apply increasing_app in Hinc. destruct Hinc as [Hp _].
    rewrite <- (firstn_skipn (w_ntrim w) P) in Hp. apply increasing_app in Hp. destruct Hp as [Hp _].
    unfold last_id in L. destruct (last_event (firstn (w_ntrim w) P)) as [x|] eqn:E.
    + apply last_event_in' in E. apply in_firstn in E. specialize (Hb x E). lia.
    + lia.
  - intros G. rewrite firstn_app, last_id_app.
    destruct (firstn (w_ntrim w - length P) post) as [|y r] eqn:F.
    { destruct post; [rewrite firstn_nil in F|]; simpl in *.
      - rewrite app_length in Hnt. simpl in Hnt. lia.
      - destruct (w_ntrim w - length P)%nat eqn:D; [lia|discriminate]. }
    assert (Hy : In y post) by (eapply in_firstn; rewrite F; left; reflexivity).
    apply increasing_app in Hinc. destruct Hinc as [_ Hpost].
    rewrite <- (firstn_skipn (w_ntrim w - length P) post), F in Ha.
    apply increasing_app in Ha. destruct Ha as [Ha _].
    pose proof (increasing_last_id _ _ (proj2 Ha)) as L1. destruct Ha as [L0 _].
    rewrite last_id_cons. lia.
Qed.

(* when nothing ahead of the stream has been removed, what lies ahead of it in the oplog is post *)
Lemma pending_inv : forall h pre w mid post, inv h pre w mid post ->
  (w_ntrim w <= length (pre ++ mid))%nat ->
  pending (w_st w) (w_log w) = post.
Proof.
  intros h pre w mid post I G. destruct I as [Hh _ _ _ _ _ Hb Ha _ _].
  unfold pending, w_log. rewrite Hh, app_assoc, skipn_app.
  replace (w_ntrim w - length (pre ++ mid))%nat with 0%nat by lia. simpl.
  rewrite after_app_le; [apply after_gt; exact Ha|].
  intros x Hx. apply Hb. eapply in_skipn; exact Hx.
Qed.

(* steps that leave history, retention, deliveries and the stream's position alone *)
Lemma inv_same : forall h pre w w' mid post,
  inv h pre w mid post ->
  w_hist w' = w_hist w -> w_ntrim w' = w_ntrim w -> w_trimmed w' = w_trimmed w -> w_deliv w' = w_deliv w ->
  sh (w_st w') = sh (w_st w) -> slast (w_st w') = slast (w_st w) -> sdropped (w_st w') = sdropped (w_st w) ->
  inv h pre w' mid post.
Proof.
  intros h pre w w' mid post [H1 H2 H3 H4 H5 H6 H7 H8 H9 H10] E1 E2 E3 E4 E5 E6 E7.
  constructor; rewrite ?E1, ?E2, ?E3, ?E4, ?E5, ?E6, ?E7; auto.
Qed.

(* the progress case of a pass: the first event ahead is passed *)
Lemma inv_progress : forall h pre w mid e post st' (deliver : bool),
  inv h pre w mid (e :: post) ->
  sdropped (w_st w) = false ->
  sh st' = sh (w_st w) -> slast st' = eid e ->
  in_scope h e = deliver ->
  sdropped st' = (if deliver then drops h e else false) ->
  forall outs,
  inv h pre (mkWorld (w_hist w) (w_ntrim w) (w_trimmed w) st' (if deliver then w_deliv w ++ [e] else w_deliv w) outs)
      (mid ++ [e]) post.
Proof.
  intros h pre w mid e post st' deliver [H1 H2 H3 H4 H5 H6 H7 H8 H9 H10] Hd E1 E2 E3 E4 outs.
  destruct H8 as [Hlt Hpost].
  constructor; simpl; auto.
  - rewrite H1, <- !app_assoc. reflexivity.
  - rewrite E1; exact H5.
  - rewrite E2. lia.
  - rewrite E2. intros x Hx. rewrite app_assoc in Hx. apply in_app_or in Hx. destruct Hx as [Hx|[<-|[]]].
    + specialize (H7 x Hx). lia.
    + lia.
  - rewrite E2. exact Hpost.
  - rewrite filter_app; simpl. rewrite E3. destruct deliver.
    + apply subseq_app; [exact H9|apply subseq_refl].
    + rewrite app_nil_r; exact H9.
  - intros rest. specialize (H10 (e :: rest)). rewrite Hd in H10.
    rewrite <- app_assoc. simpl. rewrite H10. simpl. rewrite E3, E4. destruct deliver.
    + rewrite <- app_assoc. reflexivity.
    + reflexivity.
Qed.

(* every step except a commit (those leave the history alone) *)
Lemma inv_step : forall h pre w mid post s,
  inv h pre w mid post ->
  (match s with SCommit _ => False | _ => True end) ->
  exists mid' post', inv h pre (exec_step w s) mid' post' /\
    ((mid' = mid /\ slast (w_st (exec_step w s)) = slast (w_st w)) \/
     (exists e, mid' = mid ++ [e] /\ slast (w_st (exec_step w s)) = eid e)).
Proof.
  intros h pre w mid post s I Hok. destruct s as [evs|k|b c|]; [contradiction| | |].
  - (* trim: only Catalog.Trimmed and the oplog change *)
    exists mid, post. split; [|left; auto]. destruct I as [H1 H2 H3 H4 H5 H6 H7 H8 H9 H10].
    constructor; simpl; auto.
    + apply Nat.le_min_r.
    + unfold w_log. rewrite H4. apply trimmed_after_of.
  - (* one pass of next *)
    simpl. unfold next_iter.
    destruct (is_some (serror (w_st w)) || sclosed (w_st w)) eqn:V.
    { exists mid, post. split; [eapply inv_same; eauto|left; auto]. }
    destruct (sdropped (w_st w)) eqn:D.
    { exists mid, post. split; [eapply inv_same; eauto|left; auto]. }
    destruct (Z.ltb_spec (slast (w_st w)) (w_trimmed w)) as [L|L].
    { exists mid, post. split; [eapply inv_same; eauto|left; auto]. }
    assert (G : (w_ntrim w <= length (pre ++ mid))%nat).
    { destruct (Nat.le_gt_cases (w_ntrim w) (length (pre ++ mid))) as [G|G]; [exact G|].
      apply (inv_lost_iff _ _ _ _ _ I) in G. lia. }
    rewrite (pending_inv _ _ _ _ _ I G).
    destruct post as [|e t].
    + exists mid, []. destruct b; simpl.
      * split; [eapply inv_same; eauto|left; auto].
      * destruct c; simpl; (split; [eapply inv_same; eauto|left; auto]).
    + exists (mid ++ [e]), t.
      pose proof (i_h _ _ _ _ _ I) as Hh.
      destruct (in_scope (sh (w_st w)) e) eqn:S; simpl.
      * split; [|right; exists e; auto].
        apply (inv_progress h pre w mid e t _ true); auto; simpl; congruence.
      * split; [|right; exists e; auto].
        apply (inv_progress h pre w mid e t _ false); auto; simpl; congruence.
  - (* Close *)
    exists mid, post. split; [|left; split; [reflexivity|simpl; unfold close_stream; destruct (sclosed (w_st w)); reflexivity]].
    eapply inv_same; eauto; simpl; unfold close_stream; destruct (sclosed (w_st w)); reflexivity.
Qed.

(* ---- the invariant relative to a start position z (an id timestamp): pre is
        whatever lies at or below z — a start time may even lie in the future ---- *)

Lemma after_app_stop : forall z l e t r, after z l = e :: t -> after z (l ++ r) = e :: t ++ r.
Proof.
  induction l as [|x l IH]; simpl; intros e t r H; [discriminate|].
  destruct (Z.leb (eid x) z); [apply IH; exact H|]. inversion H; subst. reflexivity.
Qed.

Lemma after_app_all : forall z l r, after z l = [] -> after z (l ++ r) = after z r.
Proof.
  induction l as [|x l IH]; simpl; intros r H; [reflexivity|].
  destruct (Z.leb (eid x) z); [apply IH; exact H|discriminate].
Qed.

Lemma before_app_stop : forall z l e t r, after z l = e :: t -> before z (l ++ r) = before z l.
Proof.
  induction l as [|x l IH]; simpl; intros e t r H; [discriminate|].
  destruct (Z.leb (eid x) z); [f_equal; eapply IH; exact H|reflexivity].
Qed.

Lemma before_app_all : forall z l r, after z l = [] -> before z (l ++ r) = l ++ before z r.
Proof.
  induction l as [|x l IH]; simpl; intros r H; [reflexivity|].
  destruct (Z.leb (eid x) z); [f_equal; apply IH; exact H|discriminate].
Qed.

Lemma last_id_nonempty : forall l a b, l <> [] -> last_id a l = last_id b l.
Proof. intros [|e t] a b H; [contradiction|]. rewrite !last_id_cons. reflexivity. Qed.

Definition sinv (h : handle) (z : Z) (w : world) (mid post : list event) : Prop :=
  inv h (before z (w_hist w)) w mid post /\ slast (w_st w) = last_id z mid /\ ts_zero <= z.

Lemma sinv_after : forall h z w mid post, sinv h z w mid post -> after z (w_hist w) = mid ++ post.
Proof.
  intros h z w mid post [I _]. pose proof (i_hist _ _ _ _ _ I) as H.
  rewrite (before_after z (w_hist w)) in H at 1. apply app_inv_head in H. exact H.
Qed.

Lemma sinv_step : forall h z w mid post s,
  sinv h z w mid post ->
  (match s with SCommit evs => increasing ts_zero (w_hist w ++ evs) | _ => True end) ->
  exists mid' post', sinv h z (exec_step w s) mid' post'.
Proof.
  intros h z w mid post s SI Hok. pose proof (sinv_after _ _ _ _ _ SI) as Haf.
  destruct SI as (I & Hpos & Hz).
  destruct s as [evs|k|b c|].
  - (* commit *)
    destruct I as [H1 H2 H3 H4 H5 H6 H7 H8 H9 H10]. simpl.
    assert (Htr : trimmed_of (w_hist w ++ evs) (w_ntrim w) = trimmed_of (w_hist w) (w_ntrim w)).
    { unfold trimmed_of. rewrite firstn_app.
      replace (w_ntrim w - length (w_hist w))%nat with 0%nat by lia. simpl. rewrite app_nil_r. reflexivity. }
    destruct (after z (w_hist w)) as [|e t] eqn:A.
    + (* nothing above z yet: the new events at or below z fall behind the start *)
      symmetry in Haf. apply app_eq_nil in Haf. destruct Haf as [-> ->].
      exists [], (after z evs). split; [|split; [exact Hpos|exact Hz]]. simpl.
      simpl in Hpos. unfold last_id in Hpos; simpl in Hpos.
      rewrite (before_app_all _ _ _ A).
      assert (Hall : w_hist w = before z (w_hist w)).
      { rewrite (before_after z (w_hist w)) at 1. rewrite A, app_nil_r. reflexivity. }
      constructor; simpl; auto.
      * rewrite <- app_assoc. f_equal. apply before_after.
      * rewrite app_length; lia.
      * rewrite Htr; exact H4.
      * intros x Hx. rewrite app_nil_r in Hx. apply in_app_or in Hx. destruct Hx as [Hx|Hx].
        -- apply H7. rewrite app_nil_r, <- Hall. exact Hx.
        -- apply before_le in Hx. lia.
      * rewrite Hpos. apply increasing_app in Hok. destruct Hok as [_ Hev].
        eapply after_increasing; exact Hev.
    + (* the new events are ahead of the stream *)
      exists mid, (post ++ evs). split; [|split; [exact Hpos|exact Hz]]. simpl.
      rewrite (before_app_stop _ _ _ _ _ A).
      constructor; simpl; auto.
      * transitivity ((before z (w_hist w) ++ mid ++ post) ++ evs); [f_equal; exact H1|].
        rewrite <- !app_assoc. reflexivity.
      * rewrite app_length; lia.
      * rewrite Htr; exact H4.
      * apply increasing_app. split; [exact H8|].
        assert (Hq : increasing (last_id ts_zero (before z (w_hist w) ++ mid)) (post ++ evs)).
        { replace (w_hist w ++ evs) with ((before z (w_hist w) ++ mid) ++ post ++ evs) in Hok.
          - apply increasing_app in Hok. tauto.
          - transitivity ((before z (w_hist w) ++ mid ++ post) ++ evs);
              [rewrite <- !app_assoc; reflexivity|f_equal; symmetry; exact H1]. }
        apply increasing_app in Hq. destruct Hq as [_ Hq].
        replace (last_id (slast (w_st w)) post) with
                (last_id (last_id ts_zero (before z (w_hist w) ++ mid)) post); [exact Hq|].
        destruct mid as [|m mid'].
        -- simpl in Haf. apply last_id_nonempty. rewrite <- Haf. discriminate.
        -- f_equal. rewrite last_id_app, Hpos. apply last_id_nonempty. discriminate.
  - destruct (inv_step h _ w mid post (STrim k) I Logic.I) as (mid' & post' & I' & [[-> E]|(e & -> & E)]).
    + exists mid, post'. split; [exact I'|split; [rewrite E; exact Hpos|exact Hz]].
    + exists (mid ++ [e]), post'. split; [exact I'|split; [|exact Hz]].
      rewrite E, last_id_app. reflexivity.
  - destruct (inv_step h _ w mid post (SIter b c) I Logic.I) as (mid' & post' & I' & [[-> E]|(e & -> & E)]).
    + exists mid, post'. split; [exact I'|split; [rewrite E; exact Hpos|exact Hz]].
    + exists (mid ++ [e]), post'. split; [exact I'|split; [|exact Hz]].
      rewrite E, last_id_app. reflexivity.
  - destruct (inv_step h _ w mid post SClose I Logic.I) as (mid' & post' & I' & [[-> E]|(e & -> & E)]).
    + exists mid, post'. split; [exact I'|split; [rewrite E; exact Hpos|exact Hz]].
    + exists (mid ++ [e]), post'. split; [exact I'|split; [|exact Hz]].
      rewrite E, last_id_app. reflexivity.
Qed.

Lemma exec_step_hist : forall w s,
  w_hist (exec_step w s) = match s with SCommit evs => w_hist w ++ evs | _ => w_hist w end.
Proof. intros w [evs|k|b c|]; reflexivity. Qed.

Lemma sexec_inv : forall script h z w mid post,
  sinv h z w mid post -> script_ok (w_hist w) script ->
  exists mid' post', sinv h z (exec w script) mid' post'.
Proof.
  induction script as [|s t IH]; intros h z w mid post I Hok; simpl.
  - exists mid, post; exact I.
  - destruct (sinv_step h z w mid post s I) as (mid' & post' & I').
    { destruct s; simpl in Hok; tauto. }
    eapply IH; [exact I'|].
    rewrite exec_step_hist. destruct s; simpl in Hok; tauto.
Qed.

(* ---- delivery ---- *)

(* For EVERY stream (start position z = its initial s.last) and EVERY
   interleaving of commits, retention trims, single passes of next's loop
   (Next or TryNext, cancelled context or not) and Close: what the stream has
   returned is a subsequence of the in-scope events with an id above z, in
   commit order, each at most once, and it is gap-free: a PREFIX of the
   expected sequence. *)
Theorem delivery : forall h z w0 post0 script,
  sinv h z w0 [] post0 -> script_ok (w_hist w0) script ->
  let w := exec w0 script in
  let after_start := after z (w_hist w) in
  subseq (w_deliv w) (filter (in_scope h) after_start) /\
  NoDup (ids (w_deliv w)) /\
  prefix (w_deliv w) (expected h after_start).
Proof.
  intros h z w0 post0 script I0 Hok w after_start.
  destruct (sexec_inv script h z w0 [] post0 I0 Hok) as (mid & post & SI). fold w in SI.
  subst after_start. rewrite (sinv_after _ _ _ _ _ SI). destruct SI as (I & _ & _).
  assert (S1 : subseq (w_deliv w) (filter (in_scope h) (mid ++ post))).
  { rewrite filter_app. apply subseq_app_r. exact (i_sound _ _ _ _ _ I). }
  split; [exact S1|]. split.
  - eapply subseq_NoDup; [|eapply increasing_NoDup; exact (i_inc _ _ _ _ _ I)].
    unfold ids. apply subseq_map. rewrite (i_hist _ _ _ _ _ I).
    apply subseq_app_l. eapply subseq_trans; [apply subseq_filter|exact S1].
  - pose proof (i_gap _ _ _ _ _ I post) as G. rewrite G. eexists; reflexivity.
Qed.

(* ---- the stream's position in the history ---- *)

(* number of history events behind the stream *)
Definition position (w : world) : nat :=
  length (filter (fun e => Z.leb (eid e) (slast (w_st w))) (w_hist w)).

Lemma filter_all : forall (A : Type) (f : A -> bool) l, (forall x, In x l -> f x = true) -> filter f l = l.
Proof.
  induction l as [|x t IH]; intros H; [reflexivity|]. simpl.
  rewrite (H x (or_introl eq_refl)). f_equal. apply IH. intros y Hy; apply H; right; exact Hy.
Qed.

Lemma filter_none : forall (A : Type) (f : A -> bool) l, (forall x, In x l -> f x = false) -> filter f l = [].
Proof.
  induction l as [|x t IH]; intros H; [reflexivity|]. simpl.
  rewrite (H x (or_introl eq_refl)). apply IH. intros y Hy; apply H; right; exact Hy.
Qed.

Lemma inv_position : forall h pre w mid post, inv h pre w mid post -> position w = length (pre ++ mid).
Proof.
  intros h pre w mid post I. unfold position.
  rewrite (i_hist _ _ _ _ _ I), app_assoc, filter_app.
  rewrite filter_all, filter_none; [rewrite app_nil_r; reflexivity| |].
  - intros x Hx. pose proof (increasing_gt _ _ _ (i_ahead _ _ _ _ _ I) Hx).
    destruct (Z.leb_spec (eid x) (slast (w_st w))); [lia|reflexivity].
  - intros x Hx. pose proof (i_behind _ _ _ _ _ I x Hx).
    destruct (Z.leb_spec (eid x) (slast (w_st w))); [reflexivity|lia].
Qed.

(* ---- lost position: FULL statement ---- *)

(* For every stream and every interleaving: as soon as retention has removed an
   event the stream has not passed yet, every pass of next reports Lost
   (ErrLostOplogPosition) ... *)
Theorem lost_is_reported : forall h z w0 post0 script,
  sinv h z w0 [] post0 -> script_ok (w_hist w0) script ->
  let w := exec w0 script in
  live (w_st w) -> sdropped (w_st w) = false ->
  (position w < w_ntrim w)%nat ->
  forall b c, snd (next_iter b c (w_st w) (w_log w) (w_trimmed w)) = Return Lost.
Proof.
  intros h z w0 post0 script I0 Hok w [L1 L2] D P b c.
  destruct (sexec_inv script h z w0 [] post0 I0 Hok) as (mid & post & I & _). fold w in I.
  rewrite (inv_position _ _ _ _ _ I) in P. apply (inv_lost_iff _ _ _ _ _ I) in P.
  unfold next_iter. rewrite L1, L2, D. simpl.
  destruct (Z.ltb_spec (slast (w_st w)) (w_trimmed w)); [reflexivity|lia].
Qed.

(* ... and only then: Lost is never reported while every event ahead of the
   stream is retained (a removed reference event alone is not an error) *)
Theorem lost_only_if_trimmed : forall h z w0 post0 script,
  sinv h z w0 [] post0 -> script_ok (w_hist w0) script ->
  let w := exec w0 script in
  forall b c, snd (next_iter b c (w_st w) (w_log w) (w_trimmed w)) = Return Lost ->
  (position w < w_ntrim w)%nat.
Proof.
  intros h z w0 post0 script I0 Hok w b c H.
  destruct (sexec_inv script h z w0 [] post0 I0 Hok) as (mid & post & I & _). fold w in I.
  rewrite (inv_position _ _ _ _ _ I). apply (inv_lost_iff _ _ _ _ _ I).
  unfold next_iter in H.
  destruct (is_some (serror (w_st w)) || sclosed (w_st w)); [discriminate|].
  destruct (sdropped (w_st w)); [discriminate|].
  destruct (Z.ltb_spec (slast (w_st w)) (w_trimmed w)); [assumption|].
  destruct (pending (w_st w) (w_log w)) as [|e t].
  - destruct b; [discriminate|]. destruct c; discriminate.
  - destruct (in_scope (sh (w_st w)) e); discriminate.
Qed.

(* ---- completeness: FULL statement ---- *)

Definition drain (n : nat) (w : world) : world := exec w (repeat (SIter false false) n).

Lemma iter_dropped : forall b c s log tr, sdropped s = true -> sdropped (fst (next_iter b c s log tr)) = true.
Proof.
  intros b c s log tr H; unfold next_iter.
  destruct (is_some (serror s) || sclosed s); [exact H|]. rewrite H. reflexivity.
Qed.

Lemma drain_S : forall n w, drain (S n) w = drain n (exec_step w (SIter false false)).
Proof. reflexivity. Qed.

Lemma drain_dropped : forall n h pre w mid post,
  inv h pre w mid post -> sdropped (w_st w) = true ->
  w_deliv (drain n w) = expected h (mid ++ post) /\ w_hist (drain n w) = w_hist w.
Proof.
  induction n as [|n IH]; intros h pre w mid post I D.
  - simpl. split; [|reflexivity]. pose proof (i_gap _ _ _ _ _ I post) as G. rewrite D, app_nil_r in G. auto.
  - rewrite drain_S.
    destruct (inv_step h pre w mid post (SIter false false) I Logic.I) as (mid' & post' & I' & _).
    assert (E : mid' ++ post' = mid ++ post).
    { pose proof (i_hist _ _ _ _ _ I') as H1. pose proof (i_hist _ _ _ _ _ I) as H2.
      simpl in H1. rewrite H2 in H1. apply app_inv_head in H1. auto. }
    destruct (IH h pre _ mid' post' I') as [G1 G2].
    + simpl. apply iter_dropped; exact D.
    + rewrite G1, G2, E. auto.
Qed.

Lemma drain_complete : forall n h pre w mid post,
  inv h pre w mid post ->
  (w_ntrim w <= length (pre ++ mid))%nat ->
  serror (w_st w) = None -> (sclosed (w_st w) = false \/ sdropped (w_st w) = true) ->
  (length post <= n)%nat ->
  w_deliv (drain n w) = expected h (mid ++ post) /\ w_hist (drain n w) = w_hist w.
Proof.
  induction n as [|n IH]; intros h pre w mid post I A E C L.
  - destruct post; [|simpl in L; lia]. simpl. split; [|reflexivity].
    pose proof (i_gap _ _ _ _ _ I []) as G. simpl in G. rewrite app_nil_r in *.
    destruct (sdropped (w_st w)); rewrite app_nil_r in G; auto.
  - destruct (sdropped (w_st w)) eqn:D; [eapply drain_dropped; eauto|].
    destruct C as [C|C]; [|discriminate].
    rewrite drain_S.
    pose proof (pending_inv _ _ _ _ _ I A) as Pe.
    assert (NL : Z.ltb (slast (w_st w)) (w_trimmed w) = false).
    { destruct (Z.ltb_spec (slast (w_st w)) (w_trimmed w)) as [X|X]; [|reflexivity].
      apply (inv_lost_iff _ _ _ _ _ I) in X. lia. }
    destruct post as [|e t].
    + (* nothing ahead: the pass returns Nothing and changes nothing *)
      assert (Ew : exec_step w (SIter false false) =
                   mkWorld (w_hist w) (w_ntrim w) (w_trimmed w) (w_st w) (w_deliv w) (w_outs w ++ [Return Nothing])).
      { simpl. unfold next_iter. rewrite E, C, D, NL, Pe. reflexivity. }
      rewrite Ew.
      set (w' := mkWorld (w_hist w) (w_ntrim w) (w_trimmed w) (w_st w) (w_deliv w) (w_outs w ++ [Return Nothing])).
      assert (I' : inv h pre w' mid []) by (apply (inv_same h pre w); auto).
      destruct (IH h pre w' mid [] I' A E (or_introl C)) as [G1 G2]; [simpl; lia|].
      split; [exact G1|exact G2].
    + (* the first event ahead is passed *)
      pose proof (i_h _ _ _ _ _ I) as Hh.
      assert (Hnt : (w_ntrim w <= length (pre ++ (mid ++ [e])))%nat).
      { rewrite app_assoc, app_length; simpl. lia. }
      assert (Hsplit : mid ++ e :: t = (mid ++ [e]) ++ t) by (rewrite <- app_assoc; reflexivity).
      rewrite Hsplit.
      destruct (in_scope (sh (w_st w)) e) eqn:S.
      * set (st1 := mkS (sh (w_st w)) (eid e) (false || drops (sh (w_st w)) e) false None
                        (Some (CurEvent e)) (Some (TokEvent (eid e)))).
        assert (Ew : exec_step w (SIter false false) =
                     mkWorld (w_hist w) (w_ntrim w) (w_trimmed w) st1 (w_deliv w ++ [e]) (w_outs w ++ [Return (Event e)])).
        { simpl. unfold next_iter. rewrite E, C, D, NL, Pe, S. reflexivity. }
        rewrite Ew.
        assert (I' : inv h pre (mkWorld (w_hist w) (w_ntrim w) (w_trimmed w) st1 (w_deliv w ++ [e]) (w_outs w ++ [Return (Event e)]))
                         (mid ++ [e]) t).
        { apply (inv_progress h pre w mid e t st1 true); auto.
          - rewrite <- Hh; exact S.
          - simpl. rewrite Hh. reflexivity. }
        destruct (IH h pre _ (mid ++ [e]) t I' Hnt eq_refl (or_introl eq_refl)) as [G1 G2]; [simpl in L; lia|].
        split; [exact G1|exact G2].
      * set (st1 := mkS (sh (w_st w)) (eid e) false false None (scur (w_st w)) (stok (w_st w))).
        assert (Ew : exec_step w (SIter false false) =
                     mkWorld (w_hist w) (w_ntrim w) (w_trimmed w) st1 (w_deliv w) (w_outs w ++ [Continue])).
        { simpl. unfold next_iter. rewrite E, C, D, NL, Pe, S. reflexivity. }
        rewrite Ew.
        assert (I' : inv h pre (mkWorld (w_hist w) (w_ntrim w) (w_trimmed w) st1 (w_deliv w) (w_outs w ++ [Continue]))
                         (mid ++ [e]) t).
        { apply (inv_progress h pre w mid e t st1 false); auto.
          rewrite <- Hh; exact S. }
        destruct (IH h pre _ (mid ++ [e]) t I' Hnt eq_refl (or_introl eq_refl)) as [G1 G2]; [simpl in L; lia|].
        split; [exact G1|exact G2].
Qed.

(* For every stream and every interleaving: if retention has not removed an
   event the stream has not passed yet (removing events BEHIND it, its
   reference event included, is harmless) and the stream has not been closed,
   repeated TryNext delivers EVERY in-scope event above the start position, up
   to the event that invalidates the stream. *)
Theorem delivery_complete : forall h z w0 post0 script,
  sinv h z w0 [] post0 -> script_ok (w_hist w0) script ->
  let w := exec w0 script in
  (w_ntrim w <= position w)%nat ->
  serror (w_st w) = None -> (sclosed (w_st w) = false \/ sdropped (w_st w) = true) ->
  forall n, (length (w_hist w) <= n)%nat ->
  w_deliv (drain n w) = expected h (after z (w_hist w)) /\ w_hist (drain n w) = w_hist w.
Proof.
  intros h z w0 post0 script I0 Hok w A E C n L.
  destruct (sexec_inv script h z w0 [] post0 I0 Hok) as (mid & post & SI). fold w in SI.
  rewrite (sinv_after _ _ _ _ _ SI). destruct SI as (I & _ & _).
  apply (drain_complete n h _ w mid post I); auto.
  - rewrite <- (inv_position _ _ _ _ _ I). exact A.
  - rewrite (i_hist _ _ _ _ _ I), !app_length in L. lia.
Qed.

(* ---- Watch: every stream it returns starts in the invariant ---- *)

Definition world0 (hist : list event) (ntrim : nat) (st : sstate) : world :=
  mkWorld hist ntrim (trimmed_of hist ntrim) st [] [].

Lemma sinv_initial : forall h hist ntrim st,
  increasing ts_zero hist -> (ntrim <= length hist)%nat -> sh st = h -> sdropped st = false ->
  ts_zero <= slast st ->
  sinv h (slast st) (world0 hist ntrim st) [] (after (slast st) hist).
Proof.
  intros h hist ntrim st Hinc Hn Hh Hd Hlo. split; [|split; [reflexivity|exact Hlo]].
  constructor; simpl; auto.
  - apply before_after.
  - intros x Hx. rewrite app_nil_r in Hx. eapply before_le; exact Hx.
  - eapply after_increasing; exact Hinc.
  - constructor.
  - intros rest. rewrite Hd. reflexivity.
Qed.

Lemma find_event_in : forall id l e, find_event id l = Some e -> In e l /\ eid e = id.
Proof.
  induction l as [|x t IH]; simpl; intros e H; [discriminate|].
  destruct (Z.eqb_spec (eid x) id) as [E|E].
  - inversion H; subst; auto.
  - destruct (IH _ H); auto.
Qed.

Lemma find_event_app : forall id a e b,
  ~ In id (ids a) -> eid e = id -> find_event id (a ++ e :: b) = Some e.
Proof.
  induction a as [|x t IH]; simpl; intros e b H E.
  - rewrite E, Z.eqb_refl; reflexivity.
  - destruct (Z.eqb_spec (eid x) id) as [E'|E'].
    + exfalso; apply H; left; exact E'.
    + apply IH; [intros C; apply H; right; exact C|exact E].
Qed.

Lemma resolve_token_lo : forall t l cur r lo, resolve_token t l cur = Some r ->
  increasing lo l -> lo <= cur -> lo <= r.
Proof.
  intros [[id|]|] l cur r lo; simpl.
  - destruct (find_event id l) as [e|] eqn:F; [|discriminate].
    intros H Hinc _; inversion H; subst. apply find_event_in in F. destruct F as [F _].
    pose proof (increasing_gt _ _ _ Hinc F). lia.
  - discriminate.
  - intros H _ L; inversion H; subst; exact L.
Qed.

(* start times are timestamps: not below the zero timestamp *)
Definition at_ok (o : wopts) : Prop := match w_at o with Some z => 0 <= z | None => True end.

Lemma log_increasing : forall hist n, increasing ts_zero hist -> increasing (trimmed_of hist n) (skipn n hist).
Proof.
  intros hist n H. rewrite <- (firstn_skipn n hist) in H. apply increasing_app in H. exact (proj2 H).
Qed.

Lemma trimmed_of_lo : forall hist n, increasing ts_zero hist -> ts_zero <= trimmed_of hist n.
Proof.
  intros hist n H. rewrite <- (firstn_skipn n hist) in H. apply increasing_app in H.
  apply increasing_last_id. exact (proj1 H).
Qed.

(* Every stream Engine.Watch returns — from now, resumeAfter, startAfter,
   startAtOperationTime or any combination — starts in the invariant, at the
   start position z = its s.last: all the theorems of this part apply to it. *)
Theorem watch_inv : forall h o hist ntrim st,
  increasing ts_zero hist -> (ntrim <= length hist)%nat -> at_ok o ->
  watch h o (skipn ntrim hist) (trimmed_of hist ntrim) = Some st ->
  sinv h (slast st) (world0 hist ntrim st) [] (after (slast st) hist) /\ live st /\ sdropped st = false.
Proof.
  intros h o hist ntrim st Hinc Hn Hat W. unfold watch in W.
  pose proof (log_increasing hist ntrim Hinc) as Hlog.
  pose proof (trimmed_of_lo hist ntrim Hinc) as Htr.
  set (tr := trimmed_of hist ntrim) in *. set (log := skipn ntrim hist) in *.
  assert (H0 : tr <= match last_event log with Some e => eid e | None => tr end).
  { exact (increasing_last_id _ _ Hlog). }
  destruct (resolve_token (w_resume o) log _) as [l1|] eqn:R1; [|discriminate].
  pose proof (resolve_token_lo _ _ _ _ _ R1 Hlog H0) as H1.
  destruct (resolve_token (w_after o) log l1) as [l2|] eqn:R2; [|discriminate].
  pose proof (resolve_token_lo _ _ _ _ _ R2 Hlog H1) as H2.
  inversion W; subst st; clear W. simpl.
  split; [|split; [split; reflexivity|reflexivity]].
  apply (sinv_initial h hist ntrim (mkS h _ false false None None None)); auto. simpl.
  unfold at_ok in Hat. unfold ts_zero in *. destruct (w_at o) as [z|]; lia.
Qed.

Lemma after_last_id : forall l lo, increasing lo l -> after (last_id lo l) l = [].
Proof.
  intros l lo H. rewrite <- (app_nil_r l) at 2. rewrite after_app_le; [reflexivity|].
  intros x Hx. apply increasing_le_last; assumption.
Qed.

(* now: after everything committed so far (also on an empty oplog, where the
   position is Catalog.Trimmed) *)
Lemma watch_now_start : forall h hist ntrim, increasing ts_zero hist -> (ntrim <= length hist)%nat ->
  exists st, watch h watch_now (skipn ntrim hist) (trimmed_of hist ntrim) = Some st /\
             after (slast st) hist = [].
Proof.
  intros h hist ntrim Hinc Hn. eexists; split; [reflexivity|]. simpl.
  change (match last_event (skipn ntrim hist) with Some e => eid e | None => trimmed_of hist ntrim end)
    with (last_id (trimmed_of hist ntrim) (skipn ntrim hist)).
  unfold trimmed_of. rewrite <- last_id_app, firstn_skipn. apply after_last_id; exact Hinc.
Qed.

(* resumeAfter / startAfter with the token of a retained event e: right after e *)
Lemma watch_resume_start : forall h hist ntrim A e B (after_opt : bool),
  increasing ts_zero hist -> (ntrim <= length A)%nat -> hist = A ++ e :: B ->
  let o := if after_opt then mkW None (Some (TokEvent (eid e))) None else mkW (Some (TokEvent (eid e))) None None in
  exists st, watch h o (skipn ntrim hist) (trimmed_of hist ntrim) = Some st /\ slast st = eid e /\
             after (slast st) hist = B.
Proof.
  intros h hist ntrim A e B after_opt Hinc Hn Hh o.
  assert (F : find_event (eid e) (skipn ntrim hist) = Some e).
  { rewrite Hh, skipn_app. replace (ntrim - length A)%nat with 0%nat by lia. simpl.
    apply find_event_app; [|reflexivity].
    pose proof (increasing_NoDup _ _ Hinc) as ND. rewrite Hh, ids_app in ND. simpl in ND. intros C.
    assert (C' : In (eid e) (ids A)).
    { unfold ids in *. apply in_map_iff in C. destruct C as (x & Hx & Hin).
      apply in_map_iff. exists x; split; [exact Hx|eapply in_skipn; exact Hin]. }
    clear -ND C'. induction (ids A) as [|y t IH]; [contradiction|].
    simpl in ND. inversion ND as [|? ? Hn Hd]; subst. destruct C' as [->|C'].
    - apply Hn. apply in_or_app. right; left; reflexivity.
    - apply IH; assumption. }
  exists (mkS h (eid e) false false None None None).
  split; [|split; [reflexivity|]].
  - subst o; destruct after_opt; unfold watch; simpl; rewrite F; reflexivity.
  - simpl. rewrite Hh in *. replace (A ++ e :: B) with ((A ++ [e]) ++ B) in * by (rewrite <- app_assoc; reflexivity).
    apply increasing_app in Hinc. destruct Hinc as [H1 H2].
    rewrite after_app_le.
    + rewrite last_id_app in H2. unfold last_id at 1 in H2. simpl in H2. apply after_gt; exact H2.
    + intros x Hx. pose proof (increasing_le_last _ _ _ H1 Hx) as L.
      rewrite last_id_app in L. unfold last_id at 1 in L. simpl in L. exact L.
Qed.

(* startAtOperationTime z: exactly the events with an id at or after z are
   ahead — also those retention has already removed: the stream then reports
   the loss (lost_is_reported) *)
Lemma watch_at_start : forall h hist ntrim z, increasing ts_zero hist ->
  exists st, watch h (mkW None None (Some z)) (skipn ntrim hist) (trimmed_of hist ntrim) = Some st /\
             slast st = z - 1 /\
             after (slast st) hist = filter (fun e => Z.leb z (eid e)) hist.
Proof.
  intros h hist ntrim z Hinc. eexists; split; [reflexivity|]. split; [reflexivity|]. simpl.
  rewrite (after_filter _ _ _ Hinc). apply filter_ext. intros e.
  destruct (Z.ltb_spec (z - 1) (eid e)), (Z.leb_spec z (eid e)); try reflexivity; lia.
Qed.

(* ---- resume ---- *)

Lemma token_after_event : forall b c s log tr s' e,
  next_iter b c s log tr = (s', Return (Event e)) -> stok s' = Some (TokEvent (eid e)).
Proof.
  intros b c s log tr s' e; unfold next_iter.
  destruct (is_some (serror s) || sclosed s); [discriminate|].
  destruct (sdropped s); [discriminate|].
  destruct (Z.ltb (slast s) tr); [discriminate|].
  destruct (pending s log) as [|x t]; try discriminate.
  - destruct b; [discriminate|]. destruct c; discriminate.
  - destruct (in_scope (sh s) x); [|discriminate]. intros H; inversion H; subst; reflexivity.
Qed.

(* Watch with resumeAfter = the token of an event e that a stream has delivered
   (any earlier interleaving) and that is still retained: the new stream — of
   any scope — starts right after e: the events ahead of it are exactly those
   committed after e, and delivery / delivery_complete / lost_is_reported apply
   to it with start position eid e: it continues with the next event. *)
Theorem resume_continues : forall h h' z w0 post0 script e,
  sinv h z w0 [] post0 -> script_ok (w_hist w0) script ->
  let w := exec w0 script in
  In e (w_deliv w) -> In e (w_log w) ->
  exists st' A B,
    w_hist w = A ++ e :: B /\
    watch h' (mkW (Some (TokEvent (eid e))) None None) (w_log w) (w_trimmed w) = Some st' /\
    slast st' = eid e /\ after (eid e) (w_hist w) = B /\
    sinv h' (eid e) (world0 (w_hist w) (w_ntrim w) st') [] B.
Proof.
  intros h h' z w0 post0 script e I0 Hok w _ Hlog.
  destruct (sexec_inv script h z w0 [] post0 I0 Hok) as (mid & post & I & _). fold w in I.
  unfold w_log in Hlog. apply in_split in Hlog. destruct Hlog as (a & b & Hab).
  assert (Hh : w_hist w = (firstn (w_ntrim w) (w_hist w) ++ a) ++ e :: b).
  { rewrite <- (firstn_skipn (w_ntrim w) (w_hist w)) at 1. rewrite Hab, <- app_assoc. reflexivity. }
  destruct (watch_resume_start h' (w_hist w) (w_ntrim w) (firstn (w_ntrim w) (w_hist w) ++ a) e b false
              (i_inc _ _ _ _ _ I)) as (st' & W & L & Af); [|exact Hh|].
  { rewrite app_length, firstn_length_le; [lia|exact (i_ntrim _ _ _ _ _ I)]. }
  exists st', (firstn (w_ntrim w) (w_hist w) ++ a), b.
  rewrite (i_trimmed _ _ _ _ _ I). unfold w_log. rewrite L in Af.
  split; [exact Hh|]. split; [exact W|]. split; [exact L|]. split; [exact Af|].
  pose proof (increasing_gt _ _ e (i_inc _ _ _ _ _ I)) as Hgt.
  assert (Hin : In e (w_hist w)) by (rewrite Hh; apply in_or_app; right; left; reflexivity).
  specialize (Hgt Hin).
  assert (Est : st' = mkS h' (eid e) false false None None None).
  { unfold watch in W. simpl in W.
    destruct (find_event (eid e) (skipn (w_ntrim w) (w_hist w))) as [x|] eqn:F; [|discriminate].
    apply find_event_in in F. destruct F as [_ F]. inversion W. rewrite F. reflexivity. }
  rewrite <- Af, <- L.
  apply sinv_initial; try (rewrite Est; reflexivity); [exact (i_inc _ _ _ _ _ I)|exact (i_ntrim _ _ _ _ _ I)|].
  rewrite L. lia.
Qed.

(* ---- invalidate ---- *)

(* After delivering an event that drops the stream's namespace (drops_coll /
   drops_db: the drop of its collection or the dropDatabase of its database)
   the next call returns the invalidate event and closes the stream; every
   later call returns Closed. *)
Theorem invalidate_after_drop : forall b c s log tr s' e,
  next_iter b c s log tr = (s', Return (Event e)) -> drops (sh s) e = true ->
  forall b' c' log' tr',
  exists s'', next_iter b' c' s' log' tr' = (s'', Return Invalidate) /\
              sclosed s'' = true /\ stok s'' = Some TokInvalidate /\
              forall b'' c'' log'' tr'', next_iter b'' c'' s'' log'' tr'' = (s'', Return Closed).
Proof.
  intros b c s log tr s' e H D b' c' log' tr'. unfold next_iter in H.
  destruct (is_some (serror s) || sclosed s) eqn:V; [discriminate|].
  destruct (sdropped s) eqn:Dr; [discriminate|].
  destruct (Z.ltb (slast s) tr); [discriminate|].
  destruct (pending s log) as [|x t]; try discriminate.
  - destruct b; [discriminate|]. destruct c; discriminate.
  - destruct (in_scope (sh s) x); [|discriminate]. inversion H; subst; clear H.
    eexists. split; [|split; [|split]].
    + unfold next_iter; simpl. rewrite V, D. simpl. reflexivity.
    + reflexivity.
    + reflexivity.
    + intros b'' c'' log'' tr''. unfold next_iter; simpl. rewrite orb_true_r. reflexivity.
Qed.

(* the invalidate event comes only after such a drop *)
Lemma invalidate_only_after_drop : forall b c s log tr s',
  next_iter b c s log tr = (s', Return Invalidate) -> sdropped s = true.
Proof.
  intros b c s log tr s'; unfold next_iter.
  destruct (is_some (serror s) || sclosed s); [discriminate|].
  destruct (sdropped s); [reflexivity|].
  destruct (Z.ltb (slast s) tr); [discriminate|].
  destruct (pending s log) as [|x t]; try discriminate.
  - destruct b; [discriminate|]. destruct c; discriminate.
  - destruct (in_scope (sh s) x); discriminate.
Qed.

(* ================================================================== *)
(* Part 3 — the concurrent model: no lost wake-up                      *)
Local Open Scope nat_scope.

Inductive reachable (s0 : cstate) : cstate -> Prop :=
| reach_init : reachable s0 s0
| reach_step : forall s l s', reachable s0 s -> cstep l s = Some s' -> reachable s0 s'.

Definition initial (s : cstate) : Prop := exists log tr st writers, s = cinit log tr st writers.

Definition consumer_waiting (s : cstate) : Prop := c_cons s = CParked.
Definition signal_full (s : cstate) : Prop := c_sig s = true.
(* a committer has replaced the catalog and has not yet done its broadcast,
   and the stream is in e.streams: its non-blocking send is still to come *)
Definition committer_about_to_signal (s : cstate) : Prop :=
  c_reg s = true /\ existsb is_published (c_writers s) = true.
Definition closer_about_to_signal (s : cstate) : Prop := c_closer s = KMarked.

(* a fresh pass of the loop would park again: nothing to do *)
Definition quiescent (s : cstate) : Prop := snd (next_iter true false (c_st s) (c_log s) (c_trimmed s)) = Park.

(* the stream is open, retention has not passed it, and an event of its scope
   lies ahead of it in the oplog *)
Definition undelivered_matching (s : cstate) : Prop :=
  sclosed (c_st s) = false /\
  Z.ltb (slast (c_st s)) (c_trimmed s) = false /\
  exists e, In e (pending (c_st s) (c_log s)) /\ in_scope (sh (c_st s)) e = true.

Record cinv (s : cstate) : Prop := mkCinv {
  k_reg : c_reg s = false -> sclosed (c_st s) = true;
  k_marked : c_closer s = KMarked -> sclosed (c_st s) = true;
  k_chan : c_chclosed s = true -> sclosed (c_st s) = true;
  k_wake : c_cons s = CParked ->
           quiescent s \/ signal_full s \/ c_chclosed s = true \/
           committer_about_to_signal s \/ closer_about_to_signal s
}.

Lemma next_iter_block_ctx : forall c s log tr, next_iter true c s log tr = next_iter true false s log tr.
Proof.
  intros c s log tr; unfold next_iter.
  destruct (is_some (serror s) || sclosed s); [reflexivity|].
  destruct (sdropped s); [reflexivity|].
  destruct (Z.ltb (slast s) tr); [reflexivity|].
  destruct (pending s log) as [|e t]; reflexivity.
Qed.

Lemma next_iter_park : forall b c s log tr s', next_iter b c s log tr = (s', Park) -> b = true /\ s' = s.
Proof.
  intros b c s log tr s'; unfold next_iter.
  destruct (is_some (serror s) || sclosed s); [discriminate|].
  destruct (sdropped s); [discriminate|].
  destruct (Z.ltb (slast s) tr); [discriminate|].
  destruct (pending s log) as [|e t]; try discriminate.
  - destruct b; [intros H; inversion H; auto|]. destruct c; discriminate.
  - destruct (in_scope (sh s) e); discriminate.
Qed.

Lemma next_iter_closed_mono : forall b c s log tr, sclosed s = true -> sclosed (fst (next_iter b c s log tr)) = true.
Proof.
  intros b c s log tr H; unfold next_iter. rewrite H, orb_true_r. exact H.
Qed.

Lemma next_iter_closes : forall b c s log tr s' o, next_iter b c s log tr = (s', Return o) ->
  (o = Invalidate \/ o = Lost) -> sclosed s' = true.
Proof.
  intros b c s log tr s' o; unfold next_iter.
  destruct (is_some (serror s) || sclosed s); [intros H [E|E]; inversion H; subst; discriminate|].
  destruct (sdropped s); [intros H _; inversion H; reflexivity|].
  destruct (Z.ltb (slast s) tr); [intros H _; inversion H; reflexivity|].
  destruct (pending s log) as [|e t].
  - destruct b; [discriminate|]. destruct c; intros H [E|E]; inversion H; subst; discriminate.
  - destruct (in_scope (sh s) e); [|discriminate]. intros H [E|E]; inversion H; subst; discriminate.
Qed.

Lemma closed_not_quiescent : forall c s log tr, sclosed s = true -> snd (next_iter true c s log tr) <> Park.
Proof. intros c s log tr H; unfold next_iter. rewrite H, orb_true_r. discriminate. Qed.

Lemma existsb_set_nth_published : forall ws i w, nth_error ws i = Some w ->
  existsb is_published (set_nth i WPublished ws) = true.
Proof.
  induction ws as [|x t IH]; intros [|i] w H; simpl in *; try discriminate.
  - reflexivity.
  - rewrite (IH _ _ H). apply orb_true_r.
Qed.

Lemma existsb_published_nth : forall ws, existsb is_published ws = true ->
  exists i, nth_error ws i = Some WPublished.
Proof.
  induction ws as [|x t IH]; simpl; intros H; [discriminate|].
  destruct x; simpl in H; try (destruct (IH H) as [i Hi]; exists (S i); exact Hi).
  exists 0; reflexivity.
Qed.

Lemma cinv_initial : forall s, initial s -> cinv s.
Proof.
  intros s (log & tr & st & ws & ->). constructor; simpl; try discriminate.
Qed.

Lemma cinv_step : forall l s s', cinv s -> cstep l s = Some s' -> cinv s'.
Proof.
  intros l s s' [K1 K2 K3 KW] H. destruct l; simpl in H.
  - (* LCall *)
    destruct (c_cons s); inversion H; subst; clear H. constructor; simpl; auto; discriminate.
  - (* LCheck *)
    destruct (c_cons s) as [|b| |o] eqn:Ec; try discriminate.
    destruct (next_iter b (c_ctx s) (c_st s) (c_log s) (c_trimmed s)) as [st' [o| |]] eqn:N; inversion H; subst; clear H.
    + pose proof (next_iter_closed_mono b (c_ctx s) (c_st s) (c_log s) (c_trimmed s)) as M. rewrite N in M. simpl in M.
      constructor; simpl; auto; try discriminate.
      destruct o; auto; intros _; eapply next_iter_closes; eauto.
    + pose proof (next_iter_closed_mono b (c_ctx s) (c_st s) (c_log s) (c_trimmed s)) as M. rewrite N in M. simpl in M.
      constructor; simpl; auto; discriminate.
    + destruct (next_iter_park _ _ _ _ _ _ N) as [-> ->].
      constructor; simpl; auto. intros _. left. unfold quiescent; simpl.
      rewrite <- (next_iter_block_ctx (c_ctx s)), N. reflexivity.
  - (* LWake *)
    destruct (c_cons s); try discriminate.
    destruct (c_sig s).
    + inversion H; subst; clear H. constructor; simpl; auto; discriminate.
    + destruct (c_chclosed s); inversion H; subst; clear H. constructor; simpl; auto; discriminate.
  - (* LWakeCtx *)
    destruct (c_cons s); try discriminate. destruct (c_ctx s); inversion H; subst; clear H.
    assert (E : sclosed (wake_ctx (c_st s)) = sclosed (c_st s)).
    { unfold wake_ctx; destruct (serror (c_st s)); reflexivity. }
    constructor; simpl; rewrite ?E; auto; discriminate.
  - (* LReturn *)
    destruct (c_cons s); inversion H; subst; clear H. constructor; simpl; auto; discriminate.
  - (* LPublish *)
    destruct (c_alive s && negb (existsb is_published (c_writers s))) eqn:G; [|discriminate].
    apply andb_prop in G; destruct G as [_ G]. apply negb_true_iff in G.
    destruct (nth_error (c_writers s) i) as [[evs k| |]|] eqn:Nw; inversion H; subst; clear H.
    constructor; simpl; auto. intros P. specialize (KW P).
    destruct (c_reg s) eqn:R.
    + right; right; right; left. split; [simpl; auto|]. simpl. eapply existsb_set_nth_published; eauto.
    + specialize (K1 eq_refl). destruct KW as [Q|[Q|[Q|[[Q _]|Q]]]].
      * exfalso. eapply closed_not_quiescent; [exact K1|exact Q].
      * right; left; exact Q.
      * right; right; left; exact Q.
      * unfold committer_about_to_signal in *; congruence.
      * right; right; right; right; exact Q.
  - (* LSignal *)
    destruct (nth_error (c_writers s) i) as [[evs k| |]|] eqn:Nw; inversion H; subst; clear H.
    constructor; simpl; auto. intros P. specialize (KW P).
    destruct KW as [Q|[Q|[Q|[[Q _]|Q]]]].
    + left; exact Q.
    + right; left. unfold signal_full in *; simpl. rewrite Q; reflexivity.
    + right; right; left; exact Q.
    + right; left. unfold signal_full; simpl. rewrite Q. apply orb_true_r.
    + right; right; right; right; exact Q.
  - (* LCloseMark *)
    destruct (c_closer s) eqn:Ek; try discriminate.
    destruct (sclosed (c_st s)) eqn:Ecl; inversion H; subst; clear H.
    + constructor; simpl; auto; try discriminate.
      intros P. destruct (KW P) as [Q|[Q|[Q|[Q|Q]]]].
      * left; exact Q.
      * right; left; exact Q.
      * right; right; left; exact Q.
      * right; right; right; left; exact Q.
      * unfold closer_about_to_signal in Q. congruence.
    + assert (E : sclosed (close_stream (c_st s)) = true).
      { unfold close_stream. rewrite Ecl. reflexivity. }
      constructor; simpl; auto. intros _. right; right; right; right. reflexivity.
  - (* LCloseSend *)
    destruct (c_closer s) eqn:Ek; inversion H; subst; clear H.
    constructor; simpl; auto; try discriminate. intros _. right; left. reflexivity.
  - (* LCancel *)
    inversion H; subst; clear H. constructor; simpl; auto.
  - (* LEngineClose *)
    destruct (c_alive s && negb (existsb is_published (c_writers s)) && negb (is_marked (c_closer s))); [|discriminate].
    destruct (c_reg s && negb (sclosed (c_st s))); inversion H; subst; clear H.
    + constructor; simpl; auto.
    + constructor; simpl; auto.
Qed.

Lemma cinv_reachable : forall s0 s, initial s0 -> reachable s0 s -> cinv s.
Proof.
  intros s0 s Hi R; induction R.
  - apply cinv_initial; exact Hi.
  - eapply cinv_step; eauto.
Qed.

Lemma matching_not_quiescent : forall s, undelivered_matching s -> ~ quiescent s.
Proof.
  intros s (_ & NL & e & Hin & _) Q. unfold quiescent, next_iter in Q.
  destruct (is_some (serror (c_st s)) || sclosed (c_st s)); [discriminate|].
  destruct (sdropped (c_st s)); [discriminate|].
  rewrite NL in Q. destruct (pending (c_st s) (c_log s)) as [|x t]; [contradiction|].
  destruct (in_scope (sh (c_st s)) x); discriminate.
Qed.

(* THE WAKE-UP INVARIANT.  In every reachable state of the concurrent model
   (any number of committers, Close, cancellation, Engine.Close, in any
   interleaving of their atomic steps): if the consumer is parked in the
   `select` while an event of its scope lies ahead of it in the published
   oplog, then the signal buffer is full or a committer that has published is
   still going to do its (non-blocking) send. *)
Theorem no_lost_wakeup : forall s0 s, initial s0 -> reachable s0 s ->
  consumer_waiting s -> undelivered_matching s ->
  signal_full s \/ committer_about_to_signal s.
Proof.
  intros s0 s Hi R W U. pose proof (cinv_reachable _ _ Hi R) as [K1 K2 K3 KW].
  destruct U as [Hop U']. assert (U : undelivered_matching s) by (split; assumption).
  destruct (KW W) as [Q|[Q|[Q|[Q|Q]]]]; auto.
  - exfalso; eapply matching_not_quiescent; eauto.
  - specialize (K3 Q). congruence.
  - specialize (K2 Q). congruence.
Qed.

(* the same for every reason to wake up: a parked consumer whose fresh pass
   would not park again always has a wake-up pending *)
Theorem no_lost_wakeup_general : forall s0 s, initial s0 -> reachable s0 s ->
  consumer_waiting s -> ~ quiescent s ->
  signal_full s \/ c_chclosed s = true \/ committer_about_to_signal s \/ closer_about_to_signal s.
Proof.
  intros s0 s Hi R W NQ. pose proof (cinv_reachable _ _ Hi R) as [K1 K2 K3 KW].
  destruct (KW W) as [Q|Q]; [contradiction|exact Q].
Qed.

(* the `select` of the parked consumer has a ready case *)
Definition wake_enabled (s : cstate) : Prop :=
  exists s', cstep LWake s = Some s' \/ cstep LWakeCtx s = Some s'.

Definition is_send (l : label) : Prop := (exists i, l = LSignal i) \/ l = LCloseSend.

Definition wake_reason (s : cstate) : Prop :=
  undelivered_matching s \/          (* a matching commit has been published *)
  sclosed (c_st s) = true \/         (* Stream.Close / Engine.Close / invalidation closed the stream *)
  c_ctx s = true.                    (* the context is cancelled *)

(* "Without stalls", as enabledness: a blocked consumer with a reason to wake
   can leave the select now, or the one pending non-blocking send — a step that
   is always enabled — makes it so. *)
Theorem waiting_consumer_enabled : forall s0 s, initial s0 -> reachable s0 s ->
  consumer_waiting s -> wake_reason s ->
  wake_enabled s \/
  exists l s1, is_send l /\ cstep l s = Some s1 /\ wake_enabled s1.
Proof.
  intros s0 s Hi R W Why. unfold consumer_waiting in W.
  destruct (c_ctx s) eqn:Cx.
  { left. eexists. right. simpl. rewrite W, Cx. reflexivity. }
  assert (NQ : ~ quiescent s).
  { destruct Why as [U|[C|C]]; [apply matching_not_quiescent; exact U| |congruence].
    intros Q. eapply closed_not_quiescent; [exact C|exact Q]. }
  destruct (no_lost_wakeup_general _ _ Hi R W NQ) as [Q|[Q|[[Q1 Q2]|Q]]].
  - left. eexists. left. simpl. rewrite W. unfold signal_full in Q. rewrite Q. reflexivity.
  - left. destruct (c_sig s) eqn:Sg; eexists; left; simpl; rewrite W, Sg, ?Q; reflexivity.
  - right. destruct (existsb_published_nth _ Q2) as [i Hi'].
    eexists (LSignal i), _. split; [left; exists i; reflexivity|]. split.
    + simpl. rewrite Hi'. reflexivity.
    + eexists. left. simpl. rewrite W, Q1, orb_true_r. reflexivity.
  - right. eexists LCloseSend, _. split; [right; reflexivity|]. split.
    + simpl. unfold closer_about_to_signal in Q. rewrite Q. reflexivity.
    + eexists. left. simpl. rewrite W. reflexivity.
Qed.

(* a ready wake-up stays ready until the consumer takes it: no other actor's
   step disables it *)
Theorem wake_enabled_stable : forall l s s', cstep l s = Some s' ->
  l <> LWake -> l <> LWakeCtx -> wake_enabled s -> wake_enabled s'.
Proof.
  intros l s s' H N1 N2 [s1 E].
  assert (P : c_cons s = CParked).
  { destruct E as [E|E]; simpl in E; destruct (c_cons s); try discriminate; reflexivity. }
  assert (R : c_sig s = true \/ (c_sig s = false /\ c_chclosed s = true) \/ c_ctx s = true).
  { destruct E as [E|E]; simpl in E; rewrite P in E.
    - destruct (c_sig s); auto. destruct (c_chclosed s); [auto|discriminate].
    - destruct (c_ctx s); [auto|discriminate]. }
  assert (G : c_cons s' = CParked /\ (c_sig s' = true \/ c_chclosed s' = true \/ c_ctx s' = true)).
  { destruct l; simpl in H; try congruence; rewrite ?P in H; try discriminate.
    - destruct (c_alive s && negb (existsb is_published (c_writers s))); [|discriminate].
      destruct (nth_error (c_writers s) i) as [[evs k| |]|]; inversion H; subst; simpl. intuition.
    - destruct (nth_error (c_writers s) i) as [[evs k| |]|]; inversion H; subst; simpl.
      split; [simpl; auto|]. destruct R as [R|[[_ R]|R]]; rewrite ?R; auto.
    - destruct (c_closer s); try discriminate.
      destruct (sclosed (c_st s)); inversion H; subst; simpl; intuition.
    - destruct (c_closer s); inversion H; subst; simpl; auto.
    - inversion H; subst; simpl; auto.
    - destruct (c_alive s && negb (existsb is_published (c_writers s)) && negb (is_marked (c_closer s))); [|discriminate].
      destruct (c_reg s && negb (sclosed (c_st s))); inversion H; subst; simpl; intuition. }
  destruct G as [P' R']. unfold wake_enabled; simpl. rewrite P'.
  destruct (c_sig s'); [eexists; left; reflexivity|].
  destruct (c_chclosed s'); [eexists; left; reflexivity|].
  destruct (c_ctx s'); [eexists; right; reflexivity|].
  destruct R' as [R'|[R'|R']]; discriminate.
Qed.

(* woken by the next commit: the two steps of any committer leave a parked
   consumer of a registered stream with a full signal buffer *)
Corollary commit_wakes : forall s i s1 s2,
  consumer_waiting s -> c_reg s = true ->
  cstep (LPublish i) s = Some s1 -> cstep (LSignal i) s1 = Some s2 ->
  exists s3, cstep LWake s2 = Some s3 /\ c_cons s3 = CRunning true.
Proof.
  intros s i s1 s2 W Rg H1 H2. unfold consumer_waiting in W. simpl in H1, H2.
  destruct (c_alive s && negb (existsb is_published (c_writers s))); [|discriminate].
  destruct (nth_error (c_writers s) i) as [[evs k| |]|]; inversion H1; subst; clear H1. simpl in H2.
  destruct (nth_error (set_nth i WPublished (c_writers s)) i) as [[evs' k'| |]|]; inversion H2; subst; clear H2.
  simpl. rewrite W, Rg, orb_true_r. eexists; split; reflexivity.
Qed.


(* ================================================================== *)
(* Part 4 — non-vacuity, and the two former defect witnesses repaired  *)

Local Open Scope Z_scope.

Definition ev0 : event := mkEvent 0 "d" "c" OpInsert.
Definition ev1 : event := mkEvent 1 "d" "c" OpInsert.
Definition ev2 : event := mkEvent 2 "d" "k" OpInsert.
Definition ev3 : event := mkEvent 3 "d" "c" OpDrop.
Definition ev4 : event := mkEvent 4 "d" "c" OpInsert.
Definition hcoll : handle := ("d"%string, "c"%string).
Definition st_fresh : sstate := mkS hcoll ts_zero false false None None None.
Definition st_after0 : sstate := mkS hcoll 0 false false None None None.
Definition w_ex : world := world0 [ev0] 0 st_after0.

Lemma ex_start : watch hcoll watch_now [ev0] ts_zero = Some st_after0 /\ sinv hcoll 0 w_ex [] [].
Proof.
  split; [reflexivity|].
  apply (sinv_initial hcoll [ev0] 0%nat st_after0); simpl; auto; unfold ts_zero; lia.
Qed.

Definition script_ex : list sstep :=
  [SCommit [ev1; ev2]; SIter true false; SCommit [ev3; ev4]; SIter false false; SIter false false;
   SIter false false; SIter false false; SIter false false].

Lemma script_ex_ok : script_ok (w_hist w_ex) script_ex.
Proof. simpl. unfold ts_zero. repeat split; lia. Qed.

(* delivery: a collection stream started after event 0 sees 1, skips 2 (other
   collection), delivers the drop 3, is invalidated and never delivers 4 *)
Lemma ex_delivery :
  w_deliv (exec w_ex script_ex) = [ev1; ev3] /\
  expected hcoll (after 0 (w_hist (exec w_ex script_ex))) = [ev1; ev3] /\
  w_outs (exec w_ex script_ex) =
    [Return (Event ev1); Continue; Return (Event ev3); Return Invalidate; Return Closed; Return Closed].
Proof. vm_compute. auto. Qed.

(* lost: retention passes the stream *)
Definition script_lost : list sstep := [SCommit [ev1; ev2]; STrim 2].
Lemma ex_lost :
  script_ok (w_hist w_ex) script_lost /\
  let w := exec w_ex script_lost in
  live (w_st w) /\ sdropped (w_st w) = false /\ (position w < w_ntrim w)%nat /\
  snd (next_iter false false (w_st w) (w_log w) (w_trimmed w)) = Return Lost.
Proof.
  split; [simpl; unfold ts_zero; repeat split; lia|].
  vm_compute. repeat split; auto.
Qed.

(* completeness: retention removes the events BEHIND the stream, its reference
   event (1) included; everything ahead is still delivered *)
Definition script_complete : list sstep := [SCommit [ev1; ev2]; SIter false false; STrim 2; SCommit [ev4]].
Lemma ex_complete :
  script_ok (w_hist w_ex) script_complete /\
  let w := exec w_ex script_complete in
  (w_ntrim w <= position w)%nat /\ serror (w_st w) = None /\ sclosed (w_st w) = false /\
  w_ntrim w = 2%nat /\ w_trimmed w = 1 /\
  w_deliv w = [ev1] /\ w_deliv (drain 4 w) = [ev1; ev4] /\
  expected hcoll (after 0 (w_hist w)) = [ev1; ev4].
Proof.
  split; [simpl; unfold ts_zero; repeat split; lia|].
  vm_compute. repeat split; auto.
Qed.

(* FORMER DEFECT 1 (C09:silent-skip-unanchored-stream), same script as the old
   refutation witness: a stream opened on an EMPTY oplog, two inserts, retention
   removes the first before the stream reads it.  Now: Lost, nothing skipped. *)
Definition skip_script : list sstep :=
  [SCommit [ev0; ev1]; STrim 1; SIter false false; SIter false false].

Lemma lost_is_reported_repaired :
  watch hcoll watch_now [] ts_zero = Some st_fresh /\ script_ok [] skip_script /\
  let w := exec (world0 [] 0 st_fresh) skip_script in
  w_outs w = [Return Lost; Return Closed] /\ w_deliv w = [] /\
  serror (w_st w) = Some ELost /\ sclosed (w_st w) = true.
Proof.
  split; [reflexivity|]. split; [simpl; unfold ts_zero; repeat split; lia|].
  vm_compute. auto.
Qed.

(* ... and startAtOperationTime at the first retained event *)
Lemma lost_is_reported_repaired_start_at :
  exists st0, watch hcoll (mkW None None (Some 0)) [ev0; ev1] ts_zero = Some st0 /\
  let w := exec (world0 [ev0; ev1] 0 st0) [STrim 1; SIter false false] in
  w_outs w = [Return Lost] /\ w_deliv w = [].
Proof. eexists; split; [reflexivity|]. vm_compute. auto. Qed.

(* FORMER DEFECT 2 (C09:spurious-lost-anchor-trimmed), same script as the old
   refutation witness: the stream's reference event (0, behind it) is removed
   while event 1 is retained.  Now: event 1 is delivered. *)
Lemma delivery_complete_repaired :
  watch hcoll watch_now [ev0] ts_zero = Some st_after0 /\
  let w := exec w_ex [SCommit [ev1]; STrim 1] in
  (w_ntrim w <= position w)%nat /\ In ev1 (w_log w) /\
  snd (next_iter false false (w_st w) (w_log w) (w_trimmed w)) = Return (Event ev1) /\
  w_deliv (drain 2 w) = [ev1] /\ expected hcoll (after 0 (w_hist w)) = [ev1].
Proof.
  split; [reflexivity|]. vm_compute. repeat split; auto.
Qed.

(* resume: a database stream resumed from the token of delivered event 1, which
   is still retained (here: after a trim of event 0 only) *)
Definition script_resume : list sstep := [SCommit [ev1; ev2]; SIter false false; STrim 1; SCommit [ev4]].
Lemma ex_resume :
  let w := exec w_ex script_resume in
  In ev1 (w_deliv w) /\ In ev1 (w_log w) /\
  exists st', watch ("d"%string, ""%string) (mkW (Some (TokEvent 1)) None None) (w_log w) (w_trimmed w) = Some st' /\
              snd (next st' (w_log w) (w_trimmed w)) = Ok (Event ev2).
Proof. vm_compute. repeat split; auto. eexists; split; reflexivity. Qed.

(* invalidate *)
Lemma ex_invalidate :
  exists s', next_iter false false (mkS hcoll 2 false false None None None) [ev2; ev3; ev4] ts_zero
             = (s', Return (Event ev3)) /\ drops hcoll ev3 = true.
Proof. eexists; split; reflexivity. Qed.

Local Open Scope nat_scope.

(* concurrent: the window between the consumer's unlock and its select *)
Definition c_ex0 : cstate := cinit [ev0] ts_zero st_after0 [([ev1], 0)].

(* check finds nothing -> (unlock) -> commit publishes -> consumer is parked
   with a matching event ahead and an empty buffer: the committer's send is pending *)
Lemma ex_window :
  exists s, crun [LCall true; LCheck; LPublish 0] c_ex0 = Some s /\
            consumer_waiting s /\ undelivered_matching s /\ c_sig s = false /\
            committer_about_to_signal s.
Proof.
  eexists; split; [vm_compute; reflexivity|]. unfold consumer_waiting, undelivered_matching, committer_about_to_signal.
  simpl. repeat split; auto. exists ev1. split; [left; reflexivity|reflexivity].
Qed.

(* ... the send fills the buffer, the select fires, the next pass delivers *)
Lemma ex_wakeup :
  exists s, crun [LCall true; LCheck; LPublish 0; LSignal 0; LWake; LCheck] c_ex0 = Some s /\
            c_cons s = CDone (Event ev1) /\ c_sig s = false.
Proof. eexists; split; [vm_compute; reflexivity|]. split; reflexivity. Qed.

(* a parked consumer that retention passes is woken by that commit and gets Lost *)
Lemma ex_trim_wakes :
  exists s, crun [LCall true; LCheck; LPublish 0; LSignal 0; LWake; LCheck]
                 (cinit [ev0] ts_zero st_after0 [([ev1; ev2], 2)]) = Some s /\
            c_cons s = CDone Lost /\ c_trimmed s = 1%Z.
Proof. eexists; split; [vm_compute; reflexivity|]. split; reflexivity. Qed.

(* the signal arrives BEFORE the consumer reaches the select: it is buffered *)
Lemma ex_signal_before_select :
  exists s, crun [LCall true; LPublish 0; LSignal 0; LCheck; LReturn; LCall true; LCheck; LWake; LCheck] c_ex0 = Some s /\
            c_cons s = CParked /\ c_sig s = false /\ quiescent s.
Proof. eexists; split; [vm_compute; reflexivity|]. repeat split. Qed.

(* Close, cancellation and Engine.Close wake a parked consumer *)
Lemma ex_close_wakes :
  (exists s, crun [LCall true; LCheck; LCloseMark; LCloseSend; LWake; LCheck] c_ex0 = Some s /\ c_cons s = CDone Closed) /\
  (exists s, crun [LCall true; LCheck; LCancel; LWakeCtx] c_ex0 = Some s /\ c_cons s = CDone Closed /\ serror (c_st s) = Some ECtx) /\
  (exists s, crun [LCall true; LCheck; LEngineClose; LWake] c_ex0 = Some s /\ c_cons s = CDone Closed /\ sclosed (c_st s) = true).
Proof.
  split; [|split]; eexists; (split; [vm_compute; reflexivity|]); repeat split.
Qed.

Lemma reachable_crun : forall ls s0 s, crun ls s0 = Some s -> forall r, reachable r s0 -> reachable r s.
Proof.
  induction ls as [|l t IH]; simpl; intros s0 s H r R.
  - inversion H; subst; exact R.
  - destruct (cstep l s0) as [s1|] eqn:E; [|discriminate].
    eapply IH; [exact H|]. econstructor; eauto.
Qed.

Lemma ex_window_reachable :
  exists s, initial c_ex0 /\ reachable c_ex0 s /\ consumer_waiting s /\ undelivered_matching s.
Proof.
  destruct ex_window as (s & H & W & U & _).
  exists s. split; [eexists _, _, _, _; reflexivity|]. split; [|auto].
  eapply reachable_crun; [exact H|constructor].
Qed.
