(* StreamProofs.v — proofs about the change-stream model (Model/Stream.v), C09.

   Part 1: basic facts (scope, find_after, next never runs out of fuel).
   Part 2: the sequential world: every interleaving of commits, retention
           trims, single passes of Stream.next's loop and Close — delivery
           (soundness, order, no duplicates, gap-freeness), Lost, completeness,
           resume, invalidate.
   Part 3: the concurrent model — no lost wake-up.                         *)
From Coq Require Import List ZArith Lia Bool Arith.
From Lungo.Model Require Import Stream.
Import ListNotations.
Local Open Scope list_scope.
Local Open Scope nat_scope.
Local Notation length := List.length (only parsing).

(* ================================================================== *)
(* Part 1 — basics                                                     *)

Definition ids (l : oplog) : list Z := map eid l.

Lemma ids_app : forall a b, ids (a ++ b) = ids a ++ ids b.
Proof. intros; unfold ids; apply map_app. Qed.

Lemma find_after_none : forall id l, ~ In id (ids l) -> find_after id l = None.
Proof.
  induction l as [|e t IH]; simpl; intros H; [reflexivity|].
  destruct (Z.eqb_spec (eid e) id) as [E|E].
  - exfalso; apply H; left; exact E.
  - apply IH; intros C; apply H; right; exact C.
Qed.

Lemma find_after_app : forall id a e b,
  ~ In id (ids a) -> eid e = id -> find_after id (a ++ e :: b) = Some b.
Proof.
  induction a as [|x t IH]; simpl; intros e b H E.
  - rewrite E, Z.eqb_refl; reflexivity.
  - destruct (Z.eqb_spec (eid x) id) as [E'|E'].
    + exfalso; apply H; left; exact E'.
    + apply IH; [intros C; apply H; right; exact C|exact E].
Qed.

Lemma find_event_app : forall id a e b,
  ~ In id (ids a) -> eid e = id -> find_event id (a ++ e :: b) = Some e.
Proof.
  induction a as [|x t IH]; simpl; intros e b H E.
  - rewrite E, Z.eqb_refl; reflexivity.
  - destruct (Z.eqb_spec (eid x) id) as [E'|E'].
    + exfalso; apply H; left; exact E'.
    + apply IH; [intros C; apply H; right; exact C|exact E].
Qed.

Lemma find_event_none : forall id l, ~ In id (ids l) -> find_event id l = None.
Proof.
  induction l as [|e t IH]; simpl; intros H; [reflexivity|].
  destruct (Z.eqb_spec (eid e) id) as [E|E].
  - exfalso; apply H; left; exact E.
  - apply IH; intros C; apply H; right; exact C.
Qed.

Lemma NoDup_app_l : forall (A : Type) (a b : list A), NoDup (a ++ b) -> NoDup a.
Proof.
  induction a as [|x t IH]; simpl; intros b H; [constructor|].
  inversion H as [|? ? Hn Hd]; subst. constructor.
  - intros C; apply Hn; apply in_or_app; left; exact C.
  - eapply IH; exact Hd.
Qed.

Lemma NoDup_app_r : forall (A : Type) (a b : list A), NoDup (a ++ b) -> NoDup b.
Proof.
  induction a as [|x t IH]; simpl; intros b H; [exact H|].
  inversion H; subst; eapply IH; eassumption.
Qed.

Lemma NoDup_app_disj : forall (A : Type) (a b : list A) x, NoDup (a ++ b) -> In x a -> ~ In x b.
Proof.
  induction a as [|y t IH]; simpl; intros b x H Hin; [contradiction|].
  inversion H as [|? ? Hn Hd]; subst. destruct Hin as [->|Hin].
  - intros C; apply Hn; apply in_or_app; right; exact C.
  - eapply IH; eassumption.
Qed.

Lemma in_skipn : forall (A : Type) n (l : list A) x, In x (skipn n l) -> In x l.
Proof.
  induction n as [|n IH]; intros l x H; [exact H|].
  destruct l as [|y t]; [exact H|]. right; apply IH; exact H.
Qed.

(* ---- scope ---- *)

(* what `drops` means for the three kinds of handles *)
Lemma drops_client : forall c e, drops ("", c)%string e = false.
Proof. intros; unfold drops; simpl; reflexivity. Qed.

Lemma drops_db : forall d e, d <> ""%string -> drops (d, ""%string) e = is_dropdb (eop e).
Proof.
  intros d e Hd; unfold drops, nonempty; simpl.
  destruct (String.eqb_spec d ""); [contradiction|]. simpl.
  destruct (is_dropdb (eop e)); reflexivity.
Qed.

Lemma drops_coll : forall d c e, d <> ""%string -> c <> ""%string ->
  drops (d, c) e = is_drop (eop e) || is_dropdb (eop e).
Proof.
  intros d c e Hd Hc; unfold drops, nonempty; simpl.
  destruct (String.eqb_spec d ""); [contradiction|].
  destruct (String.eqb_spec c ""); [contradiction|]. simpl.
  destruct (is_drop (eop e)), (is_dropdb (eop e)); reflexivity.
Qed.

(* a collection-scoped stream sees exactly the events of its collection and
   the dropDatabase of its database *)
Lemma in_scope_coll : forall d c e, d <> ""%string -> c <> ""%string ->
  in_scope (d, c) e = String.eqb d (edb e) && (String.eqb c (ecoll e) || is_dropdb (eop e)).
Proof.
  intros d c e Hd Hc; unfold in_scope, nonempty; simpl.
  destruct (String.eqb_spec d ""); [contradiction|].
  destruct (String.eqb_spec c ""); [contradiction|]. simpl.
  destruct (String.eqb d (edb e)), (String.eqb c (ecoll e)), (is_dropdb (eop e)); reflexivity.
Qed.

Lemma in_scope_db : forall d e, d <> ""%string -> in_scope (d, ""%string) e = String.eqb d (edb e).
Proof.
  intros d e Hd; unfold in_scope, nonempty; simpl.
  destruct (String.eqb_spec d ""); [contradiction|]. simpl.
  destruct (String.eqb d (edb e)); reflexivity.
Qed.

Lemma in_scope_client : forall e, in_scope (""%string, ""%string) e = true.
Proof. intros; reflexivity. Qed.

(* ---- next_iter: elementary facts ---- *)

Definition live (s : sstate) : Prop := serror s = None /\ sclosed s = false.

Lemma next_iter_handle : forall b c s log, sh (fst (next_iter b c s log)) = sh s.
Proof.
  intros b c s log; unfold next_iter.
  destruct (is_some (serror s) || sclosed s); [reflexivity|].
  destruct (sdropped s); [reflexivity|].
  destruct (pending s log) as [[|e t]|]; simpl.
  - destruct b; [reflexivity|]. destruct c; reflexivity.
  - destruct (in_scope (sh s) e); reflexivity.
  - reflexivity.
Qed.

Lemma find_after_split : forall id l r, find_after id l = Some r ->
  exists a x, l = a ++ x :: r /\ eid x = id /\ ~ In id (ids a).
Proof.
  induction l as [|e t IH]; simpl; intros r H; [discriminate|].
  destruct (Z.eqb_spec (eid e) id) as [E|E].
  - inversion H; subst. exists [], e. simpl; auto.
  - destruct (IH _ H) as (a & x & -> & Hx & Hn).
    exists (e :: a), x. simpl; repeat split; auto.
    intros [C|C]; [apply E; exact C|apply Hn; exact C].
Qed.

(* one `continue` consumes exactly one pending event (ids are unique) *)
Lemma next_iter_continue : forall b c s log s',
  NoDup (ids log) ->
  next_iter b c s log = (s', Continue) ->
  exists e t, pending s log = Some (e :: t) /\ pending s' log = Some t.
Proof.
  intros b c s log s' ND; unfold next_iter.
  destruct (is_some (serror s) || sclosed s); [discriminate|].
  destruct (sdropped s); [discriminate|].
  destruct (pending s log) as [[|e t]|] eqn:P.
  - destruct b; [discriminate|]. destruct c; discriminate.
  - destruct (in_scope (sh s) e); [discriminate|]. intros H; inversion H; subst; clear H.
    exists e, t; split; [reflexivity|]. unfold pending in *; simpl.
    destruct (slast s) as [id|].
    + destruct (find_after_split _ _ _ P) as (a & x & -> & Hx & Hn).
      replace (a ++ x :: e :: t) with ((a ++ [x]) ++ e :: t) by (rewrite <- app_assoc; reflexivity).
      apply find_after_app; [|reflexivity].
      replace (a ++ x :: e :: t) with ((a ++ [x]) ++ e :: t) in ND by (rewrite <- app_assoc; reflexivity).
      rewrite ids_app in ND. simpl in ND.
      intros C. eapply (NoDup_app_disj _ _ _ _ ND C). left; reflexivity.
    + inversion P; subst. simpl. rewrite Z.eqb_refl. reflexivity.
  - discriminate.
Qed.

Lemma next_iter_nonblocking : forall c s log s', next_iter false c s log <> (s', Park).
Proof.
  intros c s log s'; unfold next_iter.
  destruct (is_some (serror s) || sclosed s); [discriminate|].
  destruct (sdropped s); [discriminate|].
  destruct (pending s log) as [[|e t]|]; cbn; try discriminate.
  destruct (in_scope (sh s) e); discriminate.
Qed.

Lemma next_fuel_enough : forall log, NoDup (ids log) -> forall fuel c s,
  (forall p, pending s log = Some p -> length p < fuel) -> 0 < fuel ->
  exists o, snd (next_fuel fuel c s log) = Ok o.
Proof.
  intros log ND; induction fuel as [|f IH]; intros c s Hp Hf; [lia|].
  simpl. destruct (next_iter false c s log) as [s' [o| |]] eqn:N.
  - exists o; reflexivity.
  - destruct (next_iter_continue _ _ _ _ _ ND N) as (e & t & P & P').
    specialize (Hp _ P). simpl in Hp.
    apply IH; [|lia]. intros p Hp'. rewrite P' in Hp'. inversion Hp'; subst. lia.
  - exfalso; eapply next_iter_nonblocking; exact N.
Qed.

Lemma find_after_length : forall id l r, find_after id l = Some r -> length r < length l.
Proof.
  induction l as [|e t IH]; simpl; intros r H; [discriminate|].
  destruct (Z.eqb (eid e) id); [inversion H; subst; lia|]. specialize (IH _ H); lia.
Qed.

(* TryNext always returns: the fuel of `next` suffices *)
Theorem next_total : forall s log, NoDup (ids log) ->
  exists o, snd (next s log) = Ok o /\ exists o', snd (next_cancelled s log) = Ok o'.
Proof.
  intros s log ND.
  assert (H : forall p, pending s log = Some p -> length p < S (length log)).
  { intros p; unfold pending. destruct (slast s).
    - intros F; apply find_after_length in F; lia.
    - intros F; inversion F; subst; lia. }
  destruct (next_fuel_enough log ND (S (length log)) false s H) as [o Ho]; [lia|].
  destruct (next_fuel_enough log ND (S (length log)) true s H) as [o' Ho']; [lia|].
  exists o; split; [exact Ho|exists o'; exact Ho'].
Qed.

(* ================================================================== *)
(* Part 2 — the sequential world                                       *)

(* ---- subsequences and prefixes ---- *)

Inductive subseq {A : Type} : list A -> list A -> Prop :=
| sub_nil : forall l, subseq [] l
| sub_cons : forall x a b, subseq a b -> subseq (x :: a) (x :: b)
| sub_skip : forall x a b, subseq a b -> subseq a (x :: b).

Lemma subseq_refl : forall (A : Type) (l : list A), subseq l l.
Proof. induction l; constructor; auto. Qed.

Lemma subseq_app : forall (A : Type) (a b c d : list A), subseq a b -> subseq c d -> subseq (a ++ c) (b ++ d).
Proof.
  intros A a b c d H; induction H; intros Hc; simpl.
  - induction l; simpl; [exact Hc|constructor; auto].
  - constructor; auto.
  - constructor; auto.
Qed.

Lemma subseq_app_r : forall (A : Type) (a b c : list A), subseq a b -> subseq a (b ++ c).
Proof.
  intros A a b c H. rewrite <- (app_nil_r a). apply subseq_app; [exact H|constructor].
Qed.

Lemma subseq_app_l : forall (A : Type) (a b c : list A), subseq a b -> subseq a (c ++ b).
Proof. intros A a b c H; induction c; simpl; [exact H|constructor; auto]. Qed.

Lemma subseq_trans : forall (A : Type) (b c : list A), subseq b c -> forall a, subseq a b -> subseq a c.
Proof.
  intros A b c H; induction H; intros a' Ha.
  - inversion Ha; subst; constructor.
  - inversion Ha; subst; constructor; auto.
  - constructor; auto.
Qed.

Lemma subseq_In : forall (A : Type) (a b : list A) x, subseq a b -> In x a -> In x b.
Proof.
  intros A a b x H; induction H; simpl; intros Hin; auto.
  - contradiction.
  - destruct Hin; auto.
Qed.

Lemma subseq_NoDup : forall (A : Type) (a b : list A), subseq a b -> NoDup b -> NoDup a.
Proof.
  intros A a b H; induction H; intros ND.
  - constructor.
  - inversion ND; subst. constructor; auto. intros C; eapply subseq_In in C; eauto.
  - inversion ND; subst; auto.
Qed.

Lemma subseq_map : forall (A B : Type) (f : A -> B) (a b : list A), subseq a b -> subseq (map f a) (map f b).
Proof. intros A B f a b H; induction H; simpl; constructor; auto. Qed.

Lemma subseq_filter : forall (A : Type) (f : A -> bool) (l : list A), subseq (filter f l) l.
Proof. induction l; simpl; [constructor|]. destruct (f a); constructor; auto. Qed.

Definition prefix {A : Type} (a b : list A) : Prop := exists c, b = a ++ c.

(* ---- what a stream with handle h is expected to deliver from a list of
        committed events: the events in scope, up to and including the first
        one that invalidates the stream ---- *)

Fixpoint expected (h : handle) (l : list event) : list event :=
  match l with
  | [] => []
  | e :: t =>
      if in_scope h e then e :: (if drops h e then [] else expected h t)
      else expected h t
  end.

Lemma expected_subseq_filter : forall h l, subseq (expected h l) (filter (in_scope h) l).
Proof.
  induction l as [|e t IH]; simpl; [constructor|].
  destruct (in_scope h e); [|exact IH].
  constructor. destruct (drops h e); [constructor|exact IH].
Qed.

(* without an invalidating event, expected is just the scope filter *)
Lemma expected_no_drop : forall h l, forallb (fun e => negb (drops h e)) (filter (in_scope h) l) = true ->
  expected h l = filter (in_scope h) l.
Proof.
  induction l as [|e t IH]; simpl; [reflexivity|].
  destruct (in_scope h e); simpl; [|exact IH].
  intros H; apply andb_prop in H; destruct H as [H1 H2].
  destruct (drops h e); [discriminate|]. rewrite IH; auto.
Qed.

(* ---- worlds, steps, scripts ---- *)

Inductive sstep : Type :=
| SCommit (evs : list event)       (* a commit publishes evs *)
| STrim (k : nat)                  (* retention removes k more events from the front *)
| SIter (block ctxerr : bool)      (* ONE pass of the loop of Stream.next *)
| SClose.                          (* Stream.Close *)

Record world : Type := mkWorld {
  w_hist : list event;     (* ghost: every event ever committed, in commit order *)
  w_ntrim : nat;           (* how many of them retention has removed: oplog = skipn w_ntrim w_hist *)
  w_st : sstate;
  w_deliv : list event;    (* ghost: the events returned so far, in order *)
  w_outs : list iter;      (* ghost: the result of every pass so far *)
  w_jumped : bool          (* ghost: some trim removed events while the stream held no reference event (s.last = nil) *)
}.

Definition w_log (w : world) : oplog := skipn (w_ntrim w) (w_hist w).

Definition is_none {A : Type} (o : option A) : bool := match o with None => true | Some _ => false end.

Definition exec_step (w : world) (s : sstep) : world :=
  match s with
  | SCommit evs => mkWorld (w_hist w ++ evs) (w_ntrim w) (w_st w) (w_deliv w) (w_outs w) (w_jumped w)
  | STrim k =>
      let n' := Nat.min (w_ntrim w + k) (length (w_hist w)) in
      mkWorld (w_hist w) n' (w_st w) (w_deliv w) (w_outs w)
              (w_jumped w || (is_none (slast (w_st w)) && (w_ntrim w <? n')))
  | SIter b c =>
      let r := next_iter b c (w_st w) (w_log w) in
      mkWorld (w_hist w) (w_ntrim w) (fst r)
              (match snd r with Return (Event e) => w_deliv w ++ [e] | _ => w_deliv w end)
              (w_outs w ++ [snd r]) (w_jumped w)
  | SClose => mkWorld (w_hist w) (w_ntrim w) (close_stream (w_st w)) (w_deliv w) (w_outs w) (w_jumped w)
  end.

Fixpoint exec (w : world) (script : list sstep) : world :=
  match script with
  | [] => w
  | s :: t => exec (exec_step w s) t
  end.

(* event identities are unique: every commit brings fresh ids *)
Fixpoint script_ok (hist : list event) (script : list sstep) : Prop :=
  match script with
  | [] => True
  | SCommit evs :: t => NoDup (ids (hist ++ evs)) /\ script_ok (hist ++ evs) t
  | _ :: t => script_ok hist t
  end.

Lemma skipn_min : forall (A : Type) m (l : list A), skipn (Nat.min m (length l)) l = skipn m l.
Proof.
  intros A m l. destruct (Nat.le_ge_cases m (length l)) as [H|H].
  - rewrite Nat.min_l by exact H. reflexivity.
  - rewrite Nat.min_r by exact H. rewrite skipn_all. symmetry. apply skipn_all2. exact H.
Qed.

Lemma skipn_skipn' : forall (A : Type) k n (l : list A), skipn k (skipn n l) = skipn (n + k) l.
Proof.
  intros A k n; induction n as [|n IH]; intros l; simpl; [reflexivity|].
  destruct l as [|x t]; [rewrite skipn_nil; reflexivity|]. apply IH.
Qed.

(* the STrim step is the model's `trim` (prefix removal) on the oplog *)
Lemma w_log_trim : forall w k, w_log (exec_step w (STrim k)) = trim k (w_log w).
Proof.
  intros w k; unfold w_log, trim; simpl. rewrite skipn_min, skipn_skipn'. reflexivity.
Qed.

Lemma w_log_commit : forall w evs, w_ntrim w <= length (w_hist w) ->
  w_log (exec_step w (SCommit evs)) = w_log w ++ evs.
Proof.
  intros w evs H; unfold w_log; simpl. rewrite skipn_app.
  replace (w_ntrim w - length (w_hist w)) with 0 by lia. reflexivity.
Qed.

(* ---- the invariant ---- *)

(* pre: the events before the stream's start position (fixed);
   mid: the events the stream has passed since (delivered, skipped as out of
        scope, or jumped over); post: the events still ahead of it *)
Record inv (h : handle) (pre : list event) (w : world) (mid post : list event) : Prop := mkInv {
  i_hist : w_hist w = pre ++ mid ++ post;
  i_nodup : NoDup (ids (w_hist w));
  i_ntrim : w_ntrim w <= length (w_hist w);
  i_h : sh (w_st w) = h;
  i_anchor : match slast (w_st w) with
             | None => w_ntrim w = length (pre ++ mid)
             | Some id => exists A e, pre ++ mid = A ++ [e] /\ eid e = id
             end;
  i_sound : subseq (w_deliv w) (filter (in_scope h) mid);
  i_gap : w_jumped w = false -> forall rest,
          expected h (mid ++ rest) = w_deliv w ++ (if sdropped (w_st w) then [] else expected h rest)
}.

Lemma pending_inv : forall h pre w mid post, inv h pre w mid post ->
  pending (w_st w) (w_log w) =
    match slast (w_st w) with
    | None => Some post
    | Some _ => if w_ntrim w <? length (pre ++ mid) then Some post else None
    end.
Proof.
  intros h pre w mid post I. destruct I as [Hh Hnd Hnt _ Han _ _].
  unfold pending, w_log. destruct (slast (w_st w)) as [id|].
  - destruct Han as (A & e & HA & He).
    assert (Hh' : w_hist w = A ++ e :: post).
    { rewrite Hh, app_assoc, HA, <- app_assoc. reflexivity. }
    rewrite Hh' in *. rewrite ids_app in Hnd. simpl in Hnd.
    assert (HnA : ~ In id (ids A)).
    { intros C. eapply (NoDup_app_disj _ _ _ _ Hnd C). left; exact He. }
    assert (Hnp : ~ In id (ids post)).
    { apply NoDup_app_r in Hnd. inversion Hnd; subst. assumption. }
    rewrite HA, app_length; simpl.
    destruct (Nat.ltb_spec (w_ntrim w) (length A + 1)) as [L|L].
    + rewrite skipn_app. replace (w_ntrim w - length A) with 0 by lia. simpl.
      apply find_after_app; [|exact He].
      intros C. apply HnA. unfold ids in *. apply in_map_iff in C. destruct C as (x & Hx & Hin).
      apply in_map_iff. exists x; split; [exact Hx|]. eapply in_skipn; exact Hin.
    + rewrite skipn_app. rewrite skipn_all2 by lia. simpl.
      destruct (w_ntrim w - length A) as [|m] eqn:Em; [lia|]. simpl.
      apply find_after_none. intros C. apply Hnp. unfold ids in *. apply in_map_iff in C.
      destruct C as (x & Hx & Hin). apply in_map_iff. exists x; split; [exact Hx|]. eapply in_skipn; exact Hin.
  - rewrite Hh, app_assoc, skipn_app, Han. rewrite skipn_all, Nat.sub_diag. reflexivity.
Qed.

(* steps that leave history, retention, deliveries and the stream's position alone *)
Lemma inv_same : forall h pre w w' mid post,
  inv h pre w mid post ->
  w_hist w' = w_hist w -> w_ntrim w' = w_ntrim w -> w_deliv w' = w_deliv w -> w_jumped w' = w_jumped w ->
  sh (w_st w') = sh (w_st w) -> slast (w_st w') = slast (w_st w) -> sdropped (w_st w') = sdropped (w_st w) ->
  inv h pre w' mid post.
Proof.
  intros h pre w w' mid post [H1 H2 H3 H4 H5 H6 H7] E1 E2 E3 E4 E5 E6 E7.
  constructor; rewrite ?E1, ?E2, ?E3, ?E5, ?E6, ?E7; auto.
  rewrite E4; exact H7.
Qed.

(* the progress case of a pass: the first pending event is passed *)
Lemma inv_progress : forall h pre w mid e post st' (deliver : bool),
  inv h pre w mid (e :: post) ->
  sdropped (w_st w) = false ->
  sh st' = sh (w_st w) -> slast st' = Some (eid e) ->
  in_scope h e = deliver ->
  sdropped st' = (if deliver then drops h e else false) ->
  forall outs,
  inv h pre (mkWorld (w_hist w) (w_ntrim w) st' (if deliver then w_deliv w ++ [e] else w_deliv w) outs (w_jumped w))
      (mid ++ [e]) post.
Proof.
  intros h pre w mid e post st' deliver [H1 H2 H3 H4 H5 H6 H7] Hd E1 E2 E3 E4 outs.
  constructor; simpl; auto.
  - rewrite H1, <- !app_assoc. reflexivity.
  - rewrite E1; exact H4.
  - rewrite E2. exists (pre ++ mid), e. rewrite app_assoc. auto.
  - rewrite filter_app; simpl. rewrite E3. destruct deliver.
    + apply subseq_app; [exact H6|apply subseq_refl].
    + rewrite app_nil_r; exact H6.
  - intros J rest. specialize (H7 J (e :: rest)). rewrite Hd in H7.
    rewrite <- app_assoc. simpl. rewrite H7. simpl. rewrite E3, E4. destruct deliver.
    + rewrite <- app_assoc. reflexivity.
    + reflexivity.
Qed.

Lemma inv_step : forall h pre w mid post s,
  inv h pre w mid post ->
  (match s with SCommit evs => NoDup (ids (w_hist w ++ evs)) | _ => True end) ->
  exists mid' post', inv h pre (exec_step w s) mid' post'.
Proof.
  intros h pre w mid post s I Hok. destruct s as [evs|k|b c|].
  - (* commit *)
    exists mid, (post ++ evs). destruct I as [H1 H2 H3 H4 H5 H6 H7].
    constructor; simpl; auto.
    + rewrite H1, <- !app_assoc. reflexivity.
    + rewrite app_length; lia.
  - (* trim *)
    destruct (slast (w_st w)) as [id|] eqn:L.
    + exists mid, post. destruct I as [H1 H2 H3 H4 H5 H6 H7].
      constructor; simpl; auto.
      * apply Nat.le_min_r.
      * rewrite L in *. exact H5.
      * rewrite L; simpl. rewrite orb_false_r. exact H7.
    + pose proof I as [H1 H2 H3 H4 H5 H6 H7]. rewrite L in H5.
      set (n' := Nat.min (w_ntrim w + k) (length (w_hist w))).
      set (j := n' - w_ntrim w).
      assert (Hj : j <= length post).
      { subst j n'. rewrite H1. rewrite app_length in H5. rewrite !app_length. lia. }
      exists (mid ++ firstn j post), (skipn j post).
      constructor; simpl; auto.
      * rewrite H1. rewrite <- app_assoc, firstn_skipn. reflexivity.
      * apply Nat.le_min_r.
      * rewrite L. fold n'. rewrite app_assoc, app_length, firstn_length_le by exact Hj.
        subst j. assert (w_ntrim w <= n'). { subst n'. apply Nat.min_glb; lia. } lia.
      * rewrite filter_app. apply subseq_app_r. exact H6.
      * rewrite L; simpl. fold n'. intros J. apply orb_false_elim in J. destruct J as [J1 J2].
        apply Nat.ltb_ge in J2.
        assert (Ej : j = 0) by (subst j; lia). rewrite Ej; simpl. rewrite app_nil_r. exact (H7 J1).
  - (* one pass of next *)
    pose proof (pending_inv _ _ _ _ _ I) as P.
    simpl. unfold next_iter.
    destruct (is_some (serror (w_st w)) || sclosed (w_st w)) eqn:V.
    { exists mid, post. eapply inv_same; eauto. }
    destruct (sdropped (w_st w)) eqn:D.
    { exists mid, post. eapply inv_same; eauto. }
    destruct (pending (w_st w) (w_log w)) as [[|e t]|] eqn:Pe.
    + exists mid, post. destruct b; simpl.
      * eapply inv_same; eauto.
      * destruct c; simpl; eapply inv_same; eauto.
    + assert (Hpost : post = e :: t).
      { destruct (slast (w_st w)); [destruct (w_ntrim w <? length (pre ++ mid))|]; congruence. }
      subst post. exists (mid ++ [e]), t.
      pose proof (i_h _ _ _ _ _ I) as Hh.
      destruct (in_scope (sh (w_st w)) e) eqn:S; simpl.
      * apply (inv_progress h pre w mid e t _ true); auto; simpl; congruence.
      * apply (inv_progress h pre w mid e t _ false); auto; simpl; congruence.
    + exists mid, post. eapply inv_same; eauto.
  - (* Close *)
    exists mid, post. eapply inv_same; eauto; simpl; unfold close_stream; destruct (sclosed (w_st w)); reflexivity.
Qed.

Lemma exec_step_hist : forall w s,
  w_hist (exec_step w s) = match s with SCommit evs => w_hist w ++ evs | _ => w_hist w end.
Proof. intros w [evs|k|b c|]; reflexivity. Qed.

Lemma exec_inv : forall script h pre w mid post,
  inv h pre w mid post -> script_ok (w_hist w) script ->
  exists mid' post', inv h pre (exec w script) mid' post'.
Proof.
  induction script as [|s t IH]; intros h pre w mid post I Hok; simpl.
  - exists mid, post; exact I.
  - destruct (inv_step h pre w mid post s I) as (mid' & post' & I').
    { destruct s; simpl in Hok; tauto. }
    eapply IH; [exact I'|].
    rewrite exec_step_hist. destruct s; simpl in Hok; tauto.
Qed.

(* the events after the start position are mid ++ post *)
Lemma inv_after : forall h pre w mid post, inv h pre w mid post ->
  skipn (length pre) (w_hist w) = mid ++ post.
Proof.
  intros h pre w mid post I. rewrite (i_hist _ _ _ _ _ I), skipn_app, skipn_all, Nat.sub_diag. reflexivity.
Qed.

(* ---- delivery ---- *)

(* For EVERY interleaving of commits, retention trims, single passes of
   next's loop (Next or TryNext, cancelled context or not) and Close: what
   the stream has returned is a subsequence of the in-scope events committed
   after its start position, in commit order, each at most once; and it is
   gap-free — a PREFIX of the expected sequence — unless a trim removed events
   while the stream held no reference event (w_jumped, the known defect). *)
Theorem delivery : forall h pre w0 post0 script,
  inv h pre w0 [] post0 -> script_ok (w_hist w0) script ->
  let w := exec w0 script in
  let after := skipn (length pre) (w_hist w) in
  subseq (w_deliv w) (filter (in_scope h) after) /\
  NoDup (ids (w_deliv w)) /\
  (w_jumped w = false -> prefix (w_deliv w) (expected h after)).
Proof.
  intros h pre w0 post0 script I0 Hok w after.
  destruct (exec_inv script h pre w0 [] post0 I0 Hok) as (mid & post & I). fold w in I.
  subst after. rewrite (inv_after _ _ _ _ _ I).
  assert (S1 : subseq (w_deliv w) (filter (in_scope h) (mid ++ post))).
  { rewrite filter_app. apply subseq_app_r. exact (i_sound _ _ _ _ _ I). }
  split; [exact S1|]. split.
  - eapply subseq_NoDup; [|exact (i_nodup _ _ _ _ _ I)].
    unfold ids. apply subseq_map. rewrite (i_hist _ _ _ _ _ I).
    apply subseq_app_l. eapply subseq_trans; [apply subseq_filter|exact S1].
  - intros J. pose proof (i_gap _ _ _ _ _ I J post) as G. rewrite G. eexists; reflexivity.
Qed.

(* the reference event, once there, is never given up *)
Lemma next_iter_anchor : forall b c s log, slast s <> None -> slast (fst (next_iter b c s log)) <> None.
Proof.
  intros b c s log H; unfold next_iter.
  destruct (is_some (serror s) || sclosed s); [exact H|].
  destruct (sdropped s); [exact H|].
  destruct (pending s log) as [[|e t]|]; simpl; try exact H.
  - destruct b; [exact H|]. destruct c; exact H.
  - destruct (in_scope (sh s) e); simpl; discriminate.
Qed.

Lemma exec_step_anchor : forall w s, slast (w_st w) <> None -> slast (w_st (exec_step w s)) <> None.
Proof.
  intros w [evs|k|b c|] H; simpl; auto.
  - apply next_iter_anchor; exact H.
  - unfold close_stream; destruct (sclosed (w_st w)); exact H.
Qed.

Lemma exec_anchor : forall script w, slast (w_st w) <> None -> slast (w_st (exec w script)) <> None.
Proof. induction script as [|s t IH]; intros w H; simpl; [exact H|]. apply IH, exec_step_anchor, H. Qed.

Lemma anchored_never_jumps : forall script w,
  slast (w_st w) <> None -> w_jumped w = false -> w_jumped (exec w script) = false.
Proof.
  induction script as [|s t IH]; intros w H J; simpl; [exact J|].
  apply IH; [apply exec_step_anchor; exact H|].
  destruct s; simpl; auto. destruct (slast (w_st w)); [|congruence]. simpl. rewrite J; reflexivity.
Qed.

(* a stream whose start position is an event (resume token, start time inside
   the retained log, or "now" on a non-empty oplog) never skips *)
Corollary delivery_anchored : forall h pre w0 post0 script,
  inv h pre w0 [] post0 -> script_ok (w_hist w0) script ->
  slast (w_st w0) <> None -> w_jumped w0 = false ->
  let w := exec w0 script in
  prefix (w_deliv w) (expected h (skipn (length pre) (w_hist w))).
Proof.
  intros h pre w0 post0 script I Hok A J w.
  destruct (delivery h pre w0 post0 script I Hok) as (_ & _ & G).
  apply G. apply anchored_never_jumps; assumption.
Qed.

(* ---- the stream's position in the history ---- *)

Fixpoint index_of (id : Z) (l : list event) : nat :=
  match l with
  | [] => 0
  | e :: t => if Z.eqb (eid e) id then 0 else S (index_of id t)
  end.

(* number of history events behind the stream *)
Definition position (w : world) : nat :=
  match slast (w_st w) with
  | None => w_ntrim w
  | Some id => S (index_of id (w_hist w))
  end.

Lemma index_of_app : forall id a e b, ~ In id (ids a) -> eid e = id -> index_of id (a ++ e :: b) = length a.
Proof.
  induction a as [|x t IH]; simpl; intros e b H E.
  - rewrite E, Z.eqb_refl; reflexivity.
  - destruct (Z.eqb_spec (eid x) id) as [E'|E'].
    + exfalso; apply H; left; exact E'.
    + f_equal. apply IH; [intros C; apply H; right; exact C|exact E].
Qed.

Lemma inv_position : forall h pre w mid post, inv h pre w mid post -> position w = length (pre ++ mid).
Proof.
  intros h pre w mid post I. unfold position. pose proof (i_anchor _ _ _ _ _ I) as Han.
  destruct (slast (w_st w)) as [id|]; [|exact Han].
  destruct Han as (A & e & HA & He).
  pose proof (i_nodup _ _ _ _ _ I) as Hnd.
  assert (Hh' : w_hist w = A ++ e :: post).
  { rewrite (i_hist _ _ _ _ _ I), app_assoc, HA, <- app_assoc. reflexivity. }
  rewrite Hh' in *. rewrite ids_app in Hnd. simpl in Hnd.
  rewrite index_of_app; [rewrite HA, app_length; simpl; lia| |exact He].
  intros C. eapply (NoDup_app_disj _ _ _ _ Hnd C). left; exact He.
Qed.

(* ---- lost position ---- *)

Lemma lost_when_anchor_trimmed : forall h pre w mid post,
  inv h pre w mid post ->
  slast (w_st w) <> None -> live (w_st w) -> sdropped (w_st w) = false ->
  position w <= w_ntrim w ->
  forall b c, snd (next_iter b c (w_st w) (w_log w)) = Return Lost.
Proof.
  intros h pre w mid post I A [L1 L2] D P b c.
  pose proof (pending_inv _ _ _ _ _ I) as Pe. rewrite (inv_position _ _ _ _ _ I) in P.
  unfold next_iter. rewrite L1, L2, D. simpl.
  destruct (slast (w_st w)) as [id|]; [|congruence].
  destruct (Nat.ltb_spec (w_ntrim w) (length (pre ++ mid))); [lia|].
  rewrite Pe. reflexivity.
Qed.

(* start position anchored at an event -> once retention has removed an event
   the stream has not passed yet, the next pass of next (whatever commits,
   trims and passes came before, in any interleaving) reports Lost *)
Theorem lost_is_reported_partial : forall h pre w0 post0 script,
  inv h pre w0 [] post0 -> script_ok (w_hist w0) script ->
  slast (w_st w0) <> None ->
  let w := exec w0 script in
  live (w_st w) -> sdropped (w_st w) = false ->
  position w < w_ntrim w ->
  forall b c, snd (next_iter b c (w_st w) (w_log w)) = Return Lost.
Proof.
  intros h pre w0 post0 script I0 Hok A w L D P b c.
  destruct (exec_inv script h pre w0 [] post0 I0 Hok) as (mid & post & I). fold w in I.
  eapply lost_when_anchor_trimmed; eauto.
  - apply exec_anchor; exact A.
  - lia.
Qed.

(* ---- completeness ---- *)

Definition drain (n : nat) (w : world) : world := exec w (repeat (SIter false false) n).

(* the reference event (if any) is still in the oplog *)
Definition anchor_retained (w : world) : Prop :=
  match slast (w_st w) with
  | None => True
  | Some _ => w_ntrim w < position w
  end.

Lemma iter_dropped : forall b c s log, sdropped s = true -> sdropped (fst (next_iter b c s log)) = true.
Proof.
  intros b c s log H; unfold next_iter.
  destruct (is_some (serror s) || sclosed s); [exact H|]. rewrite H. reflexivity.
Qed.

Lemma iter_dropped_deliv : forall b c s log, sdropped s = true ->
  forall e, snd (next_iter b c s log) <> Return (Event e).
Proof.
  intros b c s log H e; unfold next_iter.
  destruct (is_some (serror s) || sclosed s); [discriminate|]. rewrite H. discriminate.
Qed.

Lemma drain_S : forall n w, drain (S n) w = drain n (exec_step w (SIter false false)).
Proof. reflexivity. Qed.

Lemma drain_dropped : forall n h pre w mid post,
  inv h pre w mid post -> w_jumped w = false -> sdropped (w_st w) = true ->
  w_deliv (drain n w) = expected h (mid ++ post) /\ w_hist (drain n w) = w_hist w.
Proof.
  induction n as [|n IH]; intros h pre w mid post I J D.
  - simpl. split; [|reflexivity]. pose proof (i_gap _ _ _ _ _ I J post) as G. rewrite D, app_nil_r in G. auto.
  - rewrite drain_S.
    destruct (inv_step h pre w mid post (SIter false false) I) as (mid' & post' & I'); [exact Logic.I|].
    assert (E : mid' ++ post' = mid ++ post).
    { pose proof (i_hist _ _ _ _ _ I') as H1. pose proof (i_hist _ _ _ _ _ I) as H2.
      simpl in H1. rewrite H2 in H1. apply app_inv_head in H1. auto. }
    destruct (IH h pre _ mid' post' I') as [G1 G2].
    + simpl; exact J.
    + simpl. apply iter_dropped; exact D.
    + rewrite G1, G2, E. auto.
Qed.

Lemma drain_complete : forall n h pre w mid post,
  inv h pre w mid post -> w_jumped w = false ->
  (match slast (w_st w) with None => True | Some _ => w_ntrim w < length (pre ++ mid) end) ->
  serror (w_st w) = None -> (sclosed (w_st w) = false \/ sdropped (w_st w) = true) ->
  length post <= n ->
  w_deliv (drain n w) = expected h (mid ++ post) /\ w_hist (drain n w) = w_hist w.
Proof.
  induction n as [|n IH]; intros h pre w mid post I J A E C L.
  - destruct post; [|simpl in L; lia]. simpl. split; [|reflexivity].
    pose proof (i_gap _ _ _ _ _ I J []) as G. simpl in G. rewrite app_nil_r in *.
    destruct (sdropped (w_st w)); rewrite app_nil_r in G; auto.
  - destruct (sdropped (w_st w)) eqn:D; [eapply drain_dropped; eauto|].
    destruct C as [C|C]; [|discriminate].
    rewrite drain_S.
    pose proof (pending_inv _ _ _ _ _ I) as Pe.
    assert (Pe' : pending (w_st w) (w_log w) = Some post).
    { rewrite Pe. destruct (slast (w_st w)); [|reflexivity].
      destruct (Nat.ltb_spec (w_ntrim w) (length (pre ++ mid))); [reflexivity|lia]. }
    clear Pe.
    destruct post as [|e t].
    + (* nothing ahead: the pass returns Nothing and changes nothing *)
      assert (Ew : exec_step w (SIter false false) =
                   mkWorld (w_hist w) (w_ntrim w) (w_st w) (w_deliv w) (w_outs w ++ [Return Nothing]) (w_jumped w)).
      { simpl. unfold next_iter. rewrite E, C, D, Pe'. reflexivity. }
      rewrite Ew.
      set (w' := mkWorld (w_hist w) (w_ntrim w) (w_st w) (w_deliv w) (w_outs w ++ [Return Nothing]) (w_jumped w)).
      assert (I' : inv h pre w' mid []) by (apply (inv_same h pre w); auto).
      destruct (IH h pre w' mid [] I' J A E (or_introl C)) as [G1 G2]; [simpl; lia|].
      split; [exact G1|exact G2].
    + (* the first pending event is passed *)
      pose proof (i_h _ _ _ _ _ I) as Hh.
      assert (Hnt : w_ntrim w < length (pre ++ (mid ++ [e]))).
      { pose proof (i_anchor _ _ _ _ _ I) as Han.
        rewrite app_assoc, app_length; simpl. destruct (slast (w_st w)); lia. }
      assert (Hsplit : mid ++ e :: t = (mid ++ [e]) ++ t) by (rewrite <- app_assoc; reflexivity).
      rewrite Hsplit.
      destruct (in_scope (sh (w_st w)) e) eqn:S.
      * set (st1 := mkS (sh (w_st w)) (Some (eid e)) (false || drops (sh (w_st w)) e) false None
                        (Some (CurEvent e)) (Some (TokEvent (eid e)))).
        assert (Ew : exec_step w (SIter false false) =
                     mkWorld (w_hist w) (w_ntrim w) st1 (w_deliv w ++ [e]) (w_outs w ++ [Return (Event e)]) (w_jumped w)).
        { simpl. unfold next_iter. rewrite E, C, D, Pe', S. reflexivity. }
        rewrite Ew.
        assert (I' : inv h pre (mkWorld (w_hist w) (w_ntrim w) st1 (w_deliv w ++ [e]) (w_outs w ++ [Return (Event e)]) (w_jumped w))
                         (mid ++ [e]) t).
        { apply (inv_progress h pre w mid e t st1 true); auto.
          - rewrite <- Hh; exact S.
          - simpl. rewrite Hh. reflexivity. }
        destruct (IH h pre _ (mid ++ [e]) t I' J Hnt eq_refl (or_introl eq_refl)) as [G1 G2]; [simpl in L; lia|].
        split; [exact G1|exact G2].
      * set (st1 := mkS (sh (w_st w)) (Some (eid e)) false false None (scur (w_st w)) (stok (w_st w))).
        assert (Ew : exec_step w (SIter false false) =
                     mkWorld (w_hist w) (w_ntrim w) st1 (w_deliv w) (w_outs w ++ [Continue]) (w_jumped w)).
        { simpl. unfold next_iter. rewrite E, C, D, Pe', S. reflexivity. }
        rewrite Ew.
        assert (I' : inv h pre (mkWorld (w_hist w) (w_ntrim w) st1 (w_deliv w) (w_outs w ++ [Continue]) (w_jumped w))
                         (mid ++ [e]) t).
        { apply (inv_progress h pre w mid e t st1 false); auto.
          rewrite <- Hh; exact S. }
        destruct (IH h pre _ (mid ++ [e]) t I' J Hnt eq_refl (or_introl eq_refl)) as [G1 G2]; [simpl in L; lia|].
        split; [exact G1|exact G2].
Qed.

(* If no trim removed events while the stream had no reference event, and the
   reference event itself is still retained, then repeated TryNext delivers
   EVERY in-scope event committed after the start position (up to the event
   that invalidates the stream) — for every interleaving before. *)
Theorem delivery_complete_partial : forall h pre w0 post0 script,
  inv h pre w0 [] post0 -> script_ok (w_hist w0) script ->
  let w := exec w0 script in
  w_jumped w = false -> anchor_retained w ->
  serror (w_st w) = None -> (sclosed (w_st w) = false \/ sdropped (w_st w) = true) ->
  forall n, length (w_hist w) <= n ->
  w_deliv (drain n w) = expected h (skipn (length pre) (w_hist w)) /\ w_hist (drain n w) = w_hist w.
Proof.
  intros h pre w0 post0 script I0 Hok w J A E C n L.
  destruct (exec_inv script h pre w0 [] post0 I0 Hok) as (mid & post & I). fold w in I.
  rewrite (inv_after _ _ _ _ _ I).
  apply (drain_complete n h pre w mid post); auto.
  - unfold anchor_retained in A. rewrite (inv_position _ _ _ _ _ I) in A. exact A.
  - rewrite (i_hist _ _ _ _ _ I), !app_length in L. lia.
Qed.

(* ---- Watch: every stream it returns starts in the invariant ---- *)

Definition world0 (hist : list event) (ntrim : nat) (st : sstate) : world :=
  mkWorld hist ntrim st [] [] false.

Definition opt_in (o : option Z) (L : list Z) : Prop :=
  match o with None => True | Some i => In i L end.

Lemma last_event_in : forall l e, last_event l = Some e -> In e l.
Proof.
  induction l as [|x t IH]; simpl; intros e H; [discriminate|].
  destruct t as [|y t']; [inversion H; auto|]. right; apply IH; exact H.
Qed.

Lemma last_event_snoc : forall a e, last_event (a ++ [e]) = Some e.
Proof.
  induction a as [|x t IH]; intros e; [reflexivity|].
  simpl. destruct (t ++ [e]) eqn:E; [destruct t; discriminate|]. rewrite <- E. apply IH.
Qed.

Lemma find_event_in : forall id l e, find_event id l = Some e -> In e l /\ eid e = id.
Proof.
  induction l as [|x t IH]; simpl; intros e H; [discriminate|].
  destruct (Z.eqb_spec (eid x) id) as [E|E].
  - inversion H; subst; auto.
  - destruct (IH _ H); auto.
Qed.

Lemma start_at_in : forall z l prev dflt L,
  opt_in prev L -> opt_in dflt L -> (forall x, In x l -> In (eid x) L) ->
  opt_in (start_at z prev l dflt) L.
Proof.
  induction l as [|e t IH]; simpl; intros prev dflt L Hp Hd Hl; [exact Hd|].
  destruct (Z.leb z (eid e)); [exact Hp|].
  apply IH; simpl; auto.
Qed.

Lemma resolve_token_in : forall t l cur r, resolve_token t l cur = Some r ->
  opt_in cur (ids l) -> opt_in r (ids l).
Proof.
  intros [[id|]|] l cur r; simpl.
  - destruct (find_event id l) as [e|] eqn:F; [|discriminate].
    intros H _; inversion H; subst; simpl. apply find_event_in in F. destruct F as [F _].
    unfold ids; apply in_map; exact F.
  - discriminate.
  - intros H; inversion H; subst; auto.
Qed.

Lemma watch_shape : forall h o log st, watch h o log = Some st ->
  st = mkS h (slast st) false false None None None /\ opt_in (slast st) (ids log).
Proof.
  intros h o log st; unfold watch.
  assert (H0 : opt_in (option_map eid (last_event log)) (ids log)).
  { destruct (last_event log) as [e|] eqn:L; simpl; [|exact Logic.I].
    unfold ids; apply in_map. apply last_event_in; exact L. }
  destruct (resolve_token (w_resume o) log _) as [l1|] eqn:R1; [|discriminate].
  pose proof (resolve_token_in _ _ _ _ R1 H0) as H1.
  destruct (resolve_token (w_after o) log l1) as [l2|] eqn:R2; [|discriminate].
  pose proof (resolve_token_in _ _ _ _ R2 H1) as H2.
  intros H; inversion H; subst; simpl. split; [reflexivity|].
  destruct (w_at o) as [z|]; [|exact H2].
  apply start_at_in; simpl; auto. intros x Hx; unfold ids; apply in_map; exact Hx.
Qed.

Lemma inv_initial : forall h hist ntrim st a b,
  NoDup (ids hist) -> ntrim <= length hist -> sh st = h -> sdropped st = false ->
  hist = a ++ b ->
  (match slast st with
   | None => ntrim = length a
   | Some id => exists A e, a = A ++ [e] /\ eid e = id
   end) ->
  inv h a (world0 hist ntrim st) [] b.
Proof.
  intros h hist ntrim st a b ND Hn Hh Hd Hs Ha.
  constructor; simpl; auto.
  - rewrite app_nil_r. exact Ha.
  - constructor.
  - intros _ rest. rewrite Hd. reflexivity.
Qed.

(* Every stream Engine.Watch returns — from now, resumeAfter, startAfter,
   startAtOperationTime or any combination — starts in the invariant: all the
   theorems of this part apply to it. *)
Theorem watch_inv : forall h o hist ntrim st,
  NoDup (ids hist) -> ntrim <= length hist ->
  watch h o (skipn ntrim hist) = Some st ->
  exists pre post, inv h pre (world0 hist ntrim st) [] post /\ live st /\ sdropped st = false.
Proof.
  intros h o hist ntrim st ND Hn W.
  destruct (watch_shape _ _ _ _ W) as [Est Hin].
  assert (Hh : sh st = h) by (rewrite Est; reflexivity).
  assert (Hd : sdropped st = false) by (rewrite Est; reflexivity).
  assert (Hl : live st) by (rewrite Est; split; reflexivity).
  destruct (slast st) as [id|] eqn:L.
  - simpl in Hin. unfold ids in Hin. apply in_map_iff in Hin. destruct Hin as (e & He & Hine).
    apply in_split in Hine. destruct Hine as (a & b & Hab).
    exists (firstn ntrim hist ++ a ++ [e]), b. split; [|auto].
    apply inv_initial; auto.
    + rewrite <- (firstn_skipn ntrim hist) at 1. rewrite Hab, <- !app_assoc. reflexivity.
    + rewrite L. exists (firstn ntrim hist ++ a), e. rewrite <- app_assoc. auto.
  - exists (firstn ntrim hist), (skipn ntrim hist). split; [|auto].
    apply inv_initial; auto.
    + symmetry; apply firstn_skipn.
    + rewrite L. rewrite firstn_length_le; auto.
Qed.

(* where the three start modes put the stream *)

(* now: after everything committed so far *)
Lemma watch_now_start : forall h hist ntrim, NoDup (ids hist) -> ntrim <= length hist ->
  exists st, watch h watch_now (skipn ntrim hist) = Some st /\
             inv h hist (world0 hist ntrim st) [] [] /\
             (slast st = None <-> ntrim = length hist).
Proof.
  intros h hist ntrim ND Hn.
  destruct (skipn ntrim hist) as [|x t] eqn:S.
  - eexists; split; [reflexivity|]. simpl.
    assert (E : ntrim = length hist).
    { pose proof (skipn_length ntrim hist) as Hl. rewrite S in Hl. simpl in Hl. lia. }
    split; [|tauto]. apply inv_initial; simpl; auto.
    + rewrite app_nil_r; reflexivity.
  - assert (Hne : x :: t <> []) by discriminate.
    destruct (exists_last Hne) as (a & e & Hae).
    exists (mkS h (Some (eid e)) false false None None None). split.
    + unfold watch, watch_now; simpl w_resume; simpl w_after; simpl w_at. rewrite Hae, last_event_snoc. reflexivity.
    + split.
      * apply inv_initial; simpl; auto; [rewrite app_nil_r; reflexivity|].
        exists (firstn ntrim hist ++ a), e. split; [|reflexivity].
        rewrite <- (firstn_skipn ntrim hist) at 1. rewrite S, Hae, <- app_assoc. reflexivity.
      * simpl. split; [discriminate|]. intros E. rewrite E, skipn_all in S. discriminate.
Qed.

(* resumeAfter / startAfter with the token of a retained event e: right after e *)
Lemma watch_resume_start : forall h hist ntrim A e B (after : bool),
  NoDup (ids hist) -> ntrim <= length A -> hist = A ++ e :: B ->
  let o := if after then mkW None (Some (TokEvent (eid e))) None else mkW (Some (TokEvent (eid e))) None None in
  exists st, watch h o (skipn ntrim hist) = Some st /\ slast st = Some (eid e) /\
             inv h (A ++ [e]) (world0 hist ntrim st) [] B.
Proof.
  intros h hist ntrim A e B after ND Hn Hh o.
  assert (F : find_event (eid e) (skipn ntrim hist) = Some e).
  { rewrite Hh, skipn_app. replace (ntrim - length A) with 0 by lia. simpl.
    apply find_event_app; [|reflexivity].
    rewrite Hh, ids_app in ND. simpl in ND. intros C.
    assert (C' : In (eid e) (ids A)).
    { unfold ids in *. apply in_map_iff in C. destruct C as (x & Hx & Hin).
      apply in_map_iff. exists x; split; [exact Hx|eapply in_skipn; exact Hin]. }
    eapply (NoDup_app_disj _ _ _ _ ND C'). left; reflexivity. }
  exists (mkS h (Some (eid e)) false false None None None).
  split; [|split; [reflexivity|]].
  - subst o; destruct after; unfold watch; simpl; rewrite F; reflexivity.
  - apply inv_initial; simpl; auto.
    + rewrite Hh, app_length; simpl; lia.
    + rewrite Hh, <- app_assoc. reflexivity.
    + exists A, e. auto.
Qed.

Lemma start_at_skip : forall z a e b prev dflt,
  (forall x, In x a -> (eid x < z)%Z) -> (z <= eid e)%Z ->
  start_at z prev (a ++ e :: b) dflt = fold_left (fun _ x => Some (eid x)) a prev.
Proof.
  induction a as [|x t IH]; simpl; intros e b prev dflt Ha He.
  - destruct (Z.leb_spec z (eid e)); [reflexivity|lia].
  - destruct (Z.leb_spec z (eid x)); [specialize (Ha x (or_introl eq_refl)); lia|].
    apply IH; auto.
Qed.

(* startAtOperationTime z: right before the first retained event at or after z;
   when that is the first retained event the stream has no reference event *)
Lemma watch_at_start : forall h hist ntrim z a e b,
  NoDup (ids hist) -> ntrim <= length hist -> skipn ntrim hist = a ++ e :: b ->
  (forall x, In x a -> (eid x < z)%Z) -> (z <= eid e)%Z ->
  exists st, watch h (mkW None None (Some z)) (skipn ntrim hist) = Some st /\
             inv h (firstn ntrim hist ++ a) (world0 hist ntrim st) [] (e :: b) /\
             (slast st = None <-> a = []).
Proof.
  intros h hist ntrim z a e b ND Hn S Ha He.
  exists (mkS h (fold_left (fun _ x => Some (eid x)) a None) false false None None None).
  split; [|split].
  - unfold watch; simpl. rewrite S, start_at_skip; auto.
  - apply inv_initial; simpl; auto.
    + rewrite <- (firstn_skipn ntrim hist) at 1. rewrite S, <- app_assoc. reflexivity.
    + destruct a as [|x t] using rev_ind; simpl.
      * rewrite app_nil_r. rewrite firstn_length_le; auto.
      * rewrite fold_left_app. simpl. exists (firstn ntrim hist ++ t), x. rewrite app_assoc. auto.
  - simpl. destruct a as [|x t] using rev_ind; simpl; [tauto|].
    rewrite fold_left_app; simpl. split; [discriminate|]. intros C; destruct t; discriminate.
Qed.

(* ---- resume ---- *)

Lemma token_after_event : forall b c s log s' e,
  next_iter b c s log = (s', Return (Event e)) -> stok s' = Some (TokEvent (eid e)).
Proof.
  intros b c s log s' e; unfold next_iter.
  destruct (is_some (serror s) || sclosed s); [discriminate|].
  destruct (sdropped s); [discriminate|].
  destruct (pending s log) as [[|x t]|]; try discriminate.
  - destruct b; [discriminate|]. destruct c; discriminate.
  - destruct (in_scope (sh s) x); [|discriminate]. intros H; inversion H; subst; reflexivity.
Qed.

(* Watch with resumeAfter = the token of an event e that a stream has delivered
   (any earlier interleaving) and that is still retained: the new stream — of
   any scope — is positioned right after e and holds e as reference event, so
   delivery_anchored / delivery_complete_partial / lost_is_reported_partial
   apply to it with "after" = the events committed after e: it continues with
   the next event. *)
Theorem resume_continues : forall h h' pre w0 post0 script e,
  inv h pre w0 [] post0 -> script_ok (w_hist w0) script ->
  let w := exec w0 script in
  In e (w_deliv w) -> In e (w_log w) ->
  exists st' A B,
    w_hist w = A ++ e :: B /\
    watch h' (mkW (Some (TokEvent (eid e))) None None) (w_log w) = Some st' /\
    slast st' = Some (eid e) /\
    inv h' (A ++ [e]) (world0 (w_hist w) (w_ntrim w) st') [] B.
Proof.
  intros h h' pre w0 post0 script e I0 Hok w _ Hlog.
  destruct (exec_inv script h pre w0 [] post0 I0 Hok) as (mid & post & I). fold w in I.
  unfold w_log in Hlog. apply in_split in Hlog. destruct Hlog as (a & b & Hab).
  assert (Hh : w_hist w = (firstn (w_ntrim w) (w_hist w) ++ a) ++ e :: b).
  { rewrite <- (firstn_skipn (w_ntrim w) (w_hist w)) at 1. rewrite Hab, <- app_assoc. reflexivity. }
  destruct (watch_resume_start h' (w_hist w) (w_ntrim w) (firstn (w_ntrim w) (w_hist w) ++ a) e b false
              (i_nodup _ _ _ _ _ I)) as (st' & W & L & I'); [|exact Hh|].
  { rewrite app_length, firstn_length_le; [lia|exact (i_ntrim _ _ _ _ _ I)]. }
  exists st', (firstn (w_ntrim w) (w_hist w) ++ a), b. auto.
Qed.

(* ... and therefore: whatever happens next, what the resumed stream returns
   is a gap-free prefix of the in-scope events committed after e *)
Corollary resume_continues_delivery : forall h' hist ntrim st' A e B script,
  inv h' (A ++ [e]) (world0 hist ntrim st') [] B -> slast st' = Some (eid e) ->
  script_ok hist script ->
  let w := exec (world0 hist ntrim st') script in
  prefix (w_deliv w) (expected h' (skipn (length (A ++ [e])) (w_hist w))).
Proof.
  intros h' hist ntrim st' A e B script I L Hok w.
  apply (delivery_anchored h' (A ++ [e]) (world0 hist ntrim st') B script); auto.
  simpl. rewrite L. discriminate.
Qed.

(* ---- invalidate ---- *)

(* After delivering an event that drops the stream's namespace (drops_coll /
   drops_db: the drop of its collection or the dropDatabase of its database)
   the next call returns the invalidate event and closes the stream; every
   later call returns Closed. *)
Theorem invalidate_after_drop : forall b c s log s' e,
  next_iter b c s log = (s', Return (Event e)) -> drops (sh s) e = true ->
  forall b' c' log',
  exists s'', next_iter b' c' s' log' = (s'', Return Invalidate) /\
              sclosed s'' = true /\ stok s'' = Some TokInvalidate /\
              forall b'' c'' log'', next_iter b'' c'' s'' log'' = (s'', Return Closed).
Proof.
  intros b c s log s' e H D b' c' log'. unfold next_iter in H.
  destruct (is_some (serror s) || sclosed s) eqn:V; [discriminate|].
  destruct (sdropped s) eqn:Dr; [discriminate|].
  destruct (pending s log) as [[|x t]|]; try discriminate.
  - destruct b; [discriminate|]. destruct c; discriminate.
  - destruct (in_scope (sh s) x); [|discriminate]. inversion H; subst; clear H.
    eexists. split; [|split; [|split]].
    + unfold next_iter; simpl. rewrite V, D. simpl. reflexivity.
    + reflexivity.
    + reflexivity.
    + intros b'' c'' log''. unfold next_iter; simpl. rewrite orb_true_r. reflexivity.
Qed.

(* the invalidate event comes only after such a drop: a stream that has not
   delivered a dropping event never returns Invalidate *)
Lemma invalidate_only_after_drop : forall b c s log s',
  next_iter b c s log = (s', Return Invalidate) -> sdropped s = true.
Proof.
  intros b c s log s'; unfold next_iter.
  destruct (is_some (serror s) || sclosed s); [discriminate|].
  destruct (sdropped s); [reflexivity|].
  destruct (pending s log) as [[|x t]|]; try discriminate.
  - destruct b; [discriminate|]. destruct c; discriminate.
  - destruct (in_scope (sh s) x); discriminate.
Qed.

(* ---- the two places where the faithful model of the CURRENT code fails the
        full statements: witnesses (findings), by computation ---- *)

Definition ev0 : event := mkEvent 0 "d" "c" OpInsert.
Definition ev1 : event := mkEvent 1 "d" "c" OpInsert.
Definition hcoll : handle := ("d"%string, "c"%string).

(* FULL STATEMENT (false of the current code):
     forall streams and interleavings, if retention removed an event the
     stream has not passed, the next pass reports Lost.
   Witness 1: a stream opened on an EMPTY oplog (s.last = nil).  Two inserts
   are committed, retention removes the first, TryNext returns the second:
   event 0 is in scope, was committed after the start, is never delivered, and
   no error is reported. *)
Definition skip_script : list sstep :=
  [SCommit [ev0; ev1]; STrim 1; SIter false false; SIter false false].

Theorem lost_is_reported_refuted :
  exists h st0 script,
    watch h watch_now [] = Some st0 /\ script_ok [] script /\
    let w := exec (world0 [] 0 st0) script in
    (* an in-scope event committed after the start was discarded before delivery *)
    (exists e, In e (w_hist w) /\ in_scope h e = true /\ ~ In e (w_deliv w) /\ ~ In e (w_log w)) /\
    (* no pass reported Lost, the stream is alive and reports "nothing more" *)
    ~ In (Return Lost) (w_outs w) /\ serror (w_st w) = None /\ sclosed (w_st w) = false /\
    (* what it delivered skips that event: not a prefix of the expected sequence *)
    w_deliv w = [ev1] /\ expected h (w_hist w) = [ev0; ev1] /\
    ~ prefix (w_deliv w) (expected h (w_hist w)).
Proof.
  exists hcoll, (mkS hcoll None false false None None None), skip_script.
  split; [reflexivity|]. split.
  - simpl. split; [|exact Logic.I]. repeat constructor; simpl; intuition discriminate.
  - vm_compute. repeat split.
    + exists ev0. repeat split; [left; reflexivity| |]; unfold ev0, ev1; intuition discriminate.
    + intuition discriminate.
    + intros [c H]. discriminate.
Qed.

(* Witness 2: startAtOperationTime at (or before) the first retained event also
   leaves s.last = nil *)
Theorem lost_is_reported_refuted_start_at :
  exists h st0 script,
    watch h (mkW None None (Some 0%Z)) [ev0; ev1] = Some st0 /\ slast st0 = None /\
    let w := exec (world0 [ev0; ev1] 0 st0) script in
    script_ok [ev0; ev1] script /\
    ~ In (Return Lost) (w_outs w) /\ w_deliv w = [ev1] /\
    ~ prefix (w_deliv w) (expected h (w_hist w)).
Proof.
  exists hcoll, (mkS hcoll None false false None None None), [STrim 1; SIter false false; SIter false false].
  split; [reflexivity|]. split; [reflexivity|]. vm_compute. repeat split.
  - intuition discriminate.
  - intros [c H]. discriminate.
Qed.

(* FULL STATEMENT (false of the current code):
     if no trim removed an event the stream has not passed (position <= ntrim is
     allowed to be an equality: only passed events were removed), repeated
     TryNext delivers every in-scope event after the start.
   Witness: the stream's reference event (already behind it) is removed while
   the next event is retained: Lost although nothing undelivered was discarded. *)
Theorem delivery_complete_refuted :
  exists h st0 script,
    watch h watch_now [ev0] = Some st0 /\ script_ok [ev0] script /\
    let w := exec (world0 [ev0] 0 st0) script in
    w_jumped w = false /\
    w_ntrim w <= position w /\                       (* nothing beyond the stream's position was removed *)
    In ev1 (w_log w) /\ in_scope h ev1 = true /\      (* the undelivered event is retained *)
    (forall n, w_deliv (drain (S n) w) = []) /\       (* yet it is never delivered *)
    expected h (skipn 1 (w_hist w)) = [ev1] /\
    snd (next_iter false false (w_st w) (w_log w)) = Return Lost.
Proof.
  exists hcoll, (mkS hcoll (Some 0%Z) false false None None None), [SCommit [ev1]; STrim 1].
  split; [reflexivity|]. split.
  - simpl. split; [|exact Logic.I]. repeat constructor; simpl; intuition discriminate.
  - cbv zeta.
    split; [reflexivity|]. split; [vm_compute; lia|]. split; [vm_compute; auto|].
    split; [reflexivity|]. split; [|split; reflexivity].
    intros n. rewrite drain_S.
    set (w1 := exec_step _ (SIter false false)).
    assert (H : w_deliv w1 = [] /\ sclosed (w_st w1) = true) by (vm_compute; auto).
    destruct H as [H1 H2]. clearbody w1. revert w1 H1 H2.
    induction n as [|n IH]; intros w1 H1 H2; [exact H1|].
    rewrite drain_S. apply IH.
    + simpl. unfold next_iter. rewrite H2, orb_true_r. simpl. exact H1.
    + simpl. unfold next_iter. rewrite H2, orb_true_r. simpl. exact H2.
Qed.

(* ================================================================== *)
(* Part 3 — the concurrent model: no lost wake-up                      *)

Inductive reachable (s0 : cstate) : cstate -> Prop :=
| reach_init : reachable s0 s0
| reach_step : forall s l s', reachable s0 s -> cstep l s = Some s' -> reachable s0 s'.

Definition initial (s : cstate) : Prop := exists log st writers, s = cinit log st writers.

Definition consumer_waiting (s : cstate) : Prop := c_cons s = CParked.
Definition signal_full (s : cstate) : Prop := c_sig s = true.
(* a committer has replaced the catalog and has not yet done its broadcast,
   and the stream is in e.streams: its non-blocking send is still to come *)
Definition committer_about_to_signal (s : cstate) : Prop :=
  c_reg s = true /\ existsb is_published (c_writers s) = true.
Definition closer_about_to_signal (s : cstate) : Prop := c_closer s = KMarked.

(* a fresh pass of the loop would park again: nothing to do *)
Definition quiescent (s : cstate) : Prop := snd (next_iter true false (c_st s) (c_log s)) = Park.

(* the stream is open and an event of its scope lies ahead of it in the oplog *)
Definition undelivered_matching (s : cstate) : Prop :=
  sclosed (c_st s) = false /\
  exists e p, pending (c_st s) (c_log s) = Some p /\ In e p /\ in_scope (sh (c_st s)) e = true.

Record cinv (s : cstate) : Prop := mkCinv {
  k_reg : c_reg s = false -> sclosed (c_st s) = true;
  k_marked : c_closer s = KMarked -> sclosed (c_st s) = true;
  k_chan : c_chclosed s = true -> sclosed (c_st s) = true;
  k_wake : c_cons s = CParked ->
           quiescent s \/ signal_full s \/ c_chclosed s = true \/
           committer_about_to_signal s \/ closer_about_to_signal s
}.

Lemma next_iter_block_ctx : forall c s log, next_iter true c s log = next_iter true false s log.
Proof.
  intros c s log; unfold next_iter.
  destruct (is_some (serror s) || sclosed s); [reflexivity|].
  destruct (sdropped s); [reflexivity|].
  destruct (pending s log) as [[|e t]|]; reflexivity.
Qed.

Lemma next_iter_park : forall b c s log s', next_iter b c s log = (s', Park) -> b = true /\ s' = s.
Proof.
  intros b c s log s'; unfold next_iter.
  destruct (is_some (serror s) || sclosed s); [discriminate|].
  destruct (sdropped s); [discriminate|].
  destruct (pending s log) as [[|e t]|]; try discriminate.
  - destruct b; [intros H; inversion H; auto|]. destruct c; discriminate.
  - destruct (in_scope (sh s) e); discriminate.
Qed.

Lemma next_iter_closed_mono : forall b c s log, sclosed s = true -> sclosed (fst (next_iter b c s log)) = true.
Proof.
  intros b c s log H; unfold next_iter. rewrite H, orb_true_r. exact H.
Qed.

Lemma next_iter_closes : forall b c s log s' o, next_iter b c s log = (s', Return o) ->
  (o = Invalidate \/ o = Lost) -> sclosed s' = true.
Proof.
  intros b c s log s' o; unfold next_iter.
  destruct (is_some (serror s) || sclosed s); [intros H [E|E]; inversion H; subst; discriminate|].
  destruct (sdropped s); [intros H _; inversion H; reflexivity|].
  destruct (pending s log) as [[|e t]|].
  - destruct b; [discriminate|]. destruct c; intros H [E|E]; inversion H; subst; discriminate.
  - destruct (in_scope (sh s) e); [|discriminate]. intros H [E|E]; inversion H; subst; discriminate.
  - intros H _; inversion H; reflexivity.
Qed.

Lemma closed_not_quiescent : forall c s log, sclosed s = true -> snd (next_iter true c s log) <> Park.
Proof. intros c s log H; unfold next_iter. rewrite H, orb_true_r. discriminate. Qed.

Lemma existsb_set_nth_published : forall ws i w, nth_error ws i = Some w ->
  existsb is_published (set_nth i WPublished ws) = true.
Proof.
  induction ws as [|x t IH]; intros [|i] w H; simpl in *; try discriminate.
  - reflexivity.
  - rewrite (IH _ _ H). apply orb_true_r.
Qed.

Lemma existsb_published_nth : forall ws, existsb is_published ws = true ->
  exists i, nth_error ws i = Some WPublished.
Proof.
  induction ws as [|x t IH]; simpl; intros H; [discriminate|].
  destruct x; simpl in H; try (destruct (IH H) as [i Hi]; exists (S i); exact Hi).
  exists 0; reflexivity.
Qed.

Lemma cinv_initial : forall s, initial s -> cinv s.
Proof.
  intros s (log & st & ws & ->). constructor; simpl; try discriminate.
Qed.

Lemma cinv_step : forall l s s', cinv s -> cstep l s = Some s' -> cinv s'.
Proof.
  intros l s s' [K1 K2 K3 KW] H. destruct l; simpl in H.
  - (* LCall *)
    destruct (c_cons s); inversion H; subst; clear H. constructor; simpl; auto; discriminate.
  - (* LCheck *)
    destruct (c_cons s) as [|b| |o] eqn:Ec; try discriminate.
    destruct (next_iter b (c_ctx s) (c_st s) (c_log s)) as [st' [o| |]] eqn:N; inversion H; subst; clear H.
    + pose proof (next_iter_closed_mono b (c_ctx s) (c_st s) (c_log s)) as M. rewrite N in M. simpl in M.
      constructor; simpl; auto; try discriminate.
      destruct o; auto; intros _; eapply next_iter_closes; eauto.
    + pose proof (next_iter_closed_mono b (c_ctx s) (c_st s) (c_log s)) as M. rewrite N in M. simpl in M.
      constructor; simpl; auto; discriminate.
    + destruct (next_iter_park _ _ _ _ _ N) as [-> ->].
      constructor; simpl; auto. intros _. left. unfold quiescent; simpl.
      rewrite <- (next_iter_block_ctx (c_ctx s)), N. reflexivity.
  - (* LWake *)
    destruct (c_cons s); try discriminate.
    destruct (c_sig s).
    + inversion H; subst; clear H. constructor; simpl; auto; discriminate.
    + destruct (c_chclosed s); inversion H; subst; clear H. constructor; simpl; auto; discriminate.
  - (* LWakeCtx *)
    destruct (c_cons s); try discriminate. destruct (c_ctx s); inversion H; subst; clear H.
    assert (E : sclosed (wake_ctx (c_st s)) = sclosed (c_st s)).
    { unfold wake_ctx; destruct (serror (c_st s)); reflexivity. }
    constructor; simpl; rewrite ?E; auto; discriminate.
  - (* LReturn *)
    destruct (c_cons s); inversion H; subst; clear H. constructor; simpl; auto; discriminate.
  - (* LPublish *)
    destruct (c_alive s && negb (existsb is_published (c_writers s))) eqn:G; [|discriminate].
    apply andb_prop in G; destruct G as [_ G]. apply negb_true_iff in G.
    destruct (nth_error (c_writers s) i) as [[evs k| |]|] eqn:Nw; inversion H; subst; clear H.
    constructor; simpl; auto. intros P. specialize (KW P).
    destruct (c_reg s) eqn:R.
    + right; right; right; left. split; [simpl; auto|]. simpl. eapply existsb_set_nth_published; eauto.
    + specialize (K1 eq_refl). destruct KW as [Q|[Q|[Q|[[Q _]|Q]]]].
      * exfalso. eapply closed_not_quiescent; [exact K1|exact Q].
      * right; left; exact Q.
      * right; right; left; exact Q.
      * unfold committer_about_to_signal in *; congruence.
      * right; right; right; right; exact Q.
  - (* LSignal *)
    destruct (nth_error (c_writers s) i) as [[evs k| |]|] eqn:Nw; inversion H; subst; clear H.
    constructor; simpl; auto. intros P. specialize (KW P).
    destruct KW as [Q|[Q|[Q|[[Q _]|Q]]]].
    + left; exact Q.
    + right; left. unfold signal_full in *; simpl. rewrite Q; reflexivity.
    + right; right; left; exact Q.
    + right; left. unfold signal_full; simpl. rewrite Q. apply orb_true_r.
    + right; right; right; right; exact Q.
  - (* LCloseMark *)
    destruct (c_closer s) eqn:Ek; try discriminate.
    destruct (sclosed (c_st s)) eqn:Ecl; inversion H; subst; clear H.
    + constructor; simpl; auto; try discriminate.
      intros P. destruct (KW P) as [Q|[Q|[Q|[Q|Q]]]].
      * left; exact Q.
      * right; left; exact Q.
      * right; right; left; exact Q.
      * right; right; right; left; exact Q.
      * unfold closer_about_to_signal in Q. congruence.
    + assert (E : sclosed (close_stream (c_st s)) = true).
      { unfold close_stream. rewrite Ecl. reflexivity. }
      constructor; simpl; auto. intros _. right; right; right; right. reflexivity.
  - (* LCloseSend *)
    destruct (c_closer s) eqn:Ek; inversion H; subst; clear H.
    constructor; simpl; auto; try discriminate. intros _. right; left. reflexivity.
  - (* LCancel *)
    inversion H; subst; clear H. constructor; simpl; auto.
  - (* LEngineClose *)
    destruct (c_alive s && negb (existsb is_published (c_writers s)) && negb (is_marked (c_closer s))); [|discriminate].
    destruct (c_reg s && negb (sclosed (c_st s))); inversion H; subst; clear H.
    + constructor; simpl; auto.
    + constructor; simpl; auto.
Qed.

Lemma cinv_reachable : forall s0 s, initial s0 -> reachable s0 s -> cinv s.
Proof.
  intros s0 s Hi R; induction R.
  - apply cinv_initial; exact Hi.
  - eapply cinv_step; eauto.
Qed.

Lemma matching_not_quiescent : forall s, undelivered_matching s -> ~ quiescent s.
Proof.
  intros s (_ & e & p & P & Hin & _) Q. unfold quiescent, next_iter in Q.
  destruct (is_some (serror (c_st s)) || sclosed (c_st s)); [discriminate|].
  destruct (sdropped (c_st s)); [discriminate|].
  rewrite P in Q. destruct p as [|x t]; [contradiction|].
  destruct (in_scope (sh (c_st s)) x); discriminate.
Qed.

(* THE WAKE-UP INVARIANT.  In every reachable state of the concurrent model
   (any number of committers, Close, cancellation, Engine.Close, in any
   interleaving of their atomic steps): if the consumer is parked in the
   `select` while an event of its scope lies ahead of it in the published
   oplog, then the signal buffer is full or a committer that has published is
   still going to do its (non-blocking) send. *)
Theorem no_lost_wakeup : forall s0 s, initial s0 -> reachable s0 s ->
  consumer_waiting s -> undelivered_matching s ->
  signal_full s \/ committer_about_to_signal s.
Proof.
  intros s0 s Hi R W U. pose proof (cinv_reachable _ _ Hi R) as [K1 K2 K3 KW].
  destruct U as [Hop U']. assert (U : undelivered_matching s) by (split; assumption).
  destruct (KW W) as [Q|[Q|[Q|[Q|Q]]]]; auto.
  - exfalso; eapply matching_not_quiescent; eauto.
  - specialize (K3 Q). congruence.
  - specialize (K2 Q). congruence.
Qed.

(* the same for every reason to wake up: a parked consumer whose fresh pass
   would not park again always has a wake-up pending *)
Theorem no_lost_wakeup_general : forall s0 s, initial s0 -> reachable s0 s ->
  consumer_waiting s -> ~ quiescent s ->
  signal_full s \/ c_chclosed s = true \/ committer_about_to_signal s \/ closer_about_to_signal s.
Proof.
  intros s0 s Hi R W NQ. pose proof (cinv_reachable _ _ Hi R) as [K1 K2 K3 KW].
  destruct (KW W) as [Q|Q]; [contradiction|exact Q].
Qed.

(* the `select` of the parked consumer has a ready case *)
Definition wake_enabled (s : cstate) : Prop :=
  exists s', cstep LWake s = Some s' \/ cstep LWakeCtx s = Some s'.

Definition is_send (l : label) : Prop := (exists i, l = LSignal i) \/ l = LCloseSend.

Definition wake_reason (s : cstate) : Prop :=
  undelivered_matching s \/          (* a matching commit has been published *)
  sclosed (c_st s) = true \/         (* Stream.Close / Engine.Close / invalidation closed the stream *)
  c_ctx s = true.                    (* the context is cancelled *)

(* "Without stalls", as enabledness: a blocked consumer with a reason to wake
   can leave the select now, or the one pending non-blocking send — a step that
   is always enabled — makes it so. *)
Theorem waiting_consumer_enabled : forall s0 s, initial s0 -> reachable s0 s ->
  consumer_waiting s -> wake_reason s ->
  wake_enabled s \/
  exists l s1, is_send l /\ cstep l s = Some s1 /\ wake_enabled s1.
Proof.
  intros s0 s Hi R W Why. unfold consumer_waiting in W.
  destruct (c_ctx s) eqn:Cx.
  { left. eexists. right. simpl. rewrite W, Cx. reflexivity. }
  assert (NQ : ~ quiescent s).
  { destruct Why as [U|[C|C]]; [apply matching_not_quiescent; exact U| |congruence].
    intros Q. eapply closed_not_quiescent; [exact C|exact Q]. }
  destruct (no_lost_wakeup_general _ _ Hi R W NQ) as [Q|[Q|[[Q1 Q2]|Q]]].
  - left. eexists. left. simpl. rewrite W. unfold signal_full in Q. rewrite Q. reflexivity.
  - left. destruct (c_sig s) eqn:Sg; eexists; left; simpl; rewrite W, Sg, ?Q; reflexivity.
  - right. destruct (existsb_published_nth _ Q2) as [i Hi'].
    eexists (LSignal i), _. split; [left; exists i; reflexivity|]. split.
    + simpl. rewrite Hi'. reflexivity.
    + eexists. left. simpl. rewrite W, Q1, orb_true_r. reflexivity.
  - right. eexists LCloseSend, _. split; [right; reflexivity|]. split.
    + simpl. unfold closer_about_to_signal in Q. rewrite Q. reflexivity.
    + eexists. left. simpl. rewrite W. reflexivity.
Qed.

(* a ready wake-up stays ready until the consumer takes it: no other actor's
   step disables it *)
Theorem wake_enabled_stable : forall l s s', cstep l s = Some s' ->
  l <> LWake -> l <> LWakeCtx -> wake_enabled s -> wake_enabled s'.
Proof.
  intros l s s' H N1 N2 [s1 E].
  assert (P : c_cons s = CParked).
  { destruct E as [E|E]; simpl in E; destruct (c_cons s); try discriminate; reflexivity. }
  assert (R : c_sig s = true \/ (c_sig s = false /\ c_chclosed s = true) \/ c_ctx s = true).
  { destruct E as [E|E]; simpl in E; rewrite P in E.
    - destruct (c_sig s); auto. destruct (c_chclosed s); [auto|discriminate].
    - destruct (c_ctx s); [auto|discriminate]. }
  assert (G : c_cons s' = CParked /\ (c_sig s' = true \/ c_chclosed s' = true \/ c_ctx s' = true)).
  { destruct l; simpl in H; try congruence; rewrite ?P in H; try discriminate.
    - destruct (c_alive s && negb (existsb is_published (c_writers s))); [|discriminate].
      destruct (nth_error (c_writers s) i) as [[evs k| |]|]; inversion H; subst; simpl. intuition.
    - destruct (nth_error (c_writers s) i) as [[evs k| |]|]; inversion H; subst; simpl.
      split; [simpl; auto|]. destruct R as [R|[[_ R]|R]]; rewrite ?R; auto.
    - destruct (c_closer s); try discriminate.
      destruct (sclosed (c_st s)); inversion H; subst; simpl; intuition.
    - destruct (c_closer s); inversion H; subst; simpl; auto.
    - inversion H; subst; simpl; auto.
    - destruct (c_alive s && negb (existsb is_published (c_writers s)) && negb (is_marked (c_closer s))); [|discriminate].
      destruct (c_reg s && negb (sclosed (c_st s))); inversion H; subst; simpl; intuition. }
  destruct G as [P' R']. unfold wake_enabled; simpl. rewrite P'.
  destruct (c_sig s'); [eexists; left; reflexivity|].
  destruct (c_chclosed s'); [eexists; left; reflexivity|].
  destruct (c_ctx s'); [eexists; right; reflexivity|].
  destruct R' as [R'|[R'|R']]; discriminate.
Qed.

(* woken by the next commit: the two steps of any committer leave a parked
   consumer of a registered stream with a full signal buffer *)
Corollary commit_wakes : forall s i s1 s2,
  consumer_waiting s -> c_reg s = true ->
  cstep (LPublish i) s = Some s1 -> cstep (LSignal i) s1 = Some s2 ->
  exists s3, cstep LWake s2 = Some s3 /\ c_cons s3 = CRunning true.
Proof.
  intros s i s1 s2 W Rg H1 H2. unfold consumer_waiting in W. simpl in H1, H2.
  destruct (c_alive s && negb (existsb is_published (c_writers s))); [|discriminate].
  destruct (nth_error (c_writers s) i) as [[evs k| |]|]; inversion H1; subst; clear H1. simpl in H2.
  destruct (nth_error (set_nth i WPublished (c_writers s)) i) as [[evs' k'| |]|]; inversion H2; subst; clear H2.
  simpl. rewrite W, Rg, orb_true_r. eexists; split; reflexivity.
Qed.

(* ================================================================== *)
(* Part 4 — non-vacuity: concrete instances that meet the hypotheses   *)

Definition ev2 : event := mkEvent 2 "d" "k" OpInsert.
Definition ev3 : event := mkEvent 3 "d" "c" OpDrop.
Definition ev4 : event := mkEvent 4 "d" "c" OpInsert.
Definition st_after0 : sstate := mkS hcoll (Some 0%Z) false false None None None.
Definition w_ex : world := world0 [ev0] 0 st_after0.

Lemma ex_start : watch hcoll watch_now [ev0] = Some st_after0 /\ inv hcoll [ev0] w_ex [] [].
Proof.
  split; [reflexivity|]. apply inv_initial; simpl; auto.
  - repeat constructor; simpl; intuition discriminate.
  - exists [], ev0. auto.
Qed.

Definition script_ex : list sstep :=
  [SCommit [ev1; ev2]; SIter true false; SCommit [ev3; ev4]; SIter false false; SIter false false;
   SIter false false; SIter false false; SIter false false].

Lemma script_ex_ok : script_ok (w_hist w_ex) script_ex.
Proof.
  simpl. repeat split; repeat constructor; simpl; intuition discriminate.
Qed.

(* delivery: a collection stream started after event 0 sees 1, skips 2 (other
   collection), delivers the drop 3, is invalidated and never delivers 4 *)
Lemma ex_delivery :
  w_deliv (exec w_ex script_ex) = [ev1; ev3] /\
  expected hcoll (skipn 1 (w_hist (exec w_ex script_ex))) = [ev1; ev3] /\
  w_outs (exec w_ex script_ex) =
    [Return (Event ev1); Continue; Return (Event ev3); Return Invalidate; Return Closed; Return Closed] /\
  w_jumped (exec w_ex script_ex) = false.
Proof. vm_compute. auto. Qed.

(* lost: the anchored stream falls behind retention *)
Definition script_lost : list sstep := [SCommit [ev1; ev2]; STrim 2].
Lemma ex_lost :
  script_ok (w_hist w_ex) script_lost /\ slast (w_st w_ex) <> None /\
  let w := exec w_ex script_lost in
  live (w_st w) /\ sdropped (w_st w) = false /\ position w < w_ntrim w /\
  snd (next_iter false false (w_st w) (w_log w)) = Return Lost.
Proof.
  split; [simpl; repeat split; repeat constructor; simpl; intuition discriminate|].
  split; [discriminate|]. vm_compute. repeat split; auto.
Qed.

(* completeness: retention removed only events strictly behind the reference event *)
Definition script_complete : list sstep := [SCommit [ev1; ev2]; SIter false false; STrim 1; SCommit [ev4]].
Lemma ex_complete :
  script_ok (w_hist w_ex) script_complete /\
  let w := exec w_ex script_complete in
  w_jumped w = false /\ anchor_retained w /\ serror (w_st w) = None /\ sclosed (w_st w) = false /\
  w_deliv w = [ev1] /\ w_deliv (drain 4 w) = [ev1; ev4] /\
  expected hcoll (skipn 1 (w_hist w)) = [ev1; ev4].
Proof.
  split; [simpl; repeat split; repeat constructor; simpl; intuition discriminate|].
  vm_compute. repeat split; auto.
Qed.

(* resume: a database stream resumed from the token of delivered event 1 *)
Lemma ex_resume :
  let w := exec w_ex script_complete in
  In ev1 (w_deliv w) /\ In ev1 (w_log w) /\
  exists st', watch ("d"%string, ""%string) (mkW (Some (TokEvent 1%Z)) None None) (w_log w) = Some st' /\
              snd (next st' (w_log w)) = Ok (Event ev2).
Proof. vm_compute. repeat split; auto. eexists; split; reflexivity. Qed.

(* invalidate *)
Lemma ex_invalidate :
  exists s', next_iter false false (mkS hcoll (Some 2%Z) false false None None None) [ev2; ev3; ev4]
             = (s', Return (Event ev3)) /\ drops hcoll ev3 = true.
Proof. eexists; split; reflexivity. Qed.

(* concurrent: the window between the consumer's unlock and its select *)
Definition c_ex0 : cstate := cinit [ev0] st_after0 [([ev1], 0)].

(* check finds nothing -> (unlock) -> commit publishes -> consumer is parked
   with a matching event ahead and an empty buffer: the committer's send is pending *)
Lemma ex_window :
  exists s, crun [LCall true; LCheck; LPublish 0] c_ex0 = Some s /\
            consumer_waiting s /\ undelivered_matching s /\ c_sig s = false /\
            committer_about_to_signal s.
Proof.
  eexists; split; [vm_compute; reflexivity|]. unfold consumer_waiting, undelivered_matching, committer_about_to_signal.
  simpl. repeat split; auto. exists ev1, [ev1]. repeat split; auto. left; reflexivity.
Qed.

(* ... the send fills the buffer, the select fires, the next pass delivers *)
Lemma ex_wakeup :
  exists s, crun [LCall true; LCheck; LPublish 0; LSignal 0; LWake; LCheck] c_ex0 = Some s /\
            c_cons s = CDone (Event ev1) /\ c_sig s = false.
Proof. eexists; split; [vm_compute; reflexivity|]. split; reflexivity. Qed.

(* the signal arrives BEFORE the consumer reaches the select: it is buffered *)
Lemma ex_signal_before_select :
  exists s, crun [LCall true; LPublish 0; LSignal 0; LCheck; LReturn; LCall true; LCheck; LWake; LCheck] c_ex0 = Some s /\
            c_cons s = CParked /\ c_sig s = false /\ quiescent s.
Proof. eexists; split; [vm_compute; reflexivity|]. repeat split. Qed.

(* Close, cancellation and Engine.Close wake a parked consumer *)
Lemma ex_close_wakes :
  (exists s, crun [LCall true; LCheck; LCloseMark; LCloseSend; LWake; LCheck] c_ex0 = Some s /\ c_cons s = CDone Closed) /\
  (exists s, crun [LCall true; LCheck; LCancel; LWakeCtx] c_ex0 = Some s /\ c_cons s = CDone Closed /\ serror (c_st s) = Some ECtx) /\
  (exists s, crun [LCall true; LCheck; LEngineClose; LWake] c_ex0 = Some s /\ c_cons s = CDone Closed /\ sclosed (c_st s) = true).
Proof.
  split; [|split]; eexists; (split; [vm_compute; reflexivity|]); repeat split.
Qed.

Lemma reachable_crun : forall ls s0 s, crun ls s0 = Some s -> forall r, reachable r s0 -> reachable r s.
Proof.
  induction ls as [|l t IH]; simpl; intros s0 s H r R.
  - inversion H; subst; exact R.
  - destruct (cstep l s0) as [s1|] eqn:E; [|discriminate].
    eapply IH; [exact H|]. econstructor; eauto.
Qed.

Lemma ex_window_reachable :
  exists s, initial c_ex0 /\ reachable c_ex0 s /\ consumer_waiting s /\ undelivered_matching s.
Proof.
  destruct ex_window as (s & H & W & U & _).
  exists s. split; [eexists _, _, _; reflexivity|]. split; [|auto].
  eapply reachable_crun; [exact H|constructor].
Qed.
