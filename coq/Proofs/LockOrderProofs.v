(* LockOrderProofs.v — soundness of the acyclicity check and the generic
   ordered-locking theorem: if every thread only waits for a mutex whose
   class comes after the classes of all mutexes it holds in an acyclic
   "acquired while holding" graph, there is no wait-for cycle. *)
From Coq Require Import List Arith Lia Bool String Relations.
From Lungo.Model Require Import Base LockOrder.
Import ListNotations.
Local Open Scope list_scope.

Definition rank (order : list string) (c : string) : nat :=
  match index_of c order with Some i => i | None => 0 end.

Lemma edge_forward_rank : forall order a b,
  edge_forward order (a, b) = true -> rank order a < rank order b.
Proof.
  unfold edge_forward, rank. simpl. intros order a b H.
  destruct (index_of a order); try discriminate. destruct (index_of b order); try discriminate.
  apply Nat.ltb_lt in H. exact H.
Qed.

Lemma acyclic_rank : forall es a b,
  acyclic es = true -> In (a, b) es -> rank (topo_order es) a < rank (topo_order es) b.
Proof.
  unfold acyclic. intros es a b H I. rewrite forallb_forall in H.
  apply edge_forward_rank. apply (H _ I).
Qed.

(* a walk in the graph: consecutive nodes are joined by edges *)
Fixpoint walk (es : list edge) (l : list string) : Prop :=
  match l with
  | a :: ((b :: _) as t) => In (a, b) es /\ walk es t
  | _ => True
  end.

Lemma walk_rank : forall es l a b,
  acyclic es = true -> walk es (a :: l ++ [b]) -> rank (topo_order es) a < rank (topo_order es) b.
Proof.
  induction l; simpl; intros a0 b H W.
  - destruct W as [I _]. apply acyclic_rank; auto.
  - destruct W as [I W]. pose proof (acyclic_rank _ _ _ H I). specialize (IHl _ _ H W). lia.
Qed.

(* soundness of the checker: an accepted graph has no closed walk (no cycle, no self loop) *)
Theorem acyclic_sound_thm : forall es,
  acyclic es = true -> forall x l, ~ walk es (x :: l ++ [x]).
Proof. intros es H x l W. pose proof (walk_rank _ _ _ _ H W). lia. Qed.

(* ---- the generic ordered-locking theorem ---- *)

Record lthread (M : Type) := { held : list M; waiting : option M }.
Arguments held {M} _.
Arguments waiting {M} _.

(* thread a waits for a mutex that thread b holds *)
Definition waits_for {M} (sys : list (lthread M)) (a b : lthread M) : Prop :=
  In a sys /\ In b sys /\ exists m, waiting a = Some m /\ In m (held b).

(* every acquisition follows the graph: a thread that waits for m while
   holding h contributes the edge (class h, class m) *)
Definition respects {M} (cls : M -> string) (es : list edge) (sys : list (lthread M)) : Prop :=
  forall th m h, In th sys -> waiting th = Some m -> In h (held th) -> In (cls h, cls m) es.

Lemma wait_chain_rank : forall M (cls : M -> string) es sys a b,
  acyclic es = true -> respects cls es sys ->
  clos_trans_1n _ (waits_for sys) a b ->
  forall mb, waiting b = Some mb ->
  exists ma, waiting a = Some ma /\ rank (topo_order es) (cls ma) < rank (topo_order es) (cls mb).
Proof.
  intros M cls es sys a b AC RS CH. induction CH as [a b W | a y b W CH IH]; intros mb WB.
  - destruct W as (IA & IB & m & WA & HB). exists m. split; auto.
    apply acyclic_rank; auto. eapply RS; eauto.
  - destruct (IH _ WB) as (my & WY & LT). destruct W as (IA & IY & m & WA & HY).
    exists m. split; auto.
    assert (rank (topo_order es) (cls m) < rank (topo_order es) (cls my)).
    { apply acyclic_rank; auto. eapply RS; eauto. }
    lia.
Qed.

Theorem no_wait_cycle_thm : forall M (cls : M -> string) es (sys : list (lthread M)),
  acyclic es = true -> respects cls es sys ->
  forall a, ~ clos_trans_1n _ (waits_for sys) a a.
Proof.
  intros M cls es sys AC RS a CY.
  assert (exists ma, waiting a = Some ma) as [ma WA].
  { inversion CY as [? W|? ? W _]; destruct W as (_ & _ & m & WA & _); eauto. }
  destruct (wait_chain_rank _ cls es sys a a AC RS CY _ WA) as (ma' & WA' & LT).
  rewrite WA in WA'. inversion WA'; subst. lia.
Qed.

(* non-vacuity: the graph of the repaired tree is accepted, the inverted one is rejected *)
Example acyclic_accepts :
  acyclic [("Session.mutex", "Engine.mutex"); ("Stream.mutex", "Engine.mutex");
           ("Engine.mutex", "Transaction.mutex"); ("Session.mutex", "Transaction.mutex")]%string = true.
Proof. vm_compute. reflexivity. Qed.

Example acyclic_rejects_inversion :
  acyclic [("Session.mutex", "Engine.mutex"); ("Engine.mutex", "Session.mutex")]%string = false.
Proof. vm_compute. reflexivity. Qed.

Example acyclic_rejects_self_loop : acyclic [("Unknown", "Unknown")]%string = false.
Proof. vm_compute. reflexivity. Qed.
