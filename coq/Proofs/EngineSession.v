(* EngineSession.v — the session state machine (session.go): the `starting`
   reservation, `txn`, `ended`. *)
From Coq Require Import List Arith Lia Bool.
From Lungo.Model Require Import Base Engine.
From Lungo.Proofs Require Import EngineProofs.
Import ListNotations.
Local Open Scope list_scope.

(* between the reservation (session.go l.166) and its release (l.175) *)
Definition in_window (s : sid) (p : pc) : bool :=
  match p with
  | PSStartF s' _ _ _ | PSStartFL s' _ _ _ => Nat.eqb s' s
  | _ => match pc_cont p with
         | Some (KSessStart s' _) => Nat.eqb s' s
         | _ => false
         end
  end.

Definition sess_flags_ok (g : globals) (s : sid) : Prop :=
  (sess_starting g s = true -> sess_txn g s = None) /\
  (sess_ended g s = true -> sess_txn g s = None).

Ltac sess_unfold :=
  unfold sess_flags_ok, sess_starting, sess_txn, sess_ended, sess_free, lockS, unlockS in *.

Lemma tstep_sess_flags : forall c t bgs g th a g' th',
  tstep c t bgs g th a = Some (g', th') ->
  (forall s, sess_flags_ok g s) -> forall s, sess_flags_ok g' s.
Proof.
  intros c t bgs g th a g' th' H I s0. pose proof (I s0) as I0.
  destruct th as [p prog cur canc bg inv pub rd res str].
  destruct a; [destruct p|destruct p|destruct p|destruct p]; step_cases H; simp.
  all: try exact I0.
  all: sess_unfold; simp; rewrite ?nth_upd_match; eqb_cases; simp; try exact I0.
  all: repeat match goal with
       | |- context [nth_error (sessions ?gg) ?s] => destruct (nth_error (sessions gg) s) eqn:?; simpl in *
       end.
  all: try solve [split; intros; simpl in *; try congruence; try discriminate; auto].
  all: try solve [destruct I0; split; intros; simpl in *; try congruence; try discriminate; auto].
  apply orb_false_iff in E0. destruct E0 as [E0 _]. destruct (s_txn s); simpl in *; try discriminate.
  split; auto.
Qed.

Lemma smutex_valid : forall g s t, smutex g s = Some t -> valid_sid g s = true.
Proof. unfold smutex, valid_sid. intros. destruct (nth_error (sessions g) s); simpl; auto; discriminate. Qed.

(* the reservation flag counts the threads inside the window *)
Lemma tstep_window : forall c t bgs g th a g' th' s,
  tstep c t bgs g th a = Some (g', th') ->
  inv_smutex g t th ->
  (in_window s (th_pc th) = true -> sess_starting g s = true) ->
  b2n (sess_starting g' s) + b2n (in_window s (th_pc th)) =
  b2n (sess_starting g s) + b2n (in_window s (th_pc th')).
Proof.
  intros c t bgs g th a g' th' s0 H IS IW. unfold inv_smutex in IS.
  destruct th as [p prog cur canc bg inv pub rd res str]. simpl in IS, IW.
  destruct a; [destruct p|destruct p|destruct p|destruct p]; step_cases H; simp.
  all: unfold in_window in *; simp.
  all: try reflexivity.
  all: unfold sess_starting, sess_txn, sess_ended, lockS, unlockS in *; simp; rewrite ?nth_upd_match; eqb_cases; simp.
  all: repeat match goal with
       | |- context [nth_error (sessions ?gg) ?s] => destruct (nth_error (sessions gg) s) eqn:?; simpl in *
       end; try reflexivity; try lia.
  all: try solve [apply orb_false_iff in E0; destruct E0 as [_ E0]; rewrite E0; reflexivity].
  all: try solve [rewrite IW by reflexivity; reflexivity].
  all: try solve [exfalso; pose proof (proj1 (IS _) eq_refl) as V; unfold smutex in V;
                  match goal with N : nth_error _ _ = None |- _ => rewrite N in V end; discriminate].
Qed.

Definition thr_in_window (s : sid) (th : thread) : bool := in_window s (th_pc th).

Definition inv_window (st : state) : Prop :=
  forall s, b2n (sess_starting (st_g st) s) = count (thr_in_window s) (st_threads st).

Theorem window_invariant : forall c st, reachable c st ->
  inv_window st /\ (forall s, sess_flags_ok (st_g st) s).
Proof.
  induction 1.
  - split.
    + intros s. simpl. rewrite count_zero.
      * unfold sess_starting. simpl. destruct (nth_error (repeat init_session n) s) eqn:E; auto.
        apply nth_error_In in E. apply repeat_spec in E. subst. reflexivity.
      * intros t th N. apply init_thread_nth in N. destruct N as [N _]. unfold thr_in_window. rewrite N. reflexivity.
    + intros s. unfold sess_flags_ok, sess_starting, sess_txn, sess_ended. simpl.
      destruct (nth_error (repeat init_session n) s) eqn:E; [|split; auto].
      apply nth_error_In in E. apply repeat_spec in E. subst. simpl. split; auto.
  - destruct IHreachable as [IW IF]. pose proof (smutex_owner _ _ H) as SO.
    apply step_inv in H0. destruct H0 as [H0|[H0|[H0|H0]]].
    + destruct H0 as (t & a & th & g' & th' & -> & N & T & ->). split.
      * intros s0. simpl.
        assert (PRE : in_window s0 (th_pc th) = true -> sess_starting (st_g s) s0 = true).
        { intros X. pose proof (count_pos _ (thr_in_window s0) _ _ _ N X) as CP. rewrite <- IW in CP.
          destruct (sess_starting (st_g s) s0); simpl in CP; auto; lia. }
        pose proof (tstep_window _ _ _ _ _ _ _ _ s0 T (SO _ _ N) PRE) as EQ.
        pose proof (count_upd _ (thr_in_window s0) _ _ th' _ N) as CU.
        change (b2n (sess_starting g' s0) = count (thr_in_window s0) (upd (st_threads s) t th')).
        pose proof (IW s0) as IW0. unfold thr_in_window in *. lia.
      * intros s0. pose proof (tstep_sess_flags _ _ _ _ _ _ _ _ T IF s0) as X. exact X.
    + destruct H0 as (t & th & -> & N & ->). split; [|exact IF].
      intros s0. simpl. pose proof (count_upd _ (thr_in_window s0) _ _ (th_set_cancelled th true) _ N) as CU.
      change (b2n (sess_starting (st_g s) s0) = count (thr_in_window s0) (upd (st_threads s) t (th_set_cancelled th true))).
      pose proof (IW s0) as IW0. unfold thr_in_window in *. simpl in CU. lia.
    + destruct H0 as [-> ->]. split; [exact IW|exact IF].
    + destruct H0 as [-> ->]. split; [exact IW|exact IF].
Qed.

(* C16 session_state_machine: at most one thread is between the reservation
   and its release for a session, so two concurrent starts never both
   succeed; while a start is in flight the session has no transaction; an
   ended session never holds a transaction (a transaction that arrives late
   is aborted, session.go l.179-182). *)
Theorem session_state_machine_thm : forall c st s,
  reachable c st ->
  count (thr_in_window s) (st_threads st) <= 1 /\
  (forall t u th thu, nth_error (st_threads st) t = Some th -> nth_error (st_threads st) u = Some thu ->
     in_window s (th_pc th) = true -> in_window s (th_pc thu) = true -> t = u) /\
  (1 <= count (thr_in_window s) (st_threads st) -> sess_txn (st_g st) s = None) /\
  (sess_ended (st_g st) s = true -> sess_txn (st_g st) s = None).
Proof.
  intros c st s R. destruct (window_invariant _ _ R) as [IW IF].
  assert (LE : count (thr_in_window s) (st_threads st) <= 1).
  { rewrite <- IW. destruct (sess_starting (st_g st) s); simpl; lia. }
  split; [exact LE|split; [|split]].
  - intros. eapply (count_le_one_unique _ (thr_in_window s)); eauto.
  - intros GE. apply (proj1 (IF s)). rewrite <- IW in GE.
    destruct (sess_starting (st_g st) s); simpl in GE; auto; lia.
  - apply (proj2 (IF s)).
Qed.


